#!/bin/sh
# usage: mut.sh <benign patch or -> <sed expr> <file> <prop>
WT=/tmp/mutwt-$$; git -C /repo worktree add --detach $WT HEAD -q
cd $WT; [ "$1" != "-" ] && patch -p1 -s < "$1"
sed -i "$2" "$3"; git diff --stat | tail -1
export GOFLAGS=-mod=mod GOPROXY=off GOSUMDB=off GOTOOLCHAIN=local
if go build ./... ; then mkdir -p /tmp/mutout-$$; cp /verif/known_findings.json /tmp/mutout-$$; VERIF_REPO=$WT VERIF_DIR=/tmp/mutout-$$ /verif/bin/vcheck-dev -prop $4 -tier quick | sed "s#$WT/##g" | grep -E "^property|violation|undecided" | cut -c1-260; fi
cd /; git -C /repo worktree remove --force $WT; rm -rf /tmp/mutout-$$
