#!/bin/sh
# usage: reverify_seed.sh <name>   re-checks /verif/seeded/<name> against the current /repo HEAD
set -u
NAME="$1"; D=/verif/seeded/$NAME
export GOFLAGS=-mod=mod GOPROXY=off GOSUMDB=off GOTOOLCHAIN=local
WT=$(mktemp -d /tmp/rv-XXXXXX); rmdir "$WT"; L=$(mktemp -d /tmp/rvlog-XXXXXX)
git -C /repo worktree add --detach "$WT" HEAD -q || exit 3
DEMO=$(python3 -c "import json;print(json.load(open('$D/meta.json'))['demo_path'])")
PKG=$(dirname "$DEMO")
cp "$D/demo_test.go" "$WT/$DEMO"
( cd "$WT" && go test -vet=off -count=1 "./$PKG/" >$L/clean.log 2>&1 ); rc1=$?
if ! git -C "$WT" apply "$D/patch.diff" 2>/dev/null; then echo "$NAME APPLY-FAILED"; git -C /repo worktree remove --force "$WT"; rm -rf $L; exit 0; fi
( cd "$WT" && go test -vet=off -count=1 "./$PKG/" >$L/patched.log 2>&1 ); rc2=$?
rm "$WT/$DEMO"
( cd "$WT" && go test -vet=off -count=1 ./... >$L/suite.log 2>&1 ); rc3=$?
git -C /repo worktree remove --force "$WT"; rm -rf $L
echo "$NAME clean+demo=$rc1 patched+demo=$rc2 suite=$rc3 head=$(git -C /repo rev-parse --short HEAD)"
