#!/bin/sh
# usage: cross_variant.sh <benign|seeded>/<name>   applies the variant in a scratch worktree and runs ALL twenty quick
# checks against it; prints one line per property whose check does not exit 0.
set -u
V="$1"; P=/verif/$V/patch.diff
WT=$(mktemp -d /tmp/cv-XXXXXX); rmdir "$WT"; OUT=$(mktemp -d /tmp/cvout-XXXXXX)
git -C /repo worktree add --detach "$WT" HEAD -q || exit 3
if ! patch -p1 -s -f -d "$WT" -i "$P" >/dev/null 2>&1; then echo "$V APPLY-FAILED"; git -C /repo worktree remove --force "$WT"; rm -rf "$OUT"; exit 0; fi
cp /verif/known_findings.json "$OUT/"
for i in 01 02 03 04 05 06 07 08 09 10 11 12 13 14 15 16 17 18 19 20; do
  out=$(VERIF_REPO="$WT" VERIF_DIR="$OUT" /verif/bin/vcheck -prop C$i -tier quick 2>&1); rc=$?
  if [ $rc -ne 0 ]; then echo "$V C$i rc=$rc $(echo "$out" | grep -E '^  (violation|undecided)' | sed "s#$WT/##g" | cut -c1-160 | tr '\n' ';')"; fi
done
git -C /repo worktree remove --force "$WT"; rm -rf "$OUT"
echo "$V done"
