import json,sys
# usage: addkf.py property rule construct commit what input
p,rule,cons,commit,what,inp=sys.argv[1:7]
L=json.load(open('/verif/known_findings.json'))
L.append({"property":p,"rule":rule,"construct":cons,"what":what,"input":inp,"status":"fixed","commit":commit,"record":"fixed: property=%s %s %s"%(p,commit,what)})
json.dump(L,open('/verif/known_findings.json','w'),indent=1,ensure_ascii=False)
