#!/usr/bin/env python3
"""Assembles /verif/DESIGN.md from the hand-written parts in /verif/design/ and from the
checker's own output (evidence/*.json of a thorough run, known_findings.json, seeded/,
benign/, design/revert_matrix.txt, git log of /repo). Run after `check.sh Cnn thorough` for all."""
import json, os, subprocess, glob, textwrap
V='/verif'
props=[json.loads(l) for l in open(V+'/properties.jsonl')]
known=json.load(open(V+'/known_findings.json'))
manifest=json.load(open(V+'/MANIFEST.json'))
fixlog=subprocess.run(['git','-C','/repo','log','--reverse','--format=%h %s'],capture_output=True,text=True).stdout.splitlines()
fixes=[l.split(' ',1) for l in fixlog if l.split(' ',1)[1].startswith('fix:')]
rev={}
for l in open(V+'/design/revert_matrix.txt'):
    p=l.split()
    if len(p)>=3: rev[(p[0],p[1])]=p[2]
out=[]
out.append(open(V+'/design/head.md').read().replace('{NFIX}',str(len(fixes))))
out.append(open(V+'/design/sec3.md').read())
out.append('\n---------------------------------------------------------------------------------\n\n## 4. Per property: what is decided, by which rules, and what each check catches\n')
out.append('Generated from the evidence of a thorough run on /repo `%s`. "inst" = rule instances matched on the tree / the floor confirmed by reading. A seeded change or reverted fix is "caught" when the property\'s check exits 1 with a VIOLATION naming a construct of the change.\n' % subprocess.run(['git','-C','/repo','rev-parse','--short','HEAD'],capture_output=True,text=True).stdout.strip())
def wrap(s): return s
for p in props:
    pid=p['id']
    ev=json.load(open('%s/evidence/%s.json'%(V,pid)))
    cov=ev['coverage']
    out.append('\n### %s — %s   (level: %s)\n'%(pid,p['title'],ev['level']))
    out.append(cov['explanation']+'\n')
    out.append('\n| rule | inst/floor | what it requires |\n|---|---|---|')
    for r in cov['rules']:
        out.append('| %s | %d/%d | %s |'%(r['id'],r['instances'],r['instance_floor'],r['doc'].replace('|','\\|')))
    out.append('\nObligations on the current tree: %d, discharged %d.'%(cov['obligations'],cov['discharged']))
    # defects
    fx=[k for k in known if k['property']==pid and k['status']=='fixed']
    fd=[k for k in known if k['property']==pid and k['status']=='finding']
    if fx:
        out.append('\nDefects found by these rules and repaired (reverting the commit makes the check fire again unless noted):\n')
        seen=set()
        for k in fx:
            key=(k['commit'],k['rule'],k['construct'])
            if key in seen: continue
            seen.add(key)
            st=rev.get((k['commit'],pid),'')
            note={'DETECTED':'revert caught','REVERT-CONFLICT':'revert conflicts with later fixes (not re-tested by revert)','MISSED':'revert NOT caught'}.get(st,'')
            out.append('* `%s` %s `%s` — %s Input: %s%s'%(k['commit'],k['rule'],k['construct'],k['what'].rstrip('.')+'.',k.get('input','').rstrip('.')+'.',(' ('+note+')') if note else ''))
    if fd:
        out.append('\nKnown findings (recorded, not repaired; printed as KNOWN-FINDING on every run):\n')
        for k in fd:
            out.append('* %s `%s` — %s Input: %s'%(k['rule'],k['construct'],k['what'],k.get('input','')))
    ms=cov.get('mutation_selftest',{}).get('results',[])
    if ms:
        out.append('\nSelf-test variants (thorough tier):\n')
        for m in ms:
            d=m['name']
            kind,name=d.split('/')
            desc=''
            mp='%s/%s/%s/meta.json'%(V,kind,name)
            if os.path.exists(mp):
                mj=json.load(open(mp)); desc=mj.get('summary','')
            np_='%s/%s/%s/note.txt'%(V,kind,name)
            if os.path.exists(np_): desc=open(np_).read().strip().replace('\n',' ')
            desc=desc[:260]+('…' if len(desc)>260 else '')
            if not m['applicable']: verdict='no longer applies to the tree'
            elif m['benign']: verdict='silent (as required)' if m['ok'] else '**FALSE ALARM**'
            else: verdict='caught' if m['ok'] else '**not caught**'
            out.append('* %s — %s. %s'%(d,verdict,desc))
# totals of the self-test tables
ncaught=nlive=nbenign=0
for p in props:
    ms=json.load(open('%s/evidence/%s.json'%(V,p['id'])))['coverage'].get('mutation_selftest',{})
    for m in ms.get('results',[]):
        if not m['applicable']: continue
        if m['benign']:
            nbenign+=1 if m['ok'] else 0
        else:
            mp='%s/%s/meta.json'%(V,m['name'])
            if os.path.exists(mp) and json.load(open(mp)).get('static_expected') is False: continue
            nlive+=1; ncaught+=1 if m['ok'] else 0
tail=open(V+'/design/tail.md').read().replace('{NFIX}',str(len(fixes))).replace('{FIXLIST}','\n'.join('* `%s` %s'%(h,s) for h,s in fixes))
tail=tail.replace('{NCAUGHT}',str(ncaught)).replace('{NLIVE}',str(nlive)).replace('{NMISSED}',str(nlive-ncaught)).replace('{NBENIGN}',str(nbenign))
out.append('\n'+tail)
open(V+'/DESIGN.md','w').write('\n'.join(out))
print('DESIGN.md written: %d lines'%len('\n'.join(out).splitlines()))
