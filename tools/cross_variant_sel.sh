#!/bin/sh
# usage: cross_variant_sel.sh <benign|seeded>/<name>
# Applies the variant in a scratch worktree and runs the quick checks of its own property, of C02 (module-wide
# arithmetic rules) and of the properties whose rules look at the files the patch touches. Uses bin/vcheck-matrix
# (a frozen copy of the checker) so that the checker can be developed while a matrix runs.
set -u
V="$1"; P=/verif/$V/patch.diff
own=$(echo "$V" | sed 's#.*/C\([0-9]*\)-.*#\1#')
sel="$own 02"
grep -qE "^\+\+\+ b/(model/table.go|docx/tables.go|odt/tables.go|xlsx/reader.go|htmldoc/|pptx/slide.go|rag/metadata.go)" $P && sel="$sel 15"
grep -qE "^\+\+\+ b/(internal/filters|core/stream)|sync\.Pool" $P && sel="$sel 03 05"
grep -qE "^\+\+\+ b/(format/|epubdoc/|font/)|\.Read\(" $P && sel="$sel 20 01 07"
grep -qE "^\+\+\+ b/(docx/tables.go|odt/tables.go)" $P && sel="$sel 16"
grep -qE "^\+\+\+ b/(model/document.go|extractor.go)" $P && sel="$sel 10 12"
grep -qE "^\+\+\+ b/(layout/header_footer.go)" $P && sel="$sel 11"
grep -qE "^\+\+\+ b/(rag/size_config.go|rag/overlap.go)" $P && sel="$sel 13"
grep -qE "^\+\+\+ b/(rag/export.go)" $P && sel="$sel 14"
grep -qE "^\+\+\+ b/(xlsx/)" $P && sel="$sel 17"
grep -qE "^\+\+\+ b/(pptx/|epubdoc/|xlsx/reader.go)" $P && sel="$sel 18"
grep -qE "^\+\+\+ b/(htmldoc/)" $P && sel="$sel 19"
grep -qE "^\+\+\+ b/(layout/|text/|extractor.go)" $P && sel="$sel 09"
grep -qE "^\+\+\+ b/(rag/)" $P && sel="$sel 12 13 14"
grep -qE "^\+\+\+ b/(graphicsstate/|contentstream/)" $P && sel="$sel 03 07 01 06 08"
grep -qE "^\+\+\+ b/(text/|font/)" $P && sel="$sel 07 01 09 03"
grep -qE "^\+\+\+ b/(layout/)" $P && sel="$sel 09 11"
grep -qE "^\+\+\+ b/([a-z_]*\.go)" $P && sel="$sel 10 11 12 09"
grep -qE "^\+\+\+ b/(docx/|odt/)" $P && sel="$sel 16 15"
grep -qE "^\+\+\+ b/(core/|reader/|pages/)" $P && sel="$sel 01 04 05 06 10"
grep -qE "^\+\+\+ b/(model/)" $P && sel="$sel 10 15 12"
grep -qE "^\+\+\+ b/(xlsx/|pptx/|epubdoc/)" $P && sel="$sel 17 18 15"
WT=$(mktemp -d /tmp/cv-XXXXXX); rmdir "$WT"; OUT=$(mktemp -d /tmp/cvout-XXXXXX)
git -C /repo worktree add --detach "$WT" HEAD -q || exit 3
if ! patch -p1 -s -f -d "$WT" -i "$P" >/dev/null 2>&1; then echo "$V APPLY-FAILED"; git -C /repo worktree remove --force "$WT"; rm -rf "$OUT"; exit 0; fi
cp /verif/known_findings.json "$OUT/"
for i in $(echo "$sel" | tr ' ' '\n' | sort -u); do
  out=$(VERIF_REPO="$WT" VERIF_DIR="$OUT" /verif/bin/vcheck-matrix -prop C$i -tier quick 2>&1); rc=$?
  if [ $rc -ne 0 ]; then echo "$V C$i rc=$rc $(echo "$out" | grep -E '^  (violation|undecided)' | sed "s#$WT/##g" | cut -c1-160 | tr '\n' ';')"; fi
done
git -C /repo worktree remove --force "$WT"; rm -rf "$OUT"
echo "$V done [$sel]"
