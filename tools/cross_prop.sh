#!/bin/sh
# usage: cross_prop.sh <binary> <Cnn> [variant-dir-prefix]  — runs ONE property's quick check against every benign variant
# (each applied in its own scratch worktree) and prints the variants on which it does not exit 0.
BIN="$1"; P="$2"; PRE="${3:-benign/}"
ls /verif/$PRE* -d | sed 's#/verif/##' | xargs -P 12 -I{} sh -c '
  V="{}"; BIN="'"$BIN"'"; P="'"$P"'"
  WT=$(mktemp -d /tmp/cp-XXXXXX); rmdir "$WT"; OUT=$(mktemp -d /tmp/cpout-XXXXXX)
  git -C /repo worktree add --detach "$WT" HEAD -q || exit 0
  if patch -p1 -s -f -d "$WT" -i "/verif/$V/patch.diff" >/dev/null 2>&1; then
    cp /verif/known_findings.json "$OUT/"
    out=$(VERIF_REPO="$WT" VERIF_DIR="$OUT" "$BIN" -prop $P -tier quick 2>&1); rc=$?
    [ $rc -ne 0 ] && echo "$V $P rc=$rc $(echo "$out" | grep -E "^  (violation|undecided)" | sed "s#$WT/##g" | cut -c1-180 | tr "\n" ";")"
  fi
  git -C /repo worktree remove --force "$WT"; rm -rf "$OUT"
'
echo "$P done"
