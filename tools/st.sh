#!/bin/bash
# summary of the self-test table of one property's last thorough evidence
jq -r '.coverage.mutation_selftest.results[] | select(.ok==false) | "\(.name) applicable=\(.applicable) benign=\(.benign) \(.detail // .raised // "")"' /verif/evidence/$1.json
jq -r '.coverage.mutation_selftest | "benign \(.benign_variants_silent)/\(.benign_variants) seeds \(.mutants_detected_by_expected_rule)/\(.mutants_applicable)"' /verif/evidence/$1.json
