#!/bin/sh
# For every "fixed" entry of known_findings.json: revert that fix commit in a scratch
# worktree and check that the property's quick check reports a violation again.
# Output: one line per (commit, property): DETECTED / MISSED / REVERT-CONFLICT.
python3 - <<'PY' > /tmp/revert_pairs.txt
import json
seen=set()
for e in json.load(open('/verif/known_findings.json')):
    if e.get('status')=='fixed' and e.get('commit'):
        k=(e['commit'],e['property'])
        if k not in seen:
            seen.add(k); print(e['commit'],e['property'])
PY
mkdir -p /tmp/seedtest-out
while read c p; do
  out=$(/verif/tools/seedtest.sh -R:$c $p 2>&1)
  if echo "$out" | grep -q "revert failed"; then echo "$c $p REVERT-CONFLICT"
  elif echo "$out" | grep -q "type errors in module under analysis"; then echo "$c $p REVERT-DOES-NOT-BUILD (a later fix builds on it)"
  elif echo "$out" | grep -q "rc=1"; then echo "$c $p DETECTED $(echo "$out" | grep -m1 violation | cut -c1-120)"
  else echo "$c $p MISSED"; fi
done < /tmp/revert_pairs.txt
