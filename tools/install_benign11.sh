#!/bin/sh
# usage: install_bn6.sh Cxx  -> installs benign-1..3 of round 11 as Cxx-31..33 after checking apply+build
P=$1
export GOFLAGS=-mod=mod GOPROXY=off GOSUMDB=off GOTOOLCHAIN=local
for k in 1 2 3; do
  D=/tmp/bn11/out/$P/benign-$k.diff
  [ -s "$D" ] || { echo "$P-$k missing"; continue; }
  N=$((30+k))
  WT=$(mktemp -d /tmp/ib-XXXXXX); rmdir $WT
  git -C /repo worktree add --detach $WT HEAD -q || exit 3
  if git -C $WT apply $D 2>/dev/null && (cd $WT && go build ./... >/dev/null 2>&1); then
    mkdir -p /verif/benign/$P-$N
    cp $D /verif/benign/$P-$N/patch.diff
    cp /tmp/bn11/out/$P/benign-$k.txt /verif/benign/$P-$N/note.txt 2>/dev/null
    echo "$P-$N installed"
  else
    echo "$P-$N APPLY/BUILD FAILED"
  fi
  git -C /repo worktree remove --force $WT
done
