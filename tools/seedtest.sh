#!/bin/sh
# usage: seedtest.sh <patch-file|-R:commit> <prop> [<prop>...]
# Applies a patch (or reverts a commit with -R:<sha>) in a scratch worktree of /repo
# and runs the given property checks against it. Prints the verdict lines.
set -u
P="$1"; shift
WT=$(mktemp -d /tmp/wt-XXXXXX)
rmdir "$WT"
git -C /repo worktree add --detach "$WT" HEAD -q || exit 3
case "$P" in
  -R:*) git -C "$WT" revert --no-commit "${P#-R:}" >/dev/null 2>&1 || { echo "revert failed"; } ;;
  *) git -C "$WT" apply "$P" || { echo "APPLY FAILED $P"; git -C /repo worktree remove --force "$WT"; exit 3; } ;;
esac
cp /verif/known_findings.json /tmp/seedtest-out/ 2>/dev/null
for prop in "$@"; do
  out=$(VERIF_REPO="$WT" VERIF_DIR=/tmp/seedtest-out /verif/bin/vcheck -prop "$prop" -tier quick 2>&1)
  rc=$?
  echo "== $prop rc=$rc"
  echo "$out" | grep -E "violation|undecided|VIOLATION|UNDECIDED" | sed "s#$WT/##g" | head -8
done
git -C /repo worktree remove --force "$WT"
