#!/bin/sh
# usage: install.sh Cnn  — verify seed, store as Cnn-w, run own-property quick check against it
p=$1; D=${SD:-/tmp/sd12}/OUT_$p
[ -f $D/patch.diff ] && [ -f $D/demo_test.go ] && [ -f $D/meta.json ] || { echo "$p: incomplete delivery"; ls $D; exit 1; }
/verif/tools/verify_seed.sh $D $p-w 2>&1 | tail -8
[ -d /verif/seeded/$p-w ] && /verif/tools/devtest.sh /verif/seeded/$p-w/patch.diff $p
