#!/bin/sh
# usage: verify_seed.sh <dir with patch.diff demo_test.go meta.json> <name>
# Confirms in a scratch worktree of /repo HEAD that (i) the demonstration passes on the clean
# tree, (ii) fails with the patch, (iii) the unedited suite passes with the patch; then stores
# the seed under /verif/seeded/<name>/.
set -u
D="$1"; NAME="$2"
export GOFLAGS=-mod=mod GOPROXY=off GOSUMDB=off GOTOOLCHAIN=local
WT=$(mktemp -d /tmp/vs-XXXXXX); rmdir "$WT"; LG=$(mktemp -d /tmp/vslog-XXXXXX)
git -C /repo worktree add --detach "$WT" HEAD -q || exit 3
cleanup() { git -C /repo worktree remove --force "$WT"; }
trap 'rm -rf "$LG"' EXIT
DEMO=$(python3 -c "import json,sys;print(json.load(open('$D/meta.json'))['demo_path'])")
PKG=$(dirname "$DEMO")
cp "$D/demo_test.go" "$WT/$DEMO"
( cd "$WT" && go test -vet=off -count=1 "./$PKG/" >$LG/clean.log 2>&1 ); rc1=$?
git -C "$WT" apply "$D/patch.diff" || { echo "$NAME: APPLY FAILED"; cleanup; exit 1; }
( cd "$WT" && go build ./... >$LG/build.log 2>&1 ); rcb=$?
( cd "$WT" && go test -vet=off -count=1 "./$PKG/" >$LG/patched.log 2>&1 ); rc2=$?
rm "$WT/$DEMO"
( cd "$WT" && go test -vet=off -count=1 ./... >$LG/suite.log 2>&1 ); rc3=$?
cleanup
echo "$NAME: clean+demo rc=$rc1 (want 0) build rc=$rcb (want 0) patched+demo rc=$rc2 (want !=0) patched suite rc=$rc3 (want 0)"
if [ $rc1 -eq 0 ] && [ $rcb -eq 0 ] && [ $rc2 -ne 0 ] && [ $rc3 -eq 0 ]; then
  mkdir -p /verif/seeded/$NAME
  cp "$D/patch.diff" "$D/demo_test.go" /verif/seeded/$NAME/
  python3 - "$D/meta.json" /verif/seeded/$NAME/meta.json "$(git -C /repo rev-parse --short HEAD)" <<'PY'
import json,sys
m=json.load(open(sys.argv[1]))
m['verified']={'base_commit':sys.argv[3],'ran':['clean tree + demo: go test ./<pkg>/ passes','patch applied + demo: go test ./<pkg>/ fails','patch applied, demo removed: go test -vet=off -count=1 ./... passes (whole suite)'],'by':'/verif/tools/verify_seed.sh in a scratch git worktree of /repo'}
json.dump(m,open(sys.argv[2],'w'),indent=1)
PY
  echo "$NAME: KEPT"
else
  echo "$NAME: REJECTED"; tail -5 $LG/clean.log $LG/patched.log $LG/suite.log | head -40
fi
