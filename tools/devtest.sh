#!/bin/sh
# usage: devtest.sh <abs patch> props…   like seedtest.sh but with bin/vcheck-dev (safe while a matrix uses bin/vcheck*)
P="$1"; shift
WT=$(mktemp -d /tmp/dt-XXXXXX); rmdir "$WT"; OUT=$(mktemp -d /tmp/dtout-XXXXXX)
git -C /repo worktree add --detach "$WT" HEAD -q || exit 3
patch -p1 -s -f -d "$WT" -i "$P" >/dev/null 2>&1 || echo "APPLY-FAILED"
cp /verif/known_findings.json "$OUT/"
for p in "$@"; do
  VERIF_REPO="$WT" VERIF_DIR="$OUT" /verif/bin/vcheck-dev -prop $p -tier quick 2>&1 | sed "s#$WT/##g" | grep -E "^property|^  (violation|undecided)" | cut -c1-${CUT:-260}
done
git -C /repo worktree remove --force "$WT"; rm -rf "$OUT"
