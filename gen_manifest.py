#!/usr/bin/env python3
"""Regenerates MANIFEST.json from the table below (kept in one place so the
manifest is always valid and in step with what the checker implements)."""
import json, subprocess, sys

CLAIMED = {
 # id: (category, level text, level note, technique, design_ref)
 "C03": ("other",
   "Structural necessary conditions of determinism/non-interference decided on every run from the typed program: no write to package-level memory outside initialisers and no goroutine (whole-module SSA effect analysis closed over the VTA call graph), every range-over-map loop classified commutative / sorted-after / justified, clone functions field-complete. This is the level a static argument can reach: it removes the classes of cross-call state and map-order dependence; it does not prove byte equality of outputs.",
   "Trusted: go/types, go/ssa, VTA call graph; callee side effects inside map-range bodies are tracked only for statement-level calls; float arithmetic and the standard library are assumed deterministic; default (!ocr) build.",
   "SSA effect analysis + AST loop classification + field-exhaustiveness", "DESIGN.md §4 C03"),
 "C08": ("proof",
   "Proof of the transformer clause: for every operator in the property's quantifier the implemented state transformer equals the ISO 32000 one as polynomials over the rationals in the pre-state cells and operands (straight-line SSA value numbering with callees inlined; every cell of the graphics state is compared, including the frame cells that must not change), save/restore is field-complete over pointer-free fields, and each operator case binds operand k to argument k in both interpreters. By induction over operator sequences this covers all programs, matrices and nesting depths; what is assumed is real (not float) arithmetic.",
   "Trusted: go/ssa construction, the hand-written ISO 32000 specification polynomials in rules/c08.go, exact-real reading of float64; glyph advances (Tj/TJ) and rise scaling are outside the clause.",
   "polynomial value numbering of SSA (abstract interpretation over Q[x]) + dominance/dataflow binding checks", "DESIGN.md §4 C08"),
 "C05": ("other",
   "Structural necessary conditions of exact inversion, decided from the typed program: filter-name dispatch table vs ISO 32000 (long+abbreviated names per clause, decoders, erroring default), chain order/threading/per-stage parameters on the SSA of Stream.Decode, predictor dispatch and row-tag tables, exact index polynomials and guards of every PNG/TIFF neighbour access plus row geometry (polynomial normalisation of index expressions), the Paeth selection's comparison structure against the PNG specification, and exact 256-entry denotations of the ASCII filters' character classes. Numeric results at run time are not decided.",
   "Trusted: go/ssa, the hand-written reference tables (ISO 32000 filter names, PNG spec offsets); integer index arithmetic read without overflow; zlib and base-85 arithmetic are outside the check.",
   "table extraction + SSA dataflow + polynomial normalisation of index expressions + exhaustive byte-class denotation", "DESIGN.md §4 C05"),
 "C10": ("other",
   "Structural necessary conditions decided on every run: builder methods are pure (return clone(), no write or append through the receiver, closed over callee write summaries), clone functions are field-complete with fresh reference fields, every terminal operation defers Close on all paths after a successful open, every os.Open/zip.OpenReader handle is closed on error paths and owned on success, Close methods are idempotent in shape, resolvePages range-checks, de-duplicates and sorts, and the page number stamped on model pages survives AddPage.",
   "Trusted: go/ssa, VTA call graph for callee write summaries; the table of documented non-terminal operations (PageCount, IsCharacterLevel, IsMultiColumn, Close); that a selection yields exactly the per-page results is not decided (needs C01).",
   "SSA effect summaries + CFG must-pass-through (defer Close, resource pairing) + guard dominance", "DESIGN.md §4 C10"),
 "C01": ("other",
   "Structural necessary conditions of layout independence decided from the typed program and the VTA call graph: the re-entrant object-resolution cycle (computed as an SCC through the ReferenceResolver interface) uses the shared file handle only positionally; inheritable page attributes are fetched on a cycle following /Parent; concatenated content streams are separated by PDF white space; the xref-kind, entry-kind, font-subtype, /Length-kind and /Contents-kind dispatch tables are complete; kids are traversed in array order; plus the newest-revision rules shared with C04.",
   "Trusted: go/ssa + VTA for the cycle; ISO 32000 white-space set; text equality with the logical document, decoding (C05/C07) and run-time layouts are not decided.",
   "call-graph SCC + who-may-use (typestate of the shared handle) + CFG cycle and table checks", "DESIGN.md §4 C01"),
 "C04": ("other",
   "Structural necessary conditions of newest-revision lookup: last-startxref search, oldest-first revision list paired with an unconditional forward overwrite (the mirrored pair would also be accepted; anything conditional on entry content is rejected), load calls dominated by the in-use and found edges, cache writes confined to the owning function under the requested key after err == nil (a whole-module who-may-write rule), header-number cross-check dominating every successful object-stream return, and the shared-handle rule of C01.",
   "Trusted: go/ssa dominance, VTA; correctness of parsed xref fields, hybrid files and generation numbers are not decided.",
   "guard dominance (must-cross-edge) + whole-module who-may-write + loop-shape classification", "DESIGN.md §4 C04"),
 "C06": ("other",
   "Structural necessary conditions of 'one meaning for both parsers': exact 256-entry denotations of every character-class predicate in both parsers against ISO 32000 tables 1-2 and against each other; escape tables of both literal-string readers extracted from their switch statements and compared with ISO 32000 table 3, with the octal continuation test evaluated as a byte set; operator-start and operator-continue byte sets evaluated from the content-stream parser and checked against all ISO 32000 content operators plus every operator the extractors handle; keyword-operand and comment-terminator sets; the dominance condition of the reference lookahead.",
   "Trusted: go/types constant evaluation, the small syntax-tree evaluator for closed byte predicates (exhaustive over 256 values), the hand-written ISO tables; round-trip equality of arbitrary trees is not decided.",
   "exhaustive byte-class denotation (syntax-tree evaluation over the finite byte domain) + table extraction + guard dominance", "DESIGN.md §4 C06"),
 "C07": ("other",
   "Structural necessary conditions: all 4x256 base-encoding table entries evaluated by the type checker and compared with references built from golang.org/x/text code pages and hand-written ISO 32000 Annex D tables (documented accept sets), anchor entries of the symbolic fonts, name->object->table dispatch, decode priority and NFC by dominance on the SSA of Font.DecodeString, no unvalidated raw byte->string conversion in the text-decoding functions, range destinations decoded by the multi-unit decoder unless proven single-unit, and a bit-width rule for shifts performed before widening.",
   "Trusted: golang.org/x/text/encoding/charmap data (module cache, independent of the repo), the hand-written Annex D tables; CMap parsing over formatting policies and code-space width selection are not decided.",
   "exhaustive constant-table comparison + guard dominance + type-level bit-width dataflow", "DESIGN.md §4 C07"),
 "C11": ("other",
   "Structural necessary conditions of 'exclusion only deletes repeated marginal text': the fragment filter is a pure forward subsequence filter (append of unmodified input elements only), every deleting return is dominated by page membership, the margin-band comparison and (character-level or text match), every detection in the root package runs on collectAllPages() under the exclude options and every filter call uses that detection, candidates come only from the band with trimmed text, the occurrence threshold counts distinct pages, and the filter compares trimmed text like detection does.",
   "Trusted: go/ssa dominance; thresholds, tolerances and which text repeats are run-time data and not decided; DOCX/ODT/PPTX part-based exclusion is not covered.",
   "SSA shape proof of a pure filter + must-cross-edge guards + provenance of call arguments", "DESIGN.md §4 C11"),
 "C13": ("other",
   "Structural necessary conditions: an interprocedural provenance analysis of every bound of every string slice in package rag (0, len, strings.Index results, indices whose byte was compared with ASCII constants, range keys, values snapped by a utf8.RuneStart loop, boundary-table positions, results of callees whose every return is such a value) so that raw size arithmetic can never cut a multi-byte character; the split loop's back edge carries a strictly shorter remainder; overlap is generated from the previous input chunk; the split search and the size test use the same token ratio.",
   "Trusted: go/ssa; Boundary.Position values are assumed to be element boundaries; slices that are only measured/compared are allow-listed by function with a reason; the numeric size bound is not decided.",
   "interprocedural provenance (def-use) of slice bounds + must-cross-edge facts + loop-shape progress argument", "DESIGN.md §4 C13"),
 "C15": ("other",
   "Structural necessary conditions of structurally lossless Markdown: a forward dataflow over each of the table writers tracks which of '|' and newline have been escaped on every cell text (meet over phis) and requires both at every sink (builder write or concatenation), helper escapers are checked for both characters; each strings.Repeat(\"#\", n) in the docx/odt/rag writers has n proven within 1..6 at the call by edge facts through the clamp phis, with the MaxHeadingLevel and 6 clamps applied after the offset; DOCX/ODT column counts are accumulated over all rows.",
   "Trusted: go/ssa; helper escapers are recognised by the constants they handle; what a GFM parser reads back for merged cells and list nesting are not decided.",
   "forward escape-state dataflow + interval facts through phi/edge conditions", "DESIGN.md §4 C15"),
 "C19": ("other",
   "Structural necessary conditions: the exclusion decision's complete decision table (4 modes x 8 outcomes of the three opaque sub-predicates) is computed by interpreting the control-flow graph of shouldExclude with the predicates as free booleans and checked to be constantly false for None and monotone in the mode order; the mode field is read nowhere else; the per-mode cache is keyed and filled by the requested mode; script/style are skipped and no content element is; an emitted list slice is never reused as accumulator storage; the filtered and unfiltered traversals agree case by case (sibling cross-check) apart from the exclusion test.",
   "Trusted: go/ssa; the three sub-predicates are treated as opaque but mode-independent (R19.2 establishes that the mode is read only in the decision function); completeness of extraction and entity decoding are not decided.",
   "finite decision-table enumeration over the CFG + who-may-read + sibling cross-check of case signatures", "DESIGN.md §4 C19"),
 "C20": ("other",
   "Structural necessary conditions of admission by content: the extension/format/reader tables are mutually consistent and exhaustive over the format constants (Detect o Extension = id), every reader Open is dominated by the success edge of validateFormat, validateFormat succeeds only on the unknown-or-equal edges, the EPUB DRM check dominates every content-reading call, checkForDRM refuses on rights.xml / unparsable / covering encryption metadata and can say 'no DRM' only on the loop-exhausted edge of a scan over the complete member list, and ZIP sniffing scans the complete list in the order mimetype, container.xml, prefixes.",
   "Trusted: go/types constant evaluation, go/ssa dominance; behaviour on concrete member permutations, URI casing and what counts as a content document are not decided.",
   "constant-table composition + guard dominance + loop-exhaustion edge facts", "DESIGN.md §4 C20"),
 "C14": ("other",
   "Structural necessary conditions of 'exports parse back': a who-may-use rule on io.Writer values in package rag (only encoding/json and encoding/csv encoders or other rag functions held to the same rule), agreement of the column-name tables of the CSV header writer, the value reader and the standard-column set (including the metadata prefix), the map-order classification on the export code, a shape proof that ChunkCollection.Filter is a pure forward selection with one predicate call site and that every FilterBy*/Search delegates to it, a polynomial check that batch windows tile the input (step = batch size, window = chunks[i:min(i+size,len)], reported bounds = window bounds), one record per chunk with its own index, and receiver-write freedom of all Exporter methods.",
   "Trusted: go/ssa, VTA-based callee write summaries, the standard encoders themselves; field-by-field equality after re-parsing and the vector-database layouts are not decided.",
   "who-may-use/who-may-write effect rules + table agreement + polynomial window check + pure-filter shape proof", "DESIGN.md §4 C14"),
 "C16": ("other",
   "Structural necessary conditions of order and structure preservation in the DOCX/ODT readers: no function reassembles ordered inline content kind by kind from two or more child-content fields of one unmarshalled element; every loop over a row's cells that keeps a column cursor advances it on every path to the next cell (path enumeration over the loop body on the typed AST) and the DOCX fillers step by the cell's own span; list, list-item and run/inline text builders reach the loop over each child collection on every path to their return (SSA dominance); every text-carrying child collection of the structs the body is decoded into is read somewhere (declared-but-never-read = dropped content); the hand-written ordered decoders dispatch on every text-carrying inline element of the content model and on no deleted-text element; streaming token walks that record elements by name consume the subtree or test the nesting depth.",
   "Trusted: go/types, go/ssa dominance; the inline content-model table in rules/c16.go (ECMA-376 17.3, ODF 1.2 6.1). Not decided: interleaving of body-level paragraphs and tables, heading levels through style inheritance, row spans of vertical merges, header/footer leakage.",
   "typed-AST sibling-field reassembly lint + per-loop path enumeration + SSA dominance + declared-field-read check + dispatch-table agreement", "DESIGN.md §4 C16"),
 "C17": ("other",
   "Structural necessary conditions of 'cells land at their addressed position': row/column role typing of the reference plumbing (ParseCellRef returns column-from-letters, row-from-digits-minus-one in that order; every consumer binds result 0 to a column position and result 1 to a row position; ParseRangeRef forwards the four coordinates unpermuted; CellRef adds the one back) by def-use over SSA; the grid dimensions are maxima over every cell of every row (full forward index in the dimension pass); the tab-separated rendering writes the delimiter for every column after the first whatever the cell's merge state.",
   "Trusted: go/ssa. Not decided: the base-26 arithmetic itself, shared strings and rich text, merge expansion, rows without an r attribute, number formats and dates.",
   "SSA def-use role typing (row vs column) + loop-shape and guard rules", "DESIGN.md §4 C17"),
 "C18": ("other",
   "Structural necessary conditions of declared order: the loops that build the sheet, slide and chapter lists are forward ranges over the declared lists (workbook sheets by relationship id, p:sldIdLst by relationship id, OPF spine by manifest idref), append inside that loop, are not followed by a sort and do not derive from the ZIP member list; the PPTX declared list wins whenever non-empty (no other condition between the lookup and its use); EPUB hrefs are decoded with url.PathUnescape and joined to the package directory; the page count is the length of the same list.",
   "Trusted: go/ssa; readability of declared parts and run-time path shapes are not decided.",
   "loop-provenance (def-use) of ordered collections + disallowed-call rule + guard inspection", "DESIGN.md §4 C18"),
 "C09": ("other",
   "Structural necessary conditions of 'layout only regroups text': a path-enumerating analysis of every accumulating range loop in the regrouping and text-assembly functions named by the property (typed AST, with element taint, outer-alias recognition and flag correlation) shows that each iteration path transfers its element or skips it only under an emptiness test; all other skips are reported as lossy filters (two documented size filters are listed as known findings with their inputs, one de-duplication is justified in the checker); no path writes an element's text twice; merge loops thread their accumulator.",
   "Trusted: go/types; the transfer recogniser (append / indexed store / Write*/Add*/Set* calls / composite assignment); callee behaviour inside loop bodies is not followed; multiset equality and ordering are not decided.",
   "iteration-path enumeration on the typed AST (must-transfer) + accumulator threading + edge-kind agreement", "DESIGN.md §4 C09"),
 "C12": ("other",
   "Structural necessary conditions of 'chunks cover the document once, in order': exhaustiveness of the element type switch over all implementations of model.Element (from the type checker), every Section container filled by section building is iterated by something reachable from Chunk (VTA reachability), the lossy-filter analysis of C09 on the section-building and chunking loops, exactly-one index increment dominating every return of each create*Chunk, TotalChunks = len(chunks), an abstract walk of the paragraph splitter proving that every direct emission happens with the pending buffer empty (flush or Len()>0 false edge since the last write), sibling agreement of the two TOC matchers, and the page-stamp rule of C10.",
   "Trusted: go/types, go/ssa, VTA; the emptiness abstraction of the pending buffer tracks writes and flushes syntactically in one function; exactly-once coverage as a multiset is not decided.",
   "type-switch exhaustiveness + written-never-read containers (call-graph reachability) + path enumeration + typestate of the pending buffer", "DESIGN.md §4 C12"),
 "C02": ("other",
   "Structural necessary conditions that remove classes of crashes, hangs and exhaustion (their absence is not proven): a lexer error ends the token stream or is checked at every call site; file-derived sizes are bounded by constants or by existing data before make(); file-derived slice bounds, /Index pairs and /W widths are guarded on both sides; every integer division in the predictor code has a divisor proven >= 1; every recursive SCC of the VTA call graph is either guarded (depth counter / visited or in-progress set, verified in the carrying function) or listed tree recursion, and a new cycle is a violation; reference-following loops carry a bound or visited test crossed on every trip; the XObject nesting counter is balanced on every path (path enumeration incl. deferred closures); and a finite dataflow over the format constants with callee summaries proves every format-specific reader is used only under its own format.",
   "Trusted: go/ssa, VTA call graph; the frozen classification table of recursive cycles (one reason each); unproven bounds checks elsewhere, decompression bombs, regexp cost and timing are not decided.",
   "guard dominance with phi-aware interval facts + call-graph SCC classification + finite-domain dataflow (format typestate) + path enumeration (counter balance)", "DESIGN.md §4 C02"),
}


# clauses added after the seed rounds (rule ids: DESIGN.md section 4 lists each with its wording)
ADDED = {
 "C01": "Also: Lexer.ReadBytes returns memory it owns (never the bufio Peek slice); the xref-stream read position accumulates over all /Index subsections; inheritable attributes are answered only from the page dictionary or a /Parent ancestor (no table filled during traversal); role-name agreement of arguments and fields (row/col, start/end, src/dst ...). On the re-entrant resolution cycle every parser reads through input state created for that parse (no buffered reader or lexer kept on the Reader). A work list that replaces the recursive page-tree walk keeps depth-first left-to-right order; a one-element /Filter array is unwrapped only together with /DecodeParms.",
 "C02": "Also: no loop counts an unsigned counter up to an inclusive non-constant bound; numbers parsed from text index slices only under 0 <= i < len; the visited set of the page-tree walk is never deleted from; the object-stream offset table is indexed under len(offsets), not /N; role-name agreement. An index guarded by a comparison with the slice length is implied to be in range by that guard (cursor followed through its increments); every loop that takes the single /Prev step keeps a visited set; unlisted recursive cycles are accepted only with a structural guard or as descent of an in-memory structure.",
 "C03": "Also: no package-level map/slice is stored into a field of a per-document object; an HTML exclusion checker's mode is assigned only by its constructor and no checker is kept in the Reader. A lazily loaded field is not left set when the load fails; a PDF dictionary is written only by the function that created it; a method that probes and fills a cache map uses the same key for both.",
 "C04": "Also: the xref-stream read position accumulates over all /Index subsections; Reader.resolveDeep writes only into containers it created (cached objects are not modified). The cross-reference parsers and the merge record every entry whatever its kind (no skip depending on the entry's content); parser input state is per parse on the re-entrant cycle.",
 "C05": "Also: no 8/16-bit sum is divided or shifted before widening in the filters; the ASCII85 decoder uses the constants 85, 33, 'z', '~' and the padding digit 84. Data read through io.LimitReader is compared with the limit (no silent truncation of a decoded stream). A one-element /Filter array is unwrapped only together with /DecodeParms.",
 "C06": "Also: the operator-start and operator-continue byte sets are computed by evaluating the SSA of parseNext/parseOperator over all 256 byte values (independent of how the tests are spelled); both dictionary parsers store every parsed entry unconditionally; reals are strconv.ParseFloat results in both parsers. The nesting counter of the array/dictionary parsers is restored exactly once on every successful return.",
 "C07": "Also: NormalizeUnicode returns norm.NFC.String(s) or s under IsNormalString on every path; shown text is decoded on the spot, not taken from a map of earlier results; bfrange multi-unit destinations advance as 16-bit units. The observed code width (actualByteWidth) is measured on the source-code strings of bfchar/bfrange entries, never on the destination string. A multi-byte value assembled from consecutive bytes uses each position and each shift once.",
 "C08": "The transformer proof is path-sensitive for loop-free functions: each path is checked with its `operand == constant` guards substituted, and abs() is an uninterpreted symbol (a fast path or a sign change that disagrees with ISO 32000 on the operands it applies to is a violation).",
 "C09": "Also: the regrouping and assembly functions copy element text unmodified (no trimming by cut set, replacement or sub-string) and never write through their input slices.",
 "C10": "Also: FilterFragments receives the 0-based source page index (an element of the resolved list, no arithmetic, no loop position); every flag ensureReader sets is cleared by Close; the page separator is written only after earlier output.",
 "C11": "Also: the DOCX/ODT paragraph exclusion is a whole-line equality (no substring test); a header region deletes only inside the header band and a footer region only inside the footer band; FilterFragments receives the 0-based source page index.",
 "C12": "Also: the section path is maintained with the level of each entry (closing by level, fresh storage when it grows); the size splitter leaves its loop only with nothing left or after appending the rest. A flush closure called from a loop clears every accumulator it hands on; buildSections closes open sections by comparing their recorded level with the new heading's in a loop. A work list that replaces the recursive section walk keeps depth-first left-to-right order.",
 "C13": "Also: the split loop drains (no counter-bounded exit); the boundary-search result is compared with the position of the hard maximum before cutting; the sentence splitter advances its index one step per trip.",
 "C14": "Also: csv.Writer.UseCRLF is never set; Export has no shortcut for an empty collection. Each field of the exported record with a namesake in Chunk/ChunkMetadata is a plain copy of it (never the slice position or a default). A scan of a slice that stops short of its end also looks at the remaining elements.",
 "C15": "Also: the escape-state dataflow is order-sensitive (escaping backslashes after pipes un-escapes the pipes).",
 "C16": "Also: streaming token walks that record elements by name consume the subtree or test the nesting depth; the resolver's cached ResolvedStyle is never written by the readers; role-name agreement (rows/cols of spans). The DOCX body/table/row/cell decoders and the ODT table/cell/list/list-item decoders have a field or dispatch label for every text-carrying block-level child of the content model, including the grouping wrappers (content controls, custom XML, header-row and row groups). XML is decoded into storage allocated by the same loop trip (a destination declared before the loop accumulates earlier elements).",
 "C17": "Also: XML is decoded into storage allocated in the same function in every reader; row/column indices into a sheet cropped to its content bounds derive from minRow/minCol; role-name agreement (start/end row/col of merges).",
 "C18": "Also: the EPUB base directory is the directory of the package file (path.Dir / last '/'), never a cut at the first '/'. A parallel list filtered while ranging over the declared list is never indexed with the declared list's counter; the r:id -> target tables are filled regardless of how the target is spelled. A part name is never trimmed with a multi-character cut set; a worksheet part is guessed from the tab position only when no target is declared.",
 "C19": "Also: the filtered traversal writes nothing through the Reader; the exclusion decision is consulted only by the filtered traversal; a checker's mode is set only by its constructor and no checker outlives its pass. Element kinds that getDirectTextContent leaves out of a list item's text are descended into by the li case (evaluated over the tag names); parseTable/row parsers have a branch for every row group (thead, tbody, tfoot, tr) and cell kind (td, th) of the HTML table model; the EPUB reader hands each of the four exclusion modes to the HTML reader unchanged (evaluated over the four values). Text of a parsed HTML node is not unescaped a second time; every nested list of an item is descended into (the call sits in the loop over the children).",
 "C20": "Also: signatures are tested at offset 0 of the leading block, never searched for; the DRM verdict for an encrypted content document depends on no algorithm test other than the two font-obfuscation exemptions. Data read through io.LimitReader is compared with the limit (a truncated encryption.xml is not misjudged).",
}

NOT_BUILT = "rules for this property are not built yet in this revision of /verif (see DESIGN.md §4 for the plan)"

def main():
    ids = ["C%02d" % i for i in range(1, 21)]
    checks, na = [], []
    for i in ids:
        if i in CLAIMED:
            cat, text, note, tech, ref = CLAIMED[i]
            checks.append({
                "property_id": i,
                "quick_cmd": "./check.sh %s quick" % i,
                "thorough_cmd": "./check.sh %s thorough" % i,
                "evidence_file": "/verif/evidence/%s.json" % i,
                "replay_cmd_template": "./bin/vcheck -explain {path}",
                "engine": "vcheck",
                "level_claimed": {"category": cat, "text": text + (" " + ADDED[i] if i in ADDED else ""), "design_ref": ref},
                "level_note": note,
                "technique": "static analysis: " + tech,
            })
        else:
            na.append({"property_id": i, "reason": NOT_BUILT})
    m = {
        "version": 1,
        "setup_cmd": "cd /verif/checker && GOFLAGS=-mod=mod GOPROXY=off GOSUMDB=off GOTOOLCHAIN=local go build -o /verif/bin/vcheck ./cmd/vcheck",
        "hooks": {
            "guard": "verif",
            "enable": "none needed: the checks read source; no instrumentation is compiled into /repo",
            "baseline_off_cmd": "cd /repo && go test -mod=mod -vet=off -count=1 ./...",
            "source_commits": [],
            "add_only": True,
        },
        "engines": [{
            "name": "vcheck", "path": "/verif/checker",
            "serves_properties": [c["property_id"] for c in checks],
            "kind_free_text": "repository-specific static analyser (go/packages + go/types + go/ssa + VTA call graph); one rule file per property under checker/rules; overlay mutants for self-test in the thorough tier",
        }],
        "checks": checks,
        "not_applicable": na,
        "notes": "Exit codes: 0 held; 1 + VIOLATION line = a construct breaks a rule; 2 + UNDECIDED = an anchor no longer resolves / the analysed tree does not type-check (never on the unchanged tree). Known findings: /verif/known_findings.json.",
    }
    json.dump(m, open("/verif/MANIFEST.json", "w"), indent=1)
    print("claimed:", len(checks), "not_applicable:", len(na))

main()
