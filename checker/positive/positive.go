// Package zzverifpositive is overlaid into the analysed module at
// internal/zzverifpositive on every run. Each function below violates exactly
// one zero-count rule of the checker, so a rule that stops firing here is dead.
package zzverifpositive

import (
	"archive/zip"
	"bytes"
	"compress/zlib"
	"encoding/csv"
	"fmt"
	stdhtml "html"
	"io"
	"net/url"
	"os"
	"sort"
	"strings"
	"sync"
	"unicode"

	xhtml "golang.org/x/net/html"
	"golang.org/x/net/html/charset"
)

var counter int

var cache = map[string]int{}

// WritesPackageState violates R3.1 NO-PKG-STATE twice (scalar and map).
func WritesPackageState(k string) {
	counter++
	cache[k] = counter
}

// StartsGoroutine violates R3.1 (go statement).
func StartsGoroutine(f func()) {
	go f()
}

// ArgMaxNoTieBreak violates R3.2 MAP-ORDER (selection by iteration order).
func ArgMaxNoTieBreak(m map[int]int) int {
	best, bestN := 0, 0
	for k, n := range m {
		if n > bestN {
			bestN = n
			best = k
		}
	}
	return best
}

// KeysUnsorted violates R3.2 MAP-ORDER (slice built in map order, never sorted).
func KeysUnsorted(m map[string]int) []string {
	var out []string
	for k := range m {
		out = append(out, k)
	}
	return out
}

// LeaksOnError violates R10.5 RES-PAIR: the error return after a successful
// open does not close the file.
func LeaksOnError(name string) (*os.File, error) {
	f, err := os.Open(name)
	if err != nil {
		return nil, err
	}
	if _, err := f.Stat(); err != nil {
		return nil, err
	}
	return f, nil
}

var pool sync.Pool

// UsesPackagePool violates R3.13 (the object is handed out although it went back to the pool).
func UsesPackagePool() any {
	v := pool.Get()
	pool.Put(v)
	return v
}

// CutsAtRawOffset violates R13.1 RUNE-BOUNDARY when analysed as part of package
// rag's rule set (the rule also scans this package): a size is used as a cut
// position without snapping to a rune start.
func CutsAtRawOffset(s string, n int) string {
	if n >= len(s) {
		return s
	}
	return s[:n]
}

// CSVWithCRLF violates R14.7 CSV-NO-CRLF.
func CSVWithCRLF(w io.Writer) *csv.Writer {
	cw := csv.NewWriter(w)
	cw.UseCRLF = true
	return cw
}

// WrapLoop violates R2.8 WRAP-LOOP: an inclusive bound on an unsigned counter.
func WrapLoop(start, end uint32, m map[uint32]bool) {
	for code := start; code <= end; code++ {
		m[code] = true
	}
}

// NarrowAverage violates R5.6 NARROW-SUM.
func NarrowAverage(left, up byte) byte {
	return (left + up) / 2
}

var sharedTable = map[string]map[rune]float64{"x": {'a': 1}}

type holder struct{ widths map[rune]float64 }

// AliasesGlobalTable violates R3.4 GLOBAL-TABLE-ALIAS.
func AliasesGlobalTable(h *holder, name string) {
	if w, ok := sharedTable[name]; ok {
		h.widths = w
	}
}

type deck struct{ slides []string }

// ParallelAfterSkip violates R18.5 PARALLEL-INDEX.
func ParallelAfterSkip(d *deck, files []string, ok func(string) bool, attach func(string, int)) {
	for i := range files {
		if !ok(files[i]) {
			continue
		}
		d.slides = append(d.slides, files[i])
	}
	for i := range d.slides {
		attach(files[i], i)
	}
}

// FlushKeepsAccumulator violates R12.10 FLUSH-RESETS: the text gathered outside the reset struct is emitted by every
// flush and never cleared.
func FlushKeepsAccumulator(parts []string, emit func(string)) {
	var text []byte
	n := 0
	flush := func() {
		if len(text) > 0 {
			emit(string(text))
			n = 0
		}
	}
	for _, p := range parts {
		if p == "" {
			flush()
			continue
		}
		text = append(text, p...)
		n++
	}
	flush()
}

type cursor struct {
	data []byte
	pos  int
}

// WeakBound violates R2.11 WEAK-BOUND: the guard admits pos+2 == len, the second read is one past the end.
func WeakBound(c *cursor) (byte, byte) {
	if c.pos+2 <= len(c.data) {
		return c.data[c.pos+1], c.data[c.pos+2]
	}
	return 0, 0
}

type Lazy struct {
	items []int
}

// MemoBeforeSuccess violates R3.5 MEMO-ON-SUCCESS: the memo is set before the step that can fail and stays set.
func (l *Lazy) MemoBeforeSuccess(load func() ([]int, error)) ([]int, error) {
	if l.items != nil {
		return l.items, nil
	}
	l.items = make([]int, 0)
	more, err := load()
	if err != nil {
		return nil, err
	}
	l.items = append(l.items, more...)
	return l.items, nil
}

// SilentLimit violates R5.8/R20.7 LIMIT-TRUNCATION: the cap turns a long input into a short one without an error.
func SilentLimit(r io.Reader, max int64) ([]byte, error) {
	return io.ReadAll(io.LimitReader(r, max))
}

// AssemblesSameByteTwice violates R7.10 BYTE-ASSEMBLY: the middle byte is used twice, the last one never.
func AssemblesSameByteTwice(data []byte, i int) uint32 {
	return uint32(data[i])<<16 | uint32(data[i+1])<<8 | uint32(data[i+1])
}

type partRef struct{ Href string }

// TrimsCutSet violates R18.9 PATH-TRIM-CUTSET: "./" is a set of characters for TrimLeft, "../x" loses its dots too.
func TrimsCutSet(p partRef) string {
	return strings.TrimLeft(p.Href, "./")
}

// DecodesNodeTextAgain violates R19.13 NO-DOUBLE-DECODE.
func DecodesNodeTextAgain(n *xhtml.Node) string {
	return stdhtml.UnescapeString(n.Data)
}

// StopsOneShort violates R14.10 SHORT-LOOP: the last element is never looked at.
func StopsOneShort(path []string, want string) bool {
	for i := 0; i < len(path)-1; i++ {
		if path[i] == want {
			return true
		}
	}
	return false
}

type treeNode struct {
	name string
	kids []*treeNode
}

// WalksBreadthFirst violates R1.9 WORKLIST-ORDER: taking from the front and adding at the back visits level by level.
func WalksBreadthFirst(root *treeNode) []string {
	var out []string
	pending := []*treeNode{root}
	for len(pending) > 0 {
		n := pending[0]
		pending = pending[1:]
		out = append(out, n.name)
		pending = append(pending, n.kids...)
	}
	return out
}

// SortsCallerSlice violates R3.8 INPUT-READONLY: the caller's slice is reordered.
func SortsCallerSlice(xs []int) int {
	sort.Ints(xs)
	if len(xs) == 0 {
		return 0
	}
	return xs[0]
}

type packedStream struct{ offsets []int }

// SortsHeaderPairs violates R4.10 OBJSTM-HEADER-ORDER.
func SortsHeaderPairs(p *packedStream) int {
	sort.Ints(p.offsets)
	return len(p.offsets)
}

type fileInt int64

// AllocatesFromFileCount violates R2.12: the size comes straight from a parsed integer. (The rule keys on the
// module's core.Int type; this example is matched through the shared suffix test on the type name.)
func AllocatesFromFileCount(n fileInt) []int { return make([]int, int(n)) }

// ClampsByOtherLength violates R2.13: upper can be shorter than data.
func ClampsByOtherLength(data []byte) string {
	upper := strings.ToUpper(string(data))
	n := 8
	if len(data) < n {
		n = len(data)
	}
	return upper[:n]
}

// JoinsStaleBuffer violates R17.8 JOIN-BUFFER-FRESH: a skipped cell keeps the previous row's text.
func JoinsStaleBuffer(rows [][]string, skip func(string) bool) []string {
	var out []string
	buf := make([]string, 4)
	for _, row := range rows {
		for i, cell := range row {
			if i >= len(buf) || skip(cell) {
				continue
			}
			buf[i] = cell
		}
		out = append(out, strings.Join(buf, ","))
	}
	return out
}

type listEntry struct {
	Level int
	Text  string
}

// CarriesIndent violates R15.7 INDENT-FROM-OWN-LEVEL: the indentation is only ever widened.
func CarriesIndent(items []listEntry, sb *strings.Builder) {
	indent := ""
	last := 0
	for _, it := range items {
		if it.Level > last {
			indent = strings.Repeat("  ", it.Level)
		}
		last = it.Level
		sb.WriteString(indent)
		sb.WriteString(it.Text)
	}
}

// OpensWithoutTruncate violates R14.12 EXPORT-TRUNCATES.
func OpensWithoutTruncate(name string) (*os.File, error) {
	return os.OpenFile(name, os.O_WRONLY|os.O_CREATE, 0o644)
}

// FindsMemberCaseInsensitively violates R18.13 MEMBER-NAME-EXACT.
func FindsMemberCaseInsensitively(zr *zip.Reader, name string) *zip.File {
	for _, f := range zr.File {
		if strings.EqualFold(f.Name, name) {
			return f
		}
	}
	return nil
}

type exportedChunk struct{ Title string }

// ToTextBlanksTitle violates R3.9 EXPORT-READS-ONLY: the "temporary" is the caller's own chunk.
func ToTextBlanksTitle(chunks []*exportedChunk) string {
	var sb strings.Builder
	for _, ch := range chunks {
		tmp := ch
		tmp.Title = ""
		sb.WriteString(tmp.Title)
	}
	return sb.String()
}

// ReencodesCodeUnits violates R6.12: every byte of a multi-byte character becomes a code point of its own.
func ReencodesCodeUnits(s string) string {
	var sb strings.Builder
	for i := 0; i < len(s); i++ {
		c := s[i]
		if c == '|' {
			sb.WriteString("\\|")
			continue
		}
		sb.WriteRune(rune(c))
	}
	return sb.String()
}

type selOptions struct{ pages []int }
type SelHolder struct{ options selOptions }

// FiltersStoredSelectionInPlace violates R10.14: the result overwrites the receiver's selection.
func (h *SelHolder) FiltersStoredSelectionInPlace(n int) []int {
	out := h.options.pages[:0]
	for _, p := range h.options.pages {
		if p >= 1 && p <= n {
			out = append(out, p-1)
		}
	}
	return out
}

// StripsUnicodeSpace violates R5.13.
func StripsUnicodeSpace(data []byte) []byte { return bytes.Join(bytes.Fields(data), nil) }

type levelAttr struct {
	Lvl int `xml:"lvl,attr"`
}

// IndentsByParsedLevel violates R2.16: the level is whatever the file says.
func IndentsByParsedLevel(a *levelAttr, sb *strings.Builder) {
	for j := 0; j < a.Lvl; j++ {
		sb.WriteString("  ")
	}
}

// SizesByWidth violates R2.18: the width is whatever the file says.
func SizesByWidth(pageWidth float64) []int { return make([]int, int(pageWidth/5)+1) }

// ChecksWrappedProduct violates R2.19.
func ChecksWrappedProduct(rows, cols int) [][]int {
	if rows < 0 || cols < 0 || int64(rows)*int64(cols) > 20000000 {
		return nil
	}
	return make([][]int, rows)
}

type codeRange struct{ Start, Target uint32 }
type RangeTable struct{ ranges []codeRange }

// SortsByTargetSearchesByStart violates R7.5.
func (t *RangeTable) SortsByTargetSearchesByStart(code uint32) int {
	sort.Slice(t.ranges, func(i, j int) bool { return t.ranges[i].Target < t.ranges[j].Target })
	return sort.Search(len(t.ranges), func(i int) bool { return t.ranges[i].Start > code })
}

type runeSpan struct{ start, end int }

// CutsBytesAtRunePositions violates R13.8.
func CutsBytesAtRunePositions(text string) []string {
	var spans []runeSpan
	runes := []rune(text)
	start := 0
	for i := 0; i < len(runes); i++ {
		if runes[i] == '.' {
			spans = append(spans, runeSpan{start: start, end: i + 1})
			start = i + 1
		}
	}
	var out []string
	for _, s := range spans {
		out = append(out, text[s.start:s.end])
	}
	return out
}

// CutsBetweenUnorderedMarks violates R2.21.
func CutsBetweenUnorderedMarks(line string) string {
	a := strings.Index(line, "[")
	b := strings.Index(line, "]")
	if a == -1 || b == -1 {
		return ""
	}
	return line[a+1 : b]
}

// LooksBehindWithoutLength violates R2.22.
func LooksBehindWithoutLength(s string) bool { return len(s) >= 2 && s[len(s)-3] == ' ' }

// PointsAtLoopVariable violates RX.LV: every element ends up pointing at the last item.
type Titled struct {
	Title string
	Src   *string
}

func PointsAtLoopVariable(titles []string) []Titled {
	var out []Titled
	for _, t := range titles {
		out = append(out, Titled{Title: t, Src: &t})
	}
	// accepted forms: a copy per iteration, a callee that does not keep the pointer, leaving the loop at once
	var first *string
	for _, t := range titles {
		t := t
		out = append(out, Titled{Title: t, Src: &t})
	}
	for _, t := range titles {
		if len(t) > 3 {
			first = &t
			break
		}
	}
	_ = first
	return out
}

// unitNames is a fixed table; NamesUnitByNumber violates R2.23: the number is whatever the caller read.
var unitNames = []string{"", "K", "M", "G"}

func NamesUnitByNumber(n int) string {
	if n < 0 {
		return ""
	}
	ok := unitNames[n%4] + unitNames[(n>>3)&3]
	return ok + unitNames[n/1000]
}

// Reader.NumberedLines violates R3.12: the counter lives on the reader and is never reset; Title is an accepted memo.
type Reader struct {
	lines   []string
	counter int
	title   *string
	memo    map[int][]int
}

func (r *Reader) NumberedLines() []string {
	var out []string
	for _, l := range r.lines {
		r.counter++
		out = append(out, strings.Repeat("#", r.counter%3)+l)
	}
	return out
}

func (r *Reader) Title() *string {
	if r.title != nil {
		return r.title
	}
	t := strings.Join(r.lines, " ")
	r.title = &t
	return r.title
}

// Reader.Expand violates R4.12: the memo is keyed by n but the answer depends on the path too.
func (r *Reader) Expand(n int, onPath map[int]bool) []int {
	if got, ok := r.memo[n]; ok {
		return got
	}
	var out []int
	if !onPath[n] {
		onPath[n] = true
		out = append(out, r.Expand(n/2, onPath)...)
		delete(onPath, n)
	}
	out = append(out, n)
	r.memo[n] = out
	return out
}

// XRefEntry.FilePosition violates R4.13: the second field is read without looking at the type.
type XRefEntry struct {
	Type   int
	Offset int64
}

func FilePosition(e *XRefEntry) int64 {
	if e.Offset < 8 {
		return -1
	}
	if e.Type == 1 {
		return e.Offset
	}
	return 0
}

// InflatesTrimmed violates R5.15, HandsOutPooled violates R3.13.
var scratch = sync.Pool{New: func() interface{} { return new(bytes.Buffer) }}

func InflatesTrimmed(data []byte) ([]byte, error) {
	zr, err := zlib.NewReader(bytes.NewReader(bytes.TrimRight(data, "\r\n")))
	if err != nil {
		return nil, err
	}
	return io.ReadAll(zr)
}

func HandsOutPooled(data []byte) []byte {
	buf := scratch.Get().(*bytes.Buffer)
	buf.Reset()
	defer scratch.Put(buf)
	buf.Write(data)
	return buf.Bytes()
}

// Token.IsWord violates R6.13: the text is compared without looking at the kind of token.
type Token struct {
	Type  int
	Value []byte
}

func IsWord(t *Token, w string) bool { return t != nil && string(t.Value) == w }

func AtStream(t *Token) bool { return IsWord(t, "stream") }

// Painter violates RX.MI: forms are remembered by name, but names are looked up in res, which SetRes replaces.
type Painter struct {
	res   map[string]string
	forms map[string][]string
}

func (p *Painter) SetRes(res map[string]string) { p.res = res }

func (p *Painter) load(name string) []string { return strings.Fields(p.res[name]) }

func (p *Painter) Form(name string) []string {
	if f, ok := p.forms[name]; ok {
		return f
	}
	f := p.load(name)
	p.forms[name] = f
	return f
}

// OpRunner.processOperation violates R8.10: in text mode only some operators get through to the switch.
type OpRunner struct {
	inText bool
	ctm    [6]float64
}

type Op struct {
	Operator string
	Operands []float64
}

func (r *OpRunner) processOperation(op Op) error {
	if r.inText && op.Operator != "ET" && op.Operator != "w" {
		return nil
	}
	switch op.Operator {
	case "BT":
		r.inText = true
	case "ET":
		r.inText = false
	case "cm":
		copy(r.ctm[:], op.Operands)
	}
	return nil
}

func RunOps(ops []Op) [6]float64 {
	r := &OpRunner{}
	for _, o := range ops {
		r.processOperation(o)
	}
	return r.ctm
}

// ResolveRequested violates R10.16: the loop stops once every page was collected, leaving the rest unvalidated.
func ResolveRequested(requested []int, count int) ([]int, error) {
	seen := map[int]bool{}
	var out []int
	for _, p := range requested {
		if p < 1 || p > count {
			return nil, os.ErrInvalid
		}
		if !seen[p] {
			seen[p] = true
			out = append(out, p-1)
		}
		if len(out) == count {
			break
		}
	}
	return out, nil
}

// OpenFailed violates R20.9: the cause is flattened into text.
func OpenFailed(name string, err error) error { return fmt.Errorf("failed to open %q: %v", name, err) }

// TableFromBounds violates R15.12: the delimiter is tied to row 0, the loop starts at minRow.
func TableFromBounds(rows [][]string, minRow int) string {
	var sb strings.Builder
	for row := minRow; row < len(rows); row++ {
		sb.WriteString("| " + strings.Join(rows[row], " | ") + " |\n")
		if row == 0 {
			sb.WriteString("|---|\n")
		}
	}
	return sb.String()
}

// LastBodyOnly violates R19.12: only the last tbody survives the walk.
func LastBodyOnly(table *xhtml.Node) string {
	var body *xhtml.Node
	for c := table.FirstChild; c != nil; c = c.NextSibling {
		if c.Type == xhtml.ElementNode && c.Data == "tbody" {
			body = c
		}
	}
	if body == nil {
		return ""
	}
	return body.Data
}

// walker.visit violates R2.24: the early return for text nodes leaves the counter raised.
type walker struct {
	depth int
	out   []string
}

func (w *walker) visit(n *xhtml.Node) {
	w.depth++
	if w.depth > 512 {
		return
	}
	if n.Type == xhtml.TextNode {
		w.out = append(w.out, n.Data)
		return
	}
	for c := n.FirstChild; c != nil; c = c.NextSibling {
		w.visit(c)
	}
	w.depth--
}

func WalkText(n *xhtml.Node) []string {
	w := &walker{}
	w.visit(n)
	return w.out
}

// Base85Group violates R5.16: five digits do not fit the accumulator.
func Base85Group(digits [5]byte) [4]byte {
	v := uint32(0)
	for _, d := range digits {
		v = v*85 + uint32(d)
	}
	return [4]byte{byte(v >> 24), byte(v >> 16), byte(v >> 8), byte(v)}
}

// ReadsCMapByLines violates R7.11.
func ReadsCMapByLines(section string) int {
	n := 0
	for _, line := range strings.Split(section, "\n") {
		if strings.Contains(line, "<") {
			n++
		}
	}
	return n
}

// PositionForTokens violates R13.10: the ratio is whatever the configuration holds, zero included.
type SizeSettings struct{ TokensPerChar float64 }

func PositionForTokens(cfg *SizeSettings, tokens int) int {
	return int(float64(tokens) / cfg.TokensPerChar)
}

// Catalogue violates R2.25 (lookup locks and re-enters itself) and RX.DF (index is computed from names in the
// constructor, Rename assigns names without recomputing index).
type Catalogue struct {
	mu    sync.Mutex
	names []string
	index map[string]int
	next  map[int]int
}

func buildIndex(names []string) map[string]int {
	m := map[string]int{}
	for i, n := range names {
		m[n] = i
	}
	return m
}

func (c *Catalogue) Reindex() { c.index = buildIndex(c.names) }

func (c *Catalogue) Rename(names []string) { c.names = names }

func (c *Catalogue) Lookup(n int) int {
	c.mu.Lock()
	defer c.mu.Unlock()
	if m, ok := c.next[n]; ok && m != n {
		return c.Lookup(m)
	}
	return n
}

// TableAt violates R2.26: the end of the table is the 32-bit sum of two numbers read from the file.
func TableAt(program []byte, offset, length uint32) []byte {
	end := offset + length
	if int(end) <= len(program) {
		return program[offset:end]
	}
	return nil
}

// Pages / CollectPages violate R10.18: a selected page without text is skipped before it is added.
type Pages struct{ list []string }

func (p *Pages) Add(s string) { p.list = append(p.list, s) }

func CollectPages(texts []string) *Pages {
	out := &Pages{}
	for _, t := range texts {
		if t == "" {
			continue
		}
		out.Add(t)
	}
	return out
}

// RepeatedGroups violates R11.12: a group is dropped because its text is short.
func RepeatedGroups(groups map[string]int) []string {
	var out []string
	for text, n := range groups {
		if len(text) <= 2 {
			continue
		}
		if n >= 2 {
			out = append(out, text)
		}
	}
	return out
}

// FirstBytes violates R20.10: data delivered together with io.EOF is taken for a failed read.
func FirstBytes(r io.Reader) ([]byte, error) {
	buf := make([]byte, 64)
	n, err := r.Read(buf)
	if err != nil {
		return nil, err
	}
	return buf[:n], nil
}

// SniffA / SniffB violate RX.CN: looksLikeMarkup expects its caller to trim, SniffB does not.
func looksLikeMarkup(data []byte) bool { return len(data) > 0 && data[0] == '<' }

func SniffA(data []byte) bool { return looksLikeMarkup(bytes.TrimSpace(data)) }

func SniffB(data []byte) bool { return looksLikeMarkup(data) }

// Entry / ReadEntry violate R18.19: the stored href is decoded when it is stored and again when it is used.
type Entry struct{ Href string }

func NewEntry(raw string) Entry {
	h, _ := url.PathUnescape(raw)
	return Entry{Href: h}
}

func ReadEntry(e Entry) string {
	h, err := url.PathUnescape(e.Href)
	if err != nil {
		return e.Href
	}
	return h
}

// XRow / Renumber violate R17.16: a row number lower than the previous one is replaced.
type XRow struct {
	R int `xml:"r,attr"`
}

func Renumber(rows []XRow) {
	next := 1
	for i := range rows {
		row := &rows[i]
		if row.R < next {
			row.R = next
		}
		next = row.R + 1
	}
}

// GridTableCell / ParsedTable violate R16.18: the cell text goes into the row line as it is.
type GridTableCell struct{ Text string }

type ParsedTable struct{ Rows [][]GridTableCell }

func (pt *ParsedTable) ToText() string {
	var sb strings.Builder
	for _, row := range pt.Rows {
		for j, cell := range row {
			if j > 0 {
				sb.WriteString("\t")
			}
			sb.WriteString(cell.Text)
		}
		sb.WriteString("\n")
	}
	return sb.String()
}

// ItemNode / walkItems violate R19.16: an item without text of its own returns before its children are walked.
type ItemNode struct {
	Text string
	Kids []*ItemNode
}

func directText(n *ItemNode) string { return strings.TrimSpace(n.Text) }

func walkItems(n *ItemNode, out *[]string) {
	text := directText(n)
	if text == "" {
		return
	}
	*out = append(*out, text)
	for _, k := range n.Kids {
		walkItems(k, out)
	}
}

func WalkItems(n *ItemNode) []string {
	var out []string
	walkItems(n, &out)
	return out
}

// Printable violates R9.10: every character that is not "printable" is dropped from the text.
func Printable(s string) string {
	return strings.Map(func(r rune) rune {
		if unicode.IsPrint(r) {
			return r
		}
		return -1
	}, s)
}

// Transcoded violates R19.17.
func Transcoded(r io.Reader) (io.Reader, error) { return charset.NewReader(r, "") }

// scratchPool / WithScratch violate R3.14: the scratch slice goes back with its contents.
var scratchPool = sync.Pool{New: func() any { return make([]int, 0, 8) }}

func WithScratch(vals []int) int {
	s := scratchPool.Get().([]int)
	s = append(s, vals...)
	sum := 0
	for _, v := range s {
		sum += v
	}
	scratchPool.Put(s)
	return sum
}

// Stamped / StampAll violate RX.LC: the stamp is made on the loop's copy.
type Stamped struct {
	Name string
	Page int
}

func StampAll(items []Stamped, page int) []Stamped {
	for _, it := range items {
		it.Page = page
	}
	return items
}

// Batch / Batcher violate RX.TR: the pending items are handed to a batch and then emptied in place.
type Batch struct{ Items []string }

type Batcher struct {
	pending []string
	out     []Batch
}

func (b *Batcher) Flush() {
	if len(b.pending) == 0 {
		return
	}
	b.out = append(b.out, Batch{Items: b.pending})
	b.pending = b.pending[:0]
}

// DropNegative violates RX.DR: elements are deleted from the slice the range loop is walking.
func DropNegative(xs []int) []int {
	for i, x := range xs {
		if x < 0 {
			xs = append(xs[:i], xs[i+1:]...)
		}
	}
	return xs
}

// sized / newSized / Unsized violate RX.CL: the literal leaves out the field the constructor computes.
type sized struct {
	name string
	size int
}

func newSized(name string) sized { return sized{name: name, size: measure(name)} }

func measure(s string) int { return len(s) * 2 }

func Unsized(name string) int {
	a := newSized(name)
	b := sized{name: name}
	return a.size + b.size
}
