package zzverifpositive

import (
	"embed"
	"strings"
)

//go:embed *.go
var fs embed.FS

// Files returns the sources of this package except this loader file.
func Files() map[string][]byte {
	out := map[string][]byte{}
	ents, _ := fs.ReadDir(".")
	for _, e := range ents {
		if e.Name() == "embed.go" || !strings.HasSuffix(e.Name(), ".go") {
			continue
		}
		b, _ := fs.ReadFile(e.Name())
		out[e.Name()] = b
	}
	return out
}
