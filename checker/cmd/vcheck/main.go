// vcheck decides the structural clauses of one tabula property from the source
// of the repository's current working tree. It never runs repository code.
//
//	vcheck -prop C08 -tier quick|thorough
//	vcheck -explain /verif/reports/C08.json
package main

import (
	"encoding/json"
	"flag"
	"fmt"
	"os"
	"os/exec"
	"path/filepath"
	"runtime/debug"
	"sort"
	"strconv"
	"strings"
	"sync"
	"time"

	"verif/checker/eng"
	positive "verif/checker/positive"
	"verif/checker/rules"
)

var verifDir = "/verif"

func main() {
	prop := flag.String("prop", "", "property id (C01..C20)")
	tier := flag.String("tier", "quick", "quick|thorough")
	explain := flag.String("explain", "", "print a stored report")
	mutantIdx := flag.Int("mutant", -1, "internal: analyse mutant #n of the property and print its verdict as JSON")
	list := flag.Bool("list", false, "list registered properties")
	flag.Parse()
	if d := os.Getenv("VERIF_DIR"); d != "" {
		verifDir = d
	}
	if *list {
		ids := rules.IDs()
		sort.Strings(ids)
		fmt.Println(strings.Join(ids, " "))
		return
	}
	if *explain != "" {
		b, err := os.ReadFile(*explain)
		if err != nil {
			fmt.Println(err)
			os.Exit(2)
		}
		os.Stdout.Write(b)
		return
	}
	if t := os.Getenv("VERIF_TIER"); t != "" && !flagSet("tier") {
		*tier = t
	}
	pr := rules.Get(*prop)
	if pr == nil {
		fmt.Printf("UNDECIDED property=%s: no rules registered\n", *prop)
		os.Exit(2)
	}
	if *mutantIdx >= 0 {
		os.Exit(runMutant(pr, *mutantIdx))
	}
	os.Exit(run(pr, *tier))
}

func flagSet(name string) bool {
	set := false
	flag.Visit(func(f *flag.Flag) {
		if f.Name == name {
			set = true
		}
	})
	return set
}

func positiveOverlay(dir string) map[string][]byte {
	ov := map[string][]byte{}
	for name, src := range positive.Files() {
		ov[filepath.Join(dir, eng.PositivePkg, name)] = src
	}
	return ov
}

// analyse loads one configuration and runs the property's rules on it.
func analyse(pr *rules.Property, tier, config string, lc eng.LoadConfig) (c *eng.Ctx, err error) {
	defer func() {
		if r := recover(); r != nil {
			err = fmt.Errorf("analyser panic in %s/%s: %v\n%s", pr.ID, config, r, debug.Stack())
		}
	}()
	if lc.Dir == "" {
		lc.Dir = eng.RepoDir()
	}
	if lc.Overlay == nil {
		lc.Overlay = map[string][]byte{}
	}
	for k, v := range positiveOverlay(lc.Dir) {
		lc.Overlay[k] = v
	}
	p, err := eng.Load(lc)
	if err != nil {
		return nil, err
	}
	c = eng.NewCtx(p, pr.ID, tier, config)
	rules.UseProg(p)
	for i, r := range pr.Rules {
		func() {
			defer func() {
				if rec := recover(); rec != nil {
					c.Undec("analyser", fmt.Sprintf("rule #%d of %s", i, pr.ID), 0, fmt.Sprintf("the analyser panicked: %v", rec))
				}
			}()
			r(c)
		}()
	}
	c.Finish(true)
	return c, nil
}

func run(pr *rules.Property, tier string) int {
	start := time.Now()
	seed, _ := strconv.Atoi(os.Getenv("VERIF_SEED"))
	evPath := filepath.Join(verifDir, "evidence", pr.ID+".json")
	repPath := filepath.Join(verifDir, "reports", pr.ID+".json")
	known, err := eng.LoadKnown(filepath.Join(verifDir, "known_findings.json"))
	if err != nil {
		fmt.Printf("UNDECIDED property=%s: %v\n", pr.ID, err)
		return 2
	}
	var ctxs []*eng.Ctx
	var all []eng.Ob
	fail := func(err error) int {
		fmt.Printf("UNDECIDED property=%s: %v\n", pr.ID, err)
		out := eng.Outcome{Undecided: []eng.Ob{{Rule: "load", Construct: "module", Verdict: eng.Undecided, V: "undecided", Msg: err.Error()}}}
		eng.WriteReport(repPath, pr.ID, out)
		eng.WriteEvidence(evPath, pr.ID, tier, pr.Level, seed, ctxs, out, map[string]any{"load_error": err.Error()}, start, pr.Explanation)
		return 2
	}
	c, err := analyse(pr, tier, "default", eng.LoadConfig{})
	if err != nil {
		return fail(err)
	}
	ctxs = append(ctxs, c)
	all = append(all, c.Obs...)
	extra := map[string]any{
		"packages":         len(c.P.Pkgs),
		"module_functions": len(c.P.ModuleFuncs()),
	}
	if tier == "thorough" {
		// other build configurations of the same sources: 32-bit ints (index/length arithmetic
		// rules see int as 32 bits) and a second GOOS. Test files are not analysed: tests
		// legitimately poke internals and are not part of the product.
		for _, cfg := range []struct {
			name string
			lc   eng.LoadConfig
		}{
			{"GOARCH=386", eng.LoadConfig{Env: []string{"GOARCH=386"}}},
			{"GOOS=windows", eng.LoadConfig{Env: []string{"GOOS=windows", "CGO_ENABLED=0"}}},
		} {
			cc, err := analyse(pr, tier, cfg.name, cfg.lc)
			if err != nil {
				return fail(fmt.Errorf("%s: %w", cfg.name, err))
			}
			ctxs = append(ctxs, cc)
			for _, o := range cc.Obs {
				if o.Verdict != eng.OK {
					o.Msg = "[" + cfg.name + "] " + o.Msg
					all = append(all, o)
				}
			}
		}
		ms := runMutants(pr)
		extra["mutation_selftest"] = ms.summary
		if ms.dead > 0 {
			// a weakness of the checker, not of the tree under analysis: reported, recorded in the evidence, never a verdict
			fmt.Printf("SELFTEST-WEAK property=%s %d variants not classified as expected: %s\n", pr.ID, ms.dead, strings.Join(ms.deadNames, "; "))
		}
	}
	out := eng.Evaluate(pr.ID, dedupObs(all), known)
	for _, l := range out.Known {
		fmt.Println(l)
	}
	nOK := 0
	for _, o := range out.Obs {
		if o.Verdict == eng.OK {
			nOK++
		}
	}
	fmt.Printf("property=%s tier=%s obligations=%d discharged=%d violations=%d undecided=%d known=%d wall=%.1fs\n",
		pr.ID, tier, len(out.Obs), nOK, len(out.Violations), len(out.Undecided), len(out.Known), time.Since(start).Seconds())
	if err := eng.WriteEvidence(evPath, pr.ID, tier, pr.Level, seed, ctxs, out, extra, start, pr.Explanation); err != nil {
		fmt.Printf("UNDECIDED property=%s: cannot write evidence: %v\n", pr.ID, err)
		return 2
	}
	if len(out.Violations) > 0 || len(out.Undecided) > 0 {
		eng.WriteReport(repPath, pr.ID, out)
	}
	for _, o := range out.Violations {
		fmt.Printf("  violation %s %s at %s: %s\n", o.Rule, o.Construct, o.Pos, o.Msg)
	}
	for _, o := range out.Undecided {
		fmt.Printf("  undecided %s %s at %s: %s\n", o.Rule, o.Construct, o.Pos, o.Msg)
	}
	if len(out.Violations) > 0 {
		fmt.Printf("VIOLATION property=%s replay=%s\n", pr.ID, repPath)
		return 1
	}
	if len(out.Undecided) > 0 {
		fmt.Printf("UNDECIDED property=%s report=%s\n", pr.ID, repPath)
		return 2
	}
	return 0
}

func dedupObs(in []eng.Ob) []eng.Ob {
	seen := map[string]bool{}
	var out []eng.Ob
	for _, o := range in {
		k := o.Rule + "|" + o.Construct + "|" + o.V + "|" + o.Pos
		if seen[k] {
			continue
		}
		seen[k] = true
		out = append(out, o)
	}
	return out
}

// ---- mutation self-test (E8) -------------------------------------------------

type mutantResult struct {
	Name       string   `json:"name"`
	Applicable bool     `json:"applicable"`
	Benign     bool     `json:"benign"`
	Fired      bool     `json:"fired"`      // expected rule reported a violation (or, benign: nothing new fired)
	Violations []string `json:"violations"` // rule|construct of every violation seen
	Error      string   `json:"error,omitempty"`
}

type mutSummary struct {
	summary   map[string]any
	dead      int
	deadNames []string
}

func runMutant(pr *rules.Property, idx int) int {
	ms := rules.Mutants(pr.ID, verifDir)
	res := mutantResult{}
	enc := json.NewEncoder(os.Stdout)
	if idx >= len(ms) {
		res.Error = "no such mutant"
		enc.Encode(res)
		return 2
	}
	m := ms[idx]
	res.Name = m.Name
	res.Benign = m.Benign
	dir := eng.RepoDir()
	overlay := map[string][]byte{}
	if m.Patch != "" {
		diff, err := os.ReadFile(m.Patch)
		if err != nil {
			res.Error = err.Error()
			enc.Encode(res)
			return 0
		}
		tmp, err := os.MkdirTemp("", "vcheck-mut")
		if err != nil {
			res.Error = err.Error()
			enc.Encode(res)
			return 0
		}
		defer os.RemoveAll(tmp)
		files := rules.PatchFiles(string(diff))
		for _, f := range files {
			if b, err := os.ReadFile(filepath.Join(dir, f)); err == nil {
				os.MkdirAll(filepath.Dir(filepath.Join(tmp, f)), 0o755)
				os.WriteFile(filepath.Join(tmp, f), b, 0o644)
			}
		}
		cmd := exec.Command("patch", "-p1", "-s", "-f", "--no-backup-if-mismatch", "-d", tmp, "-i", m.Patch)
		if outb, err := cmd.CombinedOutput(); err != nil || strings.Contains(string(outb), "FAILED") {
			res.Applicable = false // the tree moved on: the patch no longer applies
			enc.Encode(res)
			return 0
		}
		for _, f := range files {
			b, err := os.ReadFile(filepath.Join(tmp, f))
			if err != nil {
				continue
			}
			overlay[filepath.Join(dir, f)] = b
		}
	} else {
		file := filepath.Join(dir, m.File)
		src, err := os.ReadFile(file)
		if err != nil || strings.Count(string(src), m.Find) != 1 {
			res.Applicable = false
			enc.Encode(res)
			return 0
		}
		overlay[file] = []byte(strings.Replace(string(src), m.Find, m.Replace, 1))
	}
	res.Applicable = true
	c, err := analyse(pr, "quick", "mutant:"+m.Name, eng.LoadConfig{Overlay: overlay})
	if err != nil {
		res.Error = err.Error()
		enc.Encode(res)
		return 0
	}
	known, _ := eng.LoadKnown(filepath.Join(verifDir, "known_findings.json"))
	out := eng.Evaluate(pr.ID, c.Obs, known)
	for _, o := range out.Violations {
		res.Violations = append(res.Violations, o.Rule+"|"+o.Construct)
		if !m.Benign && (m.ExpectRule == "" || o.Rule == m.ExpectRule) && strings.Contains(o.Construct, m.ExpectConstruct) {
			res.Fired = true
		}
	}
	if m.Benign {
		res.Fired = len(out.Violations) == 0 && len(out.Undecided) == 0
		for _, o := range out.Undecided {
			res.Violations = append(res.Violations, "undecided:"+o.Rule+"|"+o.Construct)
		}
	}
	enc.Encode(res)
	return 0
}

func runMutants(pr *rules.Property) mutSummary {
	ms := rules.Mutants(pr.ID, verifDir)
	results := make([]mutantResult, len(ms))
	self, _ := os.Executable()
	sem := make(chan struct{}, 4)
	var wg sync.WaitGroup
	for i := range ms {
		wg.Add(1)
		go func(i int) {
			defer wg.Done()
			sem <- struct{}{}
			defer func() { <-sem }()
			cmd := exec.Command(self, "-prop", pr.ID, "-mutant", strconv.Itoa(i))
			cmd.Env = os.Environ()
			b, err := cmd.Output()
			if err != nil {
				results[i] = mutantResult{Name: ms[i].Name, Error: err.Error()}
				return
			}
			if e := json.Unmarshal(b, &results[i]); e != nil {
				results[i] = mutantResult{Name: ms[i].Name, Error: "bad output: " + string(b)}
			}
		}(i)
	}
	wg.Wait()
	s := mutSummary{summary: map[string]any{}}
	applicable, killed, benignOK, benign := 0, 0, 0, 0
	var rows []any
	for i, r := range results {
		row := map[string]any{"name": r.Name, "applicable": r.Applicable, "benign": ms[i].Benign, "expect_rule": ms[i].ExpectRule, "ok": r.Fired}
		if r.Error != "" {
			row["error"] = r.Error
		}
		rows = append(rows, row)
		if !r.Applicable || r.Error != "" {
			continue // the tree moved on (patch does not apply / does not type-check any more): recorded in the rows above
		}
		if ms[i].Benign {
			benign++
			if r.Fired {
				benignOK++
			} else {
				s.dead++
				s.deadNames = append(s.deadNames, "benign:"+r.Name+" raised "+strings.Join(r.Violations, ",")+r.Error)
			}
			continue
		}
		applicable++
		if r.Fired {
			killed++
		} else {
			s.dead++
			s.deadNames = append(s.deadNames, r.Name+" "+r.Error)
		}
	}
	s.summary["mutants_total"] = len(ms)
	s.summary["mutants_applicable"] = applicable
	s.summary["mutants_detected_by_expected_rule"] = killed
	s.summary["benign_variants"] = benign
	s.summary["benign_variants_silent"] = benignOK
	s.summary["results"] = rows
	return s
}
