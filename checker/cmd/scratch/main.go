package main

import (
	"fmt"
	"verif/checker/eng"
	"golang.org/x/tools/go/ssa"
)

func main() {
	p, err := eng.Load(eng.LoadConfig{})
	if err != nil { panic(err) }
	fn := p.Func("core.(*XRefParser).parseXRefStream")
	eng.Instrs(fn, false, func(in ssa.Instruction) {
		st, ok := in.(*ssa.Store)
		if !ok { return }
		ia, ok := st.Addr.(*ssa.IndexAddr)
		if !ok { return }
		fmt.Printf("store to %T %v val %T\n", ia.X, ia.X, st.Val)
	})
}
