package main

import (
	"fmt"
	"verif/checker/eng"
)

func main() {
	p, err := eng.Load(eng.LoadConfig{})
	if err != nil { panic(err) }
	fn := p.Func("tabula.(*Extractor).validateFormat")
	for _, r := range eng.Returns(fn) {
		v := eng.ReturnValues(r)[0]
		nn, known := eng.ErrValueNonNil(v)
		fmt.Printf("block %d: %v (%T) nonNil=%v known=%v\n", r.Block().Index, v, v, nn, known)
	}
}
