package main

import (
	"fmt"
	"os"
	"sort"
	"strings"

	"golang.org/x/tools/go/ssa"

	"verif/checker/eng"
)

// scratch: lists the non-module callees of the named functions (and their same-package helper cluster)
func main() {
	p, err := eng.Load(eng.LoadConfig{})
	if err != nil {
		panic(err)
	}
	for _, name := range os.Args[1:] {
		fn := p.Func(name)
		if fn == nil {
			fmt.Println(name, "NOT FOUND")
			continue
		}
		set := map[string]bool{}
		for _, h := range eng.Cluster(fn, 2) {
			eng.Instrs(h, true, func(in ssa.Instruction) {
				if ci, ok := in.(ssa.CallInstruction); ok {
					n := eng.CalleeName(ci)
					if strings.HasPrefix(n, "strings.") || strings.HasPrefix(n, "bytes.") || strings.HasPrefix(n, "unicode") {
						set[n] = true
					}
				}
			})
		}
		var l []string
		for k := range set {
			l = append(l, k)
		}
		sort.Strings(l)
		fmt.Println(name, l)
	}
}
