package main

import (
	"fmt"
	"strings"
	"verif/checker/eng"
	"verif/checker/rules"
)

func main() {
	p, err := eng.Load(eng.LoadConfig{})
	if err != nil { panic(err) }
	for _, n := range []string{"layout.(*ColumnDetector).validateColumns", "rag.(*Chunker).buildSections"} {
		for _, r := range rules.AnalyseLoopsDebug(p, n) {
			fmt.Println(n, r.Elem, "transfers", r.Transfers)
			for _, s := range r.Skips { fmt.Println("   skip empty=", s.Empty, strings.Join(s.Conds, " && ")) }
		}
	}
}
