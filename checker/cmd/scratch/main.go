package main

import (
	"os"
	"verif/checker/eng"
	"verif/checker/rules"
)

func main() {
	p, err := eng.Load(eng.LoadConfig{})
	if err != nil { panic(err) }
	rules.DebugLoops(p, os.Args[1:]...)
}
