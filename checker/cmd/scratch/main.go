package main

import (
	"fmt"
	"os"

	"golang.org/x/tools/go/ssa"

	"verif/checker/eng"
)

func main() {
	p, err := eng.Load(eng.LoadConfig{})
	if err != nil {
		panic(err)
	}
	fn := p.Func("contentstream.isLetter")
	fn.WriteTo(os.Stdout)
	S := eng.ByteReach(fn, func(v ssa.Value) bool { _, ok := v.(*ssa.Parameter); return ok }, func(in ssa.Instruction) bool {
		_, ok := in.(*ssa.Return)
		return ok
	}, nil)
	n := 0
	for b := 0; b < 256; b++ {
		if S[b] {
			n++
		}
	}
	fmt.Println(n)
}
