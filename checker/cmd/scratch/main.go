package main

import (
	"fmt"
	"go/token"
	"verif/checker/eng"
	"golang.org/x/tools/go/ssa"
)

func main() {
	p, err := eng.Load(eng.LoadConfig{})
	if err != nil { panic(err) }
	fn := p.Func("rag.(*OverlapGenerator).generateCharacterOverlap")
	var sl *ssa.Slice
	eng.Instrs(fn, false, func(in ssa.Instruction) { if s, ok := in.(*ssa.Slice); ok { sl = s } })
	v := sl.Low
	s := sl.X
	m := eng.MustCross(fn, func(e eng.Edge) bool {
		f, ok := eng.EdgeFact(e)
		if !ok { return false }
		if call, ok := f.Cond.(*ssa.Call); ok && f.Pos && eng.CalleeName(call) == "unicode/utf8.RuneStart" {
			lk, ok := call.Call.Args[0].(*ssa.Lookup)
			fmt.Printf("runestart arg %T ok=%v\n", call.Call.Args[0], ok)
			if ok && lk.Index == v && eng.SameValue(lk.X, s) { return true }
		}
		if op, x, y, ok := f.Cmp(); ok {
			if x == v {
				if call, ok := y.(*ssa.Call); ok {
					if bi, ok := call.Call.Value.(*ssa.Builtin); ok && bi.Name() == "len" && op == token.GEQ { return true }
				}
			}
		}
		return false
	}, nil)
	for _, b := range fn.Blocks { fmt.Println(b.Index, m[b]) }
}
