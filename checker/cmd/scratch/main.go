package main

import (
	"fmt"

	"verif/checker/eng"
	"verif/checker/rules"
)

func main() {
	p, err := eng.Load(eng.LoadConfig{})
	if err != nil {
		panic(err)
	}
	rules.DebugRoles(p)
	_ = fmt.Sprint
}
