package rules

import (
	"go/ast"
	"go/token"
	"go/types"
	"sort"
	"strings"

	"golang.org/x/tools/go/types/typeutil"

	"verif/checker/eng"
)

// T-FILTER (E5 on the typed AST): for an accumulating range loop, enumerate the
// iteration paths of the body and report those on which the iteration element
// is not transferred anywhere (appended, written, stored, passed to a consumer).
// The governing conditions of such a path are classified: an emptiness test on
// the element is harmless, anything else loses content.

type skipPath struct {
	Pos       token.Pos
	Conds     []string // source text of the conditions that lead to the skip, with polarity
	Signature string   // stable key: sorted field/callee names mentioned by the conditions
	Empty     bool     // every governing condition is an emptiness test on the element
}

type loopReport struct {
	Fn            string
	Range         *ast.RangeStmt
	Elem          string
	Transfers     int
	Skips         []skipPath
	MaxTextWrites int // most Write*(elem.Text) statements on one iteration path
}

type pathState struct {
	conds       []condLit
	transferred bool
	done        bool // continue/break/return reached
	textWrites  int  // Write*(…elem.Text…) statements executed on this path
	flags       map[types.Object]bool
}

func setFlag(m map[types.Object]bool, o types.Object, v bool) map[types.Object]bool {
	n := map[types.Object]bool{}
	for k, x := range m {
		n[k] = x
	}
	n[o] = v
	return n
}

// flagValue evaluates `flag` / `!flag` when the flag's value is known on the path.
func (fa *filterAnalyzer) flagValue(e ast.Expr, p pathState) (bool, bool) {
	neg := false
	for {
		if pe, ok := e.(*ast.ParenExpr); ok {
			e = pe.X
			continue
		}
		if ue, ok := e.(*ast.UnaryExpr); ok && ue.Op == token.NOT {
			e = ue.X
			neg = !neg
			continue
		}
		break
	}
	id, ok := e.(*ast.Ident)
	if !ok {
		return false, false
	}
	o := fa.info.Uses[id]
	v, known := p.flags[o]
	if !known {
		return false, false
	}
	return v != neg, true
}

type condLit struct {
	e   ast.Expr
	pos bool
}

type filterAnalyzer struct {
	info    *types.Info
	tainted map[types.Object]bool
	local   map[types.Object]bool
	fresh   map[types.Object]bool // locals initialised from literals/constructors (owned by the iteration)
	ranged  ast.Expr              // the collection
	keyObj  types.Object
}

func (fa *filterAnalyzer) isTainted(n ast.Node) bool {
	if n == nil {
		return false
	}
	found := false
	ast.Inspect(n, func(m ast.Node) bool {
		if found {
			return false
		}
		switch x := m.(type) {
		case *ast.Ident:
			if o := fa.info.Uses[x]; o != nil && fa.tainted[o] {
				found = true
			}
		case *ast.IndexExpr:
			// coll[key]
			if fa.keyObj != nil && types.ExprString(x.X) == types.ExprString(fa.ranged) {
				if id, ok := x.Index.(*ast.Ident); ok && fa.info.Uses[id] == fa.keyObj {
					found = true
				}
			}
		}
		return !found
	})
	return found
}

func (fa *filterAnalyzer) def(e ast.Expr, taint bool) {
	if id, ok := e.(*ast.Ident); ok && id.Name != "_" {
		if o := fa.info.Defs[id]; o != nil {
			fa.local[o] = true
			if taint {
				fa.tainted[o] = true
			}
		} else if o := fa.info.Uses[id]; o != nil && taint && fa.local[o] {
			fa.tainted[o] = true
		}
	}
}

func (fa *filterAnalyzer) rootObj(e ast.Expr) types.Object {
	for {
		switch x := e.(type) {
		case *ast.Ident:
			if o := fa.info.Uses[x]; o != nil {
				return o
			}
			return fa.info.Defs[x]
		case *ast.SelectorExpr:
			e = x.X
		case *ast.IndexExpr:
			e = x.X
		case *ast.StarExpr:
			e = x.X
		case *ast.ParenExpr:
			e = x.X
		case *ast.SliceExpr:
			e = x.X
		default:
			return nil
		}
	}
}

// isTransfer: the statement moves element-derived CONTENT to something that outlives the
// iteration: append(outer, …elem…), outer[k] = …elem…, a Write*/Add*/Push* style call on an
// outer object with an element-derived argument, or returning the element. Scalar bookkeeping
// (min/max, counters, flags) is not a transfer.
func (fa *filterAnalyzer) isTransfer(s ast.Stmt) bool {
	switch x := s.(type) {
	case *ast.AssignStmt:
		if x.Tok == token.DEFINE {
			return false
		}
		for i, l := range x.Lhs {
			o := fa.rootObj(l)
			if o != nil && fa.local[o] && (fa.tainted[o] || fa.fresh[o]) {
				continue // a value owned by this iteration, not an alias of outer state
			}
			var r ast.Expr
			if len(x.Rhs) == len(x.Lhs) {
				r = x.Rhs[i]
			} else if len(x.Rhs) == 1 {
				r = x.Rhs[0]
			}
			if r == nil {
				continue
			}
			// outer = append(outer, tainted…)
			if call, ok := r.(*ast.CallExpr); ok {
				if id, ok := call.Fun.(*ast.Ident); ok && id.Name == "append" && len(call.Args) >= 2 {
					hit := false
					for _, a := range call.Args[1:] {
						if fa.isTainted(a) {
							hit = true
						}
					}
					if hit {
						return true
					}
					continue // appending something else onto an element-owned slice is not a transfer of the element
				}
			}
			// outer[k] = tainted   /  outer.field[k] = tainted
			if _, isIdx := l.(*ast.IndexExpr); isIdx && fa.isTainted(r) {
				return true
			}
			// text accumulation: outer += elem.Text
			if x.Tok == token.ADD_ASSIGN && fa.isTainted(r) {
				if b, ok := fa.info.TypeOf(l).Underlying().(*types.Basic); ok && b.Kind() == types.String {
					return true
				}
			}
			// outer = tainted composite (current = merge(current, elem); currentLines = []Line{line})
			if fa.isTainted(r) {
				switch fa.info.TypeOf(l).Underlying().(type) {
				case *types.Slice, *types.Struct, *types.Pointer, *types.Map:
					return true
				}
			}
		}
	case *ast.ExprStmt:
		call, ok := x.X.(*ast.CallExpr)
		if !ok {
			return false
		}
		anyT := false
		for _, a := range call.Args {
			if fa.isTainted(a) {
				anyT = true
			}
		}
		if !anyT {
			return false
		}
		// a stage function that is handed the element together with the address of an outer accumulator
		// (e.writeLineText(&sb, line)): the element's content goes where the accumulator is
		for _, a := range call.Args {
			if ue, ok := a.(*ast.UnaryExpr); ok && ue.Op == token.AND {
				if o := fa.rootObj(ue.X); o != nil && !(fa.local[o] && (fa.tainted[o] || fa.fresh[o])) {
					switch fa.info.TypeOf(ue.X).Underlying().(type) {
					case *types.Struct, *types.Slice, *types.Map:
						return true
					}
				}
			}
		}
		if sel, ok := call.Fun.(*ast.SelectorExpr); ok {
			if o := fa.rootObj(sel.X); o != nil && !(fa.local[o] && (fa.tainted[o] || fa.fresh[o])) {
				n := sel.Sel.Name
				if strings.HasPrefix(n, "Write") || strings.HasPrefix(n, "Add") || strings.HasPrefix(n, "Push") || strings.HasPrefix(n, "add") || strings.HasPrefix(n, "append") || strings.HasPrefix(n, "Append") || strings.HasPrefix(n, "Set") {
					return true
				}
			}
		}
	case *ast.ReturnStmt:
		for _, r := range x.Results {
			if fa.isTainted(r) {
				switch fa.info.TypeOf(r).Underlying().(type) {
				case *types.Basic:
					continue
				}
				return true
			}
		}
	}
	return false
}

const maxPaths = 256

func (fa *filterAnalyzer) walk(list []ast.Stmt, in []pathState) []pathState {
	cur := in
	for _, s := range list {
		var next []pathState
		for _, p := range cur {
			if p.done {
				next = append(next, p)
				continue
			}
			next = append(next, fa.step(s, p)...)
		}
		if len(next) > maxPaths {
			next = mergePaths(next)
		}
		cur = next
	}
	return cur
}

func mergePaths(ps []pathState) []pathState {
	// keep at most one transferred and the distinct non-transferred paths
	var out []pathState
	seenT := false
	for _, p := range ps {
		if p.transferred {
			if !seenT {
				seenT = true
				out = append(out, p)
			}
			continue
		}
		out = append(out, p)
	}
	if len(out) > maxPaths {
		out = out[:maxPaths]
	}
	return out
}

func clonePath(p pathState) pathState {
	q := p
	q.conds = append([]condLit(nil), p.conds...)
	return q
}

func (fa *filterAnalyzer) step(s ast.Stmt, p pathState) []pathState {
	switch x := s.(type) {
	case *ast.BlockStmt:
		return fa.walk(x.List, []pathState{p})
	case *ast.BranchStmt:
		if x.Tok == token.CONTINUE || x.Tok == token.BREAK || x.Tok == token.GOTO {
			p.done = true
		}
		return []pathState{p}
	case *ast.ReturnStmt:
		if fa.isTransfer(x) {
			p.transferred = true
		}
		p.done = true
		return []pathState{p}
	case *ast.DeclStmt:
		if gd, ok := x.Decl.(*ast.GenDecl); ok {
			for _, sp := range gd.Specs {
				if vs, ok := sp.(*ast.ValueSpec); ok {
					t := false
					for _, v := range vs.Values {
						if fa.isTainted(v) {
							t = true
						}
					}
					for _, n := range vs.Names {
						fa.def(n, t)
					}
				}
			}
		}
		return []pathState{p}
	case *ast.AssignStmt:
		if x.Tok == token.DEFINE {
			t := false
			for _, r := range x.Rhs {
				if fa.isTainted(r) {
					t = true
				}
			}
			for i, l := range x.Lhs {
				fa.def(l, t)
				if i < len(x.Rhs) {
					if id, ok := l.(*ast.Ident); ok {
						if o := fa.info.Defs[id]; o != nil {
							switch rv := x.Rhs[i].(type) {
							case *ast.CompositeLit, *ast.BasicLit:
								fa.fresh[o] = true
							case *ast.CallExpr:
								if fid, ok := rv.Fun.(*ast.Ident); ok && (fid.Name == "make" || fid.Name == "new") {
									fa.fresh[o] = true
								}
							case *ast.Ident:
								if rv.Name == "true" || rv.Name == "false" {
									fa.fresh[o] = true
									p.flags = setFlag(p.flags, o, rv.Name == "true")
								}
							}
						}
					}
				}
			}
			return []pathState{p}
		}
		// flag = true/false
		if len(x.Lhs) == 1 && len(x.Rhs) == 1 {
			if id, ok := x.Lhs[0].(*ast.Ident); ok {
				if rv, ok := x.Rhs[0].(*ast.Ident); ok && (rv.Name == "true" || rv.Name == "false") {
					if o := fa.info.Uses[id]; o != nil {
						p.flags = setFlag(p.flags, o, rv.Name == "true")
					}
				}
			}
		}
		// assignment to a local from a tainted value propagates taint
		for i, l := range x.Lhs {
			if _, isIdent := l.(*ast.Ident); !isIdent {
				continue // a store through a local alias is not a redefinition of the local
			}
			if o := fa.rootObj(l); o != nil && fa.local[o] {
				var r ast.Expr
				if len(x.Rhs) == len(x.Lhs) {
					r = x.Rhs[i]
				} else if len(x.Rhs) == 1 {
					r = x.Rhs[0]
				}
				if r != nil && fa.isTainted(r) {
					fa.tainted[o] = true
				}
			}
		}
		if fa.isTransfer(x) {
			p.transferred = true
		}
		return []pathState{p}
	case *ast.ExprStmt:
		if fa.isTransfer(x) {
			p.transferred = true
			if call, ok := x.X.(*ast.CallExpr); ok {
				for _, a := range call.Args {
					if fa.isTainted(a) && strings.Contains(types.ExprString(a), ".Text") {
						p.textWrites++
					}
				}
			}
		}
		return []pathState{p}
	case *ast.IfStmt:
		if x.Init != nil {
			ps := fa.step(x.Init, p)
			p = ps[0]
		}
		if v, known := fa.flagValue(x.Cond, p); known {
			if v {
				return fa.walk(x.Body.List, []pathState{p})
			}
			if x.Else != nil {
				return fa.step(x.Else, p)
			}
			return []pathState{p}
		}
		pt := clonePath(p)
		pt.conds = append(pt.conds, condLit{x.Cond, true})
		outT := fa.walk(x.Body.List, []pathState{pt})
		pf := clonePath(p)
		pf.conds = append(pf.conds, condLit{x.Cond, false})
		var outF []pathState
		if x.Else != nil {
			outF = fa.step(x.Else, pf)
		} else {
			outF = []pathState{pf}
		}
		return append(outT, outF...)
	case *ast.SwitchStmt, *ast.TypeSwitchStmt:
		var body *ast.BlockStmt
		var tag ast.Expr
		if sw, ok := x.(*ast.SwitchStmt); ok {
			body, tag = sw.Body, sw.Tag
			if sw.Init != nil {
				p = fa.step(sw.Init, p)[0]
			}
		} else {
			ts := x.(*ast.TypeSwitchStmt)
			body = ts.Body
			if as, ok := ts.Assign.(*ast.AssignStmt); ok {
				t := fa.isTainted(as.Rhs[0])
				for _, cc := range body.List {
					if o := fa.info.Implicits[cc]; o != nil {
						fa.local[o] = true
						if t {
							fa.tainted[o] = true
						}
					}
				}
			}
		}
		var out []pathState
		hasDefault := false
		for _, cs := range body.List {
			cc := cs.(*ast.CaseClause)
			pc := clonePath(p)
			if cc.List == nil {
				hasDefault = true
			} else if tag != nil {
				pc.conds = append(pc.conds, condLit{&ast.BinaryExpr{X: tag, Op: token.EQL, Y: cc.List[0]}, true})
			} else if len(cc.List) > 0 {
				pc.conds = append(pc.conds, condLit{cc.List[0], true})
			}
			out = append(out, fa.walk(cc.Body, []pathState{pc})...)
		}
		if !hasDefault {
			pd := clonePath(p)
			if tag != nil {
				pd.conds = append(pd.conds, condLit{&ast.BasicLit{Kind: token.STRING, Value: "\"no case of switch " + types.ExprString(tag) + "\""}, true})
			} else if _, isTS := x.(*ast.TypeSwitchStmt); isTS {
				pd.conds = append(pd.conds, condLit{&ast.BasicLit{Kind: token.STRING, Value: "\"no case of the type switch\""}, true})
			}
			out = append(out, pd)
		}
		return out
	case *ast.ForStmt:
		// inner loop: it may or may not transfer; analyse its body once for transfers
		ps := fa.walk(x.Body.List, []pathState{clonePath(p)})
		anyT := false
		for _, q := range ps {
			if q.transferred {
				anyT = true
			}
		}
		if anyT {
			// the inner loop can transfer, but can also run zero times or never match
			pt := clonePath(p)
			pt.transferred = true
			for _, q := range ps {
				if q.transferred {
					pt.flags = q.flags
				}
			}
			pz := clonePath(p)
			pz.conds = append(pz.conds, condLit{&ast.BasicLit{Kind: token.STRING, Value: "\"inner loop finds no match\""}, true})
			if x.Cond == nil && !hasBreak(x.Body) {
				return []pathState{pt}
			}
			return []pathState{pt, pz}
		}
		return []pathState{p}
	case *ast.RangeStmt:
		t := fa.isTainted(x.X)
		if x.Tok == token.DEFINE {
			if x.Key != nil {
				fa.def(x.Key, t)
			}
			if x.Value != nil {
				fa.def(x.Value, t)
			}
		}
		ps := fa.walk(x.Body.List, []pathState{clonePath(p)})
		anyT := false
		for _, q := range ps {
			if q.transferred {
				anyT = true
			}
		}
		if anyT {
			pt := clonePath(p)
			pt.transferred = true
			for _, q := range ps {
				if q.transferred {
					pt.flags = q.flags
				}
			}
			pz := clonePath(p)
			if t {
				// ranges over the element's own parts: not transferring means the part list is
				// empty (skipped parts are reported by the inner loop's own analysis)
				pz.conds = append(pz.conds, condLit{&ast.BasicLit{Kind: token.STRING, Value: "\"element has no parts\""}, true})
				return []pathState{pt, pz}
			}
			pz.conds = append(pz.conds, condLit{&ast.BasicLit{Kind: token.STRING, Value: "\"inner search finds no match\""}, true})
			return []pathState{pt, pz}
		}
		return []pathState{p}
	case *ast.LabeledStmt:
		return fa.step(x.Stmt, p)
	}
	return []pathState{p}
}

func hasBreak(b *ast.BlockStmt) bool {
	found := false
	ast.Inspect(b, func(n ast.Node) bool {
		if br, ok := n.(*ast.BranchStmt); ok && br.Tok == token.BREAK {
			found = true
		}
		return !found
	})
	return found
}

// emptinessTest: cond (with polarity) says "the element (or a tainted part) is empty".
func (fa *filterAnalyzer) emptinessTest(c condLit) bool {
	e := c.e
	pos := c.pos
	for {
		if pe, ok := e.(*ast.ParenExpr); ok {
			e = pe.X
			continue
		}
		if ue, ok := e.(*ast.UnaryExpr); ok && ue.Op == token.NOT {
			e = ue.X
			pos = !pos
			continue
		}
		break
	}
	isZero := func(x ast.Expr) bool {
		if tv, ok := fa.info.Types[x]; ok && tv.Value != nil {
			s := tv.Value.ExactString()
			return s == "0" || s == `""`
		}
		if id, ok := x.(*ast.Ident); ok && id.Name == "nil" {
			return true
		}
		return false
	}
	measure := func(x ast.Expr) bool { // len(T), T, strings.TrimSpace(T), len(strings.TrimSpace(T)) with T tainted
		return fa.isTainted(x)
	}
	switch x := e.(type) {
	case *ast.BasicLit:
		if pos && x.Value == "\"element has no parts\"" {
			return true
		}
	case *ast.BinaryExpr:
		switch x.Op {
		case token.LOR:
			if pos {
				// reached because one disjunct held: every disjunct must be an emptiness test
				return fa.emptinessTest(condLit{x.X, true}) && fa.emptinessTest(condLit{x.Y, true})
			}
			// !(a||b) = !a && !b : enough that one conjunct says "empty"
			return fa.emptinessTest(condLit{x.X, false}) || fa.emptinessTest(condLit{x.Y, false})
		case token.LAND:
			if pos {
				return fa.emptinessTest(condLit{x.X, true}) || fa.emptinessTest(condLit{x.Y, true})
			}
			return fa.emptinessTest(condLit{x.X, false}) && fa.emptinessTest(condLit{x.Y, false})
		case token.EQL:
			if pos && ((measure(x.X) && isZero(x.Y)) || (measure(x.Y) && isZero(x.X))) {
				return true
			}
		case token.NEQ:
			if !pos && ((measure(x.X) && isZero(x.Y)) || (measure(x.Y) && isZero(x.X))) {
				return true
			}
		case token.GTR:
			if !pos && measure(x.X) && isZero(x.Y) {
				return true
			}
		case token.LSS:
			if !pos && measure(x.Y) && isZero(x.X) {
				return true
			}
		case token.LEQ:
			if pos && measure(x.X) && isZero(x.Y) {
				return true
			}
		}
	case *ast.CallExpr:
		name := types.ExprString(x.Fun)
		if i := strings.LastIndex(name, "."); i >= 0 {
			name = name[i+1:]
		}
		lname := strings.ToLower(name)
		if pos && (strings.Contains(lname, "isempty") || strings.Contains(lname, "whitespaceonly") || strings.Contains(lname, "isblank")) {
			if fa.isTainted(x) {
				return true
			}
		}
	}
	return false
}

func condSignature(info *types.Info, conds []condLit) string {
	set := map[string]bool{}
	for _, c := range conds {
		ast.Inspect(c.e, func(n ast.Node) bool {
			switch x := n.(type) {
			case *ast.SelectorExpr:
				set[x.Sel.Name] = true
			case *ast.CallExpr:
				if f, ok := typeutil.Callee(info, x).(*types.Func); ok {
					set[f.Name()+"()"] = true
				}
			case *ast.BasicLit:
				if x.Kind == token.STRING {
					set[x.Value] = true
				}
			}
			return true
		})
	}
	var ks []string
	for k := range set {
		ks = append(ks, k)
	}
	sort.Strings(ks)
	return strings.Join(ks, ",")
}

// analyseLoops reports, for every range loop of fd whose body transfers its
// element somewhere, the iteration paths that do not.
func analyseLoops(p *eng.Prog, name string, fd *eng.FuncDecl) []loopReport {
	var out []loopReport
	if fd.Decl.Body == nil {
		return nil
	}
	info := fd.Pkg.TypesInfo
	ast.Inspect(fd.Decl.Body, func(n ast.Node) bool {
		rs, ok := n.(*ast.RangeStmt)
		if !ok {
			return true
		}
		t := info.TypeOf(rs.X)
		if t == nil {
			return true
		}
		switch t.Underlying().(type) {
		case *types.Slice, *types.Array:
		default:
			return true
		}
		fa := &filterAnalyzer{info: info, tainted: map[types.Object]bool{}, local: map[types.Object]bool{}, fresh: map[types.Object]bool{}, ranged: rs.X}
		elem := ""
		if rs.Value != nil {
			if id, ok := rs.Value.(*ast.Ident); ok && id.Name != "_" {
				if o := info.Defs[id]; o != nil {
					fa.tainted[o] = true
					fa.local[o] = true
					elem = id.Name
				}
			}
		}
		if rs.Key != nil {
			if id, ok := rs.Key.(*ast.Ident); ok && id.Name != "_" {
				if o := info.Defs[id]; o != nil {
					fa.keyObj = o
					fa.local[o] = true
					if elem == "" {
						elem = types.ExprString(rs.X) + "[" + id.Name + "]"
					}
				}
			}
		}
		if elem == "" {
			return true
		}
		paths := fa.walk(rs.Body.List, []pathState{{}})
		rep := loopReport{Fn: name, Range: rs, Elem: elem}
		for _, q := range paths {
			if q.transferred {
				rep.Transfers++
			}
			if q.textWrites > rep.MaxTextWrites {
				rep.MaxTextWrites = q.textWrites
			}
		}
		if rep.Transfers == 0 {
			return true // not an accumulating loop
		}
		seen := map[string]bool{}
		for _, q := range paths {
			if q.transferred {
				continue
			}
			sp := skipPath{Pos: rs.Pos(), Empty: len(q.conds) > 0}
			anyEmpty := false
			for _, cnd := range q.conds {
				txt := types.ExprString(cnd.e)
				if !cnd.pos {
					txt = "!(" + txt + ")"
				}
				sp.Conds = append(sp.Conds, txt)
				if fa.emptinessTest(cnd) {
					anyEmpty = true
				}
			}
			sp.Empty = anyEmpty
			if len(q.conds) > 0 {
				sp.Pos = q.conds[len(q.conds)-1].e.Pos()
				if !sp.Pos.IsValid() {
					sp.Pos = rs.Pos()
				}
			}
			// the stable key uses only the conditions that are not emptiness tests
			var keyConds []condLit
			for _, cnd := range q.conds {
				if !fa.emptinessTest(cnd) {
					keyConds = append(keyConds, cnd)
				}
			}
			sp.Signature = condSignature(info, keyConds)
			k := sp.Signature + "|" + strings.Join(sp.Conds, "&&")
			if seen[k] {
				continue
			}
			seen[k] = true
			rep.Skips = append(rep.Skips, sp)
		}
		out = append(out, rep)
		return true
	})
	return out
}
