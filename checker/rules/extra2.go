package rules

import (
	"fmt"
	"go/token"
	"go/types"
	"strings"

	"golang.org/x/tools/go/ssa"

	"verif/checker/eng"
)

// parsedFromText reports whether v is (a conversion of) the integer result of strconv.Atoi/ParseInt/ParseUint.
func parsedFromText(v ssa.Value) bool {
	for {
		switch x := v.(type) {
		case *ssa.Convert:
			v = x.X
			continue
		case *ssa.Extract:
			if call, ok := x.Tuple.(*ssa.Call); ok && x.Index == 0 {
				switch eng.CalleeName(call) {
				case "strconv.Atoi", "strconv.ParseInt", "strconv.ParseUint":
					return true
				}
			}
		}
		return false
	}
}

// R2.9 [C02]
func ruleParsedIndex(c *eng.Ctx) {
	const R = "R2.9-PARSED-INDEX"
	c.Rule(R, "a number parsed from document text (strconv.Atoi/ParseInt) that is used directly as a slice or array index is proven >= 0 and < len on every path to the access: a negative or oversized reference in the file panics otherwise", 1, 0)
	for _, fn := range c.P.ModuleFuncs() {
		n := 0
		eng.Instrs(fn, true, func(in ssa.Instruction) {
			var idx, base ssa.Value
			switch x := in.(type) {
			case *ssa.IndexAddr:
				idx, base = x.Index, x.X
			case *ssa.Index:
				idx, base = x.Index, x.X
			default:
				return
			}
			if !parsedFromText(idx) {
				return
			}
			n++
			key := fmt.Sprintf("%s#index%d", eng.FuncName(fn), n)
			blk := in.Block()
			f := in.Parent()
			lo := bounded(f, idx, 0, false, blk, 0)
			hi := eng.GuardedBy(f, blk, func(ft eng.Fact) bool {
				op, x, y, ok := ft.Cmp()
				if !ok {
					return false
				}
				if eng.SameValue(y, idx) && !eng.SameValue(x, idx) {
					x, y = y, x
					op = eng.Swap(op)
				}
				if !eng.SameValue(x, idx) || (op != token.LSS && op != token.LEQ) {
					return false
				}
				call, isCall := y.(*ssa.Call)
				if !isCall {
					return false
				}
				bi, isB := call.Call.Value.(*ssa.Builtin)
				if !isB || bi.Name() != "len" || op != token.LSS {
					return false
				}
				return eng.SameValue(call.Call.Args[0], base)
			})
			var miss []string
			if !lo {
				miss = append(miss, "index >= 0")
			}
			if !hi {
				miss = append(miss, "index < len")
			}
			c.Check(len(miss) == 0, R, key, in.Pos(), "0 <= index < len proven", "a number read from the document indexes a slice without proving "+strings.Join(miss, " and ")+": a crafted reference panics")
		})
	}
}

// R2.8 [C02]
func ruleWrapLoop(c *eng.Ctx) {
	const R = "R2.8-WRAP-LOOP"
	c.Rule(R, "no loop counts an unsigned (or narrower than int) variable up to an inclusive, non-constant bound with `<=`: when the bound is the largest value of the type the counter wraps to zero and the loop never ends (file-controlled character codes reach 0xFFFFFFFF)", 0, 1)
	for _, fn := range c.P.ModuleFuncs() {
		n := 0
		eng.Instrs(fn, true, func(in ssa.Instruction) {
			ifi, ok := in.(*ssa.If)
			if !ok {
				return
			}
			b, ok := ifi.Cond.(*ssa.BinOp)
			if !ok {
				return
			}
			var ctr, bound ssa.Value
			switch b.Op {
			case token.LEQ:
				ctr, bound = b.X, b.Y
			case token.GEQ:
				ctr, bound = b.Y, b.X
			default:
				return
			}
			ph, isInd := eng.Induction(ctr)
			if !isInd || ph == nil {
				return
			}
			bt, ok := ph.Type().Underlying().(*types.Basic)
			if !ok {
				return
			}
			narrow := bt.Info()&types.IsUnsigned != 0 || bt.Kind() == types.Int8 || bt.Kind() == types.Int16 || bt.Kind() == types.Int32
			if !narrow {
				return
			}
			if _, isC := eng.ConstInt(bound); isC {
				return
			}
			// the comparison must control the loop: the block is in a loop and its false successor leaves it
			blk := ifi.Block()
			if !eng.InLoop(blk) || len(blk.Succs) != 2 {
				return
			}
			exits := false
			for _, s := range blk.Succs {
				if !eng.ReachableBlocks([]*ssa.BasicBlock{s}, nil)[blk] {
					exits = true
				}
			}
			if !exits {
				return
			}
			// a bound widened from a narrower type cannot be the maximum of the counter's type
			if cv, isCv := bound.(*ssa.Convert); isCv {
				if from, ok := cv.X.Type().Underlying().(*types.Basic); ok && from.Info()&types.IsInteger != 0 {
					if sizeOfBasic(from) < sizeOfBasic(bt) {
						return
					}
				}
			}
			n++
			c.Viol(R, fmt.Sprintf("%s#loop%d", eng.FuncName(fn), n), b.Pos(), fmt.Sprintf("loop counts a %s up to an inclusive non-constant bound: if the bound is the maximum of the type the counter wraps and the loop does not terminate", bt.Name()))
		})
	}
}

// R5.6 [C05]
func ruleNarrowSum(c *eng.Ctx) {
	const R = "R5.6-NARROW-SUM"
	c.Rule(R, "in the stream filters no sum or product of 8/16-bit values is divided or shifted right before being widened: (left+up)/2 on bytes wraps at 256 and the PNG Average predictor comes out 128 too small", 2, 1)
	for _, fn := range c.P.ModuleFuncs() {
		if fn.Pkg == nil {
			continue
		}
		sp := eng.ShortPath(fn.Pkg.Pkg.Path())
		if sp != "internal/filters" && !strings.Contains(sp, eng.PositivePkg) {
			continue
		}
		n := 0
		eng.Instrs(fn, true, func(in ssa.Instruction) {
			b, ok := in.(*ssa.BinOp)
			if !ok || (b.Op != token.QUO && b.Op != token.SHR) {
				return
			}
			n++
			key := fmt.Sprintf("%s#div%d", eng.FuncName(fn), n)
			inner, isB := b.X.(*ssa.BinOp)
			if !isB || (inner.Op != token.ADD && inner.Op != token.MUL && inner.Op != token.SUB) {
				c.Ok(R, key, b.Pos(), "dividend is not a narrow sum")
				return
			}
			bt, isBasic := inner.Type().Underlying().(*types.Basic)
			if isBasic && (bt.Kind() == types.Uint8 || bt.Kind() == types.Int8 || bt.Kind() == types.Uint16 || bt.Kind() == types.Int16) {
				c.Viol(R, key, b.Pos(), "a "+bt.Name()+" sum is divided/shifted before widening: it wraps first (e.g. the Average predictor for left+up >= 256)")
				return
			}
			c.Ok(R, key, b.Pos(), "sum computed in "+inner.Type().String())
		})
	}
}

func sizeOfBasic(b *types.Basic) int {
	switch b.Kind() {
	case types.Int8, types.Uint8:
		return 1
	case types.Int16, types.Uint16:
		return 2
	case types.Int32, types.Uint32:
		return 4
	}
	return 8
}
