package rules

import (
	"fmt"
	"go/token"
	"go/types"
	"strings"

	"golang.org/x/tools/go/ssa"

	"verif/checker/eng"
)

// parsedFromText reports whether v is (a conversion of) the integer result of strconv.Atoi/ParseInt/ParseUint.
func parsedFromText(v ssa.Value) bool {
	for {
		switch x := v.(type) {
		case *ssa.Convert:
			v = x.X
			continue
		case *ssa.Parameter:
			// the number handed to an accessor of the package (sharedStringAt(idx)): parsed when a caller parsed it
			fn := x.Parent()
			if fn == nil || boundedProg == nil || fn.Object() == nil || fn.Object().Exported() {
				return false
			}
			pi := -1
			for i, p := range fn.Params {
				if p == x {
					pi = i
				}
			}
			for _, g := range boundedProg.ModuleFuncs() {
				if g.Pkg != fn.Pkg {
					continue
				}
				for _, ci := range eng.Calls(g, true, func(_ string, ci ssa.CallInstruction) bool { return eng.StaticCallee(ci) == fn }) {
					args := eng.ArgsWithRecv(ci)
					if pi >= 0 && pi < len(args) {
						if _, isP := args[pi].(*ssa.Parameter); !isP && parsedFromText(args[pi]) {
							return true
						}
					}
				}
			}
			return false
		case *ssa.Extract:
			if call, ok := x.Tuple.(*ssa.Call); ok && x.Index == 0 {
				switch eng.CalleeName(call) {
				case "strconv.Atoi", "strconv.ParseInt", "strconv.ParseUint":
					return true
				}
			}
		}
		return false
	}
}

// R2.9 [C02]
func ruleParsedIndex(c *eng.Ctx) {
	const R = "R2.9-PARSED-INDEX"
	c.Rule(R, "a number parsed from document text (strconv.Atoi/ParseInt) that is used directly as a slice or array index is proven >= 0 and < len on every path to the access: a negative or oversized reference in the file panics otherwise", 1, 0)
	for _, fn := range c.P.ModuleFuncs() {
		n := 0
		eng.Instrs(fn, true, func(in ssa.Instruction) {
			var idx, base ssa.Value
			switch x := in.(type) {
			case *ssa.IndexAddr:
				idx, base = x.Index, x.X
			case *ssa.Index:
				idx, base = x.Index, x.X
			default:
				return
			}
			if !parsedFromText(idx) {
				return
			}
			n++
			key := fmt.Sprintf("%s#index%d", eng.FuncName(fn), n)
			blk := in.Block()
			f := in.Parent()
			// a bounds predicate of the module (inBounds(s, i)) found true establishes both bounds
			viaPred := eng.GuardedBy(f, blk, func(ft eng.Fact) bool {
				call, ok := ft.Cond.(*ssa.Call)
				if !ok || !ft.Pos {
					return false
				}
				si, ii, isP := eng.BoundsPredicate(eng.StaticCallee(call))
				args := eng.ArgsWithRecv(call)
				return isP && si < len(args) && ii < len(args) && eng.SameValue(args[ii], idx) && eng.SameValue(args[si], base)
			})
			lo := viaPred || bounded(f, idx, 0, false, blk, 0)
			hi := viaPred || eng.GuardedBy(f, blk, func(ft eng.Fact) bool {
				op, x, y, ok := ft.Cmp()
				if !ok {
					return false
				}
				if eng.SameValue(y, idx) && !eng.SameValue(x, idx) {
					x, y = y, x
					op = eng.Swap(op)
				}
				if !eng.SameValue(x, idx) || (op != token.LSS && op != token.LEQ) {
					return false
				}
				call, isCall := y.(*ssa.Call)
				if !isCall {
					return false
				}
				bi, isB := call.Call.Value.(*ssa.Builtin)
				if !isB || bi.Name() != "len" || op != token.LSS {
					return false
				}
				return eng.SameValue(call.Call.Args[0], base)
			})
			var miss []string
			if !lo {
				miss = append(miss, "index >= 0")
			}
			if !hi {
				miss = append(miss, "index < len")
			}
			c.Check(len(miss) == 0, R, key, in.Pos(), "0 <= index < len proven", "a number read from the document indexes a slice without proving "+strings.Join(miss, " and ")+": a crafted reference panics")
		})
	}
}

// R2.8 [C02]
func ruleWrapLoop(c *eng.Ctx) {
	const R = "R2.8-WRAP-LOOP"
	c.Rule(R, "no loop counts an unsigned (or narrower than int) variable up to an inclusive, non-constant bound with `<=`: when the bound is the largest value of the type the counter wraps to zero and the loop never ends (file-controlled character codes reach 0xFFFFFFFF)", 0, 1)
	for _, fn := range c.P.ModuleFuncs() {
		n := 0
		eng.Instrs(fn, true, func(in ssa.Instruction) {
			ifi, ok := in.(*ssa.If)
			if !ok {
				return
			}
			b, ok := ifi.Cond.(*ssa.BinOp)
			if !ok {
				return
			}
			var ctr, bound ssa.Value
			switch b.Op {
			case token.LEQ:
				ctr, bound = b.X, b.Y
			case token.GEQ:
				ctr, bound = b.Y, b.X
			default:
				return
			}
			ph, isInd := eng.Induction(ctr)
			if !isInd || ph == nil {
				return
			}
			bt, ok := ph.Type().Underlying().(*types.Basic)
			if !ok {
				return
			}
			narrow := bt.Info()&types.IsUnsigned != 0 || bt.Kind() == types.Int8 || bt.Kind() == types.Int16 || bt.Kind() == types.Int32
			if !narrow {
				return
			}
			if _, isC := eng.ConstInt(bound); isC {
				return
			}
			// the comparison must control the loop: the block is in a loop and its false successor leaves it
			blk := ifi.Block()
			if !eng.InLoop(blk) || len(blk.Succs) != 2 {
				return
			}
			exits := false
			for _, s := range blk.Succs {
				if !eng.ReachableBlocks([]*ssa.BasicBlock{s}, nil)[blk] {
					exits = true
				}
			}
			if !exits {
				return
			}
			// a bound widened from a narrower type cannot be the maximum of the counter's type
			if cv, isCv := bound.(*ssa.Convert); isCv {
				if from, ok := cv.X.Type().Underlying().(*types.Basic); ok && from.Info()&types.IsInteger != 0 {
					if sizeOfBasic(from) < sizeOfBasic(bt) {
						return
					}
				}
			}
			// a bound that a dominating test keeps at or below a constant (if hi-lo > 0xFFFF { return }) cannot be the
			// maximum of the type either
			limited := eng.GuardedBy(fn, blk, func(f eng.Fact) bool {
				op, x, y, ok := f.Cmp()
				if !ok {
					return false
				}
				for _, side := range [][2]ssa.Value{{x, y}, {y, x}} {
					if side[0] != bound && !eng.SameValue(side[0], bound) {
						continue
					}
					k, isC := eng.ConstInt(side[1])
					if !isC || k < 0 || k >= 1<<31 {
						continue
					}
					o := op
					if side[0] == y {
						o = eng.Swap(op)
					}
					if o == token.LEQ || o == token.LSS || o == token.EQL {
						return true
					}
				}
				return false
			})
			if limited {
				return
			}
			n++
			c.Viol(R, fmt.Sprintf("%s#loop%d", eng.FuncName(fn), n), b.Pos(), fmt.Sprintf("loop counts a %s up to an inclusive non-constant bound: if the bound is the maximum of the type the counter wraps and the loop does not terminate", bt.Name()))
		})
	}
}

// R5.6 [C05]
func ruleNarrowSum(c *eng.Ctx) {
	const R = "R5.6-NARROW-SUM"
	c.Rule(R, "in the stream filters no sum or product of 8/16-bit values is divided or shifted right before being widened: (left+up)/2 on bytes wraps at 256 and the PNG Average predictor comes out 128 too small", 2, 1)
	for _, fn := range c.P.ModuleFuncs() {
		if fn.Pkg == nil {
			continue
		}
		sp := eng.ShortPath(fn.Pkg.Pkg.Path())
		if sp != "internal/filters" && !strings.Contains(sp, eng.PositivePkg) {
			continue
		}
		n := 0
		eng.Instrs(fn, true, func(in ssa.Instruction) {
			b, ok := in.(*ssa.BinOp)
			if !ok || (b.Op != token.QUO && b.Op != token.SHR) {
				return
			}
			n++
			key := fmt.Sprintf("%s#div%d", eng.FuncName(fn), n)
			inner, isB := b.X.(*ssa.BinOp)
			if !isB || (inner.Op != token.ADD && inner.Op != token.MUL && inner.Op != token.SUB) {
				c.Ok(R, key, b.Pos(), "dividend is not a narrow sum")
				return
			}
			bt, isBasic := inner.Type().Underlying().(*types.Basic)
			if isBasic && (bt.Kind() == types.Uint8 || bt.Kind() == types.Int8 || bt.Kind() == types.Uint16 || bt.Kind() == types.Int16) {
				c.Viol(R, key, b.Pos(), "a "+bt.Name()+" sum is divided/shifted before widening: it wraps first (e.g. the Average predictor for left+up >= 256)")
				return
			}
			c.Ok(R, key, b.Pos(), "sum computed in "+inner.Type().String())
		})
	}
}

func sizeOfBasic(b *types.Basic) int {
	switch b.Kind() {
	case types.Int8, types.Uint8:
		return 1
	case types.Int16, types.Uint16:
		return 2
	case types.Int32, types.Uint32:
		return 4
	}
	return 8
}

// R7.3c [C07]
func ruleNFCTotal(c *eng.Ctx) {
	const R = "R7.3c-NFC-TOTAL"
	c.Rule(R, "font.NormalizeUnicode returns norm.NFC.String(s) on every path, or s itself only where norm.NFC.IsNormalString(s) (or emptiness) was tested: any other shortcut returns text that is not in NFC (singleton and compatibility decompositions have no combining mark)", 1, 0)
	fn := c.P.Func("font.NormalizeUnicode")
	if fn == nil {
		c.Undec(R, "font.NormalizeUnicode", token.NoPos, "anchor not found")
		return
	}
	for i, r := range eng.Returns(fn) {
		key := fmt.Sprintf("font.NormalizeUnicode#return%d", i+1)
		v := r.Results[0]
		if call, ok := v.(*ssa.Call); ok && strings.HasSuffix(eng.CalleeName(call), "norm.Form.String") {
			c.Ok(R, key, r.Pos(), "normalised")
			continue
		}
		guarded := eng.GuardedBy(fn, r.Block(), func(f eng.Fact) bool {
			if call, ok := f.Cond.(*ssa.Call); ok && f.Pos && strings.HasSuffix(eng.CalleeName(call), "norm.Form.IsNormalString") {
				return true
			}
			op, x, y, ok := f.Cmp()
			if ok && op == token.EQL {
				for _, s := range []ssa.Value{x, y} {
					if cs, isS := eng.ConstString(s); isS && cs == "" {
						return true
					}
					if k, isK := eng.ConstInt(s); isK && k == 0 {
						return true
					}
				}
			}
			return false
		})
		c.Check(guarded, R, key, r.Pos(), "returned unchanged only when already normal", "a return path hands back the text without NFC normalisation and without testing that it is already normal")
	}
}

// R7.7 [C07]
func ruleDecodeNotMemoised(c *eng.Ctx) {
	const R = "R7.7-DECODE-NOT-MEMOISED"
	c.Rule(R, "the text of a shown string is the result of decoding its bytes with the font bound to the resource name at that moment: it does not come out of a map of earlier results (resource names are rebound per page and per Form XObject, so a cache keyed by name and bytes returns another font's decoding)", 1, 0)
	fn := c.P.Func("text.(*Extractor).showText")
	if fn == nil {
		c.Undec(R, "text.(*Extractor).showText", token.NoPos, "anchor not found")
		return
	}
	cluster := eng.Cluster(fn, 2)
	n := 0
	var bad []string
	eng.Instrs(fn, false, func(in ssa.Instruction) {
		st, ok := in.(*ssa.Store)
		if !ok {
			return
		}
		fr, ok := eng.AsField(st.Addr)
		if !ok || fr.Field != "Text" || !strings.HasSuffix(fr.Struct, "text.TextFragment") {
			return
		}
		n++
		for v := range eng.SliceInter(st.Val, func(*ssa.Call) bool { return true }, cluster) {
			lk, ok := v.(*ssa.Lookup)
			if !ok {
				continue
			}
			mt, ok := lk.X.Type().Underlying().(*types.Map)
			if !ok {
				continue
			}
			switch et := mt.Elem().Underlying().(type) {
			case *types.Basic:
				if et.Info()&types.IsString != 0 {
					bad = append(bad, "map lookup at "+c.P.Pos(lk.Pos()))
				}
			case *types.Map:
				bad = append(bad, "map lookup at "+c.P.Pos(lk.Pos()))
			}
		}
	})
	c.Check(n > 0 && len(bad) == 0, R, "text.(*Extractor).showText#Text", fn.Pos(), "decoded on the spot", "the fragment text comes from a table of earlier results ("+strings.Join(dedupStr(bad), ", ")+")")
}

// R6.6 [C06]
func ruleDictKeepsAll(c *eng.Ctx) {
	const R = "R6.6-DICT-KEEPS-ALL"
	c.Rule(R, "both dictionary parsers store every key/value pair they parsed: the store is not conditional on what kind of value it is (dropping null or empty values makes the two parsers disagree and loses entries on re-serialisation)", 2, 0)
	for _, name := range []string{"core.(*Parser).parseDict", "contentstream.(*Parser).parseDict"} {
		fn := c.P.Func(name)
		if fn == nil {
			c.Undec(R, name, token.NoPos, "anchor not found")
			continue
		}
		var upd []*ssa.MapUpdate
		eng.Instrs(fn, false, func(in ssa.Instruction) {
			if mu, ok := in.(*ssa.MapUpdate); ok {
				upd = append(upd, mu)
			}
		})
		if len(upd) == 0 {
			c.Viol(R, name, fn.Pos(), "no dictionary entry is stored")
			continue
		}
		bad := ""
		for _, mu := range upd {
			doms, _ := eng.DominatingIfs([]*ssa.Function{fn}, mu)
			for _, ifi := range doms {
				for v := range eng.Slice(ifi.Cond, nil) {
					ta, ok := v.(*ssa.TypeAssert)
					if !ok {
						continue
					}
					// a type test applied to the value that is about to be stored
					for w := range eng.Slice(mu.Value, nil) {
						if w == ta.X {
							bad = "the store at " + c.P.Pos(mu.Pos()) + " depends on a type test of the value at " + c.P.Pos(ifi.Pos())
						}
					}
					if ta.X == mu.Value {
						bad = "the store at " + c.P.Pos(mu.Pos()) + " depends on a type test of the value at " + c.P.Pos(ifi.Pos())
					}
				}
			}
		}
		c.Check(bad == "", R, name, fn.Pos(), "every parsed entry is stored", bad+": entries with some kinds of value are silently dropped")
	}
}

// R10.8 [C10]
func ruleFilterPageIndex(c *eng.Ctx) {
	const R = "R10.8-FILTER-PAGE-INDEX"
	c.Rule(R, "every call of HeaderFooterResult.FilterFragments in the Extractor passes the source page index of the page at hand (an element of the resolved page list or the page record's index), never the position inside the selection and never a 1-based page number: the detected regions are keyed by 0-based source page index", 6, 0)
	for _, fn := range c.P.ModuleFuncs() {
		if fn.Pkg == nil || eng.ShortPath(fn.Pkg.Pkg.Path()) != "" {
			continue
		}
		n := 0
		for _, ci := range eng.CallsNamed(fn, true, "layout.(*HeaderFooterResult).FilterFragments") {
			n++
			arg := ci.Common().Args[1]
			key := fmt.Sprintf("%s#FilterFragments%d", eng.FuncName(fn), n)
			_, isInd := eng.Induction(arg)
			_, isConst := eng.ConstInt(arg)
			// any arithmetic on the way (index+1: a 1-based page number) is not the 0-based source index either
			derivedFromCounter := false
			if _, ok := arg.(*ssa.BinOp); ok {
				derivedFromCounter = true
			}
			c.Check(!isInd && !isConst && !derivedFromCounter, R, key, ci.Pos(), "page index is the source page number", "the page index passed to the header/footer filter is a loop position or a computed (1-based) number, not the 0-based source page index: the regions of another page are applied")
		}
	}
}

// R4.6 [C04, C01]
func ruleXRefStreamCursor(c *eng.Ctx) {
	const R = "R4.6-XREF-STREAM-CURSOR"
	c.Rule(R, "in parseXRefStream the position at which an entry record is read depends on a value that accumulates across ALL /Index subsections (a variable carried by the outer subsection loop whose next value depends on its previous one): a position computed from the entry number inside the current subsection alone re-reads the first subsection's records for every later subsection", 1, 0)
	fn := c.P.Func("core.(*XRefParser).parseXRefStream")
	if fn == nil {
		c.Undec(R, "core.(*XRefParser).parseXRefStream", token.NoPos, "anchor not found")
		return
	}
	calls := eng.CallsNamed(fn, false, "core.(*XRefParser).parseXRefStreamEntry")
	if len(calls) == 0 {
		// the table-building loop may have been moved into a stage of its own
		for _, h := range eng.Cluster(fn, 2) {
			if cs := eng.CallsNamed(h, false, "core.(*XRefParser).parseXRefStreamEntry"); len(cs) > 0 {
				calls, fn = cs, h
				break
			}
		}
	}
	if len(calls) == 0 {
		c.Undec(R, "core.(*XRefParser).parseXRefStream#entry-read", fn.Pos(), "no call of parseXRefStreamEntry found")
		return
	}
	isHeader := func(b *ssa.BasicBlock) bool {
		for _, p := range b.Preds {
			if b.Dominates(p) {
				return true
			}
		}
		return false
	}
	for i, ci := range calls {
		key := fmt.Sprintf("core.(*XRefParser).parseXRefStream#entry-read%d", i+1)
		// outermost loop header around the call
		var outer *ssa.BasicBlock
		for b := ci.Block(); b != nil; b = b.Idom() {
			if isHeader(b) && eng.ReachableBlocks([]*ssa.BasicBlock{ci.Block()}, nil)[b] {
				outer = b
			}
		}
		if outer == nil {
			c.Viol(R, key, ci.Pos(), "the entry read is not inside the loop over /Index subsections")
			continue
		}
		// the cursor: the low bound of data[pos:], or the remainder slice itself (rest = rest[n:])
		var pos ssa.Value = ci.Common().Args[1]
		if sl, ok := pos.(*ssa.Slice); ok && sl.Low != nil {
			if _, isPhi := sl.X.(*ssa.Phi); !isPhi {
				pos = sl.Low
			}
		}
		ok := false
		// arithmetic dependence only (sums, products, conversions, phis): a value that merely selects
		// which table element is loaded (the subsection index) is not a cursor
		arith := func(v ssa.Value) map[ssa.Value]bool {
			seen := map[ssa.Value]bool{}
			var walk func(ssa.Value)
			walk = func(x ssa.Value) {
				if x == nil || seen[x] {
					return
				}
				seen[x] = true
				switch y := x.(type) {
				case *ssa.BinOp:
					walk(y.X)
					walk(y.Y)
				case *ssa.Convert:
					walk(y.X)
				case *ssa.Slice:
					walk(y.X)
					walk(y.Low)
				case *ssa.Phi:
					for _, e := range y.Edges {
						walk(e)
					}
				}
			}
			walk(v)
			return seen
		}
		if pos != nil {
			for v := range arith(pos) {
				ph, isPhi := v.(*ssa.Phi)
				if !isPhi || ph.Block() != outer {
					continue
				}
				for k, e := range ph.Edges {
					if !outer.Dominates(outer.Preds[k]) {
						continue // entry edge
					}
					if arith(e)[ssa.Value(ph)] {
						ok = true // the next value depends on the previous one
					}
				}
			}
		}
		c.Check(ok, R, key, ci.Pos(), "read position accumulates over all subsections", "the record position does not accumulate across /Index subsections: entries of the second and later subsections are read from the wrong records")
	}
}

// R5.7 [C05]
func ruleA85Constants(c *eng.Ctx) {
	const R = "R5.7-A85-CONSTANTS"
	c.Rule(R, "the ASCII85 decoder uses the constants of the encoding: radix 85, digit offset '!' (33), the 'z' shortcut (122), the end marker '~' (126), and 84 (= 'u'-'!') as the padding digit of a short final group: padding with zero instead yields wrong trailing bytes for every stream whose length is not a multiple of four", 5, 0)
	fn := c.P.Func("internal/filters.ASCII85Decode")
	if fn == nil {
		c.Undec(R, "filters.ASCII85Decode", token.NoPos, "anchor not found")
		return
	}
	seen := map[int64]bool{}
	for _, h := range eng.Cluster(fn, 2) {
		eng.Instrs(h, true, func(in ssa.Instruction) {
			for _, op := range in.Operands(nil) {
				if op == nil || *op == nil {
					continue
				}
				if k, ok := eng.ConstInt(*op); ok {
					seen[k] = true
				}
			}
		})
	}
	for _, w := range []struct {
		k    int64
		what string
	}{{85, "radix 85"}, {33, "digit offset '!'"}, {122, "'z' shortcut for four zero bytes"}, {126, "end marker '~'"}, {84, "padding digit 84 for a short final group"}} {
		c.Check(seen[w.k], R, fmt.Sprintf("filters.ASCII85Decode#const %d", w.k), fn.Pos(), w.what, "the decoder no longer uses "+w.what+": streams that need it decode to wrong bytes")
	}
}

// R13.5 [C13, C12]
func ruleSplitLoopDrains(c *eng.Ctx) {
	const R = "R13.5-SPLIT-LOOP-DRAINS"
	c.Rule(R, "SplitToSize leaves its loop only when nothing remains or right after appending what remains: an exit on any other condition (a piece counter, a size estimate) silently drops the tail of the text", 2, 0)
	fn := c.P.Func("rag.(*SizeCalculator).SplitToSize")
	if fn == nil {
		c.Undec(R, "rag.(*SizeCalculator).SplitToSize", token.NoPos, "anchor not found")
		return
	}
	if valueCursorLoop(fn) {
		c.Ok(R, "rag.(*SizeCalculator).SplitToSize#exit", fn.Pos(), notEvaluatedValueCursor)
		c.Ok(R, "rag.(*SizeCalculator).SplitToSize#exit-b", fn.Pos(), notEvaluatedValueCursor)
		return
	}
	// the loop header: a block with a loop-carried phi of string type (the remaining text)
	var hdr *ssa.BasicBlock
	var rem *ssa.Phi
	eng.Instrs(fn, false, func(in ssa.Instruction) {
		ph, ok := in.(*ssa.Phi)
		if !ok || !isLoopCarried(ph) || hdr != nil {
			return
		}
		if bt, ok := ph.Type().Underlying().(*types.Basic); ok && bt.Info()&types.IsString != 0 {
			hdr, rem = ph.Block(), ph
		}
	})
	// or the remaining text is a string field of a local state struct whose length the loop header tests
	var stBase ssa.Value
	stField := -1
	fieldLoad := func(v ssa.Value, base ssa.Value, field int) bool {
		u, ok := v.(*ssa.UnOp)
		if !ok || u.Op != token.MUL {
			return false
		}
		fa, ok := u.X.(*ssa.FieldAddr)
		return ok && fa.X == base && fa.Field == field
	}
	if hdr == nil {
		for _, b := range fn.Blocks {
			iff, ok := lastIf(b)
			if !ok || !eng.InLoop(b) || stBase != nil {
				continue
			}
			for w := range eng.Slice(iff.Cond, nil) {
				call, ok := w.(*ssa.Call)
				if !ok || eng.CalleeName(call) != "builtin:len" {
					continue
				}
				u, ok := call.Call.Args[0].(*ssa.UnOp)
				if !ok || u.Op != token.MUL {
					continue
				}
				if bt, ok := u.Type().Underlying().(*types.Basic); !ok || bt.Info()&types.IsString == 0 {
					continue
				}
				if fa, ok := u.X.(*ssa.FieldAddr); ok {
					if _, isAl := fa.X.(*ssa.Alloc); isAl {
						hdr, stBase, stField = b, fa.X, fa.Field
					}
				}
			}
		}
	}
	if hdr == nil {
		c.Undec(R, "rag.(*SizeCalculator).SplitToSize#loop", fn.Pos(), "no loop over a remaining string found")
		return
	}
	inLoop := map[*ssa.BasicBlock]bool{}
	fromHdr := eng.ReachableBlocks([]*ssa.BasicBlock{hdr}, nil)
	for _, b := range fn.Blocks {
		if fromHdr[b] && eng.ReachableBlocks([]*ssa.BasicBlock{b}, nil)[hdr] {
			inLoop[b] = true
		}
	}
	inLoop[hdr] = true
	isRemOf := func(v ssa.Value, base ssa.Value) bool {
		for w := range eng.Slice(v, nil) {
			if rem != nil && w == ssa.Value(rem) {
				return true
			}
			if rem == nil && fieldLoad(w, base, stField) {
				return true
			}
		}
		return false
	}
	isRem := func(v ssa.Value) bool { return isRemOf(v, stBase) }
	n := 0
	appendsRestOf := func(blk *ssa.BasicBlock, base ssa.Value) bool {
		for _, in := range blk.Instrs {
			if call, ok := in.(*ssa.Call); ok {
				if bi, isB := call.Call.Value.(*ssa.Builtin); isB && bi.Name() == "append" && len(call.Call.Args) == 2 {
					if isRemOf(call.Call.Args[1], base) {
						return true
					}
				}
			}
		}
		return false
	}
	appendsRest := func(blk *ssa.BasicBlock) bool { return appendsRestOf(blk, stBase) }
	// stepStops: the exit is taken because a step method of the state struct returned false, and that
	// method returns false only after appending what remains
	stepStops := func(f eng.Fact) bool {
		if rem != nil {
			return false
		}
		cond, want := f.Cond, f.Pos
		if u, ok := cond.(*ssa.UnOp); ok && u.Op == token.NOT {
			cond, want = u.X, !want
		}
		call, ok := cond.(*ssa.Call)
		if !ok || want {
			return false
		}
		g := eng.StaticCallee(call)
		if g == nil || len(g.Blocks) == 0 || len(g.Params) == 0 || len(call.Call.Args) == 0 || call.Call.Args[0] != stBase {
			return false
		}
		base := ssa.Value(g.Params[0])
		nf := 0
		for _, r := range eng.Returns(g) {
			rv := eng.ReturnValues(r)
			if len(rv) != 1 {
				return false
			}
			if k, ok := rv[0].(*ssa.Const); ok && k.Value != nil && k.Value.String() == "true" {
				continue
			}
			nf++
			okR := false
			for d := r.Block(); d != nil; d = d.Idom() {
				if appendsRestOf(d, base) {
					okR = true
					break
				}
			}
			if !okR {
				return false
			}
		}
		return nf > 0
	}
	var loopBlocks []*ssa.BasicBlock
	for _, b := range fn.Blocks { // block order: stable keys
		if inLoop[b] {
			loopBlocks = append(loopBlocks, b)
		}
	}
	for _, b := range loopBlocks {
		for si, s := range b.Succs {
			if inLoop[s] {
				continue
			}
			n++
			key := fmt.Sprintf("rag.(*SizeCalculator).SplitToSize#exit%d", n)
			pos := fn.Pos()
			if len(b.Instrs) > 0 {
				pos = b.Instrs[len(b.Instrs)-1].Pos()
			}
			// (a) the exit is taken because the remaining text is empty
			drained := false
			if f, ok := eng.EdgeFact(eng.Edge{From: b, Succ: si}); ok {
				if stepStops(f) {
					drained = true
				}
				if _, x, y, ok := f.Cmp(); ok {
					for _, side := range []ssa.Value{x, y} {
						if call, isCall := side.(*ssa.Call); isCall {
							if bi, isB := call.Call.Value.(*ssa.Builtin); isB && bi.Name() == "len" && isRem(call.Call.Args[0]) {
								drained = true
							}
						}
						if isRem(side) {
							if _, isS := eng.ConstString(y); isS {
								drained = true
							}
						}
					}
				}
			}
			// (b) what remains is appended on the way out: in the block the exit edge leads to (`append; break`)
			// or in a block of this iteration that dominates the exit
			if !drained {
				for t, steps := s, 0; t != nil && steps < 3; steps++ {
					if appendsRest(t) {
						drained = true
					}
					if len(t.Succs) != 1 {
						break
					}
					t = t.Succs[0]
				}
				for d := b; d != nil && inLoop[d] && !drained; d = d.Idom() {
					if appendsRest(d) {
						drained = true
					}
					if d == hdr {
						break
					}
				}
			}
			c.Check(drained, R, key, pos, "exit with nothing left or after appending the rest", "the split loop can stop while text remains and without appending it: the tail of a long paragraph is dropped")
		}
	}
	if n == 0 {
		c.Undec(R, "rag.(*SizeCalculator).SplitToSize#loop", fn.Pos(), "loop without exit")
	}
}

// R13.6 [C13]
func ruleHardLimitGuard(c *eng.Ctx) {
	const R = "R13.6-HARD-LIMIT-GUARD"
	c.Rule(R, "SplitToSize does not cut at the raw result of the boundary search: the result is compared with the position of the hard maximum (derived from config.Max) and replaced by a break opportunity at or before it when it lies beyond (the searches look up to 100 bytes forward and accept semantic boundaries 25% past the target)", 2, 0)
	fn := c.P.Func("rag.(*SizeCalculator).SplitToSize")
	if fn == nil {
		c.Undec(R, "rag.(*SizeCalculator).SplitToSize", token.NoPos, "anchor not found")
		return
	}
	var search *ssa.Call
	hosts := []*ssa.Function{fn}
	if lp := findSplitLoop(fn); lp != nil {
		hosts = lp.funcs()
	}
	if valueCursorLoop(fn) {
		c.Ok(R, "rag.(*SizeCalculator).SplitToSize#compared-with-max", fn.Pos(), notEvaluatedValueCursor)
		c.Ok(R, "rag.(*SizeCalculator).SplitToSize#cut", fn.Pos(), notEvaluatedValueCursor)
		return
	}
	for _, h := range hosts {
		for _, ci := range eng.CallsNamed(h, false, "rag.(*SizeCalculator).FindSplitPointAt") {
			if call, ok := ci.(*ssa.Call); ok && search == nil {
				search, fn = call, h
			}
		}
	}
	if search == nil {
		// the search may be the inner part of FindSplitPointAt, called with the position computed once: a method of the
		// calculator that FindSplitPointAt itself forwards to
		if fsp := c.P.Func("rag.(*SizeCalculator).FindSplitPointAt"); fsp != nil {
			inner := map[*ssa.Function]bool{}
			for _, ci := range eng.Calls(fsp, false, func(string, ssa.CallInstruction) bool { return true }) {
				if g := eng.StaticCallee(ci); g != nil && g.Pkg == fsp.Pkg && g.Signature.Recv() != nil {
					inner[g] = true
				}
			}
			for _, h := range hosts {
				for _, ci := range eng.Calls(h, false, func(string, ssa.CallInstruction) bool { return true }) {
					if call, ok := ci.(*ssa.Call); ok && search == nil && inner[eng.StaticCallee(ci)] && strings.Contains(strings.ToLower(eng.StaticCallee(ci).Name()), "split") {
						search, fn = call, h
					}
				}
			}
		}
	}
	if search == nil {
		c.Undec(R, "rag.(*SizeCalculator).SplitToSize#search", fn.Pos(), "no call of FindSplitPointAt")
		return
	}
	// (1) the search result is compared with a position derived from config.Max
	compared := false
	eng.Instrs(fn, false, func(in ssa.Instruction) {
		b, ok := in.(*ssa.BinOp)
		if !ok {
			return
		}
		switch b.Op {
		case token.GTR, token.GEQ, token.LSS, token.LEQ:
		default:
			return
		}
		for _, s := range [][2]ssa.Value{{b.X, b.Y}, {b.Y, b.X}} {
			if s[0] != ssa.Value(search) {
				continue
			}
			for v := range eng.Slice(s[1], func(*ssa.Call) bool { return true }) {
				if fr, ok := eng.AsField(v); ok && fr.Field == "Max" {
					compared = true
				}
			}
		}
	})
	c.Check(compared, R, "rag.(*SizeCalculator).SplitToSize#compared-with-max", search.Pos(), "search result compared with the hard maximum", "the boundary search result is never compared with the position of the hard maximum: a boundary found after it is used as it is")
	// (2) the cut position is not the raw search result
	raw := false
	n := 0
	eng.Instrs(fn, false, func(in ssa.Instruction) {
		sl, ok := in.(*ssa.Slice)
		if !ok {
			return
		}
		if bt, ok := sl.X.Type().Underlying().(*types.Basic); !ok || bt.Info()&types.IsString == 0 {
			return
		}
		for _, bnd := range []ssa.Value{sl.Low, sl.High} {
			if bnd == nil {
				continue
			}
			n++
			if bnd == ssa.Value(search) {
				raw = true
			}
		}
	})
	c.Check(n > 0 && !raw, R, "rag.(*SizeCalculator).SplitToSize#cut", search.Pos(), "the text is cut at the guarded position", "the text is cut at the raw search result")
}

// R12.9 [C12]
func ruleSectionPathChain(c *eng.Ctx) {
	const R = "R12.9-SECTION-PATH"
	c.Rule(R, "the element-walking chunker maintains the section path with the level of each entry: entering a heading closes every open entry whose level is the same or deeper (a loop over the recorded levels, not a count of entries, so skipped levels work) and the new path gets fresh storage (chunks already emitted keep the slice they were given)", 2, 0)
	page := c.P.Func("rag.(*DocumentChunker).chunkPage")
	if page == nil {
		c.Undec(R, "rag.(*DocumentChunker).chunkPage", token.NoPos, "anchor not found")
		return
	}
	// the function(s) chunkPage calls with the running path (a *[]string argument)
	var pushers []*ssa.Function
	seen := map[*ssa.Function]bool{}
	for _, ci := range eng.Calls(page, true, func(string, ssa.CallInstruction) bool { return true }) {
		h := eng.StaticCallee(ci)
		if h == nil || !eng.InModule(h) || h.Blocks == nil || seen[h] {
			continue
		}
		for _, p := range h.Params {
			if pt, ok := p.Type().Underlying().(*types.Pointer); ok {
				if st, ok := pt.Elem().Underlying().(*types.Slice); ok {
					if bt, ok := st.Elem().Underlying().(*types.Basic); ok && bt.Info()&types.IsString != 0 {
						writes := false
						eng.Instrs(h, false, func(in ssa.Instruction) {
							if s, ok := in.(*ssa.Store); ok && s.Addr == ssa.Value(p) {
								writes = true
							}
						})
						if writes {
							seen[h] = true
							pushers = append(pushers, h)
						}
					}
				}
			}
		}
	}
	if len(pushers) == 0 {
		c.Viol(R, "rag.(*DocumentChunker).chunkPage#path-update", page.Pos(), "chunkPage does not hand its running section path to a function that updates it")
		return
	}
	for _, h := range pushers {
		name := eng.FuncName(h)
		// (a) fresh storage
		freshAll, stores := true, 0
		var pathParam ssa.Value
		eng.Instrs(h, false, func(in ssa.Instruction) {
			s, ok := in.(*ssa.Store)
			if !ok {
				return
			}
			par, isPar := s.Addr.(*ssa.Parameter)
			if !isPar {
				return
			}
			pt, ok := par.Type().Underlying().(*types.Pointer)
			if !ok {
				return
			}
			st, ok := pt.Elem().Underlying().(*types.Slice)
			if !ok {
				return
			}
			if bt, ok := st.Elem().Underlying().(*types.Basic); !ok || bt.Info()&types.IsString == 0 {
				return
			}
			pathParam = par
			stores++
			// popping (a re-slice of the old path) shares storage by design; growing must not
			if call, ok := s.Val.(*ssa.Call); ok {
				if bi, ok := call.Call.Value.(*ssa.Builtin); ok && bi.Name() == "append" {
					if !eng.IsFresh(call.Call.Args[0]) {
						freshAll = false
					}
				}
			}
		})
		c.Check(stores > 0 && freshAll, R, name+"#fresh-path", h.Pos(), "a grown path gets its own storage", "the section path is extended in place: a chunk emitted earlier shares the backing array and sees its last entry replaced by the next sibling heading")
		_ = pathParam
		// (b) closing by recorded levels: a loop that compares an element of an []int (through a *[]int parameter) with the new level
		byLevel := false
		eng.Instrs(h, false, func(in ssa.Instruction) {
			b, ok := in.(*ssa.BinOp)
			if !ok || !eng.InLoop(b.Block()) {
				return
			}
			switch b.Op {
			case token.GEQ, token.GTR, token.LSS, token.LEQ:
			default:
				return
			}
			for _, side := range []ssa.Value{b.X, b.Y} {
				ld, ok := side.(*ssa.UnOp)
				if !ok || ld.Op != token.MUL {
					continue
				}
				ia, ok := ld.X.(*ssa.IndexAddr)
				if !ok {
					continue
				}
				if st, ok := ia.X.Type().Underlying().(*types.Slice); ok {
					if bt, ok := st.Elem().Underlying().(*types.Basic); ok && bt.Info()&types.IsInteger != 0 {
						byLevel = true
					}
				}
			}
		})
		c.Check(byLevel, R, name+"#close-by-level", h.Pos(), "open sections are closed by comparing their recorded level", "open sections are closed by counting path entries instead of comparing the heading level of each entry: with skipped levels (H1, H3, H3) the second H3 is nested under the first")
	}
}
