package rules

import (
	"fmt"
	"go/token"
	"go/types"
	"strings"

	"golang.org/x/tools/go/ssa"

	"verif/checker/eng"
)

// Round 9 rules, second part.

// innermostLoopOf: the header of the innermost natural loop whose body holds b (nil when b is in no loop).
func innermostLoopOf(b *ssa.BasicBlock) *ssa.BasicBlock {
	var best *ssa.BasicBlock
	bestSize := 0
	for _, h := range b.Parent().Blocks {
		back := false
		for _, p := range h.Preds {
			if h.Dominates(p) {
				back = true
			}
		}
		if !back {
			continue
		}
		body := loopBody(h)
		if !body[b] {
			continue
		}
		if best == nil || len(body) < bestSize {
			best, bestSize = h, len(body)
		}
	}
	return best
}

// iterationCanSkip: some path from the start of an iteration of the loop with header h comes back to h without
// passing block must (paths that leave the loop - a return, a break - are not iterations that were skipped).
func iterationCanSkip(h, must *ssa.BasicBlock) bool {
	if h == must {
		return false
	}
	body := loopBody(h)
	var start []*ssa.BasicBlock
	for _, s := range h.Succs {
		if body[s] && s != h {
			start = append(start, s)
		}
	}
	reach := eng.ReachableBlocks(start, func(b *ssa.BasicBlock) bool { return b == must || !body[b] || b == h })
	for b := range reach {
		for _, s := range b.Succs {
			if s == h {
				return true
			}
		}
	}
	return false
}

// ---------------------------------------------------------------------------------------------------------------
// R10.18 every selected page becomes a page of the document.

// R10.18 [C10]
func ruleEverySelectedPageAdded(c *eng.Ctx) {
	const R = "R10.18-EVERY-SELECTED-PAGE-ADDED"
	c.Rule(R, "in the page loop of Extractor.Document every iteration that comes back to the loop head has passed the call of Document.AddPage: a `continue` for a page without text (a blank page, a page whose fragments were all filtered) would leave that page out of the document, and Pages(S) would no longer yield one page per selected page", 1, 1)
	for _, name := range []string{"tabula.(*Extractor).Document", eng.PositivePkg + ".CollectPages"} {
		fn := c.P.Func(name)
		if fn == nil {
			if !strings.Contains(name, eng.PositivePkg) {
				c.Undec(R, name, token.NoPos, "anchor not found")
			}
			continue
		}
		n := 0
		for _, h := range eng.Cluster(fn, 2) {
			if h.Pkg != fn.Pkg {
				continue
			}
			for _, ci := range eng.Calls(h, false, func(nm string, _ ssa.CallInstruction) bool {
				return nm == "model.(*Document).AddPage" || nm == eng.PositivePkg+".(*Pages).Add"
			}) {
				head := innermostLoopOf(ci.Block())
				if head == nil {
					continue
				}
				n++
				c.Check(!iterationCanSkip(head, ci.Block()), R, fmt.Sprintf("%s#add%d", eng.FuncName(h), n), ci.Pos(), "every iteration of the page loop reaches AddPage", "an iteration of the page loop can come back to the loop head without AddPage: the selected page it stands for is missing from the document (a blank page 2 selected with Pages(2) gives a document of zero pages)")
			}
		}
		if n == 0 && !strings.Contains(name, eng.PositivePkg) {
			c.Ok(R, name+"#no-loop", fn.Pos(), "no AddPage inside a loop: not evaluated")
		}
	}
}

// ---------------------------------------------------------------------------------------------------------------
// R10.19 the table of contents has one entry per heading, on the page's own number.

// R10.19 [C10, C12]
func ruleTOCEntryPerHeading(c *eng.Ctx) {
	const R = "R10.19-TOC-ENTRY-PER-HEADING"
	c.Rule(R, "model.(*Document).TableOfContents appends one entry in every iteration of its loop over a page's headings, and the entry's Page is the Number of the page the heading is on. The extractor stamps the source page into Number and the chunker finds a heading by (page number, text) in this list: an entry numbered by position is on the wrong page under a page selection, and a heading left out (because an equal title was listed before) is chunked as body text under the previous section", 2, 0)
	fn := c.P.Func("model.(*Document).TableOfContents")
	if fn == nil {
		c.Undec(R, "model.(*Document).TableOfContents", token.NoPos, "anchor not found")
		return
	}
	name := eng.FuncName(fn)
	// the Page of an entry
	nPage, okPage := 0, true
	var posPage token.Pos = fn.Pos()
	var entryStores []*ssa.Store
	for _, h := range eng.Cluster(fn, 1) {
		if h.Pkg != fn.Pkg {
			continue
		}
		eng.Instrs(h, true, func(in ssa.Instruction) {
			st, ok := in.(*ssa.Store)
			if !ok {
				return
			}
			fr, ok := eng.AsField(st.Addr)
			if !ok || !strings.HasSuffix(fr.Struct, "model.TOCEntry") {
				return
			}
			if fr.Field == "Text" {
				entryStores = append(entryStores, st)
			}
			if fr.Field != "Page" {
				return
			}
			nPage++
			fromNumber := false
			for v := range eng.SliceInter(st.Val, nil, eng.Cluster(fn, 1)) {
				if lf, ok := eng.LoadOfField(v); ok && lf.Field == "Number" && strings.HasSuffix(lf.Struct, "model.Page") {
					fromNumber = true
				}
			}
			if !fromNumber {
				okPage = false
				posPage = st.Pos()
			}
		})
	}
	if nPage == 0 {
		c.Ok(R, name+"#page", fn.Pos(), "no store to TOCEntry.Page found: not evaluated")
	} else {
		c.Check(okPage, R, name+"#page", posPage, "TOCEntry.Page is the page's Number", "TOCEntry.Page is not taken from the Number of the page: under a page selection (Pages(3), Pages(4,2)) the entry names a position in the selection instead of the source page, and the chunker, which looks headings up by page number, no longer finds them")
	}
	// one entry per heading
	evaluated := false
	for _, st := range entryStores {
		head := innermostLoopOf(st.Block())
		if head == nil {
			continue
		}
		// the append that takes the entry: in the same iteration
		var app ssa.Instruction
		for b := range loopBody(head) {
			for _, in := range b.Instrs {
				if call, ok := in.(*ssa.Call); ok && eng.CalleeName(call) == "builtin:append" {
					if _, isEntry := call.Type().(*types.Slice); isEntry && strings.HasSuffix(eng.TypeName(call.Type().(*types.Slice).Elem()), "model.TOCEntry") {
						app = in
					}
				}
			}
		}
		if app == nil {
			continue
		}
		evaluated = true
		c.Check(!iterationCanSkip(head, app.Block()), R, name+"#every-heading", app.Pos(), "every iteration of the heading loop appends its entry", "an iteration of the loop over the headings can end without appending an entry (a heading whose level and text were listed before, on an earlier page): the chunker no longer recognises that heading, it becomes body text and the content below it reports the previous section")
	}
	if !evaluated {
		c.Ok(R, name+"#every-heading", fn.Pos(), "the entries are not appended in a loop of this function: not evaluated")
	}
}

// ---------------------------------------------------------------------------------------------------------------
// R11.12 no group of repeated marginal text is discarded because its text is short.

// textLengthOf: v is len(s) or utf8.RuneCountInString(s) of a string.
func textLengthOf(v ssa.Value) (string, bool) {
	for {
		if cv, ok := v.(*ssa.Convert); ok {
			v = cv.X
			continue
		}
		break
	}
	call, ok := v.(*ssa.Call)
	if !ok || len(call.Call.Args) != 1 {
		return "", false
	}
	if bt, isB := call.Call.Args[0].Type().Underlying().(*types.Basic); !isB || bt.Info()&types.IsString == 0 {
		return "", false
	}
	switch eng.CalleeName(call) {
	case "builtin:len":
		return "len", true
	case "unicode/utf8.RuneCountInString":
		return "runes", true
	}
	return "", false
}

// R11.12 [C11]
func ruleNoGroupSkippedByLength(c *eng.Ctx) {
	const R = "R11.12-NO-GROUP-SKIPPED-BY-LENGTH"
	c.Rule(R, "layout.(*HeaderFooterDetector).findRepeatingPatterns decides on a group of candidates by its occurrences and positions only: no branch of it compares the length of the group's text with a constant. A running header of one or two characters (a chapter letter, a section sign, a two-character CJK title) repeats at the same marginal position on every page like any other and has to be removed from every page", 1, 1)
	for _, name := range []string{"layout.(*HeaderFooterDetector).findRepeatingPatterns", eng.PositivePkg + ".RepeatedGroups"} {
		fn := c.P.Func(name)
		if fn == nil {
			if !strings.Contains(name, eng.PositivePkg) {
				c.Undec(R, name, token.NoPos, "anchor not found")
			}
			continue
		}
		var bad []string
		var pos token.Pos = fn.Pos()
		eng.Instrs(fn, true, func(in ssa.Instruction) {
			iff, ok := in.(*ssa.If)
			if !ok {
				return
			}
			for v := range eng.Slice(iff.Cond, nil) {
				b, ok := v.(*ssa.BinOp)
				if !ok {
					continue
				}
				switch b.Op {
				case token.LSS, token.LEQ, token.GTR, token.GEQ, token.EQL, token.NEQ:
				default:
					continue
				}
				for _, pair := range [][2]ssa.Value{{b.X, b.Y}, {b.Y, b.X}} {
					how, isLen := textLengthOf(pair[0])
					k, isC := eng.ConstInt(pair[1])
					if isLen && isC && k > 0 {
						bad = append(bad, fmt.Sprintf("%s(text) %s %d at %s", how, b.Op, k, c.P.Pos(b.Pos())))
						pos = b.Pos()
					}
				}
			}
		})
		c.Check(len(bad) == 0, R, eng.FuncName(fn)+"#length-test", pos, "no branch tests the length of a group's text", "a branch tests the length of the candidate text ("+strings.Join(bad, "; ")+"): a short running header (\"A1\", \"§\", a two-character CJK title) that repeats at the same marginal position on every page is dropped from the candidates and stays on every page")
	}
}

// ---------------------------------------------------------------------------------------------------------------
// R11.13 a region applies to the pages it was seen on.

// R11.13 [C11]
func ruleRegionPagesByMembership(c *eng.Ctx) {
	const R = "R11.13-REGION-PAGES-BY-MEMBERSHIP"
	c.Rule(R, "layout.containsPage answers yes only where an element of the region's page list equals the page asked for: a region applied to every page between its first and its last page deletes, on a page in between that has no marginal text, the body line nearest to the edge when it looks like a page number", 1, 0)
	fn := c.P.Func("layout.containsPage")
	if fn == nil {
		c.Ok(R, "layout.containsPage", token.NoPos, "no such helper: not evaluated")
		return
	}
	var page ssa.Value
	for _, p := range fn.Params {
		if bt, ok := p.Type().Underlying().(*types.Basic); ok && bt.Info()&types.IsInteger != 0 {
			page = p
		}
	}
	if page == nil {
		c.Ok(R, "layout.containsPage", fn.Pos(), "no integer parameter: not evaluated")
		return
	}
	ok := true
	var pos token.Pos = fn.Pos()
	for _, r := range eng.Returns(fn) {
		vals := eng.ReturnValues(r)
		if len(vals) != 1 {
			continue
		}
		k, isC := vals[0].(*ssa.Const)
		if isC && k.Value != nil && k.Value.ExactString() == "false" {
			continue
		}
		if isC {
			// return true: under element == page
			if !eng.GuardedBy(fn, r.Block(), func(f eng.Fact) bool {
				op, x, y, okc := f.Cmp()
				return okc && op == token.EQL && (x == page || y == page)
			}) {
				ok = false
				pos = r.Pos()
			}
			continue
		}
		// a computed answer: accepted when it is a library membership test (slices.Contains, sort.SearchInts + equality)
		isMember := false
		for v := range eng.Slice(vals[0], func(*ssa.Call) bool { return true }) {
			if call, okc := v.(*ssa.Call); okc {
				if nm := eng.CalleeName(call); strings.HasPrefix(nm, "slices.Contains") || strings.HasPrefix(nm, "slices.Index") || strings.HasPrefix(nm, "slices.BinarySearch") {
					isMember = true
				}
			}
			if b, okb := v.(*ssa.BinOp); okb && b.Op == token.EQL && (b.X == page || b.Y == page) {
				isMember = true
			}
		}
		if !isMember {
			ok = false
			pos = r.Pos()
		}
	}
	c.Check(ok, R, "layout.containsPage#membership", pos, "yes only for a page that is in the list", "containsPage answers yes for a page that was not compared equal with an element of the list (a range test between the first and the last page): the region is applied to pages it was never seen on, and a body line near the edge of such a page that looks like a page number is deleted")
}

// isStringWrite: the call appends a string to a text that is being built: WriteString on a builder or buffer, or
// append(buf, s...) onto a plain byte slice (the argument positions agree: Args[0] is the text, Args[1] the string).
func isStringWrite(name string, ci ssa.CallInstruction) bool {
	if strings.HasSuffix(name, ").WriteString") {
		return true
	}
	if name != "builtin:append" {
		return false
	}
	args := ci.Common().Args
	if len(args) != 2 {
		return false
	}
	bt, ok := args[1].Type().Underlying().(*types.Basic)
	return ok && bt.Info()&types.IsString != 0
}

// ---------------------------------------------------------------------------------------------------------------
// R20.10 a Read that returns data together with io.EOF has not failed.

// R20.10 [C20, C01]
func ruleReadEOFIsNotFailure(c *eng.Ctx) {
	const R = "R20.10-READ-EOF-NOT-FAILURE"
	c.Rule(R, "where the error of a single Read call on a reader of unknown kind (an io.Reader, the io.ReadCloser of a ZIP member) decides a branch, the function also compares that error with io.EOF: io.Reader allows Read to return the data and io.EOF in the same call, and the reader of a deflated ZIP member does exactly that, so `if err != nil { fail }` refuses every EPUB or ODT whose mimetype member was written compressed", 0, 1)
	n := 0
	for _, fn := range c.P.ModuleFuncs() {
		if fn.Blocks == nil {
			continue
		}
		k := 0
		eng.Instrs(fn, true, func(in ssa.Instruction) {
			call, ok := in.(*ssa.Call)
			if !ok || !call.Call.IsInvoke() || call.Call.Method.Name() != "Read" {
				return
			}
			sig := call.Call.Signature()
			if sig.Params().Len() != 1 || sig.Results().Len() != 2 || !eng.IsErrorType(sig.Results().At(1).Type()) {
				return
			}
			var errv ssa.Value
			for _, r := range *call.Referrers() {
				if ex, ok := r.(*ssa.Extract); ok && ex.Index == 1 {
					errv = ex
				}
			}
			if errv == nil {
				return
			}
			// every value the error is copied into (phis, cells of named results)
			decides := false
			comparesEOF := false
			isErr := func(v ssa.Value) bool {
				for w := range eng.Slice(v, nil) {
					if w == errv {
						return true
					}
				}
				return false
			}
			isEOF := func(v ssa.Value) bool {
				u, ok := v.(*ssa.UnOp)
				if !ok || u.Op != token.MUL {
					return false
				}
				g, ok := u.X.(*ssa.Global)
				return ok && g.Pkg != nil && g.Pkg.Pkg.Path() == "io" && (g.Name() == "EOF" || g.Name() == "ErrUnexpectedEOF")
			}
			eng.Instrs(in.Parent(), false, func(in2 ssa.Instruction) {
				switch x := in2.(type) {
				case *ssa.BinOp:
					if x.Op != token.EQL && x.Op != token.NEQ {
						return
					}
					if (isErr(x.X) && isEOF(x.Y)) || (isErr(x.Y) && isEOF(x.X)) {
						comparesEOF = true
					}
					if (isErr(x.X) && eng.IsNilConst(x.Y)) || (isErr(x.Y) && eng.IsNilConst(x.X)) {
						for _, r := range *x.Referrers() {
							if _, isIf := r.(*ssa.If); isIf {
								decides = true
							}
							if _, isB := r.(*ssa.BinOp); isB {
								decides = true
							}
						}
					}
				case *ssa.Call:
					if eng.CalleeName(x) == "errors.Is" && len(x.Call.Args) == 2 && isErr(x.Call.Args[0]) && isEOF(x.Call.Args[1]) {
						comparesEOF = true
					}
				}
			})
			if !decides {
				return
			}
			n++
			k++
			c.Check(comparesEOF, R, fmt.Sprintf("%s#read%d", eng.FuncName(fn), k), call.Pos(), "the error of the Read is compared with io.EOF", "the error of a single Read decides a branch and is never compared with io.EOF: a reader that returns its data together with io.EOF (a deflated ZIP member, a bytes reader at its end) is taken for a failed read, and a document written that way is refused")
		})
	}
	c.Ok(R, "module#scanned", token.NoPos, fmt.Sprintf("%d Read calls on readers of unknown kind whose error decides a branch", n))
}

// ---------------------------------------------------------------------------------------------------------------
// RX.CN callers of one function agree on cleaning the argument.

// cleanerOf: v is (a re-slice or conversion of) the result of a function that takes one text and returns one text of
// the same type - a module helper or one of the trimming functions of strings/bytes. Returns the cleaner's name.
func cleanerOf(v ssa.Value) string {
	for i := 0; i < 6; i++ {
		switch x := v.(type) {
		case *ssa.Convert:
			v = x.X
			continue
		case *ssa.ChangeType:
			v = x.X
			continue
		case *ssa.Call:
			g := eng.StaticCallee(x)
			if g == nil {
				return ""
			}
			nm := eng.FuncName(g)
			switch nm {
			case "strings.TrimSpace", "strings.TrimLeft", "strings.TrimRight", "strings.Trim",
				"bytes.TrimSpace", "bytes.TrimLeft", "bytes.TrimRight", "bytes.Trim", "strings.TrimLeftFunc", "bytes.TrimLeftFunc", "strings.ReplaceAll", "strings.Map":
				return nm
			}
			if eng.InModule(g) && g.Signature.Results().Len() == 1 && g.Signature.Params().Len() >= 1 && g.Signature.Recv() == nil {
				rt := g.Signature.Results().At(0).Type()
				if types.Identical(rt, g.Signature.Params().At(0).Type()) && isTextType(rt) {
					return nm
				}
			}
			return ""
		}
		break
	}
	return ""
}

// collectedCleaned: v is an element of a list the function collected itself with append, and what it appended was
// cleaned (tokens cut out of a section, each stripped before it is kept).
func collectedCleaned(v ssa.Value) string {
	u, ok := v.(*ssa.UnOp)
	if !ok || u.Op != token.MUL {
		return ""
	}
	ia, ok := u.X.(*ssa.IndexAddr)
	if !ok {
		return ""
	}
	out := ""
	for w := range eng.Slice(ia.X, nil) {
		call, ok := w.(*ssa.Call)
		if !ok || eng.CalleeName(call) != "builtin:append" || len(call.Call.Args) != 2 {
			continue
		}
		sl, ok := call.Call.Args[1].(*ssa.Slice)
		if !ok {
			continue
		}
		al, ok := sl.X.(*ssa.Alloc)
		if !ok {
			continue
		}
		for _, r := range *al.Referrers() {
			ea, ok := r.(*ssa.IndexAddr)
			if !ok {
				continue
			}
			for _, rr := range *ea.Referrers() {
				if st, ok := rr.(*ssa.Store); ok {
					if cl := cleanerOf(st.Val); cl != "" {
						out = cl
					} else {
						return "" // one element is kept as it is
					}
				}
			}
		}
	}
	return out
}

func isTextType(t types.Type) bool {
	if bt, ok := t.Underlying().(*types.Basic); ok {
		return bt.Info()&types.IsString != 0
	}
	if sl, ok := t.Underlying().(*types.Slice); ok {
		if bt, ok := sl.Elem().Underlying().(*types.Basic); ok {
			return bt.Kind() == types.Uint8
		}
	}
	return false
}

func callersAgreeRule(id string, pkgs ...string) func(*eng.Ctx) {
	return func(c *eng.Ctx) {
		R := id + "-CALLERS-AGREE-ON-CLEANING"
		c.Rule(R, "the call sites of one unexported function agree on cleaning a text argument: where one caller hands the function the result of a trimming or normalising function (strings.TrimSpace, a helper of the package that maps a text to a text) and the function does not clean that parameter itself, every other caller hands it a text cleaned the same way or derived from one. A cleaning step moved out of a function into 'the' caller silently disappears for the callers that were not edited", 0, 1)
		inPkgs := map[string]bool{}
		for _, p := range pkgs {
			inPkgs[p] = true
		}
		type site struct {
			ci      ssa.CallInstruction
			cleaner string
		}
		sites := map[*ssa.Function]map[int][]site{}
		for _, fn := range c.P.ModuleFuncs() {
			if fn.Blocks == nil || fn.Pkg == nil {
				continue
			}
			sp := eng.ShortPath(fn.Pkg.Pkg.Path())
			if !inPkgs[sp] && !strings.Contains(sp, eng.PositivePkg) {
				continue
			}
			eng.Instrs(fn, false, func(in ssa.Instruction) {
				ci, ok := in.(ssa.CallInstruction)
				if !ok {
					return
				}
				g := eng.StaticCallee(ci)
				if g == nil || !eng.InModule(g) || g.Pkg != fn.Pkg || g.Blocks == nil {
					return
				}
				if obj, ok := g.Object().(*types.Func); !ok || obj.Exported() {
					return
				}
				args := eng.ArgsWithRecv(ci)
				for i, a := range args {
					if i >= len(g.Params) || !isTextType(g.Params[i].Type()) {
						continue
					}
					cl := cleanerOf(a)
					if cl == "" {
						cl = collectedCleaned(a)
					}
					if sites[g] == nil {
						sites[g] = map[int][]site{}
					}
					sites[g][i] = append(sites[g][i], site{ci, cl})
				}
			})
		}
		n := 0
		var fns []*ssa.Function
		for g := range sites {
			fns = append(fns, g)
		}
		sortFuncs(fns)
		for _, g := range fns {
			for i := 0; i < len(g.Params); i++ {
				ss := sites[g][i]
				cleaned := map[string]int{}
				var raw []site
				for _, s := range ss {
					if s.cleaner != "" {
						cleaned[s.cleaner]++
					} else {
						raw = append(raw, s)
					}
				}
				if len(cleaned) == 0 || len(raw) == 0 {
					continue
				}
				// the function cleans the parameter itself: the callers' cleaning is a courtesy
				self := false
				for _, r := range *g.Params[i].Referrers() {
					if v, ok := r.(ssa.Value); ok && cleanerOf(v) != "" {
						self = true
					}
				}
				if self {
					continue
				}
				var names []string
				for nm := range cleaned {
					names = append(names, nm)
				}
				sortStrings(names)
				for _, s := range raw {
					// the caller hands on its own parameter, and every caller of the caller hands it a cleaned text
					if prm, isP := eng.ArgsWithRecv(s.ci)[i].(*ssa.Parameter); isP {
						h := s.ci.Parent()
						idx := -1
						for j, q := range h.Params {
							if q == prm {
								idx = j
							}
						}
						if up := sites[h][idx]; idx >= 0 && len(up) > 0 {
							all := true
							for _, u := range up {
								if u.cleaner == "" {
									all = false
								}
							}
							if all {
								continue
							}
						}
					}
					// the raw text is a constant or comes from a source that cannot carry what the cleaner removes
					if _, isC := eng.ArgsWithRecv(s.ci)[i].(*ssa.Const); isC {
						continue
					}
					n++
					c.Viol(R, fmt.Sprintf("%s#arg%d@%s", eng.FuncName(g), i, eng.FuncName(s.ci.Parent())), s.ci.Pos(), fmt.Sprintf("%s is handed a text cleaned with %s by other callers and does not clean it itself, but this call in %s hands it the text as it is: what the cleaner removes (leading white space, separators) reaches the function here and is read as content", eng.FuncName(g), strings.Join(names, ", "), eng.FuncName(s.ci.Parent())))
				}
			}
		}
		c.Ok(R, "module#scanned", token.NoPos, fmt.Sprintf("%d functions with text parameters and in-package callers compared, %d raw call sites", len(fns), n))
	}
}

func sortFuncs(fs []*ssa.Function) {
	for i := 1; i < len(fs); i++ {
		for j := i; j > 0 && eng.FuncName(fs[j]) < eng.FuncName(fs[j-1]); j-- {
			fs[j], fs[j-1] = fs[j-1], fs[j]
		}
	}
}

func sortStrings(s []string) {
	for i := 1; i < len(s); i++ {
		for j := i; j > 0 && s[j] < s[j-1]; j-- {
			s[j], s[j-1] = s[j-1], s[j]
		}
	}
}

// ---------------------------------------------------------------------------------------------------------------
// R18.19 a reference is percent-decoded once.

// R18.19 [C18]
func ruleDecodedOnce(c *eng.Ctx) {
	const R = "R18.19-DECODED-ONCE"
	c.Rule(R, "in the EPUB reader the argument of url.PathUnescape / url.QueryUnescape never derives from a text that was percent-decoded before (the result of an earlier decoding, a struct field that holds one, or a parameter handed such a value by a caller in the package): an href that escapes a literal percent sign (chapter%2520one.xhtml for the member chapter%20one.xhtml) decoded twice names another member, so the declared part is dropped or an undeclared member is read in its place", 1, 1)
	isDecoder := func(call *ssa.Call) bool {
		switch eng.CalleeName(call) {
		case "net/url.PathUnescape", "net/url.QueryUnescape":
			return true
		}
		return false
	}
	var fns []*ssa.Function
	for _, fn := range c.P.ModuleFuncs() {
		if fn.Blocks == nil || fn.Pkg == nil {
			continue
		}
		sp := eng.ShortPath(fn.Pkg.Pkg.Path())
		if sp == "epubdoc" || strings.Contains(sp, eng.PositivePkg) {
			fns = append(fns, fn)
		}
	}
	decodedFields := map[string]bool{}
	returnsDecoded := map[*ssa.Function]bool{}
	var origin func(v ssa.Value, fn *ssa.Function, depth int) bool
	origin = func(v ssa.Value, fn *ssa.Function, depth int) bool {
		if depth > 3 {
			return false
		}
		for w := range eng.Slice(v, func(*ssa.Call) bool { return false }) {
			switch x := w.(type) {
			case *ssa.Call:
				if isDecoder(x) {
					return true
				}
				if g := eng.StaticCallee(x); g != nil && returnsDecoded[g] {
					return true
				}
			case *ssa.Extract:
				if call, ok := x.Tuple.(*ssa.Call); ok && x.Index == 0 {
					if isDecoder(call) {
						return true
					}
					if g := eng.StaticCallee(call); g != nil && returnsDecoded[g] {
						return true
					}
				}
			case *ssa.Parameter:
				idx := -1
				for j, q := range fn.Params {
					if q == x {
						idx = j
					}
				}
				if idx < 0 {
					continue
				}
				for _, h := range fns {
					if h.Pkg != fn.Pkg {
						continue
					}
					for _, ci := range eng.Calls(h, false, func(_ string, ci ssa.CallInstruction) bool { return eng.StaticCallee(ci) == fn }) {
						args := eng.ArgsWithRecv(ci)
						if idx < len(args) && origin(args[idx], h, depth+1) {
							return true
						}
					}
				}
			default:
				if fr, ok := eng.LoadOfField(w); ok && decodedFields[fr.Struct+"."+fr.Field] {
					return true
				}
			}
		}
		return false
	}
	for round := 0; round < 3; round++ {
		for _, fn := range fns {
			for _, r := range eng.Returns(fn) {
				for _, v := range eng.ReturnValues(r) {
					if bt, ok := v.Type().Underlying().(*types.Basic); ok && bt.Info()&types.IsString != 0 && origin(v, fn, 0) {
						returnsDecoded[fn] = true
					}
				}
			}
			eng.Instrs(fn, false, func(in ssa.Instruction) {
				st, ok := in.(*ssa.Store)
				if !ok {
					return
				}
				fr, ok := eng.AsField(st.Addr)
				if !ok {
					return
				}
				if bt, isB := st.Val.Type().Underlying().(*types.Basic); !isB || bt.Info()&types.IsString == 0 {
					return
				}
				if origin(st.Val, fn, 0) {
					decodedFields[fr.Struct+"."+fr.Field] = true
				}
			})
		}
	}
	n := 0
	for _, fn := range fns {
		for _, ci := range eng.Calls(fn, false, func(_ string, ci ssa.CallInstruction) bool {
			call, ok := ci.(*ssa.Call)
			return ok && isDecoder(call)
		}) {
			n++
			arg := ci.Common().Args[0]
			c.Check(!origin(arg, fn, 0), R, fmt.Sprintf("%s#decode%d", eng.FuncName(fn), n), ci.Pos(), "the text that is decoded was not decoded before", "the text handed to the percent-decoder was percent-decoded before (it derives from an earlier decoding or from a field that holds one): an href with an escaped percent sign (c%2520two.xhtml) becomes 'c two.xhtml' instead of 'c%20two.xhtml', the declared part is not found and is dropped, or another member is read in its place")
		}
	}
	if n == 0 {
		c.Ok(R, "epubdoc#decoders", token.NoPos, "no percent-decoding in the package: not evaluated")
	}
}

// ---------------------------------------------------------------------------------------------------------------
// R17.16 an address written in the file is not replaced.

// R17.16 [C17]
func ruleDeclaredAddressKept(c *eng.Ctx) {
	const R = "R17.16-DECLARED-ADDRESS-KEPT"
	c.Rule(R, "in the XLSX reader a field that holds the r attribute of a <row> or <c> element (the row number, the cell reference) is assigned only where it was found absent (compared equal with 0 or \"\" on the way) or from a value derived from itself: a row or cell that carries its address is placed there, whatever order the file lists the rows in; renumbering a row because its number is lower than the previous row's moves its cells to a row their references do not name", 0, 1)
	n := 0
	for _, fn := range c.P.ModuleFuncs() {
		if fn.Blocks == nil || fn.Pkg == nil {
			continue
		}
		sp := eng.ShortPath(fn.Pkg.Pkg.Path())
		if sp != "xlsx" && !strings.Contains(sp, eng.PositivePkg) {
			continue
		}
		k := 0
		eng.Instrs(fn, true, func(in ssa.Instruction) {
			st, ok := in.(*ssa.Store)
			if !ok {
				return
			}
			fa, ok := st.Addr.(*ssa.FieldAddr)
			if !ok {
				return
			}
			stt, ok := fa.X.Type().Underlying().(*types.Pointer).Elem().Underlying().(*types.Struct)
			if !ok {
				return
			}
			tag := stt.Tag(fa.Field)
			if !strings.Contains(tag, `xml:"r,attr"`) {
				return
			}
			// a struct under construction (a literal) is not an element read from the file
			if _, isAlloc := fa.X.(*ssa.Alloc); isAlloc {
				return
			}
			n++
			k++
			same := func(v ssa.Value) bool {
				u, ok := v.(*ssa.UnOp)
				if !ok || u.Op != token.MUL {
					return false
				}
				fb, ok := u.X.(*ssa.FieldAddr)
				return ok && fb.Field == fa.Field && eng.SameValue(fb.X, fa.X)
			}
			// derived from itself: through calls and operators only (a value carried around a loop comes from another element)
			fromItself := false
			var walk func(v ssa.Value, d int)
			walk = func(v ssa.Value, d int) {
				if d > 6 || fromItself {
					return
				}
				if same(v) {
					fromItself = true
					return
				}
				switch x := v.(type) {
				case *ssa.Call:
					for _, a := range x.Call.Args {
						walk(a, d+1)
					}
				case *ssa.BinOp:
					walk(x.X, d+1)
					walk(x.Y, d+1)
				case *ssa.Convert:
					walk(x.X, d+1)
				case *ssa.Extract:
					walk(x.Tuple, d+1)
				case *ssa.Slice:
					walk(x.X, d+1)
				}
			}
			walk(st.Val, 0)
			absent := eng.GuardedBy(in.Parent(), st.Block(), func(f eng.Fact) bool {
				op, x, y, ok := f.Cmp()
				if !ok || op != token.EQL {
					return false
				}
				for _, pair := range [][2]ssa.Value{{x, y}, {y, x}} {
					if !same(pair[0]) {
						continue
					}
					if k, isC := eng.ConstInt(pair[1]); isC && k == 0 {
						return true
					}
					if s, isS := eng.ConstString(pair[1]); isS && s == "" {
						return true
					}
				}
				return false
			})
			c.Check(fromItself || absent, R, fmt.Sprintf("%s#address%d", eng.FuncName(fn), k), st.Pos(), "assigned only where absent, or derived from itself", "the address an element carries in its r attribute is replaced by another one where it was not found absent: rows written out of ascending order (3, 1, 5, 2) are renumbered, and their cells appear on rows other than the ones their references name")
		})
	}
	c.Ok(R, "xlsx#scanned", token.NoPos, fmt.Sprintf("%d assignments to an r attribute field", n))
}

// ---------------------------------------------------------------------------------------------------------------
// R16.18 a table cell goes into a row-per-line rendering on one line.

// R16.18 [C16, C15]
func ruleTableCellOnOneLine(c *eng.Ctx) {
	const R = "R16.18-TABLE-CELL-ON-ONE-LINE"
	c.Rule(R, "in the ToText and ToMarkdown writers of the DOCX and ODT tables, which put one table row on one output line, every text that comes from a cell (a field or method of a ...TableCell value) reaches the output through a function that deals with line feeds: strings.ReplaceAll/Replace/NewReplacer naming \"\\n\", strings.Fields, strings.Map, or a helper of the package that handles \"\\n\". A cell holds line feeds between its paragraphs and for every line break inside a paragraph; written as it is the row is cut in two, the rest is no longer a table row and the grid is not the one authored", 4, 1)
	n := 0
	for _, fn := range c.P.ModuleFuncs() {
		if fn.Blocks == nil || fn.Pkg == nil || fn.Signature.Recv() == nil || fn.Parent() != nil {
			continue
		}
		sp := eng.ShortPath(fn.Pkg.Pkg.Path())
		if sp != "docx" && sp != "odt" && !strings.Contains(sp, eng.PositivePkg) {
			continue
		}
		if fn.Name() != "ToText" && fn.Name() != "ToMarkdown" {
			continue
		}
		if !strings.HasSuffix(eng.TypeName(fn.Signature.Recv().Type()), "ParsedTable") {
			continue
		}
		isCell := func(t types.Type) bool {
			if p, ok := t.Underlying().(*types.Pointer); ok {
				t = p.Elem()
			}
			return strings.HasSuffix(eng.TypeName(t), "TableCell")
		}
		k := 0
		for _, h := range eng.Cluster(fn, 1) {
			if h.Pkg != fn.Pkg {
				continue
			}
			eng.Instrs(h, true, func(in ssa.Instruction) {
				ci, ok := in.(ssa.CallInstruction)
				if !ok || !isStringWrite(eng.CalleeName(ci), ci) {
					return
				}
				arg := ci.Common().Args[1]
				fromCell, oneLine := false, false
				for w := range eng.Slice(arg, func(*ssa.Call) bool { return true }) {
					switch x := w.(type) {
					case *ssa.FieldAddr:
						if isCell(x.X.Type()) {
							if bt, ok := x.Type().Underlying().(*types.Pointer).Elem().Underlying().(*types.Basic); ok && bt.Info()&types.IsString != 0 {
								fromCell = true
							}
							if _, isSl := x.Type().Underlying().(*types.Pointer).Elem().Underlying().(*types.Slice); isSl {
								fromCell = true
							}
						}
					case *ssa.Field:
						if isCell(x.X.Type()) {
							if bt, ok := x.Type().Underlying().(*types.Basic); ok && bt.Info()&types.IsString != 0 {
								fromCell = true
							}
							if _, isSl := x.Type().Underlying().(*types.Slice); isSl {
								fromCell = true
							}
						}
					case *ssa.Call:
						cn := eng.CalleeName(x)
						switch cn {
						case "strings.ReplaceAll", "strings.Replace":
							if s, ok := eng.ConstString(x.Call.Args[1]); ok && strings.Contains(s, "\n") {
								oneLine = true
							}
						case "strings.Fields", "strings.Map", "strings.FieldsFunc", "strings.(*Replacer).Replace":
							oneLine = true
						default:
							if cal := eng.StaticCallee(x); cal != nil && eng.InModule(cal) {
								if mentionsLineBreak(cal) {
									oneLine = true
								}
								if cal.Signature.Recv() != nil && isCell(cal.Signature.Recv().Type()) {
									if bt, ok := x.Type().Underlying().(*types.Basic); ok && bt.Info()&types.IsString != 0 {
										fromCell = true
									}
								}
							}
						}
					}
				}
				if !fromCell {
					return
				}
				n++
				k++
				c.Check(oneLine, R, fmt.Sprintf("%s#cell-text%d", eng.FuncName(fn), k), ci.Pos(), "the cell text passes a function that handles line feeds", "a text taken from a table cell is written into the one-row-per-line output without passing a function that handles line feeds: a line break inside a cell paragraph (text:line-break, w:br) cuts the row in two, the row loses a field and the rest appears as a line of its own")
			})
		}
	}
	if n == 0 {
		c.Undec(R, "docx/odt#table-writers", token.NoPos, "no write of a cell text found in the ToText/ToMarkdown writers")
	}
}

// ---------------------------------------------------------------------------------------------------------------
// R19.16 a list item without text of its own still has its nested lists read.

// R19.16 [C19, C15]
func ruleTextlessItemKeepsNestedLists(c *eng.Ctx) {
	const R = "R19.16-TEXTLESS-ITEM-KEEPS-NESTED-LISTS"
	c.Rule(R, "in the HTML tree walks, where the direct text of a list item (getDirectTextContent) is found empty, the code that follows on that side still reaches the recursive walk of the item's children: <li><ul>...</ul></li> is how a nested list is written when the outer item has no text, and an early return for the empty item would drop every item of the nested list", 0, 1)
	n := 0
	for _, fn := range c.P.ModuleFuncs() {
		if fn.Blocks == nil || fn.Pkg == nil {
			continue
		}
		sp := eng.ShortPath(fn.Pkg.Pkg.Path())
		if sp != "htmldoc" && !strings.Contains(sp, eng.PositivePkg) {
			continue
		}
		k := 0
		for _, ci := range eng.Calls(fn, false, func(nm string, _ ssa.CallInstruction) bool {
			return strings.HasSuffix(nm, "htmldoc.getDirectTextContent") || nm == eng.PositivePkg+".directText"
		}) {
			text, ok := ci.(*ssa.Call)
			if !ok {
				continue
			}
			// the walk is recursive: the function (or a sibling walk) calls itself somewhere
			walks := func(b *ssa.BasicBlock) bool {
				for _, in := range b.Instrs {
					if call, ok := in.(ssa.CallInstruction); ok {
						if g := eng.StaticCallee(call); g != nil && (g == fn || (g.Pkg == fn.Pkg && strings.HasPrefix(g.Name(), "traverse"))) {
							return true
						}
					}
				}
				return false
			}
			recursive := false
			for _, b := range fn.Blocks {
				if walks(b) {
					recursive = true
				}
			}
			if !recursive {
				continue
			}
			for _, r := range *text.Referrers() {
				cmp, ok := r.(*ssa.BinOp)
				if !ok || (cmp.Op != token.EQL && cmp.Op != token.NEQ) {
					continue
				}
				other := cmp.Y
				if other == ssa.Value(text) {
					other = cmp.X
				}
				if s, isS := eng.ConstString(other); !isS || s != "" {
					continue
				}
				for _, rr := range *cmp.Referrers() {
					iff, ok := rr.(*ssa.If)
					if !ok {
						continue
					}
					empty := iff.Block().Succs[0]
					if cmp.Op == token.NEQ {
						empty = iff.Block().Succs[1]
					}
					n++
					k++
					reach := eng.ReachableBlocks([]*ssa.BasicBlock{empty}, nil)
					found := false
					for b := range reach {
						if walks(b) {
							found = true
						}
					}
					c.Check(found, R, fmt.Sprintf("%s#empty-item%d", eng.FuncName(fn), k), cmp.Pos(), "the side for an item without text reaches the walk of its children", "where the list item has no text of its own the function ends without walking the item's children: the items of a list nested in a text-less item (<li><ul><li>x</li></ul></li>) are lost from text, Markdown and the document model")
				}
			}
		}
	}
	if n == 0 {
		c.Ok(R, "htmldoc#walks", token.NoPos, "no emptiness test on a list item's direct text in a recursive walk: not evaluated")
	}
}

// ---------------------------------------------------------------------------------------------------------------
// R15.15 the body of a chunk is written whatever it says.

// R15.15 [C15]
func ruleChunkBodyWrittenUnconditionally(c *eng.Ctx) {
	const R = "R15.15-CHUNK-BODY-UNCONDITIONAL"
	c.Rule(R, "in rag.(*Chunk).contentToMarkdown (the writer ChunkCollection.ToMarkdownWithOptions uses for every chunk that does not open a new section) and its helpers, the write of the chunk's Text does not stand under a comparison of that Text with another text: the 'skip the text when it equals the section title' test belongs to the writer that has just written the title as a heading; here no heading was written, and a body chunk that repeats its section title (a caption, a running title) would be dropped from the document", 1, 0)
	fn := c.P.Func("rag.(*Chunk).contentToMarkdown")
	if fn == nil {
		c.Ok(R, "rag.(*Chunk).contentToMarkdown", token.NoPos, "no such writer: not evaluated")
		return
	}
	n := 0
	for _, h := range eng.Cluster(fn, 1) {
		if h.Pkg != fn.Pkg {
			continue
		}
		for _, ci := range eng.Calls(h, false, func(nm string, wc ssa.CallInstruction) bool { return isStringWrite(nm, wc) }) {
			arg := ci.Common().Args[1]
			fr, ok := eng.LoadOfField(arg)
			if !ok || fr.Field != "Text" || !strings.HasSuffix(fr.Struct, "rag.Chunk") {
				continue
			}
			n++
			isText := func(v ssa.Value) bool {
				f2, ok := eng.LoadOfField(v)
				return ok && f2.Field == "Text" && strings.HasSuffix(f2.Struct, "rag.Chunk")
			}
			conditional := eng.GuardedBy(h, ci.Block(), func(f eng.Fact) bool {
				op, x, y, ok := f.Cmp()
				if !ok || (op != token.EQL && op != token.NEQ) {
					return false
				}
				for _, pair := range [][2]ssa.Value{{x, y}, {y, x}} {
					if !isText(pair[0]) {
						continue
					}
					if s, isS := eng.ConstString(pair[1]); isS && s == "" {
						continue // nothing to write
					}
					return true
				}
				return false
			})
			c.Check(!conditional, R, fmt.Sprintf("%s#text%d", eng.FuncName(h), n), ci.Pos(), "the chunk text is written whatever it says", "the chunk's Text is written only when it differs from another text (the section title): on this path no heading was written before, so a body chunk whose text equals its section title disappears from the Markdown document")
		}
	}
	if n == 0 {
		c.Ok(R, "rag.(*Chunk).contentToMarkdown#text", fn.Pos(), "no direct write of Chunk.Text found: not evaluated")
	}
}

// ---------------------------------------------------------------------------------------------------------------
// R9.10 the text pipeline drops no character by its class.

// R9.10 [C09]
func ruleNoCharacterClassFilter(c *eng.Ctx) {
	const R = "R9.10-NO-CHARACTER-CLASS-FILTER"
	c.Rule(R, "in the packages between the content stream and the returned page text (tabula, text, layout, model) no strings.Map / bytes.Map is applied with a mapping function that can answer a negative value (drop the character) for anything but white space: a filter by Unicode class (IsPrint, IsGraphic, not IsControl) also removes format and private-use characters - zero-width joiners of Persian and Indic text, soft hyphens, the U+F0B7 bullet of Symbol fonts - which are non-white-space characters of the input fragments", 0, 1)
	n := 0
	for _, fn := range c.P.ModuleFuncs() {
		if fn.Blocks == nil || fn.Pkg == nil {
			continue
		}
		sp := eng.ShortPath(fn.Pkg.Pkg.Path())
		if sp != "" && sp != "text" && sp != "layout" && sp != "model" && !strings.Contains(sp, eng.PositivePkg) {
			continue
		}
		k := 0
		for _, ci := range eng.Calls(fn, false, func(nm string, _ ssa.CallInstruction) bool { return nm == "strings.Map" || nm == "bytes.Map" }) {
			var mapper *ssa.Function
			switch m := ci.Common().Args[0].(type) {
			case *ssa.MakeClosure:
				mapper, _ = m.Fn.(*ssa.Function)
			case *ssa.Function:
				mapper = m
			}
			if mapper == nil || mapper.Blocks == nil {
				continue
			}
			n++
			k++
			drops := ""
			for _, r := range eng.Returns(mapper) {
				for _, v := range eng.ReturnValues(r) {
					neg := false
					for w := range eng.Slice(v, nil) {
						if kk, ok := eng.ConstInt(w); ok && kk < 0 {
							neg = true
						}
					}
					if !neg {
						continue
					}
					onlySpace := eng.GuardedBy(mapper, r.Block(), func(f eng.Fact) bool {
						call, ok := f.Cond.(*ssa.Call)
						return ok && f.Pos && eng.CalleeName(call) == "unicode.IsSpace"
					})
					if !onlySpace {
						drops = c.P.Pos(r.Pos())
					}
				}
			}
			c.Check(drops == "", R, fmt.Sprintf("%s#map%d", eng.FuncName(fn), k), ci.Pos(), "the mapping function drops nothing but white space", "the mapping function can drop a character that is not white space (return of a negative value at "+drops+"): characters of the fragments (zero-width joiners, soft hyphens, private-use bullets) are missing from the page text")
		}
	}
	c.Ok(R, "pipeline#scanned", token.NoPos, fmt.Sprintf("%d strings.Map/bytes.Map calls with a known mapping function", n))
}

// ---------------------------------------------------------------------------------------------------------------
// R19.17 the HTML input is not re-decoded with a guessed legacy encoding.

// R19.17 [C19]
func ruleNoGuessedTranscoding(c *eng.Ctx) {
	const R = "R19.17-NO-GUESSED-TRANSCODING"
	c.Rule(R, "the HTML and EPUB readers do not wrap their input in charset.NewReader with an empty content type: that reader looks at the first 1024 bytes only and, finding neither a byte-order mark, a meta declaration nor a non-ASCII byte there, decodes the whole stream as windows-1252, so a UTF-8 page whose first kilobyte is plain ASCII comes back with every later non-ASCII character turned into two or three wrong ones", 0, 1)
	n := 0
	for _, fn := range c.P.ModuleFuncs() {
		if fn.Blocks == nil || fn.Pkg == nil {
			continue
		}
		sp := eng.ShortPath(fn.Pkg.Pkg.Path())
		if sp != "htmldoc" && sp != "epubdoc" && sp != "" && !strings.Contains(sp, eng.PositivePkg) {
			continue
		}
		k := 0
		for _, ci := range eng.Calls(fn, true, func(nm string, _ ssa.CallInstruction) bool {
			return nm == "golang.org/x/net/html/charset.NewReader"
		}) {
			n++
			k++
			ct, isC := eng.ConstString(ci.Common().Args[1])
			c.Check(!(isC && ct == ""), R, fmt.Sprintf("%s#transcode%d", eng.FuncName(fn), k), ci.Pos(), "the content type is given", "the input is wrapped in charset.NewReader(r, \"\"): without a declaration in the first 1024 bytes the whole document is decoded as windows-1252, and a UTF-8 document without a charset declaration whose first kilobyte is ASCII loses every non-ASCII character to mojibake")
		}
	}
	c.Ok(R, "html#scanned", token.NoPos, fmt.Sprintf("%d transcoding readers", n))
}
