package rules

import (
	"fmt"
	"go/token"
	"go/types"
	"strings"

	"golang.org/x/tools/go/ssa"

	"verif/checker/eng"
)

// Round 9 rules, second part.

// innermostLoopOf: the header of the innermost natural loop whose body holds b (nil when b is in no loop).
func innermostLoopOf(b *ssa.BasicBlock) *ssa.BasicBlock {
	var best *ssa.BasicBlock
	bestSize := 0
	for _, h := range b.Parent().Blocks {
		back := false
		for _, p := range h.Preds {
			if h.Dominates(p) {
				back = true
			}
		}
		if !back {
			continue
		}
		body := loopBody(h)
		if !body[b] {
			continue
		}
		if best == nil || len(body) < bestSize {
			best, bestSize = h, len(body)
		}
	}
	return best
}

// iterationCanSkip: some path from the start of an iteration of the loop with header h comes back to h without
// passing block must (paths that leave the loop - a return, a break - are not iterations that were skipped).
func iterationCanSkip(h, must *ssa.BasicBlock) bool {
	if h == must {
		return false
	}
	body := loopBody(h)
	var start []*ssa.BasicBlock
	for _, s := range h.Succs {
		if body[s] && s != h {
			start = append(start, s)
		}
	}
	reach := eng.ReachableBlocks(start, func(b *ssa.BasicBlock) bool { return b == must || !body[b] || b == h })
	for b := range reach {
		for _, s := range b.Succs {
			if s == h {
				return true
			}
		}
	}
	return false
}

// ---------------------------------------------------------------------------------------------------------------
// R10.18 every selected page becomes a page of the document.

// R10.18 [C10]
func ruleEverySelectedPageAdded(c *eng.Ctx) {
	const R = "R10.18-EVERY-SELECTED-PAGE-ADDED"
	c.Rule(R, "in the page loop of Extractor.Document every iteration that comes back to the loop head has passed the call of Document.AddPage: a `continue` for a page without text (a blank page, a page whose fragments were all filtered) would leave that page out of the document, and Pages(S) would no longer yield one page per selected page", 1, 1)
	for _, name := range []string{"tabula.(*Extractor).Document", eng.PositivePkg + ".CollectPages"} {
		fn := c.P.Func(name)
		if fn == nil {
			if !strings.Contains(name, eng.PositivePkg) {
				c.Undec(R, name, token.NoPos, "anchor not found")
			}
			continue
		}
		n := 0
		for _, h := range eng.Cluster(fn, 2) {
			if h.Pkg != fn.Pkg {
				continue
			}
			for _, ci := range eng.Calls(h, false, func(nm string, _ ssa.CallInstruction) bool {
				return nm == "model.(*Document).AddPage" || nm == eng.PositivePkg+".(*Pages).Add"
			}) {
				head := innermostLoopOf(ci.Block())
				if head == nil {
					continue
				}
				n++
				c.Check(!iterationCanSkip(head, ci.Block()), R, fmt.Sprintf("%s#add%d", eng.FuncName(h), n), ci.Pos(), "every iteration of the page loop reaches AddPage", "an iteration of the page loop can come back to the loop head without AddPage: the selected page it stands for is missing from the document (a blank page 2 selected with Pages(2) gives a document of zero pages)")
			}
		}
		if n == 0 && !strings.Contains(name, eng.PositivePkg) {
			c.Ok(R, name+"#no-loop", fn.Pos(), "no AddPage inside a loop: not evaluated")
		}
	}
}

// ---------------------------------------------------------------------------------------------------------------
// R10.19 the table of contents has one entry per heading, on the page's own number.

// R10.19 [C10, C12]
func ruleTOCEntryPerHeading(c *eng.Ctx) {
	const R = "R10.19-TOC-ENTRY-PER-HEADING"
	c.Rule(R, "model.(*Document).TableOfContents appends one entry in every iteration of its loop over a page's headings, and the entry's Page is the Number of the page the heading is on. The extractor stamps the source page into Number and the chunker finds a heading by (page number, text) in this list: an entry numbered by position is on the wrong page under a page selection, and a heading left out (because an equal title was listed before) is chunked as body text under the previous section", 2, 0)
	fn := c.P.Func("model.(*Document).TableOfContents")
	if fn == nil {
		c.Undec(R, "model.(*Document).TableOfContents", token.NoPos, "anchor not found")
		return
	}
	name := eng.FuncName(fn)
	// the Page of an entry
	nPage, okPage := 0, true
	var posPage token.Pos = fn.Pos()
	var entryStores []*ssa.Store
	for _, h := range eng.Cluster(fn, 1) {
		if h.Pkg != fn.Pkg {
			continue
		}
		eng.Instrs(h, true, func(in ssa.Instruction) {
			st, ok := in.(*ssa.Store)
			if !ok {
				return
			}
			fr, ok := eng.AsField(st.Addr)
			if !ok || !strings.HasSuffix(fr.Struct, "model.TOCEntry") {
				return
			}
			if fr.Field == "Text" {
				entryStores = append(entryStores, st)
			}
			if fr.Field != "Page" {
				return
			}
			nPage++
			fromNumber := false
			for v := range eng.SliceInter(st.Val, nil, eng.Cluster(fn, 1)) {
				if lf, ok := eng.LoadOfField(v); ok && lf.Field == "Number" && strings.HasSuffix(lf.Struct, "model.Page") {
					fromNumber = true
				}
			}
			if !fromNumber {
				okPage = false
				posPage = st.Pos()
			}
		})
	}
	if nPage == 0 {
		c.Ok(R, name+"#page", fn.Pos(), "no store to TOCEntry.Page found: not evaluated")
	} else {
		c.Check(okPage, R, name+"#page", posPage, "TOCEntry.Page is the page's Number", "TOCEntry.Page is not taken from the Number of the page: under a page selection (Pages(3), Pages(4,2)) the entry names a position in the selection instead of the source page, and the chunker, which looks headings up by page number, no longer finds them")
	}
	// one entry per heading
	evaluated := false
	for _, st := range entryStores {
		head := innermostLoopOf(st.Block())
		if head == nil {
			continue
		}
		// the append that takes the entry: in the same iteration
		var app ssa.Instruction
		for b := range loopBody(head) {
			for _, in := range b.Instrs {
				if call, ok := in.(*ssa.Call); ok && eng.CalleeName(call) == "builtin:append" {
					if _, isEntry := call.Type().(*types.Slice); isEntry && strings.HasSuffix(eng.TypeName(call.Type().(*types.Slice).Elem()), "model.TOCEntry") {
						app = in
					}
				}
			}
		}
		if app == nil {
			continue
		}
		evaluated = true
		c.Check(!iterationCanSkip(head, app.Block()), R, name+"#every-heading", app.Pos(), "every iteration of the heading loop appends its entry", "an iteration of the loop over the headings can end without appending an entry (a heading whose level and text were listed before, on an earlier page): the chunker no longer recognises that heading, it becomes body text and the content below it reports the previous section")
	}
	if !evaluated {
		c.Ok(R, name+"#every-heading", fn.Pos(), "the entries are not appended in a loop of this function: not evaluated")
	}
}

// ---------------------------------------------------------------------------------------------------------------
// R11.12 no group of repeated marginal text is discarded because its text is short.

// textLengthOf: v is len(s) or utf8.RuneCountInString(s) of a string.
func textLengthOf(v ssa.Value) (string, bool) {
	for {
		if cv, ok := v.(*ssa.Convert); ok {
			v = cv.X
			continue
		}
		break
	}
	call, ok := v.(*ssa.Call)
	if !ok || len(call.Call.Args) != 1 {
		return "", false
	}
	if bt, isB := call.Call.Args[0].Type().Underlying().(*types.Basic); !isB || bt.Info()&types.IsString == 0 {
		return "", false
	}
	switch eng.CalleeName(call) {
	case "builtin:len":
		return "len", true
	case "unicode/utf8.RuneCountInString":
		return "runes", true
	}
	return "", false
}

// R11.12 [C11]
func ruleNoGroupSkippedByLength(c *eng.Ctx) {
	const R = "R11.12-NO-GROUP-SKIPPED-BY-LENGTH"
	c.Rule(R, "layout.(*HeaderFooterDetector).findRepeatingPatterns decides on a group of candidates by its occurrences and positions only: no branch of it compares the length of the group's text with a constant. A running header of one or two characters (a chapter letter, a section sign, a two-character CJK title) repeats at the same marginal position on every page like any other and has to be removed from every page", 1, 1)
	for _, name := range []string{"layout.(*HeaderFooterDetector).findRepeatingPatterns", eng.PositivePkg + ".RepeatedGroups"} {
		fn := c.P.Func(name)
		if fn == nil {
			if !strings.Contains(name, eng.PositivePkg) {
				c.Undec(R, name, token.NoPos, "anchor not found")
			}
			continue
		}
		var bad []string
		var pos token.Pos = fn.Pos()
		eng.Instrs(fn, true, func(in ssa.Instruction) {
			iff, ok := in.(*ssa.If)
			if !ok {
				return
			}
			for v := range eng.Slice(iff.Cond, nil) {
				b, ok := v.(*ssa.BinOp)
				if !ok {
					continue
				}
				switch b.Op {
				case token.LSS, token.LEQ, token.GTR, token.GEQ, token.EQL, token.NEQ:
				default:
					continue
				}
				for _, pair := range [][2]ssa.Value{{b.X, b.Y}, {b.Y, b.X}} {
					how, isLen := textLengthOf(pair[0])
					k, isC := eng.ConstInt(pair[1])
					if isLen && isC && k > 0 {
						bad = append(bad, fmt.Sprintf("%s(text) %s %d at %s", how, b.Op, k, c.P.Pos(b.Pos())))
						pos = b.Pos()
					}
				}
			}
		})
		c.Check(len(bad) == 0, R, eng.FuncName(fn)+"#length-test", pos, "no branch tests the length of a group's text", "a branch tests the length of the candidate text ("+strings.Join(bad, "; ")+"): a short running header (\"A1\", \"§\", a two-character CJK title) that repeats at the same marginal position on every page is dropped from the candidates and stays on every page")
	}
}

// ---------------------------------------------------------------------------------------------------------------
// R11.13 a region applies to the pages it was seen on.

// R11.13 [C11]
func ruleRegionPagesByMembership(c *eng.Ctx) {
	const R = "R11.13-REGION-PAGES-BY-MEMBERSHIP"
	c.Rule(R, "layout.containsPage answers yes only where an element of the region's page list equals the page asked for: a region applied to every page between its first and its last page deletes, on a page in between that has no marginal text, the body line nearest to the edge when it looks like a page number", 1, 0)
	fn := c.P.Func("layout.containsPage")
	if fn == nil {
		c.Ok(R, "layout.containsPage", token.NoPos, "no such helper: not evaluated")
		return
	}
	var page ssa.Value
	for _, p := range fn.Params {
		if bt, ok := p.Type().Underlying().(*types.Basic); ok && bt.Info()&types.IsInteger != 0 {
			page = p
		}
	}
	if page == nil {
		c.Ok(R, "layout.containsPage", fn.Pos(), "no integer parameter: not evaluated")
		return
	}
	ok := true
	var pos token.Pos = fn.Pos()
	for _, r := range eng.Returns(fn) {
		vals := eng.ReturnValues(r)
		if len(vals) != 1 {
			continue
		}
		k, isC := vals[0].(*ssa.Const)
		if isC && k.Value != nil && k.Value.ExactString() == "false" {
			continue
		}
		if isC {
			// return true: under element == page
			if !eng.GuardedBy(fn, r.Block(), func(f eng.Fact) bool {
				op, x, y, okc := f.Cmp()
				return okc && op == token.EQL && (x == page || y == page)
			}) {
				ok = false
				pos = r.Pos()
			}
			continue
		}
		// a computed answer: accepted when it is a library membership test (slices.Contains, sort.SearchInts + equality)
		isMember := false
		for v := range eng.Slice(vals[0], func(*ssa.Call) bool { return true }) {
			if call, okc := v.(*ssa.Call); okc {
				if nm := eng.CalleeName(call); strings.HasPrefix(nm, "slices.Contains") || strings.HasPrefix(nm, "slices.Index") || strings.HasPrefix(nm, "slices.BinarySearch") {
					isMember = true
				}
			}
			if b, okb := v.(*ssa.BinOp); okb && b.Op == token.EQL && (b.X == page || b.Y == page) {
				isMember = true
			}
		}
		if !isMember {
			ok = false
			pos = r.Pos()
		}
	}
	c.Check(ok, R, "layout.containsPage#membership", pos, "yes only for a page that is in the list", "containsPage answers yes for a page that was not compared equal with an element of the list (a range test between the first and the last page): the region is applied to pages it was never seen on, and a body line near the edge of such a page that looks like a page number is deleted")
}

// isStringWrite: the call appends a string to a text that is being built: WriteString on a builder or buffer, or
// append(buf, s...) onto a plain byte slice (the argument positions agree: Args[0] is the text, Args[1] the string).
func isStringWrite(name string, ci ssa.CallInstruction) bool {
	if strings.HasSuffix(name, ").WriteString") {
		return true
	}
	if name != "builtin:append" {
		return false
	}
	args := ci.Common().Args
	if len(args) != 2 {
		return false
	}
	bt, ok := args[1].Type().Underlying().(*types.Basic)
	return ok && bt.Info()&types.IsString != 0
}
