package rules

import (
	"bytes"
	"compress/zlib"
	"encoding/hex"
	"fmt"
	"go/ast"
	"go/token"
	"go/types"
	"os"
	"sort"
	"strings"
	"unicode"
	"unicode/utf16"
	"unicode/utf8"

	"golang.org/x/tools/go/ssa"

	"verif/checker/eng"
)

// Round 9 rules, second part.

// innermostLoopOf: the header of the innermost natural loop whose body holds b (nil when b is in no loop).
func innermostLoopOf(b *ssa.BasicBlock) *ssa.BasicBlock {
	var best *ssa.BasicBlock
	bestSize := 0
	for _, h := range b.Parent().Blocks {
		back := false
		for _, p := range h.Preds {
			if h.Dominates(p) {
				back = true
			}
		}
		if !back {
			continue
		}
		body := loopBody(h)
		if !body[b] {
			continue
		}
		if best == nil || len(body) < bestSize {
			best, bestSize = h, len(body)
		}
	}
	return best
}

// iterationCanSkip: some path from the start of an iteration of the loop with header h comes back to h without
// passing block must (paths that leave the loop - a return, a break - are not iterations that were skipped).
func iterationCanSkip(h, must *ssa.BasicBlock) bool {
	if h == must {
		return false
	}
	body := loopBody(h)
	var start []*ssa.BasicBlock
	for _, s := range h.Succs {
		if body[s] && s != h {
			start = append(start, s)
		}
	}
	reach := eng.ReachableBlocks(start, func(b *ssa.BasicBlock) bool { return b == must || !body[b] || b == h })
	for b := range reach {
		for _, s := range b.Succs {
			if s == h {
				return true
			}
		}
	}
	return false
}

// ---------------------------------------------------------------------------------------------------------------
// R10.18 every selected page becomes a page of the document.

// R10.18 [C10]
func ruleEverySelectedPageAdded(c *eng.Ctx) {
	const R = "R10.18-EVERY-SELECTED-PAGE-ADDED"
	c.Rule(R, "in the page loop of Extractor.Document every iteration that comes back to the loop head has passed the call of Document.AddPage: a `continue` for a page without text (a blank page, a page whose fragments were all filtered) would leave that page out of the document, and Pages(S) would no longer yield one page per selected page", 1, 1)
	for _, name := range []string{"tabula.(*Extractor).Document", eng.PositivePkg + ".CollectPages"} {
		fn := c.P.Func(name)
		if fn == nil {
			if !strings.Contains(name, eng.PositivePkg) {
				c.Undec(R, name, token.NoPos, "anchor not found")
			}
			continue
		}
		n := 0
		for _, h := range eng.Cluster(fn, 2) {
			if h.Pkg != fn.Pkg {
				continue
			}
			for _, ci := range eng.Calls(h, false, func(nm string, _ ssa.CallInstruction) bool {
				return nm == "model.(*Document).AddPage" || nm == eng.PositivePkg+".(*Pages).Add"
			}) {
				head := innermostLoopOf(ci.Block())
				if head == nil {
					continue
				}
				n++
				c.Check(!iterationCanSkip(head, ci.Block()), R, fmt.Sprintf("%s#add%d", eng.FuncName(h), n), ci.Pos(), "every iteration of the page loop reaches AddPage", "an iteration of the page loop can come back to the loop head without AddPage: the selected page it stands for is missing from the document (a blank page 2 selected with Pages(2) gives a document of zero pages)")
			}
		}
		if n == 0 && !strings.Contains(name, eng.PositivePkg) {
			c.Ok(R, name+"#no-loop", fn.Pos(), "no AddPage inside a loop: not evaluated")
		}
	}
}

// ---------------------------------------------------------------------------------------------------------------
// R10.19 the table of contents has one entry per heading, on the page's own number.

// R10.19 [C10, C12]
func ruleTOCEntryPerHeading(c *eng.Ctx) {
	const R = "R10.19-TOC-ENTRY-PER-HEADING"
	c.Rule(R, "model.(*Document).TableOfContents appends one entry in every iteration of its loop over a page's headings, and the entry's Page is the Number of the page the heading is on. The extractor stamps the source page into Number and the chunker finds a heading by (page number, text) in this list: an entry numbered by position is on the wrong page under a page selection, and a heading left out (because an equal title was listed before) is chunked as body text under the previous section", 2, 0)
	fn := c.P.Func("model.(*Document).TableOfContents")
	if fn == nil {
		c.Undec(R, "model.(*Document).TableOfContents", token.NoPos, "anchor not found")
		return
	}
	name := eng.FuncName(fn)
	// the Page of an entry
	nPage, okPage := 0, true
	var posPage token.Pos = fn.Pos()
	var entryStores []*ssa.Store
	for _, h := range eng.Cluster(fn, 1) {
		if h.Pkg != fn.Pkg {
			continue
		}
		eng.Instrs(h, true, func(in ssa.Instruction) {
			st, ok := in.(*ssa.Store)
			if !ok {
				return
			}
			fr, ok := eng.AsField(st.Addr)
			if !ok || !strings.HasSuffix(fr.Struct, "model.TOCEntry") {
				return
			}
			if fr.Field == "Text" {
				entryStores = append(entryStores, st)
			}
			if fr.Field != "Page" {
				return
			}
			nPage++
			fromNumber := false
			for v := range eng.SliceInter(st.Val, nil, eng.Cluster(fn, 1)) {
				if lf, ok := eng.LoadOfField(v); ok && lf.Field == "Number" && strings.HasSuffix(lf.Struct, "model.Page") {
					fromNumber = true
				}
			}
			if !fromNumber {
				okPage = false
				posPage = st.Pos()
			}
		})
	}
	if nPage == 0 {
		c.Ok(R, name+"#page", fn.Pos(), "no store to TOCEntry.Page found: not evaluated")
	} else {
		c.Check(okPage, R, name+"#page", posPage, "TOCEntry.Page is the page's Number", "TOCEntry.Page is not taken from the Number of the page: under a page selection (Pages(3), Pages(4,2)) the entry names a position in the selection instead of the source page, and the chunker, which looks headings up by page number, no longer finds them")
	}
	// one entry per heading
	evaluated := false
	for _, st := range entryStores {
		head := innermostLoopOf(st.Block())
		if head == nil {
			continue
		}
		// the append that takes the entry: in the same iteration
		var app ssa.Instruction
		for b := range loopBody(head) {
			for _, in := range b.Instrs {
				if call, ok := in.(*ssa.Call); ok && eng.CalleeName(call) == "builtin:append" {
					if _, isEntry := call.Type().(*types.Slice); isEntry && strings.HasSuffix(eng.TypeName(call.Type().(*types.Slice).Elem()), "model.TOCEntry") {
						app = in
					}
				}
			}
		}
		if app == nil {
			continue
		}
		evaluated = true
		c.Check(!iterationCanSkip(head, app.Block()), R, name+"#every-heading", app.Pos(), "every iteration of the heading loop appends its entry", "an iteration of the loop over the headings can end without appending an entry (a heading whose level and text were listed before, on an earlier page): the chunker no longer recognises that heading, it becomes body text and the content below it reports the previous section")
	}
	if !evaluated {
		c.Ok(R, name+"#every-heading", fn.Pos(), "the entries are not appended in a loop of this function: not evaluated")
	}
}

// ---------------------------------------------------------------------------------------------------------------
// R11.12 no group of repeated marginal text is discarded because its text is short.

// textLengthOf: v is len(s) or utf8.RuneCountInString(s) of a string.
func textLengthOf(v ssa.Value) (string, bool) {
	for {
		if cv, ok := v.(*ssa.Convert); ok {
			v = cv.X
			continue
		}
		break
	}
	call, ok := v.(*ssa.Call)
	if !ok || len(call.Call.Args) != 1 {
		return "", false
	}
	if bt, isB := call.Call.Args[0].Type().Underlying().(*types.Basic); !isB || bt.Info()&types.IsString == 0 {
		return "", false
	}
	switch eng.CalleeName(call) {
	case "builtin:len":
		return "len", true
	case "unicode/utf8.RuneCountInString":
		return "runes", true
	}
	return "", false
}

// R11.12 [C11]
func ruleNoGroupSkippedByLength(c *eng.Ctx) {
	const R = "R11.12-NO-GROUP-SKIPPED-BY-LENGTH"
	c.Rule(R, "layout.(*HeaderFooterDetector).findRepeatingPatterns decides on a group of candidates by its occurrences and positions only: no branch of it compares the length of the group's text with a constant. A running header of one or two characters (a chapter letter, a section sign, a two-character CJK title) repeats at the same marginal position on every page like any other and has to be removed from every page", 1, 1)
	for _, name := range []string{"layout.(*HeaderFooterDetector).findRepeatingPatterns", eng.PositivePkg + ".RepeatedGroups"} {
		fn := c.P.Func(name)
		if fn == nil {
			if !strings.Contains(name, eng.PositivePkg) {
				c.Undec(R, name, token.NoPos, "anchor not found")
			}
			continue
		}
		var bad []string
		var pos token.Pos = fn.Pos()
		eng.Instrs(fn, true, func(in ssa.Instruction) {
			iff, ok := in.(*ssa.If)
			if !ok {
				return
			}
			for v := range eng.Slice(iff.Cond, nil) {
				b, ok := v.(*ssa.BinOp)
				if !ok {
					continue
				}
				switch b.Op {
				case token.LSS, token.LEQ, token.GTR, token.GEQ, token.EQL, token.NEQ:
				default:
					continue
				}
				for _, pair := range [][2]ssa.Value{{b.X, b.Y}, {b.Y, b.X}} {
					how, isLen := textLengthOf(pair[0])
					k, isC := eng.ConstInt(pair[1])
					if isLen && isC && k > 0 {
						bad = append(bad, fmt.Sprintf("%s(text) %s %d at %s", how, b.Op, k, c.P.Pos(b.Pos())))
						pos = b.Pos()
					}
				}
			}
		})
		c.Check(len(bad) == 0, R, eng.FuncName(fn)+"#length-test", pos, "no branch tests the length of a group's text", "a branch tests the length of the candidate text ("+strings.Join(bad, "; ")+"): a short running header (\"A1\", \"§\", a two-character CJK title) that repeats at the same marginal position on every page is dropped from the candidates and stays on every page")
	}
}

// ---------------------------------------------------------------------------------------------------------------
// R11.13 a region applies to the pages it was seen on.

// R11.13 [C11]
func ruleRegionPagesByMembership(c *eng.Ctx) {
	const R = "R11.13-REGION-PAGES-BY-MEMBERSHIP"
	c.Rule(R, "layout.containsPage, evaluated on page lists (empty, one page, ascending with gaps, descending) and every page from 0 to 7: the answer is yes exactly for the pages that are in the list. A region applied to every page between its first and its last page deletes, on a page in between that has no marginal text, the body line nearest to the edge when it looks like a page number", 1, 0)
	fn := c.P.Func("layout.containsPage")
	if fn == nil || len(fn.Params) != 2 {
		c.Ok(R, "layout.containsPage", token.NoPos, "no such helper: not evaluated")
		return
	}
	listIdx, pageIdx := 0, 1
	if _, ok := fn.Params[0].Type().Underlying().(*types.Slice); !ok {
		listIdx, pageIdx = 1, 0
	}
	if _, ok := fn.Params[listIdx].Type().Underlying().(*types.Slice); !ok {
		c.Ok(R, "layout.containsPage", fn.Pos(), "no list parameter: not evaluated")
		return
	}
	n, bad, skipped := 0, "", ""
	for _, list := range [][]int64{nil, {0}, {3}, {0, 2, 5}, {1, 3}, {5, 2, 0}, {0, 1, 2, 3}, {2, 6}} {
		for page := int64(0); page <= 7 && bad == "" && skipped == ""; page++ {
			var elems []any
			want := false
			for _, v := range list {
				elems = append(elems, v)
				if v == page {
					want = true
				}
			}
			args := make([]any, 2)
			args[listIdx] = eng.SliceOf(elems...)
			args[pageIdx] = page
			got, err := eng.NewEvaluator().Call(fn, args, 0)
			if err != nil && !err.Panic {
				skipped = err.Msg
				break
			}
			n++
			if err != nil {
				bad = fmt.Sprintf("containsPage(%v, %d): %s", list, page, err.Msg)
			} else if g, ok := got.(bool); !ok || g != want {
				bad = fmt.Sprintf("containsPage(%v, %d) = %v", list, page, got)
			}
		}
	}
	if skipped != "" {
		c.Ok(R, "layout.containsPage", fn.Pos(), "not evaluated: "+skipped)
		return
	}
	c.Check(bad == "", R, "layout.containsPage#membership", fn.Pos(), fmt.Sprintf("%d lists and pages evaluated", n), "containsPage does not answer membership ("+bad+"): a region is applied to pages it was never seen on (or not to pages it was seen on), and a body line near the edge of such a page that looks like a page number is deleted")
}

// isStringWrite: the call appends a string to a text that is being built: WriteString on a builder or buffer, or
// append(buf, s...) onto a plain byte slice (the argument positions agree: Args[0] is the text, Args[1] the string).
func isStringWrite(name string, ci ssa.CallInstruction) bool {
	if strings.HasSuffix(name, ").WriteString") {
		return true
	}
	if name != "builtin:append" {
		return false
	}
	args := ci.Common().Args
	if len(args) != 2 {
		return false
	}
	bt, ok := args[1].Type().Underlying().(*types.Basic)
	return ok && bt.Info()&types.IsString != 0
}

// ---------------------------------------------------------------------------------------------------------------
// R20.10 a Read that returns data together with io.EOF has not failed.

// R20.10 [C20, C01]
func ruleReadEOFIsNotFailure(c *eng.Ctx) {
	const R = "R20.10-READ-EOF-NOT-FAILURE"
	c.Rule(R, "where the error of a single Read call on a reader of unknown kind (an io.Reader, the io.ReadCloser of a ZIP member) decides a branch, the function also compares that error with io.EOF: io.Reader allows Read to return the data and io.EOF in the same call, and the reader of a deflated ZIP member does exactly that, so `if err != nil { fail }` refuses every EPUB or ODT whose mimetype member was written compressed", 0, 1)
	n := 0
	for _, fn := range c.P.ModuleFuncs() {
		if fn.Blocks == nil {
			continue
		}
		k := 0
		eng.Instrs(fn, true, func(in ssa.Instruction) {
			call, ok := in.(*ssa.Call)
			if !ok || !call.Call.IsInvoke() || call.Call.Method.Name() != "Read" {
				return
			}
			sig := call.Call.Signature()
			if sig.Params().Len() != 1 || sig.Results().Len() != 2 || !eng.IsErrorType(sig.Results().At(1).Type()) {
				return
			}
			var errv ssa.Value
			for _, r := range *call.Referrers() {
				if ex, ok := r.(*ssa.Extract); ok && ex.Index == 1 {
					errv = ex
				}
			}
			if errv == nil {
				return
			}
			// every value the error is copied into (phis, cells of named results)
			decides := false
			comparesEOF := false
			isErr := func(v ssa.Value) bool {
				for w := range eng.Slice(v, nil) {
					if w == errv {
						return true
					}
				}
				return false
			}
			isEOF := func(v ssa.Value) bool {
				u, ok := v.(*ssa.UnOp)
				if !ok || u.Op != token.MUL {
					return false
				}
				g, ok := u.X.(*ssa.Global)
				return ok && g.Pkg != nil && g.Pkg.Pkg.Path() == "io" && (g.Name() == "EOF" || g.Name() == "ErrUnexpectedEOF")
			}
			eng.Instrs(in.Parent(), false, func(in2 ssa.Instruction) {
				switch x := in2.(type) {
				case *ssa.BinOp:
					if x.Op != token.EQL && x.Op != token.NEQ {
						return
					}
					if (isErr(x.X) && isEOF(x.Y)) || (isErr(x.Y) && isEOF(x.X)) {
						comparesEOF = true
					}
					if (isErr(x.X) && eng.IsNilConst(x.Y)) || (isErr(x.Y) && eng.IsNilConst(x.X)) {
						for _, r := range *x.Referrers() {
							if _, isIf := r.(*ssa.If); isIf {
								decides = true
							}
							if _, isB := r.(*ssa.BinOp); isB {
								decides = true
							}
						}
					}
				case *ssa.Call:
					if eng.CalleeName(x) == "errors.Is" && len(x.Call.Args) == 2 && isErr(x.Call.Args[0]) && isEOF(x.Call.Args[1]) {
						comparesEOF = true
					}
				}
			})
			if !decides {
				return
			}
			n++
			k++
			c.Check(comparesEOF, R, fmt.Sprintf("%s#read%d", eng.FuncName(fn), k), call.Pos(), "the error of the Read is compared with io.EOF", "the error of a single Read decides a branch and is never compared with io.EOF: a reader that returns its data together with io.EOF (a deflated ZIP member, a bytes reader at its end) is taken for a failed read, and a document written that way is refused")
		})
	}
	c.Ok(R, "module#scanned", token.NoPos, fmt.Sprintf("%d Read calls on readers of unknown kind whose error decides a branch", n))
}

// ---------------------------------------------------------------------------------------------------------------
// RX.CN callers of one function agree on cleaning the argument.

// cleanerOf: v is (a re-slice or conversion of) the result of a function that takes one text and returns one text of
// the same type - a module helper or one of the trimming functions of strings/bytes. Returns the cleaner's name.
func cleanerOf(v ssa.Value) string {
	for i := 0; i < 6; i++ {
		switch x := v.(type) {
		case *ssa.Convert:
			v = x.X
			continue
		case *ssa.ChangeType:
			v = x.X
			continue
		case *ssa.Call:
			g := eng.StaticCallee(x)
			if g == nil {
				return ""
			}
			nm := eng.FuncName(g)
			switch nm {
			case "strings.TrimSpace", "strings.TrimLeft", "strings.TrimRight", "strings.Trim",
				"bytes.TrimSpace", "bytes.TrimLeft", "bytes.TrimRight", "bytes.Trim", "strings.TrimLeftFunc", "bytes.TrimLeftFunc", "strings.ReplaceAll", "strings.Map":
				return nm
			}
			if eng.InModule(g) && g.Signature.Results().Len() == 1 && g.Signature.Params().Len() >= 1 && g.Signature.Recv() == nil {
				rt := g.Signature.Results().At(0).Type()
				if types.Identical(rt, g.Signature.Params().At(0).Type()) && isTextType(rt) {
					return nm
				}
			}
			return ""
		}
		break
	}
	return ""
}

// collectedCleaned: v is an element of a list the function collected itself with append, and what it appended was
// cleaned (tokens cut out of a section, each stripped before it is kept).
func collectedCleaned(v ssa.Value) string {
	u, ok := v.(*ssa.UnOp)
	if !ok || u.Op != token.MUL {
		return ""
	}
	ia, ok := u.X.(*ssa.IndexAddr)
	if !ok {
		return ""
	}
	out := ""
	for w := range eng.Slice(ia.X, nil) {
		call, ok := w.(*ssa.Call)
		if !ok || eng.CalleeName(call) != "builtin:append" || len(call.Call.Args) != 2 {
			continue
		}
		sl, ok := call.Call.Args[1].(*ssa.Slice)
		if !ok {
			continue
		}
		al, ok := sl.X.(*ssa.Alloc)
		if !ok {
			continue
		}
		for _, r := range *al.Referrers() {
			ea, ok := r.(*ssa.IndexAddr)
			if !ok {
				continue
			}
			for _, rr := range *ea.Referrers() {
				if st, ok := rr.(*ssa.Store); ok {
					if cl := cleanerOf(st.Val); cl != "" {
						out = cl
					} else {
						return "" // one element is kept as it is
					}
				}
			}
		}
	}
	return out
}

func isTextType(t types.Type) bool {
	if bt, ok := t.Underlying().(*types.Basic); ok {
		return bt.Info()&types.IsString != 0
	}
	if sl, ok := t.Underlying().(*types.Slice); ok {
		if bt, ok := sl.Elem().Underlying().(*types.Basic); ok {
			return bt.Kind() == types.Uint8
		}
	}
	return false
}

func callersAgreeRule(id string, pkgs ...string) func(*eng.Ctx) {
	return func(c *eng.Ctx) {
		R := id + "-CALLERS-AGREE-ON-CLEANING"
		c.Rule(R, "the call sites of one unexported function agree on cleaning a text argument: where one caller hands the function the result of a trimming or normalising function (strings.TrimSpace, a helper of the package that maps a text to a text) and the function does not clean that parameter itself, every other caller hands it a text cleaned the same way or derived from one. A cleaning step moved out of a function into 'the' caller silently disappears for the callers that were not edited", 0, 1)
		inPkgs := map[string]bool{}
		for _, p := range pkgs {
			inPkgs[p] = true
		}
		type site struct {
			ci      ssa.CallInstruction
			cleaner string
		}
		sites := map[*ssa.Function]map[int][]site{}
		for _, fn := range c.P.ModuleFuncs() {
			if fn.Blocks == nil || fn.Pkg == nil {
				continue
			}
			sp := eng.ShortPath(fn.Pkg.Pkg.Path())
			if !inPkgs[sp] && !strings.Contains(sp, eng.PositivePkg) {
				continue
			}
			eng.Instrs(fn, false, func(in ssa.Instruction) {
				ci, ok := in.(ssa.CallInstruction)
				if !ok {
					return
				}
				g := eng.StaticCallee(ci)
				if g == nil || !eng.InModule(g) || g.Pkg != fn.Pkg || g.Blocks == nil {
					return
				}
				if obj, ok := g.Object().(*types.Func); !ok || obj.Exported() {
					return
				}
				args := eng.ArgsWithRecv(ci)
				for i, a := range args {
					if i >= len(g.Params) || !isTextType(g.Params[i].Type()) {
						continue
					}
					cl := cleanerOf(a)
					if cl == "" {
						cl = collectedCleaned(a)
					}
					if sites[g] == nil {
						sites[g] = map[int][]site{}
					}
					sites[g][i] = append(sites[g][i], site{ci, cl})
				}
			})
		}
		n := 0
		var fns []*ssa.Function
		for g := range sites {
			fns = append(fns, g)
		}
		sortFuncs(fns)
		for _, g := range fns {
			for i := 0; i < len(g.Params); i++ {
				ss := sites[g][i]
				cleaned := map[string]int{}
				var raw []site
				for _, s := range ss {
					if s.cleaner != "" {
						cleaned[s.cleaner]++
					} else {
						raw = append(raw, s)
					}
				}
				if len(cleaned) == 0 || len(raw) == 0 {
					continue
				}
				// the function cleans the parameter itself: the callers' cleaning is a courtesy
				self := false
				for _, r := range *g.Params[i].Referrers() {
					if v, ok := r.(ssa.Value); ok && cleanerOf(v) != "" {
						self = true
					}
				}
				if self {
					continue
				}
				var names []string
				for nm := range cleaned {
					names = append(names, nm)
				}
				sortStrings(names)
				for _, s := range raw {
					// the caller hands on its own parameter, and every caller of the caller hands it a cleaned text
					if prm, isP := eng.ArgsWithRecv(s.ci)[i].(*ssa.Parameter); isP {
						h := s.ci.Parent()
						idx := -1
						for j, q := range h.Params {
							if q == prm {
								idx = j
							}
						}
						if up := sites[h][idx]; idx >= 0 && len(up) > 0 {
							all := true
							for _, u := range up {
								if u.cleaner == "" {
									all = false
								}
							}
							if all {
								continue
							}
						}
					}
					// the raw text is a constant or comes from a source that cannot carry what the cleaner removes
					if _, isC := eng.ArgsWithRecv(s.ci)[i].(*ssa.Const); isC {
						continue
					}
					n++
					c.Viol(R, fmt.Sprintf("%s#arg%d@%s", eng.FuncName(g), i, eng.FuncName(s.ci.Parent())), s.ci.Pos(), fmt.Sprintf("%s is handed a text cleaned with %s by other callers and does not clean it itself, but this call in %s hands it the text as it is: what the cleaner removes (leading white space, separators) reaches the function here and is read as content", eng.FuncName(g), strings.Join(names, ", "), eng.FuncName(s.ci.Parent())))
				}
			}
		}
		c.Ok(R, "module#scanned", token.NoPos, fmt.Sprintf("%d functions with text parameters and in-package callers compared, %d raw call sites", len(fns), n))
	}
}

func sortFuncs(fs []*ssa.Function) {
	for i := 1; i < len(fs); i++ {
		for j := i; j > 0 && eng.FuncName(fs[j]) < eng.FuncName(fs[j-1]); j-- {
			fs[j], fs[j-1] = fs[j-1], fs[j]
		}
	}
}

func sortStrings(s []string) {
	for i := 1; i < len(s); i++ {
		for j := i; j > 0 && s[j] < s[j-1]; j-- {
			s[j], s[j-1] = s[j-1], s[j]
		}
	}
}

// ---------------------------------------------------------------------------------------------------------------
// R18.19 a reference is percent-decoded once.

// R18.19 [C18]
func ruleDecodedOnce(c *eng.Ctx) {
	const R = "R18.19-DECODED-ONCE"
	c.Rule(R, "in the EPUB reader the argument of url.PathUnescape / url.QueryUnescape never derives from a text that was percent-decoded before (the result of an earlier decoding, a struct field that holds one, or a parameter handed such a value by a caller in the package): an href that escapes a literal percent sign (chapter%2520one.xhtml for the member chapter%20one.xhtml) decoded twice names another member, so the declared part is dropped or an undeclared member is read in its place", 1, 1)
	isDecoder := func(call *ssa.Call) bool {
		switch eng.CalleeName(call) {
		case "net/url.PathUnescape", "net/url.QueryUnescape":
			return true
		}
		return false
	}
	var fns []*ssa.Function
	for _, fn := range c.P.ModuleFuncs() {
		if fn.Blocks == nil || fn.Pkg == nil {
			continue
		}
		sp := eng.ShortPath(fn.Pkg.Pkg.Path())
		if sp == "epubdoc" || strings.Contains(sp, eng.PositivePkg) {
			fns = append(fns, fn)
		}
	}
	decodedFields := map[string]bool{}
	returnsDecoded := map[*ssa.Function]bool{}
	var origin func(v ssa.Value, fn *ssa.Function, depth int) bool
	origin = func(v ssa.Value, fn *ssa.Function, depth int) bool {
		if depth > 3 {
			return false
		}
		for w := range eng.Slice(v, func(*ssa.Call) bool { return false }) {
			switch x := w.(type) {
			case *ssa.Call:
				if isDecoder(x) {
					return true
				}
				if g := eng.StaticCallee(x); g != nil && returnsDecoded[g] {
					return true
				}
			case *ssa.Extract:
				if call, ok := x.Tuple.(*ssa.Call); ok && x.Index == 0 {
					if isDecoder(call) {
						return true
					}
					if g := eng.StaticCallee(call); g != nil && returnsDecoded[g] {
						return true
					}
				}
			case *ssa.Parameter:
				idx := -1
				for j, q := range fn.Params {
					if q == x {
						idx = j
					}
				}
				if idx < 0 {
					continue
				}
				for _, h := range fns {
					if h.Pkg != fn.Pkg {
						continue
					}
					for _, ci := range eng.Calls(h, false, func(_ string, ci ssa.CallInstruction) bool { return eng.StaticCallee(ci) == fn }) {
						args := eng.ArgsWithRecv(ci)
						if idx < len(args) && origin(args[idx], h, depth+1) {
							return true
						}
					}
				}
			default:
				if fr, ok := eng.LoadOfField(w); ok && decodedFields[fr.Struct+"."+fr.Field] {
					return true
				}
			}
		}
		return false
	}
	for round := 0; round < 3; round++ {
		for _, fn := range fns {
			for _, r := range eng.Returns(fn) {
				for _, v := range eng.ReturnValues(r) {
					if bt, ok := v.Type().Underlying().(*types.Basic); ok && bt.Info()&types.IsString != 0 && origin(v, fn, 0) {
						returnsDecoded[fn] = true
					}
				}
			}
			eng.Instrs(fn, false, func(in ssa.Instruction) {
				st, ok := in.(*ssa.Store)
				if !ok {
					return
				}
				fr, ok := eng.AsField(st.Addr)
				if !ok {
					return
				}
				if bt, isB := st.Val.Type().Underlying().(*types.Basic); !isB || bt.Info()&types.IsString == 0 {
					return
				}
				if origin(st.Val, fn, 0) {
					decodedFields[fr.Struct+"."+fr.Field] = true
				}
			})
		}
	}
	n := 0
	for _, fn := range fns {
		for _, ci := range eng.Calls(fn, false, func(_ string, ci ssa.CallInstruction) bool {
			call, ok := ci.(*ssa.Call)
			return ok && isDecoder(call)
		}) {
			n++
			arg := ci.Common().Args[0]
			c.Check(!origin(arg, fn, 0), R, fmt.Sprintf("%s#decode%d", eng.FuncName(fn), n), ci.Pos(), "the text that is decoded was not decoded before", "the text handed to the percent-decoder was percent-decoded before (it derives from an earlier decoding or from a field that holds one): an href with an escaped percent sign (c%2520two.xhtml) becomes 'c two.xhtml' instead of 'c%20two.xhtml', the declared part is not found and is dropped, or another member is read in its place")
		}
	}
	if n == 0 {
		c.Ok(R, "epubdoc#decoders", token.NoPos, "no percent-decoding in the package: not evaluated")
	}
}

// ---------------------------------------------------------------------------------------------------------------
// R17.16 an address written in the file is not replaced.

// R17.16 [C17]
func ruleDeclaredAddressKept(c *eng.Ctx) {
	const R = "R17.16-DECLARED-ADDRESS-KEPT"
	c.Rule(R, "in the XLSX reader a field that holds the r attribute of a <row> or <c> element (the row number, the cell reference) is assigned only where it was found absent (compared equal with 0 or \"\" on the way) or from a value derived from itself: a row or cell that carries its address is placed there, whatever order the file lists the rows in; renumbering a row because its number is lower than the previous row's moves its cells to a row their references do not name", 0, 1)
	n := 0
	for _, fn := range c.P.ModuleFuncs() {
		if fn.Blocks == nil || fn.Pkg == nil {
			continue
		}
		sp := eng.ShortPath(fn.Pkg.Pkg.Path())
		if sp != "xlsx" && !strings.Contains(sp, eng.PositivePkg) {
			continue
		}
		k := 0
		eng.Instrs(fn, true, func(in ssa.Instruction) {
			st, ok := in.(*ssa.Store)
			if !ok {
				return
			}
			fa, ok := st.Addr.(*ssa.FieldAddr)
			if !ok {
				return
			}
			stt, ok := fa.X.Type().Underlying().(*types.Pointer).Elem().Underlying().(*types.Struct)
			if !ok {
				return
			}
			tag := stt.Tag(fa.Field)
			if !strings.Contains(tag, `xml:"r,attr"`) {
				return
			}
			// a struct under construction (a literal) is not an element read from the file
			if _, isAlloc := fa.X.(*ssa.Alloc); isAlloc {
				return
			}
			n++
			k++
			same := func(v ssa.Value) bool {
				u, ok := v.(*ssa.UnOp)
				if !ok || u.Op != token.MUL {
					return false
				}
				fb, ok := u.X.(*ssa.FieldAddr)
				return ok && fb.Field == fa.Field && eng.SameValue(fb.X, fa.X)
			}
			// derived from itself: through calls and operators only (a value carried around a loop comes from another element)
			fromItself := false
			var walk func(v ssa.Value, d int)
			walk = func(v ssa.Value, d int) {
				if d > 6 || fromItself {
					return
				}
				if same(v) {
					fromItself = true
					return
				}
				switch x := v.(type) {
				case *ssa.Call:
					for _, a := range x.Call.Args {
						walk(a, d+1)
					}
				case *ssa.BinOp:
					walk(x.X, d+1)
					walk(x.Y, d+1)
				case *ssa.Convert:
					walk(x.X, d+1)
				case *ssa.Extract:
					walk(x.Tuple, d+1)
				case *ssa.Slice:
					walk(x.X, d+1)
				}
			}
			walk(st.Val, 0)
			absent := eng.GuardedBy(in.Parent(), st.Block(), func(f eng.Fact) bool {
				op, x, y, ok := f.Cmp()
				if !ok || op != token.EQL {
					return false
				}
				for _, pair := range [][2]ssa.Value{{x, y}, {y, x}} {
					if !same(pair[0]) {
						continue
					}
					if k, isC := eng.ConstInt(pair[1]); isC && k == 0 {
						return true
					}
					if s, isS := eng.ConstString(pair[1]); isS && s == "" {
						return true
					}
				}
				return false
			})
			c.Check(fromItself || absent, R, fmt.Sprintf("%s#address%d", eng.FuncName(fn), k), st.Pos(), "assigned only where absent, or derived from itself", "the address an element carries in its r attribute is replaced by another one where it was not found absent: rows written out of ascending order (3, 1, 5, 2) are renumbered, and their cells appear on rows other than the ones their references name")
		})
	}
	c.Ok(R, "xlsx#scanned", token.NoPos, fmt.Sprintf("%d assignments to an r attribute field", n))
}

// ---------------------------------------------------------------------------------------------------------------
// R16.18 a table cell goes into a row-per-line rendering on one line.

// R16.18 [C16, C15]
func ruleTableCellOnOneLine(c *eng.Ctx) {
	const R = "R16.18-TABLE-CELL-ON-ONE-LINE"
	c.Rule(R, "in the ToText and ToMarkdown writers of the DOCX and ODT tables, which put one table row on one output line, every text that comes from a cell (a field or method of a ...TableCell value) reaches the output through a function that deals with line feeds: strings.ReplaceAll/Replace/NewReplacer naming \"\\n\", strings.Fields, strings.Map, or a helper of the package that handles \"\\n\". A cell holds line feeds between its paragraphs and for every line break inside a paragraph; written as it is the row is cut in two, the rest is no longer a table row and the grid is not the one authored", 4, 1)
	n := 0
	for _, fn := range c.P.ModuleFuncs() {
		if fn.Blocks == nil || fn.Pkg == nil || fn.Signature.Recv() == nil || fn.Parent() != nil {
			continue
		}
		sp := eng.ShortPath(fn.Pkg.Pkg.Path())
		if sp != "docx" && sp != "odt" && !strings.Contains(sp, eng.PositivePkg) {
			continue
		}
		if fn.Name() != "ToText" && fn.Name() != "ToMarkdown" {
			continue
		}
		if !strings.HasSuffix(eng.TypeName(fn.Signature.Recv().Type()), "ParsedTable") {
			continue
		}
		isCell := func(t types.Type) bool {
			if p, ok := t.Underlying().(*types.Pointer); ok {
				t = p.Elem()
			}
			return strings.HasSuffix(eng.TypeName(t), "TableCell")
		}
		k := 0
		for _, h := range eng.Cluster(fn, 1) {
			if h.Pkg != fn.Pkg {
				continue
			}
			eng.Instrs(h, true, func(in ssa.Instruction) {
				ci, ok := in.(ssa.CallInstruction)
				if !ok || !isStringWrite(eng.CalleeName(ci), ci) {
					return
				}
				arg := ci.Common().Args[1]
				fromCell, oneLine := false, false
				for w := range eng.Slice(arg, func(*ssa.Call) bool { return true }) {
					switch x := w.(type) {
					case *ssa.FieldAddr:
						if isCell(x.X.Type()) {
							if bt, ok := x.Type().Underlying().(*types.Pointer).Elem().Underlying().(*types.Basic); ok && bt.Info()&types.IsString != 0 {
								fromCell = true
							}
							if _, isSl := x.Type().Underlying().(*types.Pointer).Elem().Underlying().(*types.Slice); isSl {
								fromCell = true
							}
						}
					case *ssa.Field:
						if isCell(x.X.Type()) {
							if bt, ok := x.Type().Underlying().(*types.Basic); ok && bt.Info()&types.IsString != 0 {
								fromCell = true
							}
							if _, isSl := x.Type().Underlying().(*types.Slice); isSl {
								fromCell = true
							}
						}
					case *ssa.Call:
						cn := eng.CalleeName(x)
						switch cn {
						case "strings.ReplaceAll", "strings.Replace":
							if s, ok := eng.ConstString(x.Call.Args[1]); ok && strings.Contains(s, "\n") {
								oneLine = true
							}
						case "strings.Fields", "strings.Map", "strings.FieldsFunc", "strings.(*Replacer).Replace":
							oneLine = true
						default:
							if cal := eng.StaticCallee(x); cal != nil && eng.InModule(cal) {
								if mentionsLineBreak(cal) {
									oneLine = true
								}
								if cal.Signature.Recv() != nil && isCell(cal.Signature.Recv().Type()) {
									if bt, ok := x.Type().Underlying().(*types.Basic); ok && bt.Info()&types.IsString != 0 {
										fromCell = true
									}
								}
							}
						}
					}
				}
				if !fromCell {
					return
				}
				n++
				k++
				c.Check(oneLine, R, fmt.Sprintf("%s#cell-text%d", eng.FuncName(fn), k), ci.Pos(), "the cell text passes a function that handles line feeds", "a text taken from a table cell is written into the one-row-per-line output without passing a function that handles line feeds: a line break inside a cell paragraph (text:line-break, w:br) cuts the row in two, the row loses a field and the rest appears as a line of its own")
			})
		}
	}
	if n == 0 {
		c.Undec(R, "docx/odt#table-writers", token.NoPos, "no write of a cell text found in the ToText/ToMarkdown writers")
	}
}

// ---------------------------------------------------------------------------------------------------------------
// R19.16 a list item without text of its own still has its nested lists read.

// R19.16 [C19, C15]
func ruleTextlessItemKeepsNestedLists(c *eng.Ctx) {
	const R = "R19.16-TEXTLESS-ITEM-KEEPS-NESTED-LISTS"
	c.Rule(R, "in the HTML tree walks, where the direct text of a list item (getDirectTextContent) is found empty, the code that follows on that side still reaches the recursive walk of the item's children: <li><ul>...</ul></li> is how a nested list is written when the outer item has no text, and an early return for the empty item would drop every item of the nested list", 0, 1)
	n := 0
	for _, fn := range c.P.ModuleFuncs() {
		if fn.Blocks == nil || fn.Pkg == nil {
			continue
		}
		sp := eng.ShortPath(fn.Pkg.Pkg.Path())
		if sp != "htmldoc" && !strings.Contains(sp, eng.PositivePkg) {
			continue
		}
		k := 0
		for _, ci := range eng.Calls(fn, false, func(nm string, _ ssa.CallInstruction) bool {
			return strings.HasSuffix(nm, "htmldoc.getDirectTextContent") || nm == eng.PositivePkg+".directText"
		}) {
			text, ok := ci.(*ssa.Call)
			if !ok {
				continue
			}
			// the walk is recursive: the function (or a sibling walk) calls itself somewhere
			walks := func(b *ssa.BasicBlock) bool {
				for _, in := range b.Instrs {
					if call, ok := in.(ssa.CallInstruction); ok {
						if g := eng.StaticCallee(call); g != nil && (g == fn || (g.Pkg == fn.Pkg && strings.HasPrefix(g.Name(), "traverse"))) {
							return true
						}
					}
				}
				return false
			}
			recursive := false
			for _, b := range fn.Blocks {
				if walks(b) {
					recursive = true
				}
			}
			if !recursive {
				continue
			}
			for _, r := range *text.Referrers() {
				cmp, ok := r.(*ssa.BinOp)
				if !ok || (cmp.Op != token.EQL && cmp.Op != token.NEQ) {
					continue
				}
				other := cmp.Y
				if other == ssa.Value(text) {
					other = cmp.X
				}
				if s, isS := eng.ConstString(other); !isS || s != "" {
					continue
				}
				for _, rr := range *cmp.Referrers() {
					iff, ok := rr.(*ssa.If)
					if !ok {
						continue
					}
					empty := iff.Block().Succs[0]
					if cmp.Op == token.NEQ {
						empty = iff.Block().Succs[1]
					}
					n++
					k++
					reach := eng.ReachableBlocks([]*ssa.BasicBlock{empty}, nil)
					found := false
					for b := range reach {
						if walks(b) {
							found = true
						}
					}
					c.Check(found, R, fmt.Sprintf("%s#empty-item%d", eng.FuncName(fn), k), cmp.Pos(), "the side for an item without text reaches the walk of its children", "where the list item has no text of its own the function ends without walking the item's children: the items of a list nested in a text-less item (<li><ul><li>x</li></ul></li>) are lost from text, Markdown and the document model")
				}
			}
		}
	}
	if n == 0 {
		c.Ok(R, "htmldoc#walks", token.NoPos, "no emptiness test on a list item's direct text in a recursive walk: not evaluated")
	}
}

// ---------------------------------------------------------------------------------------------------------------
// R15.15 the body of a chunk is written whatever it says.

// R15.15 [C15]
func ruleChunkBodyWrittenUnconditionally(c *eng.Ctx) {
	const R = "R15.15-CHUNK-BODY-UNCONDITIONAL"
	c.Rule(R, "in rag.(*Chunk).contentToMarkdown (the writer ChunkCollection.ToMarkdownWithOptions uses for every chunk that does not open a new section) and its helpers, the write of the chunk's Text does not stand under a comparison of that Text with another text: the 'skip the text when it equals the section title' test belongs to the writer that has just written the title as a heading; here no heading was written, and a body chunk that repeats its section title (a caption, a running title) would be dropped from the document", 1, 0)
	fn := c.P.FuncExact("rag.(*Chunk).contentToMarkdown") // the writer by this name only: a renamed stand-in is another writer
	if fn == nil {
		c.Ok(R, "rag.(*Chunk).contentToMarkdown", token.NoPos, "no such writer: not evaluated")
		return
	}
	n := 0
	for _, h := range eng.Cluster(fn, 1) {
		if h.Pkg != fn.Pkg {
			continue
		}
		for _, ci := range eng.Calls(h, false, func(nm string, wc ssa.CallInstruction) bool { return isStringWrite(nm, wc) }) {
			arg := ci.Common().Args[1]
			fr, ok := eng.LoadOfField(arg)
			if !ok || fr.Field != "Text" || !strings.HasSuffix(fr.Struct, "rag.Chunk") {
				continue
			}
			n++
			isText := func(v ssa.Value) bool {
				f2, ok := eng.LoadOfField(v)
				return ok && f2.Field == "Text" && strings.HasSuffix(f2.Struct, "rag.Chunk")
			}
			conditional := eng.GuardedBy(h, ci.Block(), func(f eng.Fact) bool {
				op, x, y, ok := f.Cmp()
				if !ok || (op != token.EQL && op != token.NEQ) {
					return false
				}
				for _, pair := range [][2]ssa.Value{{x, y}, {y, x}} {
					if !isText(pair[0]) {
						continue
					}
					if s, isS := eng.ConstString(pair[1]); isS && s == "" {
						continue // nothing to write
					}
					return true
				}
				return false
			})
			c.Check(!conditional, R, fmt.Sprintf("%s#text%d", eng.FuncName(h), n), ci.Pos(), "the chunk text is written whatever it says", "the chunk's Text is written only when it differs from another text (the section title): on this path no heading was written before, so a body chunk whose text equals its section title disappears from the Markdown document")
		}
	}
	if n == 0 {
		c.Ok(R, "rag.(*Chunk).contentToMarkdown#text", fn.Pos(), "no direct write of Chunk.Text found: not evaluated")
	}
}

// ---------------------------------------------------------------------------------------------------------------
// R9.10 the text pipeline drops no character by its class.

// R9.10 [C09]
func ruleNoCharacterClassFilter(c *eng.Ctx) {
	const R = "R9.10-NO-CHARACTER-CLASS-FILTER"
	c.Rule(R, "in the packages between the content stream and the returned page text (tabula, text, layout, model) no strings.Map / bytes.Map is applied with a mapping function that can answer a negative value (drop the character) for anything but white space: a filter by Unicode class (IsPrint, IsGraphic, not IsControl) also removes format and private-use characters - zero-width joiners of Persian and Indic text, soft hyphens, the U+F0B7 bullet of Symbol fonts - which are non-white-space characters of the input fragments", 0, 1)
	n := 0
	for _, fn := range c.P.ModuleFuncs() {
		if fn.Blocks == nil || fn.Pkg == nil {
			continue
		}
		sp := eng.ShortPath(fn.Pkg.Pkg.Path())
		if sp != "" && sp != "text" && sp != "layout" && sp != "model" && !strings.Contains(sp, eng.PositivePkg) {
			continue
		}
		k := 0
		for _, ci := range eng.Calls(fn, false, func(nm string, _ ssa.CallInstruction) bool { return nm == "strings.Map" || nm == "bytes.Map" }) {
			var mapper *ssa.Function
			switch m := ci.Common().Args[0].(type) {
			case *ssa.MakeClosure:
				mapper, _ = m.Fn.(*ssa.Function)
			case *ssa.Function:
				mapper = m
			}
			if mapper == nil || mapper.Blocks == nil {
				continue
			}
			n++
			k++
			drops := ""
			for _, r := range eng.Returns(mapper) {
				for _, v := range eng.ReturnValues(r) {
					neg := false
					for w := range eng.Slice(v, nil) {
						if kk, ok := eng.ConstInt(w); ok && kk < 0 {
							neg = true
						}
					}
					if !neg {
						continue
					}
					onlySpace := eng.GuardedBy(mapper, r.Block(), func(f eng.Fact) bool {
						call, ok := f.Cond.(*ssa.Call)
						return ok && f.Pos && eng.CalleeName(call) == "unicode.IsSpace"
					})
					if !onlySpace {
						drops = c.P.Pos(r.Pos())
					}
				}
			}
			c.Check(drops == "", R, fmt.Sprintf("%s#map%d", eng.FuncName(fn), k), ci.Pos(), "the mapping function drops nothing but white space", "the mapping function can drop a character that is not white space (return of a negative value at "+drops+"): characters of the fragments (zero-width joiners, soft hyphens, private-use bullets) are missing from the page text")
		}
	}
	c.Ok(R, "pipeline#scanned", token.NoPos, fmt.Sprintf("%d strings.Map/bytes.Map calls with a known mapping function", n))
}

// ---------------------------------------------------------------------------------------------------------------
// R19.17 the HTML input is not re-decoded with a guessed legacy encoding.

// R19.17 [C19]
func ruleNoGuessedTranscoding(c *eng.Ctx) {
	const R = "R19.17-NO-GUESSED-TRANSCODING"
	c.Rule(R, "the HTML and EPUB readers do not wrap their input in charset.NewReader with an empty content type: that reader looks at the first 1024 bytes only and, finding neither a byte-order mark, a meta declaration nor a non-ASCII byte there, decodes the whole stream as windows-1252, so a UTF-8 page whose first kilobyte is plain ASCII comes back with every later non-ASCII character turned into two or three wrong ones", 0, 1)
	n := 0
	for _, fn := range c.P.ModuleFuncs() {
		if fn.Blocks == nil || fn.Pkg == nil {
			continue
		}
		sp := eng.ShortPath(fn.Pkg.Pkg.Path())
		if sp != "htmldoc" && sp != "epubdoc" && sp != "" && !strings.Contains(sp, eng.PositivePkg) {
			continue
		}
		k := 0
		for _, ci := range eng.Calls(fn, true, func(nm string, _ ssa.CallInstruction) bool {
			return nm == "golang.org/x/net/html/charset.NewReader"
		}) {
			n++
			k++
			ct, isC := eng.ConstString(ci.Common().Args[1])
			c.Check(!(isC && ct == ""), R, fmt.Sprintf("%s#transcode%d", eng.FuncName(fn), k), ci.Pos(), "the content type is given", "the input is wrapped in charset.NewReader(r, \"\"): without a declaration in the first 1024 bytes the whole document is decoded as windows-1252, and a UTF-8 document without a charset declaration whose first kilobyte is ASCII loses every non-ASCII character to mojibake")
		}
	}
	c.Ok(R, "html#scanned", token.NoPos, fmt.Sprintf("%d transcoding readers", n))
}

// ---------------------------------------------------------------------------------------------------------------
// R18.20 package-absolute relationship targets are told apart from relative ones.

// R18.20 [C18]
func ruleAbsoluteTargetsRecognised(c *eng.Ctx) {
	const R = "R18.20-ABSOLUTE-TARGETS-RECOGNISED"
	c.Rule(R, "the functions that turn a relationship target into an archive member name (pptx declaredSlideFiles, xlsx parseWorksheets, with their helpers) look at how the target starts - strings.HasPrefix(target, \"/\"), path.IsAbs, a comparison of its first byte with '/' - or resolve it as a URL reference: OPC allows package-absolute targets (/ppt/slides/slide1.xml) next to relative ones, and Go's path.Join concatenates, it does not let an absolute element win, so a join with the owner's directory turns the absolute target into ppt/ppt/slides/slide1.xml and the declared part is silently skipped", 2, 0)
	for _, name := range []string{"pptx.(*Reader).declaredSlideFiles", "xlsx.(*Reader).parseWorksheets"} {
		fn := c.P.Func(name)
		if fn == nil {
			c.Undec(R, name, token.NoPos, "anchor not found")
			continue
		}
		found := false
		for _, h := range eng.Cluster(fn, 2) {
			if h.Pkg != fn.Pkg {
				continue
			}
			eng.Instrs(h, true, func(in ssa.Instruction) {
				switch x := in.(type) {
				case *ssa.Call:
					switch eng.CalleeName(x) {
					case "strings.HasPrefix", "strings.CutPrefix":
						if s, ok := eng.ConstString(x.Call.Args[1]); ok && s == "/" {
							found = true
						}
					case "path.IsAbs", "net/url.(*URL).ResolveReference", "net/url.(*URL).IsAbs":
						found = true
					}
				case *ssa.BinOp:
					if x.Op == token.EQL || x.Op == token.NEQ {
						for _, pair := range [][2]ssa.Value{{x.X, x.Y}, {x.Y, x.X}} {
							if k, ok := eng.ConstInt(pair[1]); ok && k == '/' {
								if _, isIdx := pair[0].(*ssa.Lookup); isIdx {
									found = true
								}
								if u, isU := pair[0].(*ssa.UnOp); isU {
									if _, isIA := u.X.(*ssa.IndexAddr); isIA {
										found = true
									}
								}
							}
						}
					}
				}
			})
		}
		c.Check(found, R, name+"#absolute", fn.Pos(), "the start of the target is examined", "nothing in this function or its helpers looks at whether a relationship target starts with '/': a package-absolute target is joined with the owner's directory like a relative one (path.Join does not let an absolute element win), the member is not found and the declared part is skipped, so the page count is short and later parts move up")
	}
}

// ---------------------------------------------------------------------------------------------------------------
// R16.19 the grid-column lookup of the DOCX table parser, read on every small row.

// R16.19 [C16]
func ruleCellAtColumnBySpans(c *eng.Ctx) {
	const R = "R16.19-CELL-AT-COLUMN"
	c.Rule(R, "docx.(*TableParser).findCellAtColumn, evaluated on every row of up to four cells with column spans 1..3 and every target column: the answer is the index of the cell whose columns [start, start+span) contain the target, and -1 beyond the row. processVerticalMerges uses it to find the cell that started a vertical merge; an answer one cell to the left credits the rows of the merge to the neighbour", 1, 0)
	fn := c.P.Func("docx.(*TableParser).findCellAtColumn")
	if fn == nil {
		c.Ok(R, "docx.(*TableParser).findCellAtColumn", token.NoPos, "no such helper: not evaluated")
		return
	}
	name := eng.FuncName(fn)
	rowIdx, colIdx := -1, -1
	var cellT types.Type
	for i, p := range fn.Params {
		if st, ok := p.Type().Underlying().(*types.Struct); ok {
			for f := 0; f < st.NumFields(); f++ {
				if sl, ok := st.Field(f).Type().Underlying().(*types.Slice); ok && st.Field(f).Name() == "Cells" {
					rowIdx = i
					cellT = sl.Elem()
				}
			}
		}
		if bt, ok := p.Type().Underlying().(*types.Basic); ok && bt.Kind() == types.Int {
			colIdx = i
		}
	}
	if rowIdx < 0 || colIdx < 0 || cellT == nil {
		c.Ok(R, name, fn.Pos(), "the signature is not (row with Cells, target column): not evaluated")
		return
	}
	if _, ok := cellT.Underlying().(*types.Struct); !ok {
		c.Ok(R, name, fn.Pos(), "cells are not struct values: not evaluated")
		return
	}
	cases, bad := 0, ""
	var spans func(prefix []int)
	try := func(sp []int) bool {
		total := 0
		for _, s := range sp {
			total += s
		}
		for target := 0; target <= total+1; target++ {
			want, start := -1, 0
			for i, s := range sp {
				if target >= start && target < start+s {
					want = i
					break
				}
				start += s
			}
			args := make([]any, len(fn.Params))
			for i, p := range fn.Params {
				switch {
				case i == rowIdx:
					row := eng.ZeroOf(p.Type()).(*eng.EStruct)
					var cells []any
					for _, s := range sp {
						cell := eng.ZeroOf(cellT).(*eng.EStruct)
						if !eng.SetField(cell, cellT, "ColSpan", int64(s)) {
							return false
						}
						cells = append(cells, cell)
					}
					eng.SetField(row, p.Type(), "Cells", eng.SliceOf(cells...))
					args[i] = row
				case i == colIdx:
					args[i] = int64(target)
				default:
					if pt, ok := p.Type().Underlying().(*types.Pointer); ok {
						loc := &eng.ELoc{V: eng.ZeroOf(pt.Elem())}
						args[i] = &eng.EPtr{Get: func() any { return loc.V }, Set: func(v any) { loc.V = v }}
					} else {
						args[i] = eng.ZeroOf(p.Type())
					}
				}
			}
			got, err := eng.NewEvaluator().Call(fn, args, 0)
			if err != nil && !err.Panic {
				bad = "!" + err.Msg
				return false
			}
			cases++
			if err != nil {
				bad = fmt.Sprintf("spans %v, column %d: %s", sp, target, err.Msg)
				return false
			}
			if g, ok := got.(int64); !ok || g != int64(want) {
				bad = fmt.Sprintf("spans %v, column %d: answers %v, the cell covering the column is %d", sp, target, got, want)
				return false
			}
		}
		return true
	}
	stop := false
	spans = func(prefix []int) {
		if stop {
			return
		}
		if len(prefix) > 0 && !try(prefix) {
			stop = true
			return
		}
		if len(prefix) == 4 {
			return
		}
		for s := 1; s <= 3; s++ {
			spans(append(append([]int(nil), prefix...), s))
		}
	}
	spans(nil)
	if strings.HasPrefix(bad, "!") {
		c.Ok(R, name, fn.Pos(), "not evaluated: "+bad[1:])
		return
	}
	c.Check(bad == "", R, name+"#spec", fn.Pos(), fmt.Sprintf("%d rows and columns evaluated, all answers are the covering cell", cases), "the grid-column lookup answers the wrong cell ("+bad+"): every vertical merge that does not start in the first grid column is credited to the neighbouring cell, whose RowSpan grows while the merged cell keeps RowSpan 1")
}

// ---------------------------------------------------------------------------------------------------------------
// R5.17 every RFC 1950 header reaches the zlib reader.

// R5.17 [C05]
func ruleEveryZlibHeaderInflated(c *eng.Ctx) {
	const R = "R5.17-EVERY-ZLIB-HEADER-INFLATED"
	c.Rule(R, "filters.zlibDecompress, evaluated up to its first decompressor on every valid RFC 1950 header (CM=8, CINFO 0..7, FDICT clear, FCHECK making the two bytes a multiple of 31, all four FLEVEL values): the data is handed to zlib.NewReader. A sniff that only knows the 32K-window byte 0x78 sends the streams of encoders that chose a smaller window (08 1D, 18 19, 28 15 ... 68 xx) to another decoder, and a conforming FlateDecode stream no longer decodes", 1, 0)
	fn := c.P.Func("internal/filters.zlibDecompress")
	if fn == nil {
		c.Ok(R, "internal/filters.zlibDecompress", token.NoPos, "no such function: not evaluated")
		return
	}
	name := eng.FuncName(fn)
	if len(fn.Params) != 1 {
		c.Ok(R, name, fn.Pos(), "not (data []byte): not evaluated")
		return
	}
	n, bad, skipped := 0, "", ""
	for cinfo := 0; cinfo <= 7 && bad == "" && skipped == ""; cinfo++ {
		for flevel := 0; flevel <= 3; flevel++ {
			cmf := cinfo<<4 | 8
			flg := flevel << 6
			flg += (31 - (cmf*256+flg)%31) % 31
			data := []byte{byte(cmf), byte(flg), 0x03, 0x00, 0x00, 0x00, 0x00, 0x01}
			ev := eng.NewEvaluator()
			reached := ""
			ev.External = func(g *ssa.Function, args []any) (any, *eng.EvalError, bool) {
				nm := eng.FuncName(g)
				switch nm {
				case "compress/zlib.NewReader", "compress/zlib.NewReaderDict", "compress/flate.NewReader", "compress/flate.NewReaderDict", "compress/gzip.NewReader":
					reached = nm
					return nil, &eng.EvalError{Msg: "decompressor"}, true
				case "bytes.NewReader", "bytes.NewBuffer":
					return nil, nil, true // an opaque reader over the data
				}
				return nil, nil, false
			}
			_, err := ev.Call(fn, []any{eng.BytesOf(data)}, 0)
			if reached == "" {
				msg := "returns without a decompressor"
				if err != nil {
					msg = err.Msg
				}
				skipped = fmt.Sprintf("header %02X %02X: %s", cmf, flg, msg)
				break
			}
			n++
			if !strings.HasPrefix(reached, "compress/zlib.") {
				bad = fmt.Sprintf("header %02X %02X (window 2^%d) is handed to %s", cmf, flg, cinfo+8, reached)
				break
			}
		}
	}
	if skipped != "" {
		c.Ok(R, name, fn.Pos(), "not evaluated: "+skipped)
		return
	}
	c.Check(bad == "", R, name+"#headers", fn.Pos(), fmt.Sprintf("%d valid zlib headers, all handed to the zlib reader", n), "a valid zlib stream is not handed to the zlib reader: "+bad+"; RFC 1950 allows every window size up to 32K and encoders choose small ones for short inputs, so a conforming FlateDecode stream fails to decode")
}

// ---------------------------------------------------------------------------------------------------------------
// R17.17 column letters and column numbers, read on every column up to ZZZ.

// bijectiveBase26 is the specification: 0 -> A, 25 -> Z, 26 -> AA, 701 -> ZZ, 702 -> AAA.
func bijectiveBase26(i int) string {
	s := ""
	for n := i + 1; n > 0; n = (n - 1) / 26 {
		s = string(rune('A'+(n-1)%26)) + s
	}
	return s
}

// R17.17 [C17]
func ruleColumnLettersBijective(c *eng.Ctx) {
	const R = "R17.17-COLUMN-LETTERS-BIJECTIVE"
	c.Rule(R, "xlsx.IndexToColumn and xlsx.ColumnToIndex, evaluated on every column from A to ZZZ (0..18277, one past the 16384 columns of the format): IndexToColumn(i) is the bijective base-26 numeral of i, ColumnToIndex gives i back for it in upper and in lower case, and a text with a character outside A-Z is refused with -1. The cell grid, the merge ranges and CellRef are all addressed through these two functions", 2, 0)
	to := c.P.Func("xlsx.IndexToColumn")
	from := c.P.Func("xlsx.ColumnToIndex")
	if to != nil && len(to.Params) == 1 {
		bad, skipped, n := "", "", 0
		for i := 0; i < 18278 && bad == "" && skipped == ""; i++ {
			got, err := eng.NewEvaluator().Call(to, []any{int64(i)}, 0)
			if err != nil && !err.Panic {
				skipped = err.Msg
				break
			}
			n++
			if err != nil {
				bad = fmt.Sprintf("IndexToColumn(%d): %s", i, err.Msg)
			} else if g, ok := got.(string); !ok || g != bijectiveBase26(i) {
				bad = fmt.Sprintf("IndexToColumn(%d) = %q, column %d is %q", i, got, i, bijectiveBase26(i))
			}
		}
		if skipped != "" {
			c.Ok(R, "xlsx.IndexToColumn", to.Pos(), "not evaluated: "+skipped)
		} else {
			c.Check(bad == "", R, "xlsx.IndexToColumn#spec", to.Pos(), fmt.Sprintf("%d columns evaluated", n), "the column number is not written as the bijective base-26 numeral ("+bad+"): cells are addressed one column off or two columns share a name")
		}
	} else {
		c.Ok(R, "xlsx.IndexToColumn", token.NoPos, "no such function: not evaluated")
	}
	if from != nil && len(from.Params) == 1 {
		bad, skipped, n := "", "", 0
		for i := 0; i < 18278 && bad == "" && skipped == ""; i++ {
			for _, text := range []string{bijectiveBase26(i), strings.ToLower(bijectiveBase26(i))} {
				got, err := eng.NewEvaluator().Call(from, []any{text}, 0)
				if err != nil && !err.Panic {
					skipped = err.Msg
					break
				}
				n++
				if err != nil {
					bad = fmt.Sprintf("ColumnToIndex(%q): %s", text, err.Msg)
				} else if g, ok := got.(int64); !ok || g != int64(i) {
					bad = fmt.Sprintf("ColumnToIndex(%q) = %v, it is column %d", text, got, i)
				}
			}
		}
		for _, text := range []string{"A1", "A-", "@", "[", "A B"} {
			if bad != "" || skipped != "" {
				break
			}
			got, err := eng.NewEvaluator().Call(from, []any{text}, 0)
			if err != nil && !err.Panic {
				skipped = err.Msg
				break
			}
			n++
			if g, ok := got.(int64); err != nil || !ok || g >= 0 {
				bad = fmt.Sprintf("ColumnToIndex(%q) = %v, a text with a character outside A-Z is no column", text, got)
			}
		}
		if skipped != "" {
			c.Ok(R, "xlsx.ColumnToIndex", from.Pos(), "not evaluated: "+skipped)
		} else {
			c.Check(bad == "", R, "xlsx.ColumnToIndex#spec", from.Pos(), fmt.Sprintf("%d column names evaluated", n), "the column name is not read as the bijective base-26 numeral ("+bad+"): a cell reference names another column than the one the value is put in")
		}
	} else {
		c.Ok(R, "xlsx.ColumnToIndex", token.NoPos, "no such function: not evaluated")
	}
	// the references themselves: CellRef and ParseCellRef are inverse to each other on (column, row)
	ref := c.P.Func("xlsx.CellRef")
	parse := c.P.Func("xlsx.ParseCellRef")
	if ref != nil && parse != nil && len(ref.Params) == 2 && len(parse.Params) == 1 {
		bad, skipped, n := "", "", 0
	cells:
		for col := 0; col < 750; col += 7 {
			for _, row := range []int{0, 1, 8, 9, 99, 1048575} {
				want := fmt.Sprintf("%s%d", bijectiveBase26(col), row+1)
				got, err := eng.NewEvaluator().Call(ref, []any{int64(col), int64(row)}, 0)
				if err != nil && !err.Panic {
					skipped = "CellRef: " + err.Msg
					break cells
				}
				n++
				if g, ok := got.(string); err != nil || !ok || g != want {
					bad = fmt.Sprintf("CellRef(%d, %d) = %v, the cell is %s", col, row, got, want)
					break cells
				}
				for _, text := range []string{want, strings.ToLower(want)} {
					back, err := eng.NewEvaluator().Call(parse, []any{text}, 0)
					if err != nil && !err.Panic {
						skipped = "ParseCellRef: " + err.Msg
						break cells
					}
					n++
					t, ok := back.(eng.ETuple)
					if err != nil || !ok || len(t) != 3 {
						bad = fmt.Sprintf("ParseCellRef(%q) does not answer", text)
						break cells
					}
					gc, _ := t[0].(int64)
					gr, _ := t[1].(int64)
					if t[2] != nil || gc != int64(col) || gr != int64(row) {
						bad = fmt.Sprintf("ParseCellRef(%q) = (%d, %d, error %v), the cell is column %d, row %d", text, gc, gr, t[2] != nil, col, row)
						break cells
					}
				}
			}
		}
		if bad == "" && skipped == "" {
			for _, text := range []string{"", "A", "12", "A0", "A-1", "1A", "A1B"} {
				back, err := eng.NewEvaluator().Call(parse, []any{text}, 0)
				if err != nil && !err.Panic {
					skipped = "ParseCellRef: " + err.Msg
					break
				}
				n++
				if t, ok := back.(eng.ETuple); err == nil && ok && len(t) == 3 && t[2] == nil {
					bad = fmt.Sprintf("ParseCellRef(%q) is accepted as column %v, row %v: it is not a cell reference", text, t[0], t[1])
					break
				}
			}
		}
		if skipped != "" {
			c.Ok(R, "xlsx.CellRef", ref.Pos(), "not evaluated: "+skipped)
		} else {
			c.Check(bad == "", R, "xlsx.CellRef#round-trip", ref.Pos(), fmt.Sprintf("%d references evaluated", n), "cell references and (column, row) pairs are not inverse to each other ("+bad+"): a value is put at another position than its reference names")
		}
	}
}

// ---------------------------------------------------------------------------------------------------------------
// R5.18 / R5.19 the two ASCII decoders, read on every short input a conforming encoder can produce.

func evalBytes(v any) ([]byte, bool) {
	sl, ok := v.(*eng.ESlice)
	if !ok {
		return nil, v == nil
	}
	var out []byte
	for _, l := range sl.L {
		b, ok := l.V.(int64)
		if !ok {
			return nil, false
		}
		out = append(out, byte(b))
	}
	return out, true
}

// decodeCase evaluates a decoder func([]byte) ([]byte, error) on one input.
// skipped != "" : the evaluator could not read the function.
func decodeCase(fn *ssa.Function, in []byte) (out []byte, failed bool, skipped string) {
	got, err := eng.NewEvaluator().Call(fn, []any{eng.BytesOf(in)}, 0)
	if err != nil {
		if err.Panic {
			return nil, true, ""
		}
		return nil, false, err.Msg
	}
	t, ok := got.(eng.ETuple)
	if !ok || len(t) != 2 {
		return nil, false, "result is not (bytes, error)"
	}
	if t[1] != nil {
		return nil, true, ""
	}
	b, ok := evalBytes(t[0])
	if !ok {
		return nil, false, "result bytes not readable"
	}
	return b, false, ""
}

func withSpace(enc string, at int, ws string) string {
	if at > len(enc) {
		at = len(enc)
	}
	return enc[:at] + ws + enc[at:]
}

// R5.18 [C05]
func ruleHexDecoderInverts(c *eng.Ctx) {
	const R = "R5.18-ASCIIHEX-INVERTS"
	c.Rule(R, "filters.ASCIIHexDecode, evaluated on the hexadecimal spelling (upper and lower case) of every byte string of up to two bytes over a sample of values, with white space (space, LF, NUL, CR LF) put at every position, with and without the '>' marker and with bytes after it: the answer is the original bytes; an odd final digit stands for digit+0; a character that is neither a digit, white space nor '>' gives an error", 1, 0)
	fn := c.P.Func("internal/filters.ASCIIHexDecode")
	if fn == nil || len(fn.Params) != 1 {
		c.Ok(R, "internal/filters.ASCIIHexDecode", token.NoPos, "no such function: not evaluated")
		return
	}
	vals := []byte{0x00, 0x09, 0x3E, 0x7A, 0xA5, 0xFF}
	var plains [][]byte
	plains = append(plains, nil)
	for _, a := range vals {
		plains = append(plains, []byte{a})
		for _, b := range vals {
			plains = append(plains, []byte{a, b})
		}
	}
	n, bad := 0, ""
	check := func(in string, want []byte, wantErr bool) bool {
		out, failed, skipped := decodeCase(fn, []byte(in))
		if skipped != "" {
			bad = "!" + skipped
			return false
		}
		n++
		switch {
		case wantErr && !failed:
			bad = fmt.Sprintf("%q decodes to % X, it is not hexadecimal data and must give an error", in, out)
		case !wantErr && failed:
			bad = fmt.Sprintf("%q gives an error, it decodes to % X", in, want)
		case !wantErr && string(out) != string(want):
			bad = fmt.Sprintf("%q decodes to % X, it encodes % X", in, out, want)
		}
		return bad == ""
	}
outer:
	for _, p := range plains {
		for _, format := range []string{"%02X", "%02x"} {
			enc := ""
			for _, b := range p {
				enc += fmt.Sprintf(format, b)
			}
			for _, tail := range []string{"", ">", ">zz", " >"} {
				if !check(enc+tail, p, false) {
					break outer
				}
				for at := 0; at <= len(enc); at++ {
					for _, ws := range []string{" ", "\n", "\x00", "\r\n"} {
						if !check(withSpace(enc, at, ws)+tail, p, false) {
							break outer
						}
					}
				}
			}
		}
	}
	if bad == "" {
		for _, cs := range []struct {
			in   string
			want []byte
			err  bool
		}{{"A", []byte{0xA0}, false}, {"A>", []byte{0xA0}, false}, {"41 4>", []byte{0x41, 0x40}, false}, {"G0", nil, true}, {"0G", nil, true}, {"4 1g", nil, true}} {
			if !check(cs.in, cs.want, cs.err) {
				break
			}
		}
	}
	if strings.HasPrefix(bad, "!") {
		c.Ok(R, "internal/filters.ASCIIHexDecode", fn.Pos(), "not evaluated: "+bad[1:])
		return
	}
	c.Check(bad == "", R, "internal/filters.ASCIIHexDecode#spec", fn.Pos(), fmt.Sprintf("%d inputs evaluated", n), "the hexadecimal decoder does not invert the encoding: "+bad)
}

func a85Encode(p []byte, useZ bool) string {
	var sb strings.Builder
	for i := 0; i < len(p); i += 4 {
		n := len(p) - i
		if n > 4 {
			n = 4
		}
		var v uint32
		for j := 0; j < 4; j++ {
			v <<= 8
			if j < n {
				v |= uint32(p[i+j])
			}
		}
		if n == 4 && v == 0 && useZ {
			sb.WriteByte('z')
			continue
		}
		var d [5]byte
		for j := 4; j >= 0; j-- {
			d[j] = byte(v%85) + '!'
			v /= 85
		}
		sb.Write(d[:n+1])
	}
	return sb.String()
}

// R5.19 [C05]
func ruleBase85DecoderInverts(c *eng.Ctx) {
	const R = "R5.19-ASCII85-INVERTS"
	c.Rule(R, "filters.ASCII85Decode, evaluated on the base-85 spelling (with and without the 'z' abbreviation) of every byte string of up to four (quick) or five (thorough) bytes over a sample of values, with white space put inside, with and without the '~>' marker: the answer is the original bytes; a character outside '!'..'u', a 'z' inside a group and a group above 2^32-1 give an error", 1, 0)
	fn := c.P.Func("internal/filters.ASCII85Decode")
	if fn == nil || len(fn.Params) != 1 {
		c.Ok(R, "internal/filters.ASCII85Decode", token.NoPos, "no such function: not evaluated")
		return
	}
	vals := []byte{0x00, 0x01, 0x7E, 0xFF}
	plains := [][]byte{nil}
	level := [][]byte{nil}
	maxLen := 4 // quick: 341 byte strings; thorough: 1365
	if c.Tier == "thorough" {
		maxLen = 5
	}
	for l := 1; l <= maxLen; l++ {
		var next [][]byte
		for _, p := range level {
			for _, v := range vals {
				next = append(next, append(append([]byte(nil), p...), v))
			}
		}
		plains = append(plains, next...)
		level = next
	}
	// byte strings whose spelling holds the digits that are markers elsewhere: '>' (five of them), '<', '~' without '>'
	plains = append(plains, []byte{0x5b, 0x4e, 0x05, 0x19}, []byte{0x5b, 0x4e, 0x05, 0x19, 0x41, 0x42}, []byte{0x3b, 0x1e, 0xc5, 0x3e}, []byte{0xee, 0xf5, 0x1a, 0x20, 0x01})
	// byte strings whose first digit is one of the characters of the optional start marker "<~" ('<' is the digit 27, '~' is no digit)
	for _, first := range []byte{0x54, 0x55, 0x56, 0x57} {
		plains = append(plains, []byte{first}, []byte{first, 0x6b}, []byte{first, 0x00, 0x41, 0x42}, []byte{first, 0x54, 0x54, 0x54, 0x54, 0x01})
	}
	n, bad := 0, ""
	check := func(in string, want []byte, wantErr bool) bool {
		out, failed, skipped := decodeCase(fn, []byte(in))
		if skipped != "" {
			bad = "!" + skipped
			return false
		}
		n++
		switch {
		case wantErr && !failed:
			bad = fmt.Sprintf("%q decodes to % X, it is not base-85 data and must give an error", in, out)
		case !wantErr && failed:
			bad = fmt.Sprintf("%q gives an error, it decodes to % X", in, want)
		case !wantErr && string(out) != string(want):
			bad = fmt.Sprintf("%q decodes to % X, it encodes % X", in, out, want)
		}
		return bad == ""
	}
outer:
	for _, p := range plains {
		for _, useZ := range []bool{false, true} {
			enc := a85Encode(p, useZ)
			for _, tail := range []string{"", "~>", "\n~>"} {
				if !check(enc+tail, p, false) {
					break outer
				}
				for _, at := range []int{0, 1, 3, len(enc)} {
					for _, ws := range []string{" ", "\r\n", "\x00"} {
						if !check(withSpace(enc, at, ws)+tail, p, false) {
							break outer
						}
					}
				}
			}
		}
	}
	if bad == "" {
		for _, cs := range []struct {
			in   string
			want []byte
			err  bool
		}{{"s8W-!", []byte{0xFF, 0xFF, 0xFF, 0xFF}, false}, {"s8W-\"", nil, true}, {"uuuuu", nil, true}, {"!!v!!", nil, true}, {"!!z!!", nil, true}, {"zz~>", make([]byte, 8), false}} {
			if !check(cs.in, cs.want, cs.err) {
				break
			}
		}
	}
	if strings.HasPrefix(bad, "!") {
		c.Ok(R, "internal/filters.ASCII85Decode", fn.Pos(), "not evaluated: "+bad[1:])
		return
	}
	c.Check(bad == "", R, "internal/filters.ASCII85Decode#spec", fn.Pos(), fmt.Sprintf("%d inputs evaluated", n), "the base-85 decoder does not invert the encoding: "+bad)
}

// ---------------------------------------------------------------------------------------------------------------
// R5.20 a decoder leaves its input alone.

// R5.20 [C05, C03]
func ruleDecodersLeaveInput(c *eng.Ctx) {
	const R = "R5.20-DECODER-LEAVES-INPUT"
	c.Rule(R, "no exported function of internal/filters that takes the encoded bytes writes through that slice, itself or in a helper it hands the slice to (an element store, a copy into it, an append onto a shortened re-slice of it such as data[:0]): the input is Stream.Data, which the stream keeps and decodes again on the next call, and inside one call an output that grows faster than the input is read ('z' is one character for four bytes) overwrites the characters not yet read", 4, 0)
	eff := eng.EffectsOf(c.P)
	n := 0
	for _, fn := range c.P.ModuleFuncs() {
		if fn.Blocks == nil || fn.Pkg == nil || fn.Parent() != nil || eng.ShortPath(fn.Pkg.Pkg.Path()) != "internal/filters" {
			continue
		}
		// the entry points: what they are handed is the stream's data (helpers work on scratch slices of their callers,
		// and a write they make through the entry point's input is attributed to the entry point)
		if obj, ok := fn.Object().(*types.Func); !ok || !obj.Exported() {
			continue
		}
		for i, p := range fn.Params {
			sl, ok := p.Type().Underlying().(*types.Slice)
			if !ok {
				continue
			}
			if bt, ok := sl.Elem().Underlying().(*types.Basic); !ok || bt.Kind() != types.Uint8 {
				continue
			}
			n++
			w := eff.WritesThrough(fn, i)
			sortStrings(w)
			c.Check(len(w) == 0, R, fmt.Sprintf("%s#param:%s", eng.FuncName(fn), p.Name()), fn.Pos(), "the input bytes are only read", "the decoder writes through its input "+p.Name()+" ("+strings.Join(w, "; ")+"): the stream's stored data is overwritten, so decoding it again gives other bytes, and output written over input that was not read yet corrupts the result of this call")
		}
	}
	if n == 0 {
		c.Undec(R, "internal/filters#decoders", token.NoPos, "no function with a byte-slice parameter found")
	}
}

// ---------------------------------------------------------------------------------------------------------------
// R20.11 the two content sniffers, read on the same first bytes.

// memReaderAt stands for an io.ReaderAt over a byte string in an evaluation.
type memReaderAt struct{ data []byte }

var evalEOF = &eng.EErr{Msg: "EOF"}

// R20.11 [C20]
func ruleSniffersAgree(c *eng.Ctx) {
	const R = "R20.11-SNIFFERS-AGREE"
	c.Rule(R, "format.DetectFromMagic and format.DetectFromReader, evaluated on the same first bytes - PDF headers, HTML documents that start with a doctype, an <html> tag or an XML declaration, in either case and behind blank lines, spaces, tabs or CR LF, plain text, and inputs of fewer than four bytes: a PDF header is PDF, the HTML openings are HTML (for inputs of four bytes or more), everything else is Unknown, and the two entry points give the same answer", 1, 0)
	magic := c.P.Func("format.DetectFromMagic")
	reader := c.P.Func("format.DetectFromReader")
	pk := c.P.ByPath["format"]
	if magic == nil || reader == nil || pk == nil || len(magic.Params) != 1 || len(reader.Params) != 2 {
		c.Ok(R, "format#sniffers", token.NoPos, "the two sniffers are not both present with their signatures: not evaluated")
		return
	}
	cv := func(name string) (int64, bool) {
		cn, ok := pk.Types.Scope().Lookup(name).(*types.Const)
		if !ok {
			return 0, false
		}
		v, ok := eng.ConstInt64(cn.Val())
		return v, ok
	}
	unknown, ok1 := cv("Unknown")
	pdf, ok2 := cv("PDF")
	html, ok3 := cv("HTML")
	if !ok1 || !ok2 || !ok3 {
		c.Ok(R, "format#sniffers", token.NoPos, "format constants not found: not evaluated")
		return
	}
	type tc struct {
		in   string
		want int64
	}
	var cases []tc
	for _, lead := range []string{"", "\n", "\r\n", "  ", "\t", "\n\n  "} {
		for _, open := range []string{"<!DOCTYPE html>\n<html><body><p>x</p></body></html>", "<!doctype HTML PUBLIC \"-//W3C//DTD HTML 4.01//EN\"><html></html>", "<html lang=\"en\"><head></head></html>", "<HTML><BODY>x</BODY></HTML>", "<?xml version=\"1.0\"?>\n<html xmlns=\"http://www.w3.org/1999/xhtml\"></html>"} {
			cases = append(cases, tc{lead + open, html})
		}
	}
	// openings that need more than the first few dozen bytes: an XML declaration and a long doctype before <html>, and
	// a document behind sixty bytes of blank lines (the sniffer looks at the first 512 bytes, <html within 500 of <?xml)
	cases = append(cases,
		tc{"<?xml version=\"1.0\" encoding=\"UTF-8\"?>\n<!DOCTYPE html PUBLIC \"-//W3C//DTD XHTML 1.0 Strict//EN\" \"http://www.w3.org/TR/xhtml1/DTD/xhtml1-strict.dtd\">\n<html xmlns=\"http://www.w3.org/1999/xhtml\"><head><title>t</title></head><body><p>x</p></body></html>", html},
		tc{strings.Repeat("\n", 60) + "<!DOCTYPE html>\n<html><body><p>x</p></body></html>", html},
		tc{strings.Repeat(" \r\n", 40) + "<html><body>x</body></html>", html})
	cases = append(cases, tc{"%PDF-1.4\n%\xe2\xe3\xcf\xd3\n", pdf}, tc{"%PDF-2.0", pdf}, tc{"plain text, nothing else", unknown}, tc{"<?xml version=\"1.0\"?><svg></svg>", unknown}, tc{"{\"a\":1}", unknown}, tc{"    ", unknown}, tc{"<p>", unknown}, tc{"", unknown}, tc{"%PD", unknown})
	n, bad, skipped := 0, "", ""
	for _, t := range cases {
		// DetectFromMagic
		got1, err := eng.NewEvaluator().Call(magic, []any{eng.BytesOf([]byte(t.in))}, 0)
		if err != nil && !err.Panic {
			skipped = "DetectFromMagic: " + err.Msg
			break
		}
		// DetectFromReader over the same bytes
		ev := eng.NewEvaluator()
		ev.Global = func(pkg, name string) (any, bool) {
			if pkg == "io" && name == "EOF" {
				return evalEOF, true
			}
			return nil, false
		}
		ev.Invoke = func(method string, recv any, args []any) (any, *eng.EvalError, bool) {
			m, ok := recv.(*memReaderAt)
			if !ok || method != "ReadAt" || len(args) != 2 {
				return nil, nil, false
			}
			buf, ok1 := args[0].(*eng.ESlice)
			off, ok2 := args[1].(int64)
			if !ok1 || !ok2 || off < 0 {
				return nil, nil, false
			}
			k := 0
			for i := range buf.L {
				if int(off)+i >= len(m.data) {
					break
				}
				buf.L[i].V = int64(m.data[int(off)+i])
				k++
			}
			if k < len(buf.L) {
				return eng.ETuple{int64(k), evalEOF}, nil, true
			}
			return eng.ETuple{int64(k), nil}, nil, true
		}
		got2, err2 := ev.Call(reader, []any{&memReaderAt{[]byte(t.in)}, int64(len(t.in))}, 0)
		if err2 != nil && !err2.Panic {
			skipped = "DetectFromReader: " + err2.Msg
			break
		}
		n++
		f1, _ := got1.(int64)
		if err != nil {
			bad = fmt.Sprintf("DetectFromMagic(%q) panics: %s", t.in, err.Msg)
			break
		}
		if err2 != nil {
			bad = fmt.Sprintf("DetectFromReader(%q) panics: %s", t.in, err2.Msg)
			break
		}
		tup, ok := got2.(eng.ETuple)
		if !ok || len(tup) != 2 {
			skipped = "DetectFromReader does not return (Format, error)"
			break
		}
		f2, _ := tup[0].(int64)
		want1 := t.want
		if len(t.in) < 4 {
			want1 = unknown
		}
		switch {
		case tup[1] != nil:
			bad = fmt.Sprintf("DetectFromReader(%q) gives an error", t.in)
		case f2 != t.want:
			bad = fmt.Sprintf("DetectFromReader(%q) = %d, the content is format %d", t.in, f2, t.want)
		case f1 != want1:
			bad = fmt.Sprintf("DetectFromMagic(%q) = %d, the content is format %d", t.in, f1, want1)
		}
		if bad != "" {
			break
		}
	}
	if skipped != "" {
		c.Ok(R, "format#sniffers", magic.Pos(), "not evaluated: "+skipped)
		return
	}
	c.Check(bad == "", R, "format#sniffers-agree", magic.Pos(), fmt.Sprintf("%d inputs evaluated through both entry points", n), "the content sniffers disagree with the content or with each other: "+bad+"; a valid document is no longer recognised as its own format through that entry point and is refused under its own extension")
}

// ---------------------------------------------------------------------------------------------------------------
// R14.16 every field of a CSV row is looked up by the name of its column.

// R14.16 [C14]
func ruleRowFieldsByColumnName(c *eng.Ctx) {
	const R = "R14.16-ROW-FIELDS-BY-COLUMN-NAME"
	c.Rule(R, "in rag.(*Exporter).chunkToCSVRow every string put into the row is the result of a call that is handed an element of the columns list (the header the row is written under), and the columns list is never cut with a constant offset: the header is built from the configuration (text column present or not, selected metadata), so fields appended by position agree with it only for the configuration the author had in mind; with IncludeText=false a fixed offset skips one column, every row is one field short and the values sit under the wrong names", 1, 0)
	fn := c.P.Func("rag.(*Exporter).chunkToCSVRow")
	if fn == nil {
		c.Ok(R, "rag.(*Exporter).chunkToCSVRow", token.NoPos, "no such function: not evaluated")
		return
	}
	var columns *ssa.Parameter
	for _, p := range fn.Params {
		if sl, ok := p.Type().Underlying().(*types.Slice); ok {
			if bt, ok := sl.Elem().Underlying().(*types.Basic); ok && bt.Info()&types.IsString != 0 {
				columns = p
			}
		}
	}
	if columns == nil {
		c.Ok(R, eng.FuncName(fn), fn.Pos(), "no column list parameter: not evaluated")
		return
	}
	name := eng.FuncName(fn)
	fromColumn := func(v ssa.Value) bool {
		for w := range eng.Slice(v, func(*ssa.Call) bool { return true }) {
			if ia, ok := w.(*ssa.IndexAddr); ok && ia.X == ssa.Value(columns) {
				return true
			}
		}
		return false
	}
	var bad []string
	n := 0
	eng.Instrs(fn, true, func(in ssa.Instruction) {
		switch x := in.(type) {
		case *ssa.Slice:
			if x.X == ssa.Value(columns) && x.Low != nil {
				if k, ok := eng.ConstInt(x.Low); !ok || k != 0 {
					bad = append(bad, "the column list is cut at "+c.P.Pos(x.Pos()))
				}
			}
		case *ssa.Store:
			// a string stored into an element of a []string (the row, or the variadic list of an append)
			ia, ok := x.Addr.(*ssa.IndexAddr)
			if !ok {
				return
			}
			if bt, ok := x.Val.Type().Underlying().(*types.Basic); !ok || bt.Info()&types.IsString == 0 {
				return
			}
			_ = ia
			n++
			if !fromColumn(x.Val) {
				bad = append(bad, "a field not looked up by column name at "+c.P.Pos(x.Pos()))
			}
		}
	})
	if n == 0 {
		c.Ok(R, name, fn.Pos(), "no field store found: not evaluated")
		return
	}
	c.Check(len(bad) == 0, R, name+"#fields", fn.Pos(), fmt.Sprintf("%d field stores, all looked up by column name", n), strings.Join(bad, "; ")+": the row no longer has one field per header column for every configuration (IncludeText=false, an empty metadata list), so a standard CSV parser rejects the file or reads the values under the wrong names")
}

// ---------------------------------------------------------------------------------------------------------------
// R1.12 a ToUnicode CMap that parsed is the one that is used.

// R1.12 [C01, C07]
func ruleParsedCMapKept(c *eng.Ctx) {
	const R = "R1.12-PARSED-CMAP-KEPT"
	c.Rule(R, "where a font constructor (or its helper) calls font.ParseToUnicodeCMap, no branch of that function is decided by the content of the CMap that came back (a field of it, its size, a method of it): the only test is whether parsing failed. A CMap judged 'empty' by one of its tables and dropped takes the mappings of its other tables with it (plain bfrange entries live in rangeMappings, not charMappings), and the font falls back to its /Encoding although ToUnicode takes precedence", 1, 0)
	n := 0
	for _, fn := range c.P.ModuleFuncs() {
		if fn.Blocks == nil || fn.Pkg == nil {
			continue
		}
		k := 0
		for _, ci := range eng.CallsNamed(fn, false, "font.ParseToUnicodeCMap") {
			call, ok := ci.(*ssa.Call)
			if !ok {
				continue
			}
			var cm ssa.Value
			for _, r := range *call.Referrers() {
				if ex, ok := r.(*ssa.Extract); ok && ex.Index == 0 {
					cm = ex
				}
			}
			if cm == nil {
				continue
			}
			n++
			k++
			bad := ""
			eng.Instrs(fn, false, func(in ssa.Instruction) {
				iff, ok := in.(*ssa.If)
				if !ok {
					return
				}
				for w := range eng.Slice(iff.Cond, func(*ssa.Call) bool { return true }) {
					switch x := w.(type) {
					case *ssa.FieldAddr:
						if x.X == cm {
							bad = c.P.Pos(iff.Cond.Pos())
						}
					case *ssa.Call:
						for _, a := range eng.ArgsWithRecv(x) {
							if a == cm {
								bad = c.P.Pos(iff.Cond.Pos())
							}
						}
					}
				}
			})
			c.Check(bad == "", R, fmt.Sprintf("%s#cmap%d", eng.FuncName(fn), k), ci.Pos(), "the parsed CMap is used whatever it holds", "a branch at "+bad+" is decided by the content of the parsed ToUnicode CMap: a CMap dropped because one of its tables is empty loses the mappings of the others (a CMap of plain bfrange entries has no bfchar entries), and the text is decoded by the /Encoding instead of the ToUnicode CMap")
		}
	}
	if n == 0 {
		c.Undec(R, "font#ParseToUnicodeCMap", token.NoPos, "no call of font.ParseToUnicodeCMap found")
	}
}

// ---------------------------------------------------------------------------------------------------------------
// R13.12 the size splitter, read on a family of short texts and limits.

func nonSpace(s string) string {
	var sb strings.Builder
	for _, r := range s {
		if !unicode.IsSpace(r) {
			sb.WriteRune(r)
		}
	}
	return sb.String()
}

// R13.12 [C13]
func ruleSplitToSizeEvaluated(c *eng.Ctx) {
	const R = "R13.12-SPLIT-TO-SIZE-EVALUATED"
	c.Rule(R, "rag.(*SizeCalculator).SplitToSize, evaluated on a family of short texts (ASCII words, accented and CJK words, emoji, sentences, paragraphs, runs of white space, words longer than the limit) with a hard maximum of 5, 8, 13 and 21 characters: the evaluation ends, the pieces together hold exactly the non-white-space characters of the text in order, every piece is valid UTF-8, and where every word of the text fits the maximum no piece is longer than the maximum", 1, 0)
	fn := c.P.Func("rag.(*SizeCalculator).SplitToSize")
	pk := c.P.ByPath["rag"]
	if fn == nil || pk == nil || len(fn.Params) != 3 {
		c.Ok(R, "rag.(*SizeCalculator).SplitToSize", token.NoPos, "no such function with (text, boundaries): not evaluated")
		return
	}
	name := eng.FuncName(fn)
	cv := func(n string) (int64, bool) {
		cn, ok := pk.Types.Scope().Lookup(n).(*types.Const)
		if !ok {
			return 0, false
		}
		return eng.ConstInt64(cn.Val())
	}
	chars, ok1 := cv("SizeUnitCharacters")
	hard, ok2 := cv("LimitTypeHard")
	pt, ok3 := fn.Params[0].Type().Underlying().(*types.Pointer)
	if !ok1 || !ok2 || !ok3 {
		c.Ok(R, name, fn.Pos(), "size constants not found: not evaluated")
		return
	}
	calcT := pt.Elem()
	mkLimit := func(t types.Type, v int64) *eng.EStruct {
		l := eng.ZeroOf(t).(*eng.EStruct)
		eng.SetField(l, t, "Value", v)
		eng.SetField(l, t, "Unit", chars)
		eng.SetField(l, t, "Type", hard)
		return l
	}
	fieldType := func(t types.Type, name string) types.Type {
		st, ok := t.Underlying().(*types.Struct)
		if !ok {
			return nil
		}
		for i := 0; i < st.NumFields(); i++ {
			if st.Field(i).Name() == name {
				return st.Field(i).Type()
			}
		}
		return nil
	}
	cfgT := fieldType(calcT, "config")
	if cfgT == nil || fieldType(cfgT, "Max") == nil {
		c.Ok(R, name, fn.Pos(), "SizeCalculator.config.Max not found: not evaluated")
		return
	}
	limT := fieldType(cfgT, "Max")
	texts := []string{
		"alpha beta gamma delta epsilon zeta eta theta",
		"héllo wörld ünïcode straße café naïve",
		"世界 你好 日本語 テキスト",
		"One two. Three four! Five six? Seven.",
		"para one line\n\npara two line\n\npara three",
		"abcdefghijklmnopqrstuvwxyz",
		"ééééééééééééééé",
		"short abcdefghijklmnopqrstuvwxyz tail",
		"  a   b \t c \n d  ",
		"\U0001F600 \U0001F601 \U0001F602 \U0001F923 \U0001F603",
		"a b c d e f g h i j k l m n o p",
		"x",
		"",
	}
	n, bad, skipped := 0, "", ""
	for _, text := range texts {
		for _, max := range []int64{5, 8, 13, 21} {
			calc := eng.ZeroOf(calcT).(*eng.EStruct)
			cfg := eng.ZeroOf(cfgT).(*eng.EStruct)
			eng.SetField(cfg, cfgT, "Max", mkLimit(limT, max))
			target := max * 3 / 4
			if target < 1 {
				target = 1
			}
			eng.SetField(cfg, cfgT, "Target", mkLimit(limT, target))
			eng.SetField(cfg, cfgT, "Min", mkLimit(limT, 0))
			eng.SetField(cfg, cfgT, "TokensPerChar", 0.25)
			eng.SetField(calc, calcT, "config", cfg)
			loc := &eng.ELoc{V: calc}
			recv := &eng.EPtr{Get: func() any { return loc.V }, Set: func(v any) { loc.V = v }}
			ev := eng.NewEvaluator()
			ev.Steps = 3000000
			got, err := ev.Call(fn, []any{recv, text, &eng.ESlice{}}, 0)
			if err != nil && !err.Panic {
				if strings.Contains(err.Msg, "step budget") {
					n++
					bad = fmt.Sprintf("text %q, maximum %d: the split does not end", text, max)
				} else {
					skipped = err.Msg
				}
				break
			}
			n++
			if err != nil {
				bad = fmt.Sprintf("text %q, maximum %d: %s", text, max, err.Msg)
				break
			}
			var pieces []string
			if got != nil {
				ps, ok := got.(*eng.ESlice)
				if !ok {
					skipped = "result is not a list of strings"
					break
				}
				for _, l := range ps.L {
					sv, _ := l.V.(string)
					pieces = append(pieces, sv)
				}
			}
			if nonSpace(strings.Join(pieces, "")) != nonSpace(text) {
				bad = fmt.Sprintf("text %q, maximum %d: the pieces %q do not hold the characters of the text", text, max, pieces)
				break
			}
			fits := true
			for _, w := range strings.Fields(text) {
				if int64(len(w)) > max {
					fits = false
				}
			}
			for _, p := range pieces {
				if !utf8.ValidString(p) {
					bad = fmt.Sprintf("text %q, maximum %d: the piece %q is not valid UTF-8 (a character was cut)", text, max, p)
				}
				if fits && int64(len(p)) > max {
					bad = fmt.Sprintf("text %q, maximum %d: the piece %q has %d characters although every word fits the maximum", text, max, p, len(p))
				}
			}
			if bad != "" {
				break
			}
		}
		if bad != "" || skipped != "" {
			break
		}
	}
	if skipped != "" {
		c.Ok(R, name, fn.Pos(), "not evaluated: "+skipped)
		return
	}
	c.Check(bad == "", R, name+"#spec", fn.Pos(), fmt.Sprintf("%d texts and limits evaluated", n), "the size splitter breaks its contract: "+bad)
}

// ---------------------------------------------------------------------------------------------------------------
// R13.13 the overlap generator, read on a family of short texts and configurations.

// R13.13 [C13]
func ruleOverlapEvaluated(c *eng.Ctx) {
	const R = "R13.13-OVERLAP-EVALUATED"
	c.Rule(R, "rag.(*OverlapGenerator).GenerateOverlap, evaluated for the character, sentence and paragraph strategies with sizes 1, 2, 8 and 20, minimum 0 and 5, maximum 10 and 40, with and without word preservation, on a family of short texts (ASCII, accented, CJK, emoji, sentences, paragraphs): the overlap is valid UTF-8, is not longer than the configured maximum, and its non-white-space characters are a suffix of those of the text it was taken from", 1, 0)
	fn := c.P.Func("rag.(*OverlapGenerator).GenerateOverlap")
	pk := c.P.ByPath["rag"]
	if fn == nil || pk == nil || len(fn.Params) != 2 {
		c.Ok(R, "rag.(*OverlapGenerator).GenerateOverlap", token.NoPos, "no such function: not evaluated")
		return
	}
	name := eng.FuncName(fn)
	pt, ok := fn.Params[0].Type().Underlying().(*types.Pointer)
	if !ok {
		c.Ok(R, name, fn.Pos(), "receiver is not a pointer: not evaluated")
		return
	}
	genT := pt.Elem()
	fieldType := func(t types.Type, name string) (types.Type, int) {
		st, ok := t.Underlying().(*types.Struct)
		if !ok {
			return nil, -1
		}
		for i := 0; i < st.NumFields(); i++ {
			if st.Field(i).Name() == name {
				return st.Field(i).Type(), i
			}
		}
		return nil, -1
	}
	cfgT, _ := fieldType(genT, "config")
	if cfgT == nil {
		c.Ok(R, name, fn.Pos(), "OverlapGenerator.config not found: not evaluated")
		return
	}
	var strategies []int64
	for _, sn := range []string{"OverlapCharacter", "OverlapSentence", "OverlapParagraph"} {
		cn, ok := pk.Types.Scope().Lookup(sn).(*types.Const)
		if !ok {
			c.Ok(R, name, fn.Pos(), "strategy constants not found: not evaluated")
			return
		}
		v, _ := eng.ConstInt64(cn.Val())
		strategies = append(strategies, v)
	}
	resT := fn.Signature.Results().At(0).Type()
	rp, ok := resT.Underlying().(*types.Pointer)
	if !ok {
		c.Ok(R, name, fn.Pos(), "result is not a pointer to a result struct: not evaluated")
		return
	}
	_, textIdx := fieldType(rp.Elem(), "Text")
	if textIdx < 0 {
		c.Ok(R, name, fn.Pos(), "result has no Text: not evaluated")
		return
	}
	texts := []string{
		"The quick brown fox jumps. It lands on the lazy dog. Then it sleeps!",
		"héllo wörld ünïcode straße café naïve déjà vu",
		"世界你好。日本語のテキストです。これは文です。",
		"para one line\n\npara two line here\n\npara three ends now",
		"\U0001F600\U0001F601\U0001F602\U0001F923\U0001F603\U0001F604\U0001F605",
		"short",
		"Dr. Smith went to Washington. He arrived at 3 p.m. and left.",
		"trailing space and newline \n",
		"",
	}
	n, bad, skipped := 0, "", ""
outer:
	for _, text := range texts {
		for _, strat := range strategies {
			for _, size := range []int64{1, 2, 8, 20} {
				for _, minO := range []int64{0, 5} {
					for _, maxO := range []int64{10, 40} {
						for _, words := range []bool{false, true} {
							gen := eng.ZeroOf(genT).(*eng.EStruct)
							cfg := eng.ZeroOf(cfgT).(*eng.EStruct)
							eng.SetField(cfg, cfgT, "Strategy", strat)
							eng.SetField(cfg, cfgT, "Size", size)
							eng.SetField(cfg, cfgT, "MinOverlap", minO)
							eng.SetField(cfg, cfgT, "MaxOverlap", maxO)
							eng.SetField(cfg, cfgT, "PreserveWords", words)
							eng.SetField(gen, genT, "config", cfg)
							loc := &eng.ELoc{V: gen}
							recv := &eng.EPtr{Get: func() any { return loc.V }, Set: func(v any) { loc.V = v }}
							ev := eng.NewEvaluator()
							ev.Steps = 2000000
							got, err := ev.Call(fn, []any{recv, text}, 0)
							what := fmt.Sprintf("text %q, strategy %d, size %d, min %d, max %d, words %v", text, strat, size, minO, maxO, words)
							if err != nil && !err.Panic {
								if strings.Contains(err.Msg, "step budget") {
									n++
									bad = what + ": does not end"
								} else {
									skipped = err.Msg
								}
								break outer
							}
							n++
							if err != nil {
								bad = what + ": " + err.Msg
								break outer
							}
							res, ok := got.(*eng.EPtr)
							if !ok || res == nil {
								skipped = "result not readable"
								break outer
							}
							rs, ok := res.Get().(*eng.EStruct)
							if !ok {
								skipped = "result not readable"
								break outer
							}
							ov, _ := rs.F[textIdx].(string)
							switch {
							case !utf8.ValidString(ov) && utf8.ValidString(text):
								bad = fmt.Sprintf("%s: the overlap %q is not valid UTF-8", what, ov)
							case int64(len(ov)) > maxO:
								bad = fmt.Sprintf("%s: the overlap %q has %d characters, more than the maximum", what, ov, len(ov))
							case !strings.HasSuffix(nonSpace(text), nonSpace(ov)):
								bad = fmt.Sprintf("%s: the overlap %q is not a suffix of the text", what, ov)
							}
							if bad != "" {
								break outer
							}
						}
					}
				}
			}
		}
	}
	if skipped != "" {
		c.Ok(R, name, fn.Pos(), "not evaluated: "+skipped)
		return
	}
	c.Check(bad == "", R, name+"#spec", fn.Pos(), fmt.Sprintf("%d texts and configurations evaluated", n), "the overlap generator breaks its contract: "+bad)
}

// ---------------------------------------------------------------------------------------------------------------
// R15.16 the table-cell escapers, read on texts with pipes and line breaks.

// R15.16 [C15]
func ruleCellEscapersEvaluated(c *eng.Ctx) {
	const R = "R15.16-CELL-ESCAPERS-EVALUATED"
	c.Rule(R, "every func(string) string of the module whose name starts with escapeMarkdown (the cell escapers of model, htmldoc, xlsx and pptx), evaluated on texts with pipes, line feeds, CR LF, accented and CJK characters and nothing at all: the answer holds no line feed or carriage return, every pipe in it is preceded by a backslash, and with the escapes taken out its non-white-space characters are those of the text - a cell stays one cell on one line and loses nothing", 4, 0)
	inputs := []string{"", "plain", "a|b", "|", "||", "a\nb", "a\r\nb", "line one\nline two | with pipe\n", "é|世界", "x | y | z", "tab\there", "ends with pipe|", "\n"}
	n := 0
	for _, fn := range c.P.ModuleFuncs() {
		if fn.Blocks == nil || fn.Pkg == nil || fn.Parent() != nil || !strings.HasPrefix(fn.Name(), "escapeMarkdown") || strings.Contains(eng.ShortPath(fn.Pkg.Pkg.Path()), eng.PositivePkg) {
			continue
		}
		sig := fn.Signature
		if sig.Recv() != nil || sig.Params().Len() != 1 || sig.Results().Len() != 1 {
			continue
		}
		if bt, ok := sig.Params().At(0).Type().Underlying().(*types.Basic); !ok || bt.Info()&types.IsString == 0 {
			continue
		}
		name := eng.FuncName(fn)
		bad, skipped, k := "", "", 0
		for _, in := range inputs {
			got, err := eng.NewEvaluator().Call(fn, []any{in}, 0)
			if err != nil && !err.Panic {
				skipped = err.Msg
				break
			}
			k++
			if err != nil {
				bad = fmt.Sprintf("%q: %s", in, err.Msg)
				break
			}
			out, ok := got.(string)
			if !ok {
				skipped = "result is not a string"
				break
			}
			if strings.ContainsAny(out, "\n\r") {
				bad = fmt.Sprintf("%q becomes %q, which holds a line break: the table row is cut in two", in, out)
				break
			}
			for i := 0; i < len(out); i++ {
				if out[i] == '|' && (i == 0 || out[i-1] != '\\') {
					bad = fmt.Sprintf("%q becomes %q, which holds a bare pipe: the cell is read as two cells", in, out)
				}
			}
			if bad != "" {
				break
			}
			if nonSpace(strings.ReplaceAll(out, "\\|", "|")) != nonSpace(in) {
				bad = fmt.Sprintf("%q becomes %q: characters of the cell are lost or added", in, out)
				break
			}
		}
		if skipped != "" {
			c.Ok(R, name, fn.Pos(), "not evaluated: "+skipped)
			continue
		}
		n++
		c.Check(bad == "", R, name+"#spec", fn.Pos(), fmt.Sprintf("%d texts evaluated", k), "the cell escaper does not keep a cell on one line in one cell: "+bad)
	}
	if n == 0 {
		c.Ok(R, "module#escapers", token.NoPos, "no evaluable escapeMarkdown function: not evaluated")
	}
}

// ---------------------------------------------------------------------------------------------------------------
// R15.17 the pipe-table writers, read on small grids and parsed back.

// buildTableValue builds a value of a table type (a struct with Rows, in one of the three layouts the module uses)
// holding the grid of cell texts.
func buildTableValue(t types.Type, grid [][]string) (any, bool) {
	st, ok := t.Underlying().(*types.Struct)
	if !ok {
		return nil, false
	}
	tv := eng.ZeroOf(t).(*eng.EStruct)
	field := func(s *types.Struct, name string) (types.Type, bool) {
		for i := 0; i < s.NumFields(); i++ {
			if s.Field(i).Name() == name {
				return s.Field(i).Type(), true
			}
		}
		return nil, false
	}
	mkCell := func(ct types.Type, text string) (any, bool) {
		if bt, ok := ct.Underlying().(*types.Basic); ok && bt.Info()&types.IsString != 0 {
			return text, true
		}
		cs, ok := ct.Underlying().(*types.Struct)
		if !ok {
			return nil, false
		}
		cell := eng.ZeroOf(ct).(*eng.EStruct)
		if !eng.SetField(cell, ct, "Text", text) {
			return nil, false
		}
		for _, nm := range []string{"ColSpan", "RowSpan"} {
			if ft, ok := field(cs, nm); ok {
				if bt, ok := ft.Underlying().(*types.Basic); ok && bt.Info()&types.IsInteger != 0 {
					eng.SetField(cell, ct, nm, int64(1))
				}
			}
		}
		return cell, true
	}
	rowsT, ok := field(st, "Rows")
	if !ok {
		return nil, false
	}
	outer, ok := rowsT.Underlying().(*types.Slice)
	if !ok {
		return nil, false
	}
	body := grid
	if ht, ok := field(st, "Headers"); ok {
		if hs, ok := ht.Underlying().(*types.Slice); ok {
			var hdr []any
			for _, text := range grid[0] {
				cv, ok := mkCell(hs.Elem(), text)
				if !ok {
					return nil, false
				}
				hdr = append(hdr, cv)
			}
			eng.SetField(tv, t, "Headers", eng.SliceOf(hdr...))
			body = grid[1:]
		}
	}
	var rows []any
	for _, r := range body {
		switch rt := outer.Elem().Underlying().(type) {
		case *types.Slice:
			var cells []any
			for _, text := range r {
				cv, ok := mkCell(rt.Elem(), text)
				if !ok {
					return nil, false
				}
				cells = append(cells, cv)
			}
			rows = append(rows, eng.SliceOf(cells...))
		case *types.Struct:
			ct, ok := field(rt, "Cells")
			if !ok {
				return nil, false
			}
			cs, ok := ct.Underlying().(*types.Slice)
			if !ok {
				return nil, false
			}
			var cells []any
			for _, text := range r {
				cv, ok := mkCell(cs.Elem(), text)
				if !ok {
					return nil, false
				}
				cells = append(cells, cv)
			}
			row := eng.ZeroOf(outer.Elem()).(*eng.EStruct)
			eng.SetField(row, outer.Elem(), "Cells", eng.SliceOf(cells...))
			rows = append(rows, row)
		default:
			return nil, false
		}
	}
	eng.SetField(tv, t, "Rows", eng.SliceOf(rows...))
	return tv, true
}

// parsePipeTable reads a GitHub-flavoured Markdown pipe table: rows of cells, the delimiter row dropped.
func parsePipeTable(md string) ([][]string, string) {
	if strings.Contains(md, "\r") {
		return nil, "the table holds a carriage return, which ends a line for a Markdown parser"
	}
	var lines []string
	for _, l := range strings.Split(md, "\n") {
		if strings.TrimSpace(l) != "" {
			lines = append(lines, l)
		}
	}
	if len(lines) < 2 {
		return nil, "fewer than two lines"
	}
	split := func(l string) []string {
		l = strings.TrimSpace(l)
		l = strings.TrimPrefix(l, "|")
		var cells []string
		cur := ""
		for i := 0; i < len(l); i++ {
			switch {
			case l[i] == '\\' && i+1 < len(l) && l[i+1] == '|':
				cur += "|"
				i++
			case l[i] == '|':
				cells = append(cells, strings.TrimSpace(cur))
				cur = ""
			default:
				cur += l[i : i+1]
			}
		}
		if strings.TrimSpace(cur) != "" {
			cells = append(cells, strings.TrimSpace(cur))
		}
		return cells
	}
	for _, d := range split(lines[1]) {
		if strings.Trim(d, "-: ") != "" || !strings.Contains(d, "-") {
			return nil, fmt.Sprintf("the second line %q is not a delimiter row", lines[1])
		}
	}
	var out [][]string
	for i, l := range lines {
		if i == 1 {
			continue
		}
		if !strings.HasPrefix(strings.TrimSpace(l), "|") {
			return nil, fmt.Sprintf("line %q is not a table row", l)
		}
		out = append(out, split(l))
	}
	if len(split(lines[1])) != len(out[0]) {
		return nil, "the delimiter row and the header row differ in their number of cells"
	}
	return out, ""
}

// R15.17 [C15]
func rulePipeTablesReadBack(c *eng.Ctx) {
	const R = "R15.17-PIPE-TABLES-READ-BACK"
	c.Rule(R, "every ToMarkdown method without parameters of a table type of the module (model.Table and the ParsedTable types of docx, odt, htmldoc and xlsx), evaluated on 2x2, 3x2 and 2x3 grids whose cells hold plain text, a pipe, a line feed, a carriage return, CR LF, accented and CJK text or nothing: the answer, read by a pipe-table parser (rows on lines, cells between unescaped pipes, second line the delimiter row), has the rows and columns of the grid and the cell texts of the grid (white space aside)", 3, 0)
	texts := []string{"a", "b|c", "line\nbreak", "", "é世界", "x\ry", "p\r\nq", "end|"}
	var grids [][][]string
	for _, shape := range [][2]int{{2, 2}, {3, 2}, {2, 3}} {
		for start := 0; start < len(texts); start++ {
			g := make([][]string, shape[0])
			k := start
			for i := range g {
				g[i] = make([]string, shape[1])
				for j := range g[i] {
					g[i][j] = texts[k%len(texts)]
					k++
				}
			}
			// the header row holds plain names: what a header may contain is not what this rule is about
			for j := range g[0] {
				g[0][j] = fmt.Sprintf("h%d", j+1)
			}
			grids = append(grids, g)
		}
	}
	n := 0
	for _, fn := range c.P.ModuleFuncs() {
		if fn.Blocks == nil || fn.Pkg == nil || fn.Parent() != nil || fn.Name() != "ToMarkdown" || fn.Signature.Recv() == nil || fn.Signature.Params().Len() != 0 || fn.Signature.Results().Len() != 1 {
			continue
		}
		if strings.Contains(eng.ShortPath(fn.Pkg.Pkg.Path()), eng.PositivePkg) {
			continue
		}
		rt := fn.Signature.Recv().Type()
		isPtr := false
		if p, ok := rt.Underlying().(*types.Pointer); ok {
			rt = p.Elem()
			isPtr = true
		}
		if !strings.HasSuffix(eng.TypeName(rt), "Table") {
			continue
		}
		name := eng.FuncName(fn)
		bad, skipped, k := "", "", 0
		for _, g := range grids {
			tv, ok := buildTableValue(rt, g)
			if !ok {
				skipped = "the table type is not one of the known layouts"
				break
			}
			var recv any = tv
			if isPtr {
				loc := &eng.ELoc{V: tv}
				recv = &eng.EPtr{Get: func() any { return loc.V }, Set: func(v any) { loc.V = v }}
			}
			got, err := eng.NewEvaluator().Call(fn, []any{recv}, 0)
			if err != nil && !err.Panic {
				skipped = err.Msg
				break
			}
			k++
			if err != nil {
				bad = fmt.Sprintf("grid %q: %s", g, err.Msg)
				break
			}
			md, _ := got.(string)
			rows, why := parsePipeTable(md)
			if why != "" {
				bad = fmt.Sprintf("grid %q is written as %q: %s", g, md, why)
				break
			}
			if len(rows) != len(g) {
				bad = fmt.Sprintf("grid %q is written as %q: %d rows are read back, the grid has %d", g, md, len(rows), len(g))
				break
			}
			for i := range g {
				// trailing empty cells may be cut by the reader used here; compare the cells of the grid
				for j := range g[i] {
					cell := ""
					if j < len(rows[i]) {
						cell = rows[i][j]
					}
					if nonSpace(cell) != nonSpace(g[i][j]) {
						bad = fmt.Sprintf("grid %q is written as %q: cell (%d,%d) reads back as %q", g, md, i, j, cell)
					}
				}
				if len(rows[i]) > len(g[i]) {
					bad = fmt.Sprintf("grid %q is written as %q: row %d reads back with %d cells", g, md, i, len(rows[i]))
				}
			}
			if bad != "" {
				break
			}
		}
		if skipped != "" {
			c.Ok(R, name, fn.Pos(), "not evaluated: "+skipped)
			continue
		}
		n++
		c.Check(bad == "", R, name+"#spec", fn.Pos(), fmt.Sprintf("%d grids evaluated and read back", k), "the Markdown table does not read back as the grid: "+bad)
	}
	if n == 0 {
		c.Ok(R, "module#table-writers", token.NoPos, "no evaluable ToMarkdown table writer: not evaluated")
	}
}

// ---------------------------------------------------------------------------------------------------------------
// R3.14 what goes back into a pool carries nothing over.

// R3.14 [C03]
func rulePoolPutCarriesNoState(c *eng.Ctx) {
	const R = "R3.14-POOL-PUT-CARRIES-NO-STATE"
	c.Rule(R, "a slice handed to sync.Pool.Put is cut to length zero in the Put expression itself (x[:0]), and a bytes.Buffer or strings.Builder handed to Put was Reset by the same function before: the next Get, in another extraction or on another goroutine, continues with whatever the object holds, so an object put back on an error path with its contents (operands of a failed parse) makes the next result depend on the previous document", 0, 1)
	n := 0
	for _, fn := range c.P.ModuleFuncs() {
		if fn.Blocks == nil || fn.Pkg == nil {
			continue
		}
		for _, ci := range eng.Calls(fn, false, func(nm string, _ ssa.CallInstruction) bool { return nm == "sync.(*Pool).Put" }) {
			args := eng.ArgsWithRecv(ci)
			if len(args) < 2 {
				continue
			}
			v := args[1]
			if mi, ok := v.(*ssa.MakeInterface); ok {
				v = mi.X
			}
			key := fmt.Sprintf("%s#pool.Put@%s", eng.FuncName(fn), c.P.Pos(ci.Pos()))
			switch t := v.Type().Underlying().(type) {
			case *types.Slice:
				n++
				ok := false
				if sl, isSl := v.(*ssa.Slice); isSl && sl.High != nil {
					if k, isC := eng.ConstInt(sl.High); isC && k == 0 {
						ok = true
					}
				}
				c.Check(ok, R, key, ci.Pos(), "the slice is cut to length zero where it is put back", "the slice handed to Put is not cut to length zero in the Put expression: on a path where it was not emptied (an error return) its elements go back into the pool and the next user of the pool starts with them")
			case *types.Pointer:
				nt, isNamed := t.Elem().(*types.Named)
				if !isNamed || nt.Obj().Pkg() == nil {
					continue
				}
				q := nt.Obj().Pkg().Path() + "." + nt.Obj().Name()
				if q != "bytes.Buffer" && q != "strings.Builder" {
					continue
				}
				n++
				reset := false
				root := fn
				if fn.Parent() != nil {
					root = fn.Parent()
				}
				eng.Instrs(root, true, func(in ssa.Instruction) {
					if rc, ok := in.(ssa.CallInstruction); ok {
						if nm := eng.CalleeName(rc); strings.HasSuffix(nm, ").Reset") || strings.HasSuffix(nm, ").Truncate") {
							reset = true
						}
					}
				})
				c.Check(reset, R, key, ci.Pos(), "the buffer is reset by the function that puts it back", "the buffer handed to Put is never Reset by this function: what the previous user wrote is still in it when the next user gets it")
			}
		}
	}
	c.Ok(R, "module#scanned", token.NoPos, fmt.Sprintf("%d slices and buffers put back into a pool", n))
}

// ---------------------------------------------------------------------------------------------------------------
// R7.13 CMap destinations, read as UTF-16BE on a family of hex strings.

// R7.13 [C07]
func ruleHexToUnicodeEvaluated(c *eng.Ctx) {
	const R = "R7.13-HEX-TO-UNICODE-EVALUATED"
	c.Rule(R, "font.hexToUnicode, evaluated on the hexadecimal spelling (upper and lower case) of UTF-16BE texts - single BMP characters from every block boundary, supplementary-plane characters as surrogate pairs, ligature and multi-character targets, a leading byte-order mark: the answer is the text; a lone surrogate gives valid UTF-8 or an error, never invalid bytes", 1, 0)
	fn := c.P.Func("font.hexToUnicode")
	if fn == nil || len(fn.Params) != 1 {
		c.Ok(R, "font.hexToUnicode", token.NoPos, "no such function: not evaluated")
		return
	}
	texts := []string{"A", "z", "é", "Ā", "߿", "ࠀ", " ", "ﬁ", "퟿", "", "", "�", "\U00010000", "\U0001F600", "\U0001F44B", "\U0010FFFF", "ffi", "Á", "世界", "x\U0001D11Ey", "\U0001F468‍\U0001F469"}
	enc := func(s string, format string) string {
		out := ""
		for _, u := range utf16.Encode([]rune(s)) {
			out += fmt.Sprintf(format, u)
		}
		return out
	}
	n, bad, skipped := 0, "", ""
	run := func(in string) (string, bool, bool) {
		got, err := eng.NewEvaluator().Call(fn, []any{in}, 0)
		if err != nil {
			if err.Panic {
				return "", true, true
			}
			skipped = err.Msg
			return "", false, false
		}
		t, ok := got.(eng.ETuple)
		if !ok || len(t) != 2 {
			skipped = "result is not (string, error)"
			return "", false, false
		}
		s, _ := t[0].(string)
		return s, t[1] != nil, true
	}
outer:
	for _, text := range texts {
		for _, format := range []string{"%04X", "%04x"} {
			h := enc(text, format)
			// (white space inside the hex string is not part of this rule: where it is removed is the callers' business)
			for _, in := range []string{h, "FEFF" + h} {
				out, failed, ok := run(in)
				if !ok {
					break outer
				}
				n++
				if failed || out != text {
					bad = fmt.Sprintf("hexToUnicode(%q) = %q (error %v), the UTF-16BE text is %q", in, out, failed, text)
					break outer
				}
			}
		}
	}
	if bad == "" && skipped == "" {
		for _, in := range []string{"D83D", "DC00", "D83D0041", "0041DC00"} {
			out, failed, ok := run(in)
			if !ok {
				break
			}
			n++
			if !failed && !utf8.ValidString(out) {
				bad = fmt.Sprintf("hexToUnicode(%q) = %q, which is not valid UTF-8", in, out)
				break
			}
		}
	}
	if skipped != "" {
		c.Ok(R, "font.hexToUnicode", fn.Pos(), "not evaluated: "+skipped)
		return
	}
	c.Check(bad == "", R, "font.hexToUnicode#spec", fn.Pos(), fmt.Sprintf("%d hex strings evaluated", n), "a CMap destination is not decoded as UTF-16BE: "+bad)
}

// ---------------------------------------------------------------------------------------------------------------
// R6.17 both object parsers, read on a family of object spellings.

// pdfRef and pdfName are the specification's values for references and names (strings are Go strings, arrays
// []any, dictionaries map[string]any, null is nil, integers int64, reals float64).
type pdfRef struct{ num, gen int64 }
type pdfName string

// treeOf converts an evaluated core.Object into the specification's value.
func treeOf(v any) (any, bool) {
	ifc, ok := v.(*eng.EIface)
	if !ok {
		return nil, false
	}
	tn := eng.TypeName(ifc.T)
	switch {
	case strings.HasSuffix(tn, "core.Null"):
		return nil, true
	case strings.HasSuffix(tn, "core.Bool"):
		b, ok := ifc.V.(bool)
		return b, ok
	case strings.HasSuffix(tn, "core.Int"):
		i, ok := ifc.V.(int64)
		return i, ok
	case strings.HasSuffix(tn, "core.Real"):
		f, ok := ifc.V.(float64)
		return f, ok
	case strings.HasSuffix(tn, "core.String"):
		s, ok := ifc.V.(string)
		return s, ok
	case strings.HasSuffix(tn, "core.Name"):
		s, ok := ifc.V.(string)
		return pdfName(s), ok
	case strings.HasSuffix(tn, "core.Array"):
		sl, ok := ifc.V.(*eng.ESlice)
		if !ok {
			return nil, false
		}
		out := []any{}
		for _, l := range sl.L {
			e, ok := treeOf(l.V)
			if !ok {
				return nil, false
			}
			out = append(out, e)
		}
		return out, true
	case strings.HasSuffix(tn, "core.Dict"):
		m, ok := ifc.V.(*eng.EMap)
		if !ok {
			return nil, false
		}
		out := map[string]any{}
		for k, ev := range m.M {
			ks, ok := k.(string)
			if !ok {
				return nil, false
			}
			e, ok := treeOf(ev)
			if !ok {
				return nil, false
			}
			out[ks] = e
		}
		return out, true
	case strings.HasSuffix(tn, "core.IndirectRef"):
		st, ok := ifc.V.(*eng.EStruct)
		if !ok || len(st.F) < 2 {
			return nil, false
		}
		a, ok1 := st.F[0].(int64)
		b, ok2 := st.F[1].(int64)
		return pdfRef{a, b}, ok1 && ok2
	}
	return nil, false
}

func treeEqual(a, b any) bool {
	switch x := a.(type) {
	case nil:
		return b == nil
	case []any:
		y, ok := b.([]any)
		if !ok || len(x) != len(y) {
			return false
		}
		for i := range x {
			if !treeEqual(x[i], y[i]) {
				return false
			}
		}
		return true
	case map[string]any:
		y, ok := b.(map[string]any)
		if !ok || len(x) != len(y) {
			return false
		}
		for k, v := range x {
			w, ok := y[k]
			if !ok || !treeEqual(v, w) {
				return false
			}
		}
		return true
	case float64:
		// an integer-valued real may be read as a real or, written without a point, as an integer: compared as written
		y, ok := b.(float64)
		return ok && x == y
	}
	return a == b
}

type objectCase struct {
	spelling string
	tree     any
	coreOnly bool // indirect references are not operands of a content stream
}

func objectCases() []objectCase {
	cs := []objectCase{
		{"null", nil, false}, {"true", true, false}, {"false", false, false},
		{"0", int64(0), false}, {"1", int64(1), false}, {"-1", int64(-1), false}, {"+17", int64(17), false},
		{"2147483647", int64(2147483647), false}, {"-2147483648", int64(-2147483648), false}, {"007", int64(7), false},
		{"2147483648", int64(2147483648), false}, {"-9999999999", int64(-9999999999), false}, {"4294967296", int64(4294967296), false},
		{"3.14", 3.14, false}, {"-.002", -0.002, false}, {"+.5", 0.5, false}, {".5", 0.5, false}, {"5.", 5.0, false}, {"0.0", 0.0, false}, {"-2.5", -2.5, false}, {"123456789.125", 123456789.125, false},
		{"(abc)", "abc", false}, {"()", "", false}, {"(a(b)c)", "a(b)c", false}, {"(a\\(b\\)c)", "a(b)c", false}, {"(\\n\\r\\t\\b\\f\\\\)", "\n\r\t\b\f\\", false},
		{"(\\101\\7\\0053)", "A\a\x053", false}, {"(\\128)", "\n8", false}, {"(\\19)", "\x019", false}, {"(\\779)", "?9", false}, {"(line\\\nbreak)", "linebreak", false}, {"(abc\\\n\ndef)", "abc\ndef", false}, {"(line\\\r\nbreak)", "linebreak", false}, {"(\xe9\xff\x80)", "\xe9\xff\x80", false}, {"(a b  c)", "a b  c", false}, {"(% not a comment)", "% not a comment", false}, {"(\\q)", "q", false},
		{"<48656C6C6F>", "Hello", false}, {"<48 65 6c\n6C 6F>", "Hello", false}, {"<4>", "@", false}, {"<>", "", false}, {"<E9FF>", "\xe9\xff", false},
		{"/Name", pdfName("Name"), false}, {"/A#20B", pdfName("A B"), false}, {"/#2F", pdfName("/"), false}, {"/a.b-c_d", pdfName("a.b-c_d"), false}, {"/#E9t#C3#A9", pdfName("\xe9t\xc3\xa9"), false},
		{"[1 2 3]", []any{int64(1), int64(2), int64(3)}, false}, {"[]", []any{}, false}, {"[1[2]3]", []any{int64(1), []any{int64(2)}, int64(3)}, false},
		{"[/A/B]", []any{pdfName("A"), pdfName("B")}, false}, {"[(a)(b)]", []any{"a", "b"}, false}, {"[<41><42>]", []any{"A", "B"}, false}, {"[true false null]", []any{true, false, nil}, false}, {"[true]", []any{true}, false}, {"[null/N false]", []any{nil, pdfName("N"), false}, false}, {"<</K true>>", map[string]any{"K": true}, false}, {"<</K null/L false>>", map[string]any{"K": nil, "L": false}, false}, {"[true(s)false<41>null]", []any{true, "s", false, "A", nil}, false},
		{"[ 1 (a) /N [ 2 ] ]", []any{int64(1), "a", pdfName("N"), []any{int64(2)}}, false}, {"[1.5/N(s)<41>]", []any{1.5, pdfName("N"), "s", "A"}, false},
		{"<</A 1/B(x)>>", map[string]any{"A": int64(1), "B": "x"}, false}, {"<< /K [1 2] /D << /E /F >> >>", map[string]any{"K": []any{int64(1), int64(2)}, "D": map[string]any{"E": pdfName("F")}}, false}, {"<<>>", map[string]any{}, false},
		{"<</S<41>/T<</U(v)>>>>", map[string]any{"S": "A", "T": map[string]any{"U": "v"}}, false},
		{"12 0 R", pdfRef{12, 0}, true}, {"[1 0 R 2 5 R]", []any{pdfRef{1, 0}, pdfRef{2, 5}}, true}, {"<</P 3 0 R/N 4>>", map[string]any{"P": pdfRef{3, 0}, "N": int64(4)}, true}, {"[1 2 3 0 R]", []any{int64(1), pdfRef{2, 3 - 3}, nil}[:0], true},
		{"[1 2 % last\n]", []any{int64(1), int64(2)}, false}, {"[% only\n]", []any{}, false}, {"[[1 % in\r\n] 2]", []any{[]any{int64(1)}, int64(2)}, false}, {"<</A 1 % c\n>>", map[string]any{"A": int64(1)}, false}, {"<</A % c\n 1>>", map[string]any{"A": int64(1)}, false},
		{"[1 %c\n 0 %c\n R]", []any{pdfRef{1, 0}}, true}, {"<</K 1 %c\n 0 R>>", map[string]any{"K": pdfRef{1, 0}}, true}, {"7 % gen follows\r\n 2 R", pdfRef{7, 2}, true},
		{"[1 % comment\n 2]", []any{int64(1), int64(2)}, false}, {"% lead\n42", int64(42), false}, {"[(a)%c\r\n(b)]", []any{"a", "b"}, false},
	}
	// drop the placeholder case built above only to keep the literal compact
	out := cs[:0]
	for _, c := range cs {
		if c.spelling == "[1 2 3 0 R]" {
			c.tree = []any{int64(1), pdfRef{2, 3}}
			c.spelling = "[1 2 3 R]"
		}
		out = append(out, c)
	}
	// the same trees with other white space between the tokens
	n := len(out)
	for i := 0; i < n; i++ {
		c := out[i]
		if strings.ContainsAny(c.spelling, "(%") || !strings.Contains(c.spelling, " ") {
			continue // blanks inside strings and comments are content
		}
		for _, ws := range []string{"\n", "\r\n", "\t", "  ", "\f"} {
			out = append(out, objectCase{strings.ReplaceAll(c.spelling, " ", ws), c.tree, c.coreOnly})
		}
	}
	return out
}

// R6.17 [C06]
func ruleObjectSpellingsEvaluated(c *eng.Ctx) {
	const R = "R6.17-OBJECT-SPELLINGS-EVALUATED"
	c.Rule(R, "core.NewParser(...).ParseObject and contentstream.NewParser(...).Parse, evaluated on a family of object spellings - null, booleans, integers with signs and at the 32-bit limits, reals with and without integer part and sign, literal strings with nested and escaped parentheses, all escapes, octal codes, line continuations and bytes above 0x7F, hex strings with white space and an odd digit, names with #xx escapes, arrays and dictionaries with and without white space around delimiters, comments, and the five white-space spellings between tokens; indirect references for the document parser: each parser returns the tree the spelling stands for, so both assign the same value to every operand both accept", 2, 0)
	newCore := c.P.Func("core.NewParser")
	parseObj := c.P.Func("core.(*Parser).ParseObject")
	newCS := c.P.Func("contentstream.NewParser")
	parseCS := c.P.Func("contentstream.(*Parser).Parse")
	cases := objectCases()
	// the document parser
	if newCore != nil && parseObj != nil && len(newCore.Params) == 1 && len(parseObj.Params) == 1 {
		n, bad, skipped := 0, "", ""
		for _, tc := range cases {
			ev := eng.NewEvaluator()
			ev.Steps = 400000
			p, err := ev.Call(newCore, []any{&eng.EBytesReader{Data: []byte(tc.spelling)}}, 0)
			var got any
			if err == nil {
				got, err = ev.Call(parseObj, []any{p}, 0)
			}
			if err != nil && !err.Panic {
				skipped = fmt.Sprintf("%q: %s", tc.spelling, err.Msg)
				break
			}
			n++
			if err != nil {
				bad = fmt.Sprintf("%q: %s", tc.spelling, err.Msg)
				break
			}
			t, ok := got.(eng.ETuple)
			if !ok || len(t) != 2 {
				skipped = "ParseObject does not return (Object, error)"
				break
			}
			if t[1] != nil {
				bad = fmt.Sprintf("%q is refused with an error", tc.spelling)
				break
			}
			tree, ok := treeOf(t[0])
			if !ok {
				skipped = fmt.Sprintf("%q: the result is not a readable object", tc.spelling)
				break
			}
			if !treeEqual(tree, tc.tree) {
				bad = fmt.Sprintf("%q is read as %#v, it stands for %#v", tc.spelling, tree, tc.tree)
				break
			}
		}
		if skipped != "" {
			c.Ok(R, "core.(*Parser).ParseObject", parseObj.Pos(), "not evaluated: "+skipped)
		} else {
			c.Check(bad == "", R, "core.(*Parser).ParseObject#spellings", parseObj.Pos(), fmt.Sprintf("%d spellings evaluated", n), "the document parser does not read an object spelling as the object it stands for: "+bad)
		}
	} else {
		c.Ok(R, "core.(*Parser).ParseObject", token.NoPos, "parser entry points not found: not evaluated")
	}
	// the content-stream parser: the object as the only operand of an operator
	if newCS != nil && parseCS != nil && len(newCS.Params) == 1 && len(parseCS.Params) == 1 {
		n, bad, skipped := 0, "", ""
		for _, tc := range cases {
			if tc.coreOnly {
				continue
			}
			ev := eng.NewEvaluator()
			ev.Steps = 400000
			p, err := ev.Call(newCS, []any{eng.BytesOf([]byte(tc.spelling + " Tj"))}, 0)
			var got any
			if err == nil {
				got, err = ev.Call(parseCS, []any{p}, 0)
			}
			if err != nil && !err.Panic {
				skipped = fmt.Sprintf("%q: %s", tc.spelling, err.Msg)
				break
			}
			n++
			if err != nil {
				bad = fmt.Sprintf("%q: %s", tc.spelling, err.Msg)
				break
			}
			t, ok := got.(eng.ETuple)
			if !ok || len(t) != 2 {
				skipped = "Parse does not return (operations, error)"
				break
			}
			if t[1] != nil {
				bad = fmt.Sprintf("%q as an operand is refused with an error", tc.spelling)
				break
			}
			ops, ok := t[0].(*eng.ESlice)
			if !ok || len(ops.L) != 1 {
				k := 0
				if ok {
					k = len(ops.L)
				}
				bad = fmt.Sprintf("%q Tj is read as %d operations, it is one", tc.spelling, k)
				break
			}
			op, ok := ops.L[0].V.(*eng.EStruct)
			if !ok || len(op.F) < 2 {
				skipped = "Operation is not (Operator, Operands)"
				break
			}
			operands, ok := op.F[1].(*eng.ESlice)
			if name, _ := op.F[0].(string); !ok || name != "Tj" || len(operands.L) != 1 {
				k := 0
				if ok {
					k = len(operands.L)
				}
				bad = fmt.Sprintf("%q Tj is read as operator %q with %d operands", tc.spelling, op.F[0], k)
				break
			}
			tree, ok := treeOf(operands.L[0].V)
			if !ok {
				skipped = fmt.Sprintf("%q: the operand is not a readable object", tc.spelling)
				break
			}
			if !treeEqual(tree, tc.tree) {
				bad = fmt.Sprintf("the operand %q is read as %#v, it stands for %#v", tc.spelling, tree, tc.tree)
				break
			}
		}
		if skipped != "" {
			c.Ok(R, "contentstream.(*Parser).Parse", parseCS.Pos(), "not evaluated: "+skipped)
		} else {
			c.Check(bad == "", R, "contentstream.(*Parser).Parse#spellings", parseCS.Pos(), fmt.Sprintf("%d operand spellings evaluated", n), "the content-stream parser does not read an operand spelling as the object it stands for: "+bad)
		}
	} else {
		c.Ok(R, "contentstream.(*Parser).Parse", token.NoPos, "parser entry points not found: not evaluated")
	}
	// spellings whose reading the specification leaves to one rule for both parsers (an unescaped end of line inside a
	// literal string, bytes of two-byte codes that look like line ends): whatever the reading is, both parsers give the same
	if newCore != nil && parseObj != nil && newCS != nil && parseCS != nil && len(newCore.Params) == 1 && len(newCS.Params) == 1 {
		n, bad, skipped := 0, "", ""
		for _, sp := range []string{"(two\rlines)", "(two\r\nlines)", "(a\nb)", "(\x00\x0d\x00\x0a)", "(tab\there)", "[(x\ry) (z)]"} {
			var trees [2]any
			for k := 0; k < 2 && skipped == "" && bad == ""; k++ {
				ev := eng.NewEvaluator()
				ev.Steps = 400000
				var got any
				var err *eng.EvalError
				if k == 0 {
					var p any
					p, err = ev.Call(newCore, []any{&eng.EBytesReader{Data: []byte(sp)}}, 0)
					if err == nil {
						got, err = ev.Call(parseObj, []any{p}, 0)
					}
				} else {
					var p any
					p, err = ev.Call(newCS, []any{eng.BytesOf([]byte(sp + " Tj"))}, 0)
					if err == nil {
						got, err = ev.Call(parseCS, []any{p}, 0)
					}
				}
				if err != nil && !err.Panic {
					skipped = fmt.Sprintf("%q: %s", sp, err.Msg)
					break
				}
				if err != nil {
					bad = fmt.Sprintf("%q: %s", sp, err.Msg)
					break
				}
				t, ok := got.(eng.ETuple)
				if !ok || len(t) != 2 || t[1] != nil {
					skipped = fmt.Sprintf("%q is refused", sp)
					break
				}
				obj := t[0]
				if k == 1 {
					ops, ok := t[0].(*eng.ESlice)
					if !ok || len(ops.L) != 1 {
						skipped = fmt.Sprintf("%q Tj is not one operation", sp)
						break
					}
					op, _ := ops.L[0].V.(*eng.EStruct)
					if op == nil || len(op.F) < 2 {
						skipped = "Operation is not (Operator, Operands)"
						break
					}
					operands, ok := op.F[1].(*eng.ESlice)
					if !ok || len(operands.L) != 1 {
						skipped = fmt.Sprintf("%q Tj has not one operand", sp)
						break
					}
					obj = operands.L[0].V
				}
				tree, ok := treeOf(obj)
				if !ok {
					skipped = fmt.Sprintf("%q: not a readable object", sp)
					break
				}
				trees[k] = tree
			}
			if skipped != "" || bad != "" {
				break
			}
			n++
			if !treeEqual(trees[0], trees[1]) {
				bad = fmt.Sprintf("%q is read as %#v by the document parser and as %#v by the content-stream parser", sp, trees[0], trees[1])
			}
		}
		if skipped != "" {
			c.Ok(R, "core and contentstream parsers#agreement", parseCS.Pos(), "not evaluated: "+skipped)
		} else {
			c.Check(bad == "", R, "core and contentstream parsers#agreement", parseCS.Pos(), fmt.Sprintf("%d spellings read alike by both parsers", n), "the two parsers assign different values to one spelling: "+bad)
		}
	}
}

// ---------------------------------------------------------------------------------------------------------------
// R5.21 the predictors, read on small images of every geometry and row-filter mix.

func pngPaeth(a, b, c int) int {
	p := a + b - c
	pa, pb, pc := p-a, p-b, p-c
	if pa < 0 {
		pa = -pa
	}
	if pb < 0 {
		pb = -pb
	}
	if pc < 0 {
		pc = -pc
	}
	if pa <= pb && pa <= pc {
		return a
	}
	if pb <= pc {
		return b
	}
	return c
}

// pngEncode applies the PNG row filters (tags[r] for row r) to raw rows of rowLen bytes with bpp bytes per pixel.
func pngEncode(raw []byte, rowLen, bpp int, tags []int) []byte {
	var out []byte
	rows := len(raw) / rowLen
	for r := 0; r < rows; r++ {
		t := tags[r%len(tags)]
		out = append(out, byte(t))
		for i := 0; i < rowLen; i++ {
			x := int(raw[r*rowLen+i])
			a, b, c := 0, 0, 0
			if i >= bpp {
				a = int(raw[r*rowLen+i-bpp])
			}
			if r > 0 {
				b = int(raw[(r-1)*rowLen+i])
				if i >= bpp {
					c = int(raw[(r-1)*rowLen+i-bpp])
				}
			}
			p := 0
			switch t {
			case 1:
				p = a
			case 2:
				p = b
			case 3:
				p = (a + b) / 2
			case 4:
				p = pngPaeth(a, b, c)
			}
			out = append(out, byte(x-p))
		}
	}
	return out
}

// R5.21 [C05]
func rulePredictorsInvert(c *eng.Ctx) {
	const R = "R5.21-PREDICTORS-INVERT"
	c.Rule(R, "filters.applyPredictor, evaluated on small images of 1-3 rows, 1-5 columns and 1 or 3 colour components (8 bits): predictor 1 returns the data; predictor 2 undoes the TIFF horizontal differencing; for every declared PNG predictor 10..15 and every mix of row filter tags 0..4 (None, Sub, Up, Average, Paeth) the rows encoded by a reference PNG filter written in the rule decode to the original bytes; a row tag above 4 gives an error", 1, 0)
	fn := c.P.Func("internal/filters.applyPredictor")
	if fn == nil || len(fn.Params) != 3 {
		c.Ok(R, "internal/filters.applyPredictor", token.NoPos, "no such function with (data, predictor, params): not evaluated")
		return
	}
	intT := types.Typ[types.Int]
	mkParams := func(columns, colors int) *eng.EMap {
		m := &eng.EMap{M: map[any]any{}}
		for _, kv := range []struct {
			k string
			v int
		}{{"Columns", columns}, {"Colors", colors}, {"BitsPerComponent", 8}} {
			m.M[kv.k] = &eng.EIface{T: intT, V: int64(kv.v)}
			m.Keys = append(m.Keys, kv.k)
		}
		return m
	}
	n, bad, skipped := 0, "", ""
	run := func(data []byte, predictor, columns, colors int) ([]byte, bool, bool) {
		ev := eng.NewEvaluator()
		ev.Steps = 400000
		got, err := ev.Call(fn, []any{eng.BytesOf(data), int64(predictor), mkParams(columns, colors)}, 0)
		if err != nil {
			if err.Panic {
				return nil, true, true
			}
			skipped = err.Msg
			return nil, false, false
		}
		t, ok := got.(eng.ETuple)
		if !ok || len(t) != 2 {
			skipped = "result is not (bytes, error)"
			return nil, false, false
		}
		if t[1] != nil {
			return nil, true, true
		}
		b, ok := evalBytes(t[0])
		if !ok {
			skipped = "result bytes not readable"
			return nil, false, false
		}
		return b, false, true
	}
	seed := uint32(12345)
	next := func() byte {
		seed = seed*1664525 + 1013904223
		return byte(seed >> 24)
	}
outer:
	for _, rows := range []int{1, 2, 3} {
		for _, columns := range []int{1, 2, 3, 5} {
			for _, colors := range []int{1, 3} {
				rowLen := columns * colors
				raw := make([]byte, rows*rowLen)
				for i := range raw {
					raw[i] = next()
				}
				// predictor 1
				out, failed, ok := run(raw, 1, columns, colors)
				if !ok {
					break outer
				}
				n++
				if failed || string(out) != string(raw) {
					bad = fmt.Sprintf("predictor 1, %dx%dx%d: the data is changed", rows, columns, colors)
					break outer
				}
				// TIFF
				enc := make([]byte, len(raw))
				for r := 0; r < rows; r++ {
					for i := 0; i < rowLen; i++ {
						v := raw[r*rowLen+i]
						if i >= colors {
							v -= raw[r*rowLen+i-colors]
						}
						enc[r*rowLen+i] = v
					}
				}
				out, failed, ok = run(enc, 2, columns, colors)
				if !ok {
					break outer
				}
				n++
				if failed || string(out) != string(raw) {
					bad = fmt.Sprintf("TIFF predictor, %d rows x %d columns x %d colours: % X decodes to % X, the image is % X", rows, columns, colors, enc, out, raw)
					break outer
				}
				// PNG
				for _, tags := range [][]int{{0}, {1}, {2}, {3}, {4}, {0, 1, 2}, {4, 3, 2}, {2, 4, 1}, {3, 3, 4}} {
					for _, declared := range []int{10, 12, 15} {
						enc := pngEncode(raw, rowLen, colors, tags)
						out, failed, ok := run(enc, declared, columns, colors)
						if !ok {
							break outer
						}
						n++
						if failed || string(out) != string(raw) {
							bad = fmt.Sprintf("PNG predictor %d, row tags %v, %d rows x %d columns x %d colours: % X decodes to % X (error %v), the image is % X", declared, tags, rows, columns, colors, enc, out, failed, raw)
							break outer
						}
					}
				}
			}
		}
	}
	if bad == "" && skipped == "" {
		_, failed, ok := run([]byte{5, 1, 2, 3}, 12, 3, 1)
		if ok {
			n++
			if !failed {
				bad = "a row with filter tag 5 is decoded without an error"
			}
		}
	}
	if skipped != "" {
		c.Ok(R, "internal/filters.applyPredictor", fn.Pos(), "not evaluated: "+skipped)
		return
	}
	c.Check(bad == "", R, "internal/filters.applyPredictor#spec", fn.Pos(), fmt.Sprintf("%d images evaluated", n), "a predictor does not invert its encoding: "+bad)
}

// ---------------------------------------------------------------------------------------------------------------
// R9.11 the layout detectors, read on synthetic pages: the text that comes out is the text that went in.

type synthFragment struct {
	text          string
	x, y, w, h, f float64
}

// synthPages builds the pages of the evaluation: every fragment is at least 12 points wide and every line at least
// 60, so that the two recorded findings (lines under 5pt, blocks under 10x5pt) are not what is measured here.
func synthPages() map[string][]synthFragment {
	pages := map[string][]synthFragment{}
	word := func(i int) string {
		ws := []string{"alpha", "beta", "gamma", "delta", "epsilon", "zeta", "eta", "theta", "iota", "kappa", "lambda", "mu", "nu", "xi", "omicron", "pi", "rho", "sigma", "tau", "upsilon", "phi", "chi", "psi", "omega"}
		return fmt.Sprintf("%s%d", ws[i%len(ws)], i)
	}
	line := func(out *[]synthFragment, k *int, x0, y, size float64, words int) {
		x := x0
		for i := 0; i < words; i++ {
			t := word(*k)
			*k++
			w := float64(len(t)) * size * 0.5
			*out = append(*out, synthFragment{t, x, y, w, size, size})
			x += w + size*0.3
		}
	}
	// one column, ragged lines, a short last line
	{
		var fr []synthFragment
		k := 0
		for l := 0; l < 7; l++ {
			n := 5
			if l == 6 {
				n = 2
			}
			line(&fr, &k, 72, 700-float64(l)*14, 10, n)
		}
		pages["one column"] = fr
	}
	// two columns with a spanning title in a larger size
	{
		var fr []synthFragment
		k := 100
		fr = append(fr, synthFragment{"Spanning", 150, 740, 120, 20, 20}, synthFragment{"Title", 280, 740, 70, 20, 20})
		for l := 0; l < 8; l++ {
			line(&fr, &k, 60, 690-float64(l)*14, 10, 3)
			line(&fr, &k, 330, 690-float64(l)*14, 10, 3)
		}
		pages["two columns and a title"] = fr
	}
	// a heading, two paragraphs separated by a gap, and a list
	{
		var fr []synthFragment
		k := 200
		fr = append(fr, synthFragment{"Heading", 72, 720, 90, 16, 16}, synthFragment{"One", 170, 720, 40, 16, 16})
		y := 690.0
		for l := 0; l < 3; l++ {
			line(&fr, &k, 72, y, 10, 5)
			y -= 14
		}
		y -= 14
		for l := 0; l < 3; l++ {
			line(&fr, &k, 72, y, 10, 4)
			y -= 14
		}
		y -= 14
		for l := 0; l < 3; l++ {
			fr = append(fr, synthFragment{"•", 72, y, 12, 10, 10})
			line(&fr, &k, 90, y, 10, 3)
			y -= 14
		}
		pages["heading, paragraphs and a list"] = fr
	}
	// single-word lines of different widths
	{
		var fr []synthFragment
		k := 300
		for l := 0; l < 6; l++ {
			t := word(k) + word(k+1)
			k += 2
			fr = append(fr, synthFragment{t, 72, 700 - float64(l)*14, float64(len(t)) * 5, 10, 10})
		}
		pages["single-word lines"] = fr
	}
	// three columns
	{
		var fr []synthFragment
		k := 400
		for l := 0; l < 6; l++ {
			for c := 0; c < 3; c++ {
				line(&fr, &k, 50+float64(c)*180, 700-float64(l)*14, 10, 2)
			}
		}
		pages["three columns"] = fr
	}
	// a numbered list with a hanging indent under a full-width title whose first word stands over the gutter
	{
		var fr []synthFragment
		k := 500
		fr = append(fr, synthFragment{"Overview", 80, 740, 60, 14, 14}, synthFragment{"of", 150, 740, 20, 14, 14}, synthFragment{"the", 180, 740, 30, 14, 14}, synthFragment{"method", 220, 740, 60, 14, 14})
		for l := 0; l < 5; l++ {
			y := 700 - float64(l)*14
			fr = append(fr, synthFragment{fmt.Sprintf("%d.", l+1), 72, y, 14, 10, 10})
			line(&fr, &k, 108, y, 10, 5)
		}
		pages["hanging-indent list under a title"] = fr
	}
	// two columns: two paragraphs with a blank band on the left, a sub-heading level with that band on the right
	{
		var fr []synthFragment
		k := 600
		y := 700.0
		for l := 0; l < 3; l++ {
			line(&fr, &k, 60, y, 10, 3)
			y -= 14
		}
		y -= 28
		for l := 0; l < 3; l++ {
			line(&fr, &k, 60, y, 10, 3)
			y -= 14
		}
		y = 700
		for l := 0; l < 2; l++ {
			line(&fr, &k, 330, y, 10, 3)
			y -= 14
		}
		y -= 22
		fr = append(fr, synthFragment{"Subheading", 330, y, 110, 16, 16}, synthFragment{"here", 448, y, 44, 16, 16})
		y -= 24
		for l := 0; l < 3; l++ {
			line(&fr, &k, 330, y, 10, 3)
			y -= 14
		}
		pages["two columns, sub-heading beside a gap"] = fr
	}
	// two columns with a bulleted list that continues across the column break
	{
		var fr []synthFragment
		k := 700
		y := 700.0
		for l := 0; l < 3; l++ {
			line(&fr, &k, 60, y, 10, 3)
			y -= 14
		}
		for l := 0; l < 2; l++ {
			y -= 10
			fr = append(fr, synthFragment{"•", 60, y, 12, 10, 10})
			line(&fr, &k, 78, y, 10, 2)
			y -= 14
		}
		y = 700
		for l := 0; l < 2; l++ {
			fr = append(fr, synthFragment{"•", 330, y, 12, 10, 10})
			line(&fr, &k, 348, y, 10, 2)
			y -= 24
		}
		for l := 0; l < 3; l++ {
			line(&fr, &k, 330, y, 10, 3)
			y -= 14
		}
		pages["a list across the column break"] = fr
	}
	// a short line, a pull quote in large type to its right, and a line that runs under both
	{
		var fr []synthFragment
		k := 800
		line(&fr, &k, 72, 700, 10, 2)
		fr = append(fr, synthFragment{"Pull", 260, 694, 70, 24, 24}, synthFragment{"quote", 340, 694, 90, 24, 24})
		line(&fr, &k, 72, 686, 10, 7)
		line(&fr, &k, 72, 672, 10, 7)
		pages["a pull quote beside body lines"] = fr
	}
	// character-level text with doubled narrow glyphs (hello skiing Hawaii), one fragment per character, two lines
	{
		var fr []synthFragment
		widths := map[rune]float64{'h': .556, 'e': .556, 'l': .222, 'o': .556, 's': .5, 'k': .5, 'i': .222, 'n': .556, 'g': .556, 'H': .722, 'a': .556, 'w': .722, ' ': .278, 'b': .556, 'r': .333, 't': .278, 'y': .5}
		for li, line := range []string{"hello skiing Hawaii", "three llamas sitting still"} {
			x := 72.0
			for _, r := range line {
				w := widths[r] * 12
				if w == 0 {
					w = .5 * 12
				}
				if r != ' ' {
					fr = append(fr, synthFragment{string(r), x, 700 - 16*float64(li), w, 12, 12})
				}
				x += w
			}
		}
		pages["character-level text with doubled narrow glyphs"] = fr
	}
	// a masthead in 48pt type whose box reaches up over a small note at the left, with a date at the right
	{
		fr := []synthFragment{
			{"Vol.", 50, 700, 22, 10, 10}, {"12", 76, 700, 12, 10, 10},
			{"June", 420, 688, 26, 10, 10}, {"2024", 450, 688, 24, 10, 10},
			{"DAILY", 40, 664, 150, 48, 48}, {"NEWS", 205, 664, 130, 48, 48},
			{"Council", 40, 620, 40, 10, 10}, {"approves", 84, 620, 46, 10, 10}, {"budget", 134, 620, 36, 10, 10},
			{"after", 40, 608, 26, 10, 10}, {"long", 70, 608, 22, 10, 10}, {"debate", 96, 608, 36, 10, 10},
		}
		pages["a masthead over two notes"] = fr
	}
	return pages
}

func sortedNonSpace(s string) string {
	r := []rune(nonSpace(s))
	sort.Slice(r, func(i, j int) bool { return r[i] < r[j] })
	return string(r)
}

// R9.11 [C09]
func ruleLayoutKeepsCharactersEvaluated(c *eng.Ctx) {
	const R = "R9.11-LAYOUT-KEEPS-CHARACTERS-EVALUATED"
	c.Rule(R, "the line, column, paragraph, block and reading-order detectors of package layout with their default configuration, and the Analyzer, evaluated on synthetic pages (one column with ragged lines, two columns under a spanning title, a heading with paragraphs and a list, single-word lines, three columns, a hanging-indent list under a title, a sub-heading beside a gap of the other column, a list across a column break, a pull quote beside body lines, a masthead whose box reaches over two small notes, character-level text with doubled narrow glyphs; every line wider than the two recorded size filters): the text the result renders (GetText), the fragments it hands out (GetAllFragments) and the elements of the analysis hold, as a multiset, exactly the non-white-space characters of the fragments", 1, 0)
	fragT := c.P.NamedType("text", "TextFragment")
	if fragT == nil {
		c.Ok(R, "layout#detectors", token.NoPos, "text.TextFragment not found: not evaluated")
		return
	}
	pages := synthPages()
	var names []string
	for n := range pages {
		names = append(names, n)
	}
	sort.Strings(names)
	mkFrags := func(fr []synthFragment) *eng.ESlice {
		var els []any
		for _, f := range fr {
			v := eng.ZeroOf(fragT).(*eng.EStruct)
			eng.SetField(v, fragT, "Text", f.text)
			eng.SetField(v, fragT, "X", f.x)
			eng.SetField(v, fragT, "Y", f.y)
			eng.SetField(v, fragT, "Width", f.w)
			eng.SetField(v, fragT, "Height", f.h)
			eng.SetField(v, fragT, "FontSize", f.f)
			eng.SetField(v, fragT, "FontName", "F1")
			els = append(els, v)
		}
		return eng.SliceOf(els...)
	}
	evaluatedAny := false
	for _, d := range []struct{ ctor, detect string }{
		{"layout.NewAnalyzer", "layout.(*Analyzer).Analyze"},
		{"layout.NewLineDetector", "layout.(*LineDetector).Detect"},
		{"layout.NewColumnDetector", "layout.(*ColumnDetector).Detect"},
		{"layout.NewParagraphDetector", "layout.(*ParagraphDetector).DetectFromFragments"},
		{"layout.NewBlockDetector", "layout.(*BlockDetector).Detect"},
		{"layout.NewReadingOrderDetector", "layout.(*ReadingOrderDetector).Detect"},
	} {
		ctor, det := c.P.FuncExact(d.ctor), c.P.FuncExact(d.detect)
		if ctor == nil || det == nil || len(ctor.Params) != 0 || len(det.Params) != 4 {
			c.Ok(R, d.detect, token.NoPos, "constructor or Detect(fragments, width, height) not found: not evaluated")
			continue
		}
		n, bad, skipped := 0, "", ""
		perPage := map[string]string{}
		twice := map[string]string{}
		for _, pn := range names {
			bad = ""
			ev := eng.NewEvaluator()
			ev.Steps = 6000000
			ev.MaxDepth = 40
			obj, err := ev.Call(ctor, nil, 0)
			var res any
			if err == nil {
				res, err = ev.Call(det, []any{obj, mkFrags(pages[pn]), 612.0, 792.0}, 0)
			}
			var text any
			if err == nil {
				rp, ok := res.(*eng.EPtr)
				if !ok || rp == nil {
					skipped = "the result is not a pointer to a layout"
					break
				}
				ifc := &eng.EIface{T: det.Signature.Results().At(0).Type(), V: rp}
				text, err = ev.Method(det.Prog, ifc, "GetText")
			}
			if err != nil && !err.Panic {
				if strings.Contains(err.Msg, "step budget") {
					n++
					perPage[pn] = fmt.Sprintf("page %q: the detection does not end", pn)
					continue
				}
				skipped = fmt.Sprintf("page %q: %s", pn, err.Msg)
				break
			}
			n++
			if err != nil {
				perPage[pn] = fmt.Sprintf("page %q: %s", pn, err.Msg)
				continue
			}
			out, _ := text.(string)
			in := ""
			for _, f := range pages[pn] {
				in += f.text
			}
			// the fragments the result hands out (lines, blocks), and the elements of an analysis
			if rp, ok := res.(*eng.EPtr); ok && bad == "" {
				ifc := &eng.EIface{T: det.Signature.Results().At(0).Type(), V: rp}
				if all, err := ev.Method(det.Prog, ifc, "GetAllFragments"); err == nil {
					if sl, ok := all.(*eng.ESlice); ok {
						joined := ""
						for _, l := range sl.L {
							if st, ok := l.V.(*eng.EStruct); ok && len(st.F) > 0 {
								t, _ := st.F[0].(string)
								joined += t
							}
						}
						if sortedNonSpace(joined) != sortedNonSpace(in) {
							bad = fmt.Sprintf("page %q: the fragments handed out by GetAllFragments do not hold the characters of the input once each (%d characters out, %d in)", pn, len(nonSpace(joined)), len(nonSpace(in)))
						}
					}
				}
				if rs, ok := rp.Get().(*eng.EStruct); ok && strings.HasSuffix(d.detect, "Analyze") {
					rt := det.Signature.Results().At(0).Type().Underlying().(*types.Pointer).Elem()
					if st, ok := rt.Underlying().(*types.Struct); ok {
						for i := 0; i < st.NumFields(); i++ {
							if st.Field(i).Name() != "Elements" {
								continue
							}
							els, ok := rs.F[i].(*eng.ESlice)
							if !ok {
								continue
							}
							joined := ""
							for _, l := range els.L {
								el, ok := l.V.(*eng.EStruct)
								if !ok {
									continue
								}
								et := st.Field(i).Type().Underlying().(*types.Slice).Elem().Underlying().(*types.Struct)
								for j := 0; j < et.NumFields(); j++ {
									if et.Field(j).Name() == "Text" {
										t, _ := el.F[j].(string)
										joined += t
									}
								}
							}
							if sortedNonSpace(joined) != sortedNonSpace(in) {
								what := ""
								for _, f := range pages[pn] {
									if k := strings.Count(nonSpace(joined), nonSpace(f.text)); k != 1 && len(nonSpace(f.text)) > 2 {
										what = fmt.Sprintf("the fragment %q appears %d times in the elements", f.text, k)
										break
									}
								}
								if lostCharacters(in, joined) == "" {
									// nothing is lost, some text is there twice: an obligation of its own, so that a
									// recorded finding of this kind does not hide lost text on the same page
									twice[pn] = fmt.Sprintf("page %q: the analysis elements hold text of the fragments more than once (%s)", pn, what)
								} else {
									bad = fmt.Sprintf("page %q: the analysis elements do not hold the characters of the fragments once each (%s; lost: %q)", pn, what, lostCharacters(in, joined))
								}
							}
						}
					}
				}
				if bad != "" {
					perPage[pn] = bad
					continue
				}
			}
			if sortedNonSpace(out) != sortedNonSpace(in) {
				// name a fragment that is missing or duplicated
				what := ""
				for _, f := range pages[pn] {
					if k := strings.Count(nonSpace(out), nonSpace(f.text)); k != 1 && nonSpace(f.text) != "•" {
						what = fmt.Sprintf("the fragment %q appears %d times in the text", f.text, k)
						break
					}
				}
				bad = fmt.Sprintf("page %q: the rendered text does not hold the characters of the fragments (%s)", pn, what)
			}
			perPage[pn] = bad
		}
		if os.Getenv("VDEBUG") != "" {
			fmt.Fprintf(os.Stderr, "R9.11 %s n=%d perPage=%q skipped=%q\n", d.detect, n, perPage, skipped)
		}
		if skipped != "" {
			c.Ok(R, d.detect, det.Pos(), "not evaluated: "+skipped)
			continue
		}
		evaluatedAny = true
		for _, pn := range names {
			msg, done := perPage[pn]
			if !done {
				continue
			}
			c.Check(msg == "", R, d.detect+"#characters@"+pn, det.Pos(), "the characters of the page come out once each", "the detector loses, invents or duplicates text: "+msg)
			if strings.HasSuffix(d.detect, "Analyze") {
				c.Check(twice[pn] == "", R, d.detect+"#elements-hold-text-once@"+pn, det.Pos(), "no text of the page is in the elements twice", "the element tree repeats text: "+twice[pn])
			}
		}
	}
	_ = evaluatedAny
}

// ---------------------------------------------------------------------------------------------------------------
// R9.12 the plain-text assembly of the content-stream extractor, read on fragment sets.

// lostCharacters: the non-white-space characters of in that out does not hold (as multisets), at most 40 of them.
func lostCharacters(in, out string) string {
	have := map[rune]int{}
	for _, r := range nonSpace(out) {
		have[r]++
	}
	lost := ""
	for _, r := range nonSpace(in) {
		if have[r] > 0 {
			have[r]--
			continue
		}
		if len(lost) < 40 {
			lost += string(r)
		}
	}
	return lost
}

// R9.12 [C09]
func ruleExtractorTextKeepsCharactersEvaluated(c *eng.Ctx) {
	const R = "R9.12-EXTRACTOR-TEXT-KEEPS-CHARACTERS-EVALUATED"
	c.Rule(R, "text.(*Extractor).GetText and GetFragments, evaluated on an extractor holding a given fragment list - left-to-right lines, a right-to-left line that ends (at its left edge) with left-to-right words, character-level fragments in 7pt type with doubled narrow glyphs, and a page whose fragments are all present twice at the same positions: the text holds exactly the non-white-space characters of the distinct fragments (removing a copy at the same position is the only sanctioned removal)", 1, 0)
	get := c.P.FuncExact("text.(*Extractor).GetText")
	frs := c.P.FuncExact("text.(*Extractor).GetFragments")
	fragT := c.P.NamedType("text", "TextFragment")
	extT := c.P.NamedType("text", "Extractor")
	pk := c.P.ByPath["text"]
	if get == nil || fragT == nil || extT == nil || pk == nil {
		c.Ok(R, "text.(*Extractor).GetText", token.NoPos, "extractor or fragment type not found: not evaluated")
		return
	}
	dirOf := func(name string) int64 {
		if cn, ok := pk.Types.Scope().Lookup(name).(*types.Const); ok {
			v, _ := eng.ConstInt64(cn.Val())
			return v
		}
		return 0
	}
	ltr, rtl := dirOf("LTR"), dirOf("RTL")
	type fr struct {
		text      string
		x, y, w   float64
		size      float64
		direction int64
	}
	sets := map[string][]fr{}
	{
		var l []fr
		words := []string{"The", "quick", "brown", "fox", "jumps", "over", "the", "lazy", "dog", "again", "and", "again"}
		for i, w := range words {
			l = append(l, fr{w, 72 + float64(i%4)*60, 700 - float64(i/4)*14, float64(len(w)) * 5, 10, ltr})
		}
		sets["left-to-right lines"] = l
	}
	{
		// visual order left to right: two Latin words at the left edge, then four Arabic words
		l := []fr{{"Windows", 72, 700, 50, 10, ltr}, {"Server", 126, 700, 40, 10, ltr}, {"نظام", 180, 700, 30, 10, rtl}, {"تشغيل", 214, 700, 36, 10, rtl}, {"حديث", 254, 700, 30, 10, rtl}, {"هذا", 288, 700, 24, 10, rtl}}
		sets["right-to-left line ending with left-to-right words"] = l
	}
	{
		var l []fr
		x := 72.3
		for _, ch := range "still will fill all shells" {
			if ch == ' ' {
				x += 2.5
				continue
			}
			w := 3.2
			if ch == 'l' || ch == 'i' || ch == 't' {
				w = 1.6
			}
			l = append(l, fr{string(ch), x, 700, w, 7, ltr})
			x += w
		}
		sets["character-level 7pt type with doubled narrow glyphs"] = l
	}
	{
		base := sets["left-to-right lines"]
		l := append([]fr(nil), base...)
		l = append(l, base...)
		sets["every fragment twice at the same position"] = l
	}
	var names []string
	for n := range sets {
		names = append(names, n)
	}
	sort.Strings(names)
	baseNames := append([]string(nil), names...)
	for _, fn := range []*ssa.Function{get, frs} {
		if fn == nil {
			continue
		}
		names = append([]string(nil), baseNames...)
		skipped := ""
		results := map[string]string{}
		for _, sn := range names {
			var els []any
			distinct := map[string]bool{}
			want := ""
			for _, f := range sets[sn] {
				v := eng.ZeroOf(fragT).(*eng.EStruct)
				eng.SetField(v, fragT, "Text", f.text)
				eng.SetField(v, fragT, "X", f.x)
				eng.SetField(v, fragT, "Y", f.y)
				eng.SetField(v, fragT, "Width", f.w)
				eng.SetField(v, fragT, "Height", f.size)
				eng.SetField(v, fragT, "FontSize", f.size)
				eng.SetField(v, fragT, "FontName", "F1")
				eng.SetField(v, fragT, "Direction", f.direction)
				els = append(els, v)
				k := fmt.Sprintf("%s@%.1f,%.1f", f.text, f.x, f.y)
				if !distinct[k] {
					distinct[k] = true
					want += f.text
				}
			}
			ext := eng.ZeroOf(extT).(*eng.EStruct)
			if !eng.SetField(ext, extT, "fragments", eng.SliceOf(els...)) {
				skipped = "the extractor has no field 'fragments'"
				break
			}
			loc := &eng.ELoc{V: ext}
			recv := &eng.EPtr{Get: func() any { return loc.V }, Set: func(v any) { loc.V = v }, Loc: loc}
			ev := eng.NewEvaluator()
			ev.Steps = 3000000
			got, err := ev.Call(fn, []any{recv}, 0)
			if err != nil && !err.Panic {
				skipped = fmt.Sprintf("%s: %s", sn, err.Msg)
				break
			}
			if err != nil {
				results[sn] = err.Msg
				continue
			}
			out := ""
			switch v := got.(type) {
			case string:
				out = v
			case *eng.ESlice:
				for _, l := range v.L {
					if st, ok := l.V.(*eng.EStruct); ok && len(st.F) > 0 {
						t, _ := st.F[0].(string)
						out += t
					}
				}
			}
			results[sn] = ""
			if sortedNonSpace(out) != sortedNonSpace(want) {
				what := ""
				for _, f := range sets[sn] {
					if len(f.text) > 2 && strings.Count(nonSpace(out), f.text) != 1 {
						what = fmt.Sprintf(": the fragment %q appears %d times", f.text, strings.Count(nonSpace(out), f.text))
						break
					}
				}
				results[sn] = fmt.Sprintf("%d non-white-space characters come out, the distinct fragments hold %d%s", len([]rune(nonSpace(out))), len([]rune(nonSpace(want))), what)
			}
		}
		// the same extractor used for a second content stream with as many fragments: what comes out is the second
		// stream's text (Extract resets the fragment list and nothing else may remember the first)
		if skipped == "" {
			mk := func(words []string) *eng.ESlice {
				var els []any
				for i, w := range words {
					v := eng.ZeroOf(fragT).(*eng.EStruct)
					eng.SetField(v, fragT, "Text", w)
					eng.SetField(v, fragT, "X", 72+float64(i)*60)
					eng.SetField(v, fragT, "Y", 700.0)
					eng.SetField(v, fragT, "Width", float64(len(w))*5)
					eng.SetField(v, fragT, "Height", 10.0)
					eng.SetField(v, fragT, "FontSize", 10.0)
					eng.SetField(v, fragT, "FontName", "F1")
					eng.SetField(v, fragT, "Direction", ltr)
					els = append(els, v)
				}
				return eng.SliceOf(els...)
			}
			ext := eng.ZeroOf(extT).(*eng.EStruct)
			eng.SetField(ext, extT, "fragments", mk([]string{"first", "stream", "text"}))
			loc := &eng.ELoc{V: ext}
			recv := &eng.EPtr{Get: func() any { return loc.V }, Set: func(v any) { loc.V = v }, Loc: loc}
			ev := eng.NewEvaluator()
			ev.Steps = 2000000
			if _, err := ev.Call(fn, []any{recv}, 0); err == nil {
				eng.SetField(loc.V.(*eng.EStruct), extT, "fragments", mk([]string{"second", "content", "here"}))
				got, err := ev.Call(fn, []any{recv}, 0)
				if err == nil {
					out := ""
					switch v := got.(type) {
					case string:
						out = v
					case *eng.ESlice:
						for _, l := range v.L {
							if st, ok := l.V.(*eng.EStruct); ok && len(st.F) > 0 {
								t, _ := st.F[0].(string)
								out += t
							}
						}
					}
					msg := ""
					if sortedNonSpace(out) != sortedNonSpace("secondcontenthere") {
						msg = fmt.Sprintf("after the fragment list was replaced by one of the same length the answer is still %q", out)
					}
					results["the same extractor used again"] = msg
					names = append(names, "the same extractor used again")
				}
			}
		}
		name := eng.FuncName(fn)
		if os.Getenv("VDEBUG") != "" {
			fmt.Fprintf(os.Stderr, "R9.12 %s results=%q skipped=%q\n", name, results, skipped)
		}
		if skipped != "" {
			c.Ok(R, name, fn.Pos(), "not evaluated: "+skipped)
			continue
		}
		for _, sn := range names {
			msg, done := results[sn]
			if !done {
				continue
			}
			c.Check(msg == "", R, name+"#characters@"+sn, fn.Pos(), "the characters of the distinct fragments come out once each", "the extractor's text loses, invents or duplicates characters ("+sn+"): "+msg)
		}
	}
}

// ---------------------------------------------------------------------------------------------------------------
// R4.15 the classic cross-reference section, read in its legal spellings.

// R4.15 [C04, C01]
func ruleClassicXRefSpellingsEvaluated(c *eng.Ctx) {
	const R = "R4.15-CLASSIC-XREF-SPELLINGS-EVALUATED"
	c.Rule(R, "core.NewXRefParser(r).ParseXRefFromEOF, evaluated on a small file with a classic cross-reference section written with LF, CR LF and CR line endings, with the trailer dictionary on the line after the keyword, on the keyword's line, and spread over lines with a nested dictionary, in one subsection and in two: the table holds the offset, generation and in-use flag of every entry and the trailer's /Size and /Root", 1, 0)
	newP := c.P.FuncExact("core.NewXRefParser")
	parse := c.P.FuncExact("core.(*XRefParser).ParseXRefFromEOF")
	tabT := c.P.NamedType("core", "XRefTable")
	entT := c.P.NamedType("core", "XRefEntry")
	if newP == nil || parse == nil || tabT == nil || entT == nil || len(newP.Params) != 1 || len(parse.Params) != 1 {
		c.Ok(R, "core.(*XRefParser).ParseXRefFromEOF", token.NoPos, "parser entry points not found: not evaluated")
		return
	}
	fieldIdx := func(t types.Type, name string) int {
		st, ok := t.Underlying().(*types.Struct)
		if !ok {
			return -1
		}
		for i := 0; i < st.NumFields(); i++ {
			if st.Field(i).Name() == name {
				return i
			}
		}
		return -1
	}
	iEntries, iTrailer := fieldIdx(tabT, "Entries"), fieldIdx(tabT, "Trailer")
	iOff, iGen, iUse := fieldIdx(entT, "Offset"), fieldIdx(entT, "Generation"), fieldIdx(entT, "InUse")
	if iEntries < 0 || iTrailer < 0 || iOff < 0 || iGen < 0 || iUse < 0 {
		c.Ok(R, "core.(*XRefParser).ParseXRefFromEOF", parse.Pos(), "table or entry fields not found: not evaluated")
		return
	}
	type variant struct {
		name           string
		eol            string
		trailer        string // text between the last entry and startxref; %EOL% stands for the line ending
		twoSubsections bool
	}
	variants := []variant{
		{"LF", "\n", "trailer%EOL%<< /Size 3 /Root 1 0 R >>%EOL%", false},
		{"CR LF", "\r\n", "trailer%EOL%<< /Size 3 /Root 1 0 R >>%EOL%", false},
		{"CR", "\r", "trailer%EOL%<< /Size 3 /Root 1 0 R >>%EOL%", false},
		{"trailer dictionary on the keyword's line", "\n", "trailer << /Size 3 /Root 1 0 R >>%EOL%", false},
		{"trailer dictionary directly after the keyword", "\n", "trailer<</Size 3/Root 1 0 R>>%EOL%", false},
		{"nested dictionary over several lines", "\n", "trailer%EOL%<< /Info << /Producer (x) >>%EOL%/Size 3%EOL%/Root 1 0 R%EOL%>>%EOL%", false},
		{"two subsections", "\n", "trailer%EOL%<< /Size 3 /Root 1 0 R >>%EOL%", true},
	}
	name := eng.FuncName(parse)
	results := map[string]string{}
	skipped := ""
	for _, v := range variants {
		e := v.eol
		var b strings.Builder
		b.WriteString("%PDF-1.4" + e)
		off1 := b.Len()
		b.WriteString("1 0 obj" + e + "<< /Type /Catalog >>" + e + "endobj" + e)
		off2 := b.Len()
		b.WriteString("2 0 obj" + e + "(x)" + e + "endobj" + e)
		xref := b.Len()
		entry := func(off, gen int, kind string) string {
			if len(e) == 2 {
				return fmt.Sprintf("%010d %05d %s%s", off, gen, kind, e)
			}
			return fmt.Sprintf("%010d %05d %s %s", off, gen, kind, e)
		}
		b.WriteString("xref" + e)
		if v.twoSubsections {
			b.WriteString("0 1" + e + entry(0, 65535, "f") + "1 2" + e + entry(off1, 0, "n") + entry(off2, 0, "n"))
		} else {
			b.WriteString("0 3" + e + entry(0, 65535, "f") + entry(off1, 0, "n") + entry(off2, 0, "n"))
		}
		b.WriteString(strings.ReplaceAll(v.trailer, "%EOL%", e))
		b.WriteString("startxref" + e + fmt.Sprint(xref) + e + "%%EOF" + e)
		ev := eng.NewEvaluator()
		ev.Steps = 2000000
		p, err := ev.Call(newP, []any{&eng.EBytesReader{Data: []byte(b.String())}}, 0)
		var got any
		if err == nil {
			got, err = ev.Call(parse, []any{p}, 0)
		}
		if err != nil && !err.Panic {
			skipped = fmt.Sprintf("%s: %s", v.name, err.Msg)
			break
		}
		if err != nil {
			results[v.name] = err.Msg
			continue
		}
		t, ok := got.(eng.ETuple)
		if !ok || len(t) != 2 {
			skipped = "ParseXRefFromEOF does not return (table, error)"
			break
		}
		if t[1] != nil {
			results[v.name] = "the section is refused with an error"
			continue
		}
		tp, ok := t[0].(*eng.EPtr)
		if !ok || tp == nil {
			results[v.name] = "no table is returned"
			continue
		}
		tab, ok := tp.Get().(*eng.EStruct)
		if !ok {
			skipped = "the table is not readable"
			break
		}
		msg := ""
		entries, _ := tab.F[iEntries].(*eng.EMap)
		want := map[int64][3]int64{0: {0, 65535, 0}, 1: {int64(off1), 0, 1}, 2: {int64(off2), 0, 1}}
		if entries == nil || len(entries.M) != 3 {
			k := 0
			if entries != nil {
				k = len(entries.M)
			}
			msg = fmt.Sprintf("%d entries are read, the section has 3", k)
		} else {
			for num, w := range want {
				ep, _ := entries.M[num].(*eng.EPtr)
				if ep == nil {
					msg = fmt.Sprintf("object %d has no entry", num)
					break
				}
				es, _ := ep.Get().(*eng.EStruct)
				if es == nil {
					msg = fmt.Sprintf("the entry of object %d is not readable", num)
					break
				}
				off, _ := es.F[iOff].(int64)
				gen, _ := es.F[iGen].(int64)
				use, _ := es.F[iUse].(bool)
				u := int64(0)
				if use {
					u = 1
				}
				if num != 0 && (off != w[0] || gen != w[1] || u != w[2]) || num == 0 && u != 0 {
					msg = fmt.Sprintf("object %d is read as offset %d, generation %d, in use %v; the section says offset %d, generation %d", num, off, gen, use, w[0], w[1])
					break
				}
			}
		}
		if msg == "" {
			tr, ok := treeOf(&eng.EIface{T: c.P.NamedType("core", "Dict"), V: tab.F[iTrailer]})
			d, _ := tr.(map[string]any)
			if !ok || d == nil || d["Size"] != int64(3) || d["Root"] != (pdfRef{1, 0}) {
				msg = fmt.Sprintf("the trailer is read as %v, it holds /Size 3 and /Root 1 0 R", tr)
			}
		}
		results[v.name] = msg
	}
	if os.Getenv("VDEBUG") != "" {
		fmt.Fprintf(os.Stderr, "R4.15 results=%q skipped=%q\n", results, skipped)
	}
	if skipped != "" {
		c.Ok(R, name, parse.Pos(), "not evaluated: "+skipped)
		return
	}
	for _, v := range variants {
		msg, done := results[v.name]
		if !done {
			continue
		}
		c.Check(msg == "", R, name+"#"+v.name, parse.Pos(), "the section is read as written", "a classic cross-reference section in a legal spelling ("+v.name+") is not read as written: "+msg)
	}
}

// ---------------------------------------------------------------------------------------------------------------
// RX.LC a field assigned on the copy a range loop makes is lost.

func lostLoopCopyWriteRule(id string, pkgs ...string) func(*eng.Ctx) {
	return func(c *eng.Ctx) {
		R := id + "-WRITE-TO-LOOP-COPY-LOST"
		c.Rule(R, "inside `for _, v := range xs` over a slice or array of struct values, a field of v is not assigned unless v is used afterwards in that iteration (read, handed on, its address taken) or written back: v is a copy of the element, so the assignment changes nothing in xs - a stamp such as h.PageIndex = pageNum on the copy leaves every element at its zero value", 0, 1)
		inPkgs := map[string]bool{}
		for _, p := range pkgs {
			inPkgs[p] = true
		}
		n := 0
		for _, pk := range c.P.Pkgs {
			sp := eng.ShortPath(pk.PkgPath)
			if !inPkgs[sp] && !strings.Contains(sp, eng.PositivePkg) {
				continue
			}
			info := pk.TypesInfo
			for _, file := range pk.Syntax {
				if strings.HasSuffix(c.P.Fset.Position(file.Pos()).Filename, "_test.go") {
					continue
				}
				ast.Inspect(file, func(nd ast.Node) bool {
					rs, ok := nd.(*ast.RangeStmt)
					if !ok || rs.Value == nil || rs.Tok != token.DEFINE {
						return true
					}
					vid, ok := rs.Value.(*ast.Ident)
					if !ok || vid.Name == "_" {
						return true
					}
					vobj := info.Defs[vid]
					if vobj == nil {
						return true
					}
					if _, isStruct := vobj.Type().Underlying().(*types.Struct); !isStruct {
						return true
					}
					switch info.TypeOf(rs.X).Underlying().(type) {
					case *types.Slice, *types.Array:
					default:
						return true
					}
					// assignments v.f = ... and every other use of v in the body
					var assigns []*ast.AssignStmt
					otherUse := false
					lhsIdents := map[*ast.Ident]bool{}
					ast.Inspect(rs.Body, func(m ast.Node) bool {
						as, ok := m.(*ast.AssignStmt)
						if !ok {
							return true
						}
						for _, l := range as.Lhs {
							root := l
							depth := 0
							for {
								if se, ok := root.(*ast.SelectorExpr); ok {
									root = se.X
									depth++
									continue
								}
								break
							}
							if id, ok := root.(*ast.Ident); ok && depth > 0 && info.Uses[id] == vobj {
								assigns = append(assigns, as)
								lhsIdents[id] = true
							}
						}
						return true
					})
					if len(assigns) == 0 {
						return true
					}
					ast.Inspect(rs.Body, func(m ast.Node) bool {
						if id, ok := m.(*ast.Ident); ok && info.Uses[id] == vobj && !lhsIdents[id] {
							otherUse = true
						}
						return true
					})
					n++
					pos := assigns[0].Pos()
					key := fmt.Sprintf("%s#range@%s", sp, c.P.Pos(rs.Pos()))
					c.Check(otherUse, R, key, pos, "the copy is used after it was assigned to", fmt.Sprintf("a field of the range variable %s is assigned and %s is never used again in the iteration: the assignment is made on a copy of the element and is lost (every element keeps its old value, e.g. PageIndex 0 for every heading)", vid.Name, vid.Name))
					return true
				})
			}
		}
		c.Ok(R, "module#scanned", token.NoPos, fmt.Sprintf("%d range loops that assign to a field of their value variable", n))
	}
}

// ---------------------------------------------------------------------------------------------------------------
// R14.17 an export is handed out as the encoder wrote it.

// R14.17 [C14]
func ruleExportNotTrimmed(c *eng.Ctx) {
	const R = "R14.17-EXPORT-NOT-TRIMMED"
	c.Rule(R, "no exported function of package rag that returns an export as a string passes the encoder's output through strings.TrimSpace / Trim / TrimRight / TrimSuffix (or the bytes equivalents): in tab-separated output the trailing tabs of a last row with empty cells are white space, so trimming removes fields and the file no longer parses with one record per chunk; JSON Lines batches lose their record terminator", 1, 0)
	n := 0
	for _, fn := range c.P.ModuleFuncs() {
		if fn.Blocks == nil || fn.Pkg == nil || fn.Parent() != nil || eng.ShortPath(fn.Pkg.Pkg.Path()) != "rag" {
			continue
		}
		if !strings.Contains(fn.Name(), "Export") && !strings.HasPrefix(fn.Name(), "To") {
			continue
		}
		res := fn.Signature.Results()
		if res.Len() == 0 {
			continue
		}
		if bt, ok := res.At(0).Type().Underlying().(*types.Basic); !ok || bt.Info()&types.IsString == 0 {
			continue
		}
		usesExporter := false
		for _, h := range eng.Cluster(fn, 1) {
			if strings.Contains(eng.FuncName(h), "Exporter).Export") || strings.Contains(eng.FuncName(h), "ExportToString") {
				usesExporter = true
			}
		}
		if !usesExporter && !strings.Contains(fn.Name(), "ExportToString") {
			continue
		}
		n++
		bad := ""
		for _, r := range eng.Returns(fn) {
			vals := eng.ReturnValues(r)
			if len(vals) == 0 {
				continue
			}
			for w := range eng.Slice(vals[0], func(*ssa.Call) bool { return true }) {
				if call, ok := w.(*ssa.Call); ok {
					switch eng.CalleeName(call) {
					case "strings.TrimSpace", "strings.Trim", "strings.TrimRight", "strings.TrimSuffix", "strings.TrimLeft", "bytes.TrimSpace", "bytes.Trim", "bytes.TrimRight", "bytes.TrimSuffix":
						bad = c.P.Pos(call.Pos())
					}
				}
			}
		}
		c.Check(bad == "", R, eng.FuncName(fn)+"#untrimmed", fn.Pos(), "the encoder's output is returned as written", "the exported text is trimmed at "+bad+" before it is returned: trailing empty fields of the last TSV row and the newline that ends the last JSON Lines record are white space, so the export no longer parses back to one record per chunk with every field")
	}
	if n == 0 {
		c.Ok(R, "rag#exports", token.NoPos, "no string-returning export function found: not evaluated")
	}
}

// ---------------------------------------------------------------------------------------------------------------
// R5.22 filter chains of the two ASCII filters, read through Stream.Decode.

// R5.22 [C05]
func ruleASCIIChainsEvaluated(c *eng.Ctx) {
	const R = "R5.22-ASCII-CHAINS-EVALUATED"
	c.Rule(R, "core.(*Stream).Decode, evaluated on streams whose /Filter is a name, a one-element array or a chain of two or three of ASCIIHexDecode, ASCII85Decode and FlateDecode (full names and the abbreviations AHx, A85 and Fl, with and without a /DecodeParms array of nulls, with /Predictor 12 parameters given as a dictionary for a single filter and as the entry of the stage's own position in the array - first, second or middle stage, also for one of two FlateDecode stages, and as one-element /Filter and /DecodeParms arrays), the data encoded by reference encoders in the order the chain undoes it: the answer is the original bytes - the stages run in array order, each on the output of the one before", 1, 0)
	dec := c.P.FuncExact("core.(*Stream).Decode")
	streamT, dictT, arrT, nameT := c.P.NamedType("core", "Stream"), c.P.NamedType("core", "Dict"), c.P.NamedType("core", "Array"), c.P.NamedType("core", "Name")
	nullT := c.P.NamedType("core", "Null")
	if dec == nil || streamT == nil || dictT == nil || arrT == nil || nameT == nil || len(dec.Params) != 1 {
		c.Ok(R, "core.(*Stream).Decode", token.NoPos, "stream types not found: not evaluated")
		return
	}
	hexEnc := func(b []byte) []byte {
		return []byte(strings.ToUpper(hex.EncodeToString(b)) + ">")
	}
	a85Enc := func(b []byte) []byte { return []byte(a85Encode(b, true) + "~>") }
	flEnc := func(b []byte) []byte {
		var zb bytes.Buffer
		zw := zlib.NewWriter(&zb)
		zw.Write(b)
		zw.Close()
		return zb.Bytes()
	}
	enc := map[string]func([]byte) []byte{"ASCIIHexDecode": hexEnc, "AHx": hexEnc, "ASCII85Decode": a85Enc, "A85": a85Enc, "FlateDecode": flEnc, "Fl": flEnc}
	raw := []byte("Hello, \x00\x01\xfe\xff stream <<>> ~> end.!") // 32 bytes: eight rows of four
	intT := c.P.NamedType("core", "Int")
	type variant struct {
		chain  []string
		asName bool
		parms  bool
		pred   []bool // per stage: the stage is FlateDecode with /Predictor 12 /Columns 4 (its parameters are a dictionary)
		single bool   // one filter name with its parameters as a dictionary, not an array
	}
	variants := []variant{
		{chain: []string{"ASCIIHexDecode"}, asName: true, parms: false}, {chain: []string{"ASCII85Decode"}, asName: true, parms: false}, {chain: []string{"AHx"}, asName: true, parms: false}, {chain: []string{"A85"}, asName: true, parms: false},
		{chain: []string{"ASCIIHexDecode"}, asName: false, parms: false}, {chain: []string{"A85"}, asName: false, parms: true},
		{chain: []string{"ASCIIHexDecode", "ASCII85Decode"}, asName: false, parms: false}, {chain: []string{"ASCII85Decode", "ASCIIHexDecode"}, asName: false, parms: false},
		{chain: []string{"AHx", "A85"}, asName: false, parms: true}, {chain: []string{"A85", "AHx", "A85"}, asName: false, parms: false}, {chain: []string{"AHx", "AHx"}, asName: false, parms: true},
		{chain: []string{"FlateDecode"}, asName: true}, {chain: []string{"Fl"}},
		{chain: []string{"FlateDecode"}, asName: true, single: true, pred: []bool{true}},
		{chain: []string{"FlateDecode"}, parms: true, pred: []bool{true}}, {chain: []string{"Fl"}, parms: true, pred: []bool{true}},
		{chain: []string{"ASCII85Decode", "FlateDecode"}, parms: true, pred: []bool{false, true}},
		{chain: []string{"FlateDecode", "ASCIIHexDecode"}, parms: true, pred: []bool{true, false}},
		{chain: []string{"FlateDecode", "FlateDecode"}, parms: true, pred: []bool{true, false}},
		{chain: []string{"FlateDecode", "FlateDecode"}, parms: true, pred: []bool{false, true}},
		{chain: []string{"A85", "Fl", "AHx"}, parms: true, pred: []bool{false, true, false}},
	}
	n, bad, skipped := 0, "", ""
	for _, v := range variants {
		// the encoder applies the last stage's encoding first: decoding runs the array front to back
		data := raw
		for i := len(v.chain) - 1; i >= 0; i-- {
			if i < len(v.pred) && v.pred[i] {
				data = pngEncode(data, 4, 1, []int{1, 2, 4, 3, 0})
			}
			data = enc[v.chain[i]](data)
			if i < len(v.pred) && v.pred[i] && len(data)%4 != 0 && i > 0 {
				// an earlier predictor stage needs whole rows: pad is not possible for compressed data, so such chains are written with the predictor stage innermost only
			}
		}
		d := &eng.EMap{M: map[any]any{}}
		put := func(k string, val any) {
			d.M[k] = val
			d.Keys = append(d.Keys, k)
		}
		mkName := func(s string) any { return &eng.EIface{T: nameT, V: s} }
		predDict := func() any {
			pd := &eng.EMap{M: map[any]any{}}
			pd.M["Predictor"] = &eng.EIface{T: intT, V: int64(12)}
			pd.M["Columns"] = &eng.EIface{T: intT, V: int64(4)}
			pd.Keys = []any{"Predictor", "Columns"}
			return &eng.EIface{T: dictT, V: pd}
		}
		if v.asName {
			put("Filter", mkName(v.chain[0]))
		} else {
			var els []any
			for _, f := range v.chain {
				els = append(els, mkName(f))
			}
			put("Filter", &eng.EIface{T: arrT, V: eng.SliceOf(els...)})
			if v.parms && nullT != nil {
				var ps []any
				for i := range v.chain {
					if i < len(v.pred) && v.pred[i] && intT != nil {
						ps = append(ps, predDict())
					} else {
						ps = append(ps, &eng.EIface{T: nullT, V: eng.ZeroOf(nullT)})
					}
				}
				put("DecodeParms", &eng.EIface{T: arrT, V: eng.SliceOf(ps...)})
			}
		}
		if v.single && intT != nil {
			put("DecodeParms", predDict())
		}
		st := eng.ZeroOf(streamT).(*eng.EStruct)
		eng.SetField(st, streamT, "Dict", d)
		eng.SetField(st, streamT, "Data", eng.BytesOf(data))
		loc := &eng.ELoc{V: st}
		recv := &eng.EPtr{Get: func() any { return loc.V }, Set: func(x any) { loc.V = x }, Loc: loc}
		ev := eng.NewEvaluator()
		ev.Steps = 3000000
		got, err := ev.Call(dec, []any{recv}, 0)
		what := fmt.Sprintf("/Filter %v", v.chain)
		if err != nil && !err.Panic {
			skipped = what + ": " + err.Msg
			break
		}
		n++
		if err != nil {
			bad = what + ": " + err.Msg
			break
		}
		t, ok := got.(eng.ETuple)
		if !ok || len(t) != 2 {
			skipped = "Decode does not return (bytes, error)"
			break
		}
		if t[1] != nil {
			bad = what + ": the stream is refused with an error"
			break
		}
		out, ok := evalBytes(t[0])
		if os.Getenv("VDEBUG") != "" {
			fmt.Fprintf(os.Stderr, "R5.22 %s asName=%v parms=%v pred=%v: %d bytes in, %d out\n", what, v.asName, v.parms, v.pred, len(data), len(out))
		}
		if !ok || string(out) != string(raw) {
			bad = fmt.Sprintf("%s: decodes to %q, the stream holds %q", what, out, raw)
			break
		}
	}
	// a long run that compresses several hundred to one: all of it comes back (a well-formed stream is not a bomb)
	if skipped == "" && bad == "" {
		long := bytes.Repeat([]byte("(the same line of text over and over) Tj\n"), 5000)
		d := &eng.EMap{M: map[any]any{"Filter": &eng.EIface{T: nameT, V: "FlateDecode"}}, Keys: []any{"Filter"}}
		st := eng.ZeroOf(streamT).(*eng.EStruct)
		eng.SetField(st, streamT, "Dict", d)
		eng.SetField(st, streamT, "Data", eng.BytesOf(flEnc(long)))
		loc := &eng.ELoc{V: st}
		recv := &eng.EPtr{Get: func() any { return loc.V }, Set: func(x any) { loc.V = x }, Loc: loc}
		ev := eng.NewEvaluator()
		ev.Steps = 3000000
		got, err := ev.Call(dec, []any{recv}, 0)
		switch {
		case err != nil && !err.Panic:
			skipped = "the long run: " + err.Msg
		case err != nil:
			bad = "the long run: " + err.Msg
		default:
			n++
			if t, ok := got.(eng.ETuple); ok && len(t) == 2 {
				out, _ := evalBytes(t[0])
				if t[1] != nil || len(out) != len(long) || !bytes.Equal(out, long) {
					bad = fmt.Sprintf("a stream of %d bytes that compresses to %d comes back as %d bytes (error: %v)", len(long), len(flEnc(long)), len(out), t[1] != nil)
				}
			}
		}
	}
	if skipped != "" {
		c.Ok(R, "core.(*Stream).Decode", dec.Pos(), "not evaluated: "+skipped)
		return
	}
	c.Check(bad == "", R, "core.(*Stream).Decode#chains", dec.Pos(), fmt.Sprintf("%d filter specifications evaluated", n), "a filter chain is not undone stage by stage in array order: "+bad)
}

// ---------------------------------------------------------------------------------------------------------------
// R7.14 ToUnicode CMaps, read from their program text to the text they give.

// R7.14 [C07, C01]
func ruleCMapProgramsEvaluated(c *eng.Ctx) {
	const R = "R7.14-CMAP-PROGRAMS-EVALUATED"
	c.Rule(R, "font.ParseToUnicodeCMap followed by (*CMap).LookupString, evaluated on small CMap programs: bfchar and bfrange (offset and array targets) with code spaces of one, two, three and four bytes, multi-character and supplementary-plane targets, written with line breaks and on one line, and the same program stored behind an ASCIIHexDecode filter: the code string decodes to the text the program specifies", 1, 0)
	parse := c.P.FuncExact("font.ParseToUnicodeCMap")
	lookup := c.P.FuncExact("font.(*CMap).LookupString")
	streamT, dictT, nameT := c.P.NamedType("core", "Stream"), c.P.NamedType("core", "Dict"), c.P.NamedType("core", "Name")
	if parse == nil || lookup == nil || streamT == nil || dictT == nil || nameT == nil || len(parse.Params) != 1 || len(lookup.Params) != 2 {
		c.Ok(R, "font.ParseToUnicodeCMap", token.NoPos, "CMap entry points not found: not evaluated")
		return
	}
	wrap := func(codespace, body string) string {
		return "/CIDInit /ProcSet findresource begin\n12 dict begin\nbegincmap\n/CMapName /Adobe-Identity-UCS def\n/CMapType 2 def\n1 begincodespacerange\n" + codespace + "\nendcodespacerange\n" + body + "\nendcmap\nCMapName currentdict /CMap defineresource pop\nend\nend\n"
	}
	type tc struct {
		name, prog string
		codes      []byte
		want       string
	}
	cases := []tc{
		{"one-byte bfchar", wrap("<00> <FF>", "2 beginbfchar\n<41> <03A9>\n<42> <0416>\nendbfchar"), []byte{0x41, 0x42}, "ΩЖ"},
		{"two-byte bfchar", wrap("<0000> <FFFF>", "2 beginbfchar\n<0041> <03A9>\n<0142> <0418>\nendbfchar"), []byte{0x00, 0x41, 0x01, 0x42}, "ΩИ"},
		{"two-byte bfrange with offset", wrap("<0000> <FFFF>", "1 beginbfrange\n<0010> <0012> <0041>\nendbfrange"), []byte{0x00, 0x10, 0x00, 0x12}, "AC"},
		{"bfrange with array targets", wrap("<0000> <FFFF>", "1 beginbfrange\n<0020> <0021> [<00660069> <D83DDE00>]\nendbfrange"), []byte{0x00, 0x20, 0x00, 0x21}, "fi\U0001F600"},
		{"three-byte code space", wrap("<000000> <FFFFFF>", "2 beginbfchar\n<000041> <03A9>\n<000142> <0416>\nendbfchar"), []byte{0x00, 0x00, 0x41, 0x00, 0x01, 0x42}, "ΩЖ"},
		{"four-byte code space", wrap("<00000000> <FFFFFFFF>", "1 beginbfchar\n<00000041> <0418>\nendbfchar"), []byte{0x00, 0x00, 0x00, 0x41}, "И"},
		{"on one line", strings.ReplaceAll(wrap("<0000> <FFFF>", "2 beginbfchar\n<0041> <03A9>\n<0042> <0416>\nendbfchar"), "\n", " "), []byte{0x00, 0x41, 0x00, 0x42}, "ΩЖ"},
		{"CR line endings", strings.ReplaceAll(wrap("<0000> <FFFF>", "1 beginbfrange\n<0001> <0003> <0061>\nendbfrange"), "\n", "\r"), []byte{0x00, 0x01, 0x00, 0x03}, "ac"},
	}
	results := map[string]string{}
	var order []string
	skipped := ""
	run := func(name string, prog []byte, filter string, codes []byte, want string) {
		d := &eng.EMap{M: map[any]any{}}
		if filter != "" {
			d.M["Filter"] = &eng.EIface{T: nameT, V: filter}
			d.Keys = append(d.Keys, "Filter")
		}
		st := eng.ZeroOf(streamT).(*eng.EStruct)
		eng.SetField(st, streamT, "Dict", d)
		eng.SetField(st, streamT, "Data", eng.BytesOf(prog))
		loc := &eng.ELoc{V: st}
		sp := &eng.EPtr{Get: func() any { return loc.V }, Set: func(x any) { loc.V = x }, Loc: loc}
		ev := eng.NewEvaluator()
		ev.Steps = 6000000
		ev.MaxDepth = 30
		got, err := ev.Call(parse, []any{sp}, 0)
		order = append(order, name)
		if err != nil && !err.Panic {
			skipped = name + ": " + err.Msg
			return
		}
		if err != nil {
			results[name] = err.Msg
			return
		}
		t, ok := got.(eng.ETuple)
		if !ok || len(t) != 2 {
			skipped = "ParseToUnicodeCMap does not return (*CMap, error)"
			return
		}
		if t[1] != nil {
			results[name] = "the program is refused with an error"
			return
		}
		out, err := ev.Call(lookup, []any{t[0], eng.BytesOf(codes)}, 0)
		if err != nil && !err.Panic {
			skipped = name + ": " + err.Msg
			return
		}
		if err != nil {
			results[name] = err.Msg
			return
		}
		if sv, _ := out.(string); sv != want {
			results[name] = fmt.Sprintf("codes % X decode to %q, the program says %q", codes, out, want)
			return
		}
		results[name] = ""
	}
	for _, t := range cases {
		if skipped != "" {
			break
		}
		run(t.name, []byte(t.prog), "", t.codes, t.want)
	}
	if skipped == "" {
		t := cases[1]
		run("the program behind an ASCIIHexDecode filter", []byte(strings.ToUpper(hex.EncodeToString([]byte(t.prog)))+">"), "ASCIIHexDecode", t.codes, t.want)
	}
	if os.Getenv("VDEBUG") != "" {
		fmt.Fprintf(os.Stderr, "R7.14 results=%q skipped=%q\n", results, skipped)
	}
	if skipped != "" {
		c.Ok(R, "font.ParseToUnicodeCMap", parse.Pos(), "not evaluated: "+skipped)
		return
	}
	for _, n := range order {
		msg := results[n]
		c.Check(msg == "", R, "font.ParseToUnicodeCMap#"+n, parse.Pos(), "decodes to the text the program specifies", "a ToUnicode CMap ("+n+") does not decode to the text it specifies: "+msg)
	}
}

// ---------------------------------------------------------------------------------------------------------------
// R11.14 what is detected as a page number is removed as one.

// R11.14 [C11]
func rulePageNumberMatchFollowsDetection(c *eng.Ctx) {
	const R = "R11.14-PAGE-NUMBER-MATCH-FOLLOWS-DETECTION"
	c.Rule(R, "layout.textsMatch(text, region text, isPageNumber=true), evaluated on running page-number texts of one to four digits in the styles N, Page N, Page N of M, - N -, N / M: it answers yes exactly where layout.isPageNumberPattern(normalizeForComparison(text)) does - the detection groups the fragments by that test, so a filter that is narrower (a length limit on the raw text) leaves the page numbers of the later pages in the output", 1, 0)
	match := c.P.FuncExact("layout.textsMatch")
	isPN := c.P.FuncExact("layout.isPageNumberPattern")
	norm := c.P.FuncExact("layout.normalizeForComparison")
	if match == nil || isPN == nil || norm == nil || len(match.Params) != 3 || len(isPN.Params) != 1 || len(norm.Params) != 1 {
		c.Ok(R, "layout.textsMatch", token.NoPos, "helpers not found with their signatures: not evaluated")
		return
	}
	var texts []string
	for _, n := range []int{1, 7, 10, 12, 99, 100, 123, 1000} {
		for _, m := range []int{12, 250} {
			texts = append(texts, fmt.Sprintf("Page %d of %d", n, m), fmt.Sprintf("%d / %d", n, m))
		}
		texts = append(texts, fmt.Sprint(n), fmt.Sprintf("Page %d", n), fmt.Sprintf("- %d -", n), fmt.Sprintf("  %d  ", n))
	}
	texts = append(texts, "Chapter One", "Annual Report 2024", "1984 was a year")
	n, bad, skipped := 0, "", ""
	for _, t := range texts {
		ev := eng.NewEvaluator()
		ev.Steps = 2000000
		nv, err := ev.Call(norm, []any{t}, 0)
		var dv, mv any
		if err == nil {
			dv, err = ev.Call(isPN, []any{nv}, 0)
		}
		if err == nil {
			mv, err = ev.Call(match, []any{t, "[Page Number]", true}, 0)
		}
		if err != nil && !err.Panic {
			skipped = err.Msg
			break
		}
		n++
		if err != nil {
			bad = fmt.Sprintf("%q: %s", t, err.Msg)
			break
		}
		detected, _ := dv.(bool)
		matched, _ := mv.(bool)
		if detected != matched {
			bad = fmt.Sprintf("%q is detected as a page number: %v, but matched for removal: %v", t, detected, matched)
			break
		}
	}
	if skipped != "" {
		c.Ok(R, "layout.textsMatch", match.Pos(), "not evaluated: "+skipped)
		return
	}
	c.Check(bad == "", R, "layout.textsMatch#page-numbers", match.Pos(), fmt.Sprintf("%d texts evaluated", n), "removal and detection of page numbers disagree: "+bad+"; running page numbers stay on the pages where they disagree")
}

// ---------------------------------------------------------------------------------------------------------------
// R14.18 the element-type filter, read on a small collection.

// R14.18 [C14]
func ruleElementTypeFilterEvaluated(c *eng.Ctx) {
	const R = "R14.18-ELEMENT-TYPE-FILTER-EVALUATED"
	c.Rule(R, "rag.(*ChunkCollection).FilterByElementType, evaluated on a collection of six chunks whose ElementTypes lists and HasTable/HasList/HasImage flags deliberately disagree (a chunk typed List without the flag, a flagged chunk without the type, mixed case, several types, none), for the queries list, LIST, table, image, paragraph and an unknown type: the answer holds exactly the chunks whose ElementTypes list names the type (case-insensitively), in their order", 1, 0)
	fn := c.P.FuncExact("rag.(*ChunkCollection).FilterByElementType")
	collT, chunkT, metaT := c.P.NamedType("rag", "ChunkCollection"), c.P.NamedType("rag", "Chunk"), c.P.NamedType("rag", "ChunkMetadata")
	if fn == nil || collT == nil || chunkT == nil || metaT == nil || len(fn.Params) != 2 {
		c.Ok(R, "rag.(*ChunkCollection).FilterByElementType", token.NoPos, "filter or chunk types not found: not evaluated")
		return
	}
	type spec struct {
		id               string
		types            []string
		table, list, img bool
	}
	specs := []spec{
		{"c0", []string{"List"}, false, false, false},
		{"c1", []string{"Paragraph"}, false, true, false},
		{"c2", []string{"table", "LIST"}, true, false, false},
		{"c3", nil, true, true, true},
		{"c4", []string{"Image", "Paragraph"}, false, false, true},
		{"c5", []string{"Table"}, false, false, false},
	}
	mkColl := func() (*eng.EPtr, bool) {
		var chunks []any
		for _, sp := range specs {
			ch := eng.ZeroOf(chunkT).(*eng.EStruct)
			if !eng.SetField(ch, chunkT, "ID", sp.id) {
				return nil, false
			}
			md := eng.ZeroOf(metaT).(*eng.EStruct)
			var ts []any
			for _, t := range sp.types {
				ts = append(ts, t)
			}
			if !eng.SetField(md, metaT, "ElementTypes", eng.SliceOf(ts...)) {
				return nil, false
			}
			eng.SetField(md, metaT, "HasTable", sp.table)
			eng.SetField(md, metaT, "HasList", sp.list)
			eng.SetField(md, metaT, "HasImage", sp.img)
			if !eng.SetField(ch, chunkT, "Metadata", md) {
				return nil, false
			}
			loc := &eng.ELoc{V: ch}
			chunks = append(chunks, &eng.EPtr{Get: func() any { return loc.V }, Set: func(v any) { loc.V = v }, Loc: loc})
		}
		coll := eng.ZeroOf(collT).(*eng.EStruct)
		if !eng.SetField(coll, collT, "Chunks", eng.SliceOf(chunks...)) {
			return nil, false
		}
		loc := &eng.ELoc{V: coll}
		return &eng.EPtr{Get: func() any { return loc.V }, Set: func(v any) { loc.V = v }, Loc: loc}, true
	}
	idIdx := -1
	if st, ok := chunkT.Underlying().(*types.Struct); ok {
		for i := 0; i < st.NumFields(); i++ {
			if st.Field(i).Name() == "ID" {
				idIdx = i
			}
		}
	}
	n, bad, skipped := 0, "", ""
	for _, q := range []string{"list", "LIST", "table", "image", "paragraph", "footnote"} {
		coll, ok := mkColl()
		if !ok || idIdx < 0 {
			skipped = "chunk fields not found"
			break
		}
		var want []string
		for _, sp := range specs {
			for _, t := range sp.types {
				if strings.EqualFold(t, q) {
					want = append(want, sp.id)
					break
				}
			}
		}
		ev := eng.NewEvaluator()
		ev.Steps = 1000000
		got, err := ev.Call(fn, []any{coll, q}, 0)
		if err != nil && !err.Panic {
			skipped = err.Msg
			break
		}
		n++
		if err != nil {
			bad = fmt.Sprintf("query %q: %s", q, err.Msg)
			break
		}
		var ids []string
		if rp, ok := got.(*eng.EPtr); ok && rp != nil {
			if rs, ok := rp.Get().(*eng.EStruct); ok && len(rs.F) > 0 {
				if sl, ok := rs.F[0].(*eng.ESlice); ok {
					for _, l := range sl.L {
						if cp, ok := l.V.(*eng.EPtr); ok && cp != nil {
							if cs, ok := cp.Get().(*eng.EStruct); ok {
								id, _ := cs.F[idIdx].(string)
								ids = append(ids, id)
							}
						}
					}
				}
			}
		}
		if strings.Join(ids, ",") != strings.Join(want, ",") {
			bad = fmt.Sprintf("query %q returns the chunks [%s], the chunks whose element types name it are [%s]", q, strings.Join(ids, ","), strings.Join(want, ","))
			break
		}
	}
	if skipped != "" {
		c.Ok(R, "rag.(*ChunkCollection).FilterByElementType", fn.Pos(), "not evaluated: "+skipped)
		return
	}
	c.Check(bad == "", R, "rag.(*ChunkCollection).FilterByElementType#predicate", fn.Pos(), fmt.Sprintf("%d queries evaluated", n), "the element-type filter does not return exactly the chunks that satisfy its predicate: "+bad)
}

// ---------------------------------------------------------------------------------------------------------------
// RX.TR a buffer that was handed out is not emptied in place.

func truncateAfterHandOutRule(id string, pkgs ...string) func(*eng.Ctx) {
	return func(c *eng.Ctx) {
		R := id + "-TRUNCATE-AFTER-HAND-OUT"
		c.Rule(R, "a slice kept in a field is not cut back to length zero (x = x[:0], to keep its storage) in a function that has just stored that same slice into another value (an element it appended to the results, a struct it built): the next appends write over the elements the other value still shows, so items already emitted change under the reader's hands", 0, 1)
		inPkgs := map[string]bool{}
		for _, p := range pkgs {
			inPkgs[p] = true
		}
		n := 0
		for _, fn := range c.P.ModuleFuncs() {
			if fn.Blocks == nil || fn.Pkg == nil {
				continue
			}
			sp := eng.ShortPath(fn.Pkg.Pkg.Path())
			if !inPkgs[sp] && !strings.Contains(sp, eng.PositivePkg) {
				continue
			}
			k := 0
			eng.Instrs(fn, true, func(in ssa.Instruction) {
				sl, ok := in.(*ssa.Slice)
				if !ok || sl.Low != nil || sl.High == nil {
					return
				}
				if hv, isC := eng.ConstInt(sl.High); !isC || hv != 0 {
					return
				}
				ld, ok := sl.X.(*ssa.UnOp)
				if !ok || ld.Op != token.MUL {
					return
				}
				fa, ok := ld.X.(*ssa.FieldAddr)
				if !ok {
					return
				}
				// the truncated value goes back into the same field
				back := false
				for _, r := range *sl.Referrers() {
					if st, ok := r.(*ssa.Store); ok && eng.SameValue(st.Addr, fa) {
						back = true
					}
				}
				if !back {
					return
				}
				n++
				k++
				handed := token.NoPos
				eng.Instrs(in.Parent(), false, func(in2 ssa.Instruction) {
					st, ok := in2.(*ssa.Store)
					if !ok {
						return
					}
					v, ok := st.Val.(*ssa.UnOp)
					if !ok || v.Op != token.MUL || !eng.SameValue(v.X, fa) {
						return
					}
					// stored into a field of something else than the owner of the buffer
					dst, ok := st.Addr.(*ssa.FieldAddr)
					if !ok || eng.SameValue(dst, fa) || eng.SameValue(dst.X, fa.X) {
						return
					}
					if eng.InstrDominates(st, in) {
						handed = st.Pos()
					}
				})
				c.Check(handed == token.NoPos, R, fmt.Sprintf("%s#truncate%d", eng.FuncName(in.Parent()), k), sl.Pos(), "the buffer was not handed out before it is emptied in place", "the slice is emptied in place (x[:0]) after the same slice was stored into another value at "+c.P.Pos(handed)+": the value built there shares the storage, and the next appends overwrite the elements it shows (list items already emitted are replaced by later ones)")
			})
		}
		c.Ok(R, "module#scanned", token.NoPos, fmt.Sprintf("%d in-place truncations of a field", n))
	}
}

// ---------------------------------------------------------------------------------------------------------------
// Object streams, evaluated on hostile headers. The structural rules R2.4 and R2.4c prove the bounds where the slicing and
// the indexing are written in GetObjectByIndex itself; where a refactoring has moved them into stage functions with their
// own value types, those rules fall back to this evaluation.

// objStmEvaluated builds object streams over a family of headers (valid, decreasing, negative and oversized offsets,
// truncated and non-numeric headers, /N larger than the pairs present, /First at and beyond the end of the data) and,
// where the struct has the fields, object-stream values whose offset table is shorter than /N; it asks each for the
// objects at indexes -1..N+1, twice. n counts the calls evaluated; bad names the first call that panics or that returns
// the wrong object number for a well-formed stream; skipped says why the code could not be evaluated.
func objStmEvaluated(c *eng.Ctx) (n int, bad, skipped string) {
	mk := c.P.FuncExact("core.NewObjectStream")
	get := c.P.FuncExact("core.(*ObjectStream).GetObjectByIndex")
	streamT, nameT, intT, osT := c.P.NamedType("core", "Stream"), c.P.NamedType("core", "Name"), c.P.NamedType("core", "Int"), c.P.NamedType("core", "ObjectStream")
	if mk == nil || get == nil || streamT == nil || nameT == nil || intT == nil || osT == nil || len(mk.Params) != 1 || len(get.Params) != 2 {
		return 0, "", "object stream constructor or types not found"
	}
	type hostile struct {
		data     string
		n, first int64
		nums     []int64 // the object numbers a correct reader returns, nil where the stream is malformed
	}
	body := "true null 42 (x) "
	cases := []hostile{
		{"1 0 2 5 " + body, 2, 8, []int64{1, 2}},
		{"7 0 8 5 9 10 " + body, 3, 13, []int64{7, 8, 9}},
		{"1 5 2 0 " + body, 2, 8, nil},
		{"1 -3 2 4 " + body, 2, 9, nil},
		{"1 -30 2 4 " + body, 2, 10, nil},
		{"1 0 2 999 " + body, 2, 10, nil},
		{"1 999 2 5 " + body, 2, 10, nil},
		{"1 0 2 17 " + body, 2, 9, nil},
		{"1 17 2 17 " + body, 2, 10, nil},
		{"1 0 2", 2, 5, nil},
		{"1 0 x 5 " + body, 2, 8, nil},
		{"1 0 2 5 " + body, 3, 8, nil},
		{"1 0 2 5 " + body, 2, 0, nil},
		{"1 0 2 5 " + body, 2, int64(8 + len(body)), nil},
		{"1 0 2 5 " + body, 2, int64(9 + len(body)), nil},
		{"1 0 2 5 " + body, 2, 4000, nil},
		{"1 0 ", 1, 4, nil},
		{"", 0, 0, nil},
		{"", 1, 0, nil},
		{"1 9223372036854775807 2 5 " + body, 2, 26, nil},
		{"1 0 2 9223372036854775800 " + body, 2, 26, nil},
	}
	newStream := func(h hostile) *eng.EPtr {
		d := &eng.EMap{M: map[any]any{}}
		put := func(k string, val any) {
			d.M[k] = val
			d.Keys = append(d.Keys, k)
		}
		put("Type", &eng.EIface{T: nameT, V: "ObjStm"})
		put("N", &eng.EIface{T: intT, V: h.n})
		put("First", &eng.EIface{T: intT, V: h.first})
		st := eng.ZeroOf(streamT).(*eng.EStruct)
		eng.SetField(st, streamT, "Dict", d)
		eng.SetField(st, streamT, "Data", eng.BytesOf([]byte(h.data)))
		loc := &eng.ELoc{V: st}
		return &eng.EPtr{Get: func() any { return loc.V }, Set: func(x any) { loc.V = x }, Loc: loc}
	}
	ask := func(ev *eng.Evaluator, recv any, h hostile, what string) bool {
		for round := 0; round < 2; round++ {
			for i := int64(-1); i <= h.n+1; i++ {
				got, err := ev.Call(get, []any{recv, i}, 0)
				if err != nil && !err.Panic {
					skipped = what + ": " + err.Msg
					return false
				}
				n++
				if err != nil {
					bad = fmt.Sprintf("%s, index %d: %s", what, i, err.Msg)
					return false
				}
				t, ok := got.(eng.ETuple)
				if !ok || len(t) != 3 {
					skipped = "GetObjectByIndex does not return (object, number, error)"
					return false
				}
				if h.nums != nil && i >= 0 && i < int64(len(h.nums)) {
					if t[2] != nil {
						bad = fmt.Sprintf("%s, index %d: a well-formed stream is refused", what, i)
						return false
					}
					if num, _ := t[1].(int64); num != h.nums[i] {
						bad = fmt.Sprintf("%s, index %d: object number %d returned, the header says %d", what, i, num, h.nums[i])
						return false
					}
				}
				if h.nums != nil && (i < 0 || i >= int64(len(h.nums))) && t[2] == nil {
					bad = fmt.Sprintf("%s, index %d: an index outside the header is answered without an error", what, i)
					return false
				}
			}
		}
		return true
	}
	for _, h := range cases {
		ev := eng.NewEvaluator()
		ev.Steps = 3000000
		what := fmt.Sprintf("header %q with /N %d /First %d", h.data[:min(len(h.data), int(min(h.first, 30)))], h.n, h.first)
		made, err := ev.Call(mk, []any{newStream(h)}, 0)
		if err != nil {
			if !err.Panic {
				return n, "", what + ": " + err.Msg
			}
			return n, what + ": " + err.Msg, ""
		}
		t, ok := made.(eng.ETuple)
		if !ok || len(t) != 2 {
			return n, "", "NewObjectStream does not return (stream, error)"
		}
		if t[1] != nil {
			continue
		}
		if !ask(ev, t[0], h, what) {
			return
		}
	}
	// a table shorter than /N, and offsets no header parser would have let through
	st, isSt := osT.Underlying().(*types.Struct)
	var offT types.Type
	have := map[string]bool{}
	if isSt {
		for i := 0; i < st.NumFields(); i++ {
			have[st.Field(i).Name()] = true
			if st.Field(i).Name() == "offsets" {
				if sl, ok := st.Field(i).Type().Underlying().(*types.Slice); ok {
					offT = sl.Elem()
				}
			}
		}
	}
	if offT == nil || !have["decoded"] || !have["n"] || !have["first"] || !have["objects"] {
		return
	}
	ost, ok := offT.Underlying().(*types.Struct)
	if !ok || ost.NumFields() != 2 {
		return
	}
	tables := [][]int64{{}, {0}, {0, 5}, {5, 0}, {-1, 4}, {0, 17}, {17, 17}, {18, 2}, {0, -9}, {-40, -20}, {0, 5, 10}}
	for _, tb := range tables {
		for _, nn := range []int64{int64(len(tb)), int64(len(tb)) + 2} {
			for _, first := range []int64{0, 3} {
				v := eng.ZeroOf(osT).(*eng.EStruct)
				var offs []any
				for k, o := range tb {
					e := eng.ZeroOf(offT).(*eng.EStruct)
					eng.SetField(e, offT, "ObjNum", int64(k+1))
					if !eng.SetField(e, offT, "Offset", o) {
						return
					}
					offs = append(offs, e)
				}
				eng.SetField(v, osT, "offsets", eng.SliceOf(offs...))
				eng.SetField(v, osT, "decoded", eng.BytesOf([]byte(body)))
				eng.SetField(v, osT, "n", nn)
				eng.SetField(v, osT, "first", first)
				eng.SetField(v, osT, "objects", &eng.EMap{M: map[any]any{}})
				loc := &eng.ELoc{V: v}
				recv := &eng.EPtr{Get: func() any { return loc.V }, Set: func(x any) { loc.V = x }, Loc: loc}
				ev := eng.NewEvaluator()
				ev.Steps = 3000000
				if !ask(ev, recv, hostile{n: nn, first: first}, fmt.Sprintf("offset table %v with /N %d /First %d over %d bytes", tb, nn, first, len(body))) {
					return
				}
			}
		}
	}
	return
}

// R2.27 [C02, C01]
func ruleObjectStreamsEvaluated(c *eng.Ctx) {
	const R = "R2.27-OBJECT-STREAMS-EVALUATED"
	c.Rule(R, "core.(*ObjectStream).GetObjectByIndex, evaluated on object streams with valid, decreasing, negative and oversized offsets, truncated and non-numeric headers, /N larger than the pairs present, /First at and beyond the end of the data, and on offset tables shorter than /N, for every index from -1 to N+1, twice: no call panics; a well-formed stream answers each index with the object number its header gives and refuses the indexes outside it", 1, 0)
	get := c.P.FuncExact("core.(*ObjectStream).GetObjectByIndex")
	n, bad, skipped := objStmEvaluated(c)
	pos := token.NoPos
	if get != nil {
		pos = get.Pos()
	}
	if skipped != "" {
		c.Ok(R, "core.(*ObjectStream).GetObjectByIndex", pos, "not evaluated: "+skipped)
		return
	}
	c.Check(bad == "", R, "core.(*ObjectStream).GetObjectByIndex#hostile", pos, fmt.Sprintf("%d calls evaluated", n), "an object stream from the file brings the reader down or is answered wrongly: "+bad)
}

// ---------------------------------------------------------------------------------------------------------------
// R3.15 an extractor that is cleared and used again neither changes what it handed out nor remembers it.

// dumpVal writes an evaluator value out in full (pointers followed to depth 6).
func dumpVal(v any, depth int) string {
	if depth > 6 {
		return "…"
	}
	switch x := v.(type) {
	case nil:
		return "nil"
	case *eng.EPtr:
		if x == nil {
			return "nil"
		}
		return "&" + dumpVal(x.Get(), depth+1)
	case *eng.EStruct:
		parts := make([]string, len(x.F))
		for i, f := range x.F {
			parts[i] = dumpVal(f, depth+1)
		}
		return "{" + strings.Join(parts, ",") + "}"
	case *eng.ESlice:
		parts := make([]string, len(x.L))
		for i, l := range x.L {
			parts[i] = dumpVal(l.V, depth+1)
		}
		return "[" + strings.Join(parts, ",") + "]"
	case *eng.EIface:
		return dumpVal(x.V, depth+1)
	case *eng.EMap:
		var parts []string
		for k, e := range x.M {
			parts = append(parts, fmt.Sprintf("%v:%s", k, dumpVal(e, depth+1)))
		}
		sort.Strings(parts)
		return "map[" + strings.Join(parts, ",") + "]"
	case float64:
		return fmt.Sprintf("%g", x)
	}
	return fmt.Sprintf("%v", v)
}

// R3.15 [C03]
func ruleGraphicsExtractorReuseEvaluated(c *eng.Ctx) {
	const R = "R3.15-GRAPHICS-EXTRACTOR-REUSE-EVALUATED"
	c.Rule(R, "graphicsstate.GraphicsExtractor, evaluated on two content streams of stroked lines and rectangles extracted one after the other with Clear in between: the lines and rectangles handed out after the first stream are unchanged after the second (the caller still holds them), and what the reused extractor gives for the second stream is what a new extractor gives for it", 1, 0)
	mk := c.P.FuncExact("graphicsstate.NewGraphicsExtractor")
	ex := c.P.FuncExact("graphicsstate.(*GraphicsExtractor).ExtractFromBytes")
	clr := c.P.FuncExact("graphicsstate.(*GraphicsExtractor).Clear")
	lines := c.P.FuncExact("graphicsstate.(*GraphicsExtractor).GetLines")
	rects := c.P.FuncExact("graphicsstate.(*GraphicsExtractor).GetRectangles")
	if mk == nil || ex == nil || clr == nil || lines == nil || rects == nil || len(mk.Params) != 0 || len(ex.Params) != 2 {
		c.Ok(R, "graphicsstate.(*GraphicsExtractor).Clear", token.NoPos, "extractor entry points not found: not evaluated")
		return
	}
	s1 := []byte("q 1 w 10 10 m 200 10 l S 10 20 m 10 300 l S 50 50 100 40 re S 0 0 1 RG 20 400 m 300 400 l S Q\n")
	s2 := []byte("q 2 w 5 500 m 400 500 l S 300 300 20 20 re S 7 7 m 7 90 l S Q\n")
	ev := eng.NewEvaluator()
	ev.Steps = 6000000
	skipped, bad := "", ""
	call := func(fn *ssa.Function, args ...any) any {
		if skipped != "" || bad != "" {
			return nil
		}
		got, err := ev.Call(fn, args, 0)
		if err != nil {
			if err.Panic {
				bad = eng.FuncName(fn) + ": " + err.Msg
			} else {
				skipped = eng.FuncName(fn) + ": " + err.Msg
			}
			return nil
		}
		return got
	}
	ge := call(mk)
	call(ex, ge, eng.BytesOf(s1))
	l1, r1 := call(lines, ge), call(rects, ge)
	held := dumpVal(l1, 0) + dumpVal(r1, 0)
	call(clr, ge)
	call(ex, ge, eng.BytesOf(s2))
	again := dumpVal(call(lines, ge), 0) + dumpVal(call(rects, ge), 0)
	ge2 := call(mk)
	call(ex, ge2, eng.BytesOf(s2))
	fresh := dumpVal(call(lines, ge2), 0) + dumpVal(call(rects, ge2), 0)
	if skipped != "" {
		c.Ok(R, "graphicsstate.(*GraphicsExtractor).Clear", clr.Pos(), "not evaluated: "+skipped)
		return
	}
	if bad == "" {
		if sl, ok := l1.(*eng.ESlice); !ok || len(sl.L) < 3 {
			c.Ok(R, "graphicsstate.(*GraphicsExtractor).Clear", clr.Pos(), "not evaluated: the first stream does not give three lines")
			return
		}
		if now := dumpVal(l1, 0) + dumpVal(r1, 0); now != held {
			bad = "the lines and rectangles handed out for the first stream changed when the second was extracted: they share storage with the extractor"
		} else if again != fresh {
			bad = "the reused extractor answers the second stream differently from a new one: something of the first stream is still in it"
		}
	}
	c.Check(bad == "", R, "graphicsstate.(*GraphicsExtractor).Clear#reuse", clr.Pos(), "held results unchanged; reused and new extractor agree", bad)
}

// ---------------------------------------------------------------------------------------------------------------
// R7.15 the font that decodes a shown string is the one the graphics state names.

// R7.15 [C07, C01]
func ruleFontFollowsGraphicsStateEvaluated(c *eng.Ctx) {
	const R = "R7.15-FONT-FOLLOWS-GRAPHICS-STATE-EVALUATED"
	c.Rule(R, "text.(*Extractor).ExtractFromBytes, evaluated with two registered fonts that decode the same codes differently (F1 by its base encoding, F2 by a ToUnicode CMap) on content streams that select F2 inside q ... Q and go on showing text after the Q, select fonts in turn, and restore twice: every fragment's text is the decoding of its codes by the font the fragment names, and the fragment names the font the graphics state holds at that point of the stream", 1, 0)
	newEx := c.P.FuncExact("text.NewExtractor")
	reg := c.P.FuncExact("text.(*Extractor).RegisterFont")
	regP := c.P.FuncExact("text.(*Extractor).RegisterParsedFont")
	ex := c.P.FuncExact("text.(*Extractor).ExtractFromBytes")
	newFont := c.P.FuncExact("font.NewFont")
	parse := c.P.FuncExact("font.ParseToUnicodeCMap")
	streamT, fontT, fragT := c.P.NamedType("core", "Stream"), c.P.NamedType("font", "Font"), c.P.NamedType("text", "TextFragment")
	if newEx == nil || reg == nil || regP == nil || ex == nil || newFont == nil || parse == nil || streamT == nil || fontT == nil || fragT == nil {
		c.Ok(R, "text.(*Extractor).ExtractFromBytes", token.NoPos, "extractor or font entry points not found: not evaluated")
		return
	}
	prog := "/CIDInit /ProcSet findresource begin\n12 dict begin\nbegincmap\n/CMapType 2 def\n1 begincodespacerange\n<00> <FF>\nendcodespacerange\n2 beginbfchar\n<41> <03A9>\n<42> <0416>\nendbfchar\nendcmap\nend\nend\n"
	type sc struct {
		name, stream string
		want         [][2]string // font name, text
	}
	cases := []sc{
		{"a font selected inside q ... Q", "BT /F1 12 Tf 10 700 Td (AB) Tj ET q BT /F2 12 Tf 10 680 Td (AB) Tj ET Q BT 10 660 Td (AB) Tj ET",
			[][2]string{{"F1", "AB"}, {"F2", "ΩЖ"}, {"F1", "AB"}}},
		{"fonts selected in turn", "BT /F2 10 Tf 10 700 Td (A) Tj /F1 10 Tf 0 -12 Td (A) Tj /F2 10 Tf 0 -12 Td (B) Tj ET",
			[][2]string{{"F2", "Ω"}, {"F1", "A"}, {"F2", "Ж"}}},
		{"two levels restored", "BT /F2 9 Tf 10 700 Td (B) Tj ET q BT /F1 9 Tf 10 680 Td (B) Tj ET q BT /F2 9 Tf 10 660 Td (A) Tj ET Q BT 10 640 Td (A) Tj ET Q BT 10 620 Td (A) Tj ET",
			[][2]string{{"F2", "Ж"}, {"F1", "B"}, {"F2", "Ω"}, {"F1", "A"}, {"F2", "Ω"}}},
	}
	fi := func(name string) int {
		st, _ := fragT.Underlying().(*types.Struct)
		for i := 0; st != nil && i < st.NumFields(); i++ {
			if st.Field(i).Name() == name {
				return i
			}
		}
		return -1
	}
	ti, ni := fi("Text"), fi("FontName")
	if ti < 0 || ni < 0 {
		c.Ok(R, "text.(*Extractor).ExtractFromBytes", ex.Pos(), "not evaluated: fragments have no Text/FontName")
		return
	}
	for _, t := range cases {
		ev := eng.NewEvaluator()
		ev.Steps = 8000000
		ev.MaxDepth = 30
		skipped, bad := "", ""
		call := func(fn *ssa.Function, args ...any) any {
			if skipped != "" || bad != "" {
				return nil
			}
			got, err := ev.Call(fn, args, 0)
			if err != nil {
				if err.Panic {
					bad = eng.FuncName(fn) + ": " + err.Msg
				} else {
					skipped = eng.FuncName(fn) + ": " + err.Msg
				}
				return nil
			}
			return got
		}
		e := call(newEx)
		// the extractor keys its fonts by the resource name with the solidus; both spellings are registered
		call(reg, e, "F1", "Helvetica", "Type1")
		call(reg, e, "/F1", "Helvetica", "Type1")
		f2 := call(newFont, "/F2", "Times-Roman", "Type1")
		st := eng.ZeroOf(streamT).(*eng.EStruct)
		eng.SetField(st, streamT, "Dict", &eng.EMap{M: map[any]any{}})
		eng.SetField(st, streamT, "Data", eng.BytesOf([]byte(prog)))
		loc := &eng.ELoc{V: st}
		sp := &eng.EPtr{Get: func() any { return loc.V }, Set: func(x any) { loc.V = x }, Loc: loc}
		cm := call(parse, sp)
		if tup, ok := cm.(eng.ETuple); ok && len(tup) == 2 && tup[1] == nil {
			if fp, ok := f2.(*eng.EPtr); ok {
				if fs, ok := fp.Get().(*eng.EStruct); ok && eng.SetField(fs, fontT, "ToUnicodeCMap", tup[0]) {
					call(regP, e, "F2", f2)
					call(regP, e, "/F2", f2)
				} else if skipped == "" {
					skipped = "font.Font has no ToUnicodeCMap field"
				}
			}
		} else if skipped == "" && bad == "" {
			skipped = "the CMap program is not read"
		}
		got := call(ex, e, eng.BytesOf([]byte(t.stream)))
		key := "text.(*Extractor).ExtractFromBytes#" + t.name
		if skipped != "" {
			c.Ok(R, key, ex.Pos(), "not evaluated: "+skipped)
			continue
		}
		if bad == "" {
			tup, ok := got.(eng.ETuple)
			var frs *eng.ESlice
			if ok && len(tup) == 2 {
				frs, _ = tup[0].(*eng.ESlice)
			}
			if frs == nil || (ok && tup[1] != nil) {
				c.Ok(R, key, ex.Pos(), "not evaluated: the stream is not extracted")
				continue
			}
			if len(frs.L) != len(t.want) {
				bad = fmt.Sprintf("%d fragments for %d shown strings", len(frs.L), len(t.want))
			}
			for i := 0; bad == "" && i < len(frs.L); i++ {
				fs, _ := frs.L[i].V.(*eng.EStruct)
				if fs == nil {
					continue
				}
				name, _ := fs.F[ni].(string)
				txt, _ := fs.F[ti].(string)
				name = strings.TrimPrefix(name, "/")
				if name != t.want[i][0] {
					bad = fmt.Sprintf("string %d is attributed to font %s, the graphics state holds %s there", i+1, name, t.want[i][0])
				} else if txt != t.want[i][1] {
					bad = fmt.Sprintf("string %d, shown in %s, comes out as %q; that font decodes it to %q", i+1, name, txt, t.want[i][1])
				}
			}
		}
		c.Check(bad == "", R, key, ex.Pos(), fmt.Sprintf("%d strings decoded by the font in force", len(t.want)), "a shown string is decoded by a font other than the one the graphics state names: "+bad)
	}
}

// ---------------------------------------------------------------------------------------------------------------
// R17.18 the worksheet grid is rectangular, or everything that reads it clips by the row.

// R17.18 [C17, C02]
func ruleGridRectangular(c *eng.Ctx) {
	const R = "R17.18-GRID-RECTANGULAR"
	c.Rule(R, "every row of a worksheet grid (a []Cell stored into an element of Sheet.Rows in package xlsx) is allocated with a length that does not change from row to row (a value computed before the loop that fills the rows); where the length does vary, every reader of the grid in the package indexes a row only under a comparison with the length of that row: Document() and the table builder walk every row up to the sheet's content bounds, so a narrower row is an index out of range", 1, 0)
	n := 0
	ragged := ""
	var raggedPos token.Pos
	for _, fn := range c.P.ModuleFuncs() {
		if fn.Blocks == nil || fn.Pkg == nil || eng.ShortPath(fn.Pkg.Pkg.Path()) != "xlsx" {
			continue
		}
		eng.Instrs(fn, true, func(in ssa.Instruction) {
			st, ok := in.(*ssa.Store)
			if !ok {
				return
			}
			ia, ok := st.Addr.(*ssa.IndexAddr)
			if !ok {
				return
			}
			fr, ok := eng.LoadOfField(ia.X)
			if !ok || fr.Field != "Rows" {
				return
			}
			mk, ok := st.Val.(*ssa.MakeSlice)
			if !ok {
				return
			}
			n++
			h := innermostLoopOf(st.Block())
			var invariant func(v ssa.Value, d int) bool
			invariant = func(v ssa.Value, d int) bool {
				if d > 6 {
					return false
				}
				switch x := v.(type) {
				case *ssa.Const, *ssa.Parameter:
					return true
				case *ssa.BinOp:
					return invariant(x.X, d+1) && invariant(x.Y, d+1)
				case *ssa.Convert:
					return invariant(x.X, d+1)
				}
				in, ok := v.(ssa.Instruction)
				if !ok || in.Block() == nil {
					return false
				}
				return h == nil || !loopBody(h)[in.Block()]
			}
			key := fmt.Sprintf("%s#row-allocation%d", eng.FuncName(fn), n)
			if invariant(mk.Len, 0) {
				c.Ok(R, key, st.Pos(), "every row is allocated with the same length")
			} else {
				ragged, raggedPos = key, st.Pos()
			}
		})
	}
	if n == 0 {
		c.Ok(R, "xlsx#rows", token.NoPos, "no row allocation stored into Sheet.Rows found: not evaluated")
		return
	}
	if ragged == "" {
		return
	}
	// rows of different lengths: every reader must clip by the row
	bad := ""
	var badPos token.Pos
	for _, fn := range c.P.ModuleFuncs() {
		if fn.Blocks == nil || fn.Pkg == nil || eng.ShortPath(fn.Pkg.Pkg.Path()) != "xlsx" || bad != "" {
			continue
		}
		eng.Instrs(fn, true, func(in ssa.Instruction) {
			ia, ok := in.(*ssa.IndexAddr)
			if !ok || bad != "" {
				return
			}
			// the indexed value is an element of Rows
			var row ssa.Value
			if u, ok := ia.X.(*ssa.UnOp); ok && u.Op == token.MUL {
				if inner, ok := u.X.(*ssa.IndexAddr); ok {
					if fr, ok := eng.LoadOfField(inner.X); ok && fr.Field == "Rows" {
						row = ia.X
					}
				}
			}
			if row == nil {
				return
			}
			if _, isInd := eng.Induction(ia.Index); isInd {
				// a loop over the row itself is bounded by it when its condition compares with len(row)
			}
			guarded := eng.GuardedBy(fn, ia.Block(), func(f eng.Fact) bool {
				op, x, y, ok := f.Cmp()
				if !ok || (op != token.LSS && op != token.LEQ) || !(x == ia.Index || eng.SameValue(x, ia.Index)) {
					return false
				}
				call, ok := y.(*ssa.Call)
				if !ok {
					return false
				}
				bi, ok := call.Call.Value.(*ssa.Builtin)
				return ok && bi.Name() == "len" && (call.Call.Args[0] == row || eng.SameValue(call.Call.Args[0], row))
			})
			if !guarded {
				bad = fmt.Sprintf("%s indexes a row at %s without comparing the index with the length of that row", eng.FuncName(fn), c.P.Pos(ia.Pos()))
				badPos = ia.Pos()
			}
		})
	}
	if bad == "" {
		c.Ok(R, ragged, raggedPos, "rows differ in length and every reader clips by the row")
		return
	}
	_ = badPos
	c.Viol(R, ragged, raggedPos, "the rows of the grid are allocated with a length that changes from row to row, and "+bad+": a sheet whose rows differ in width brings Document() or the table builder down")
}

// ---------------------------------------------------------------------------------------------------------------
// RX.DR an element is not deleted from the slice a range loop is walking.

func deleteInRangeRule(id string, pkgs ...string) func(*eng.Ctx) {
	return func(c *eng.Ctx) {
		R := id + "-DELETE-IN-RANGE"
		c.Rule(R, "no statement x = append(x[:i], x[i+1:]...) inside `for i := range x` unless the loop is left right after it (packages "+strings.Join(pkgs, ", ")+"): range walks the slice as it was when the loop began while the deletion shifts the later elements down, so the element after a deleted one is never visited (a merged region that is never flagged, a row that is never filtered) and deleting twice runs past the end", 0, 1)
		want := map[string]bool{}
		for _, p := range pkgs {
			want[p] = true
		}
		n := 0
		for _, pk := range c.P.Pkgs {
			sp := eng.ShortPath(pk.PkgPath)
			if !want[sp] && !strings.Contains(sp, eng.PositivePkg) {
				continue
			}
			for _, f := range pk.Syntax {
				if strings.HasSuffix(c.P.Fset.Position(f.Pos()).Filename, "_test.go") {
					continue
				}
				ast.Inspect(f, func(nd ast.Node) bool {
					rs, ok := nd.(*ast.RangeStmt)
					if !ok || rs.Key == nil {
						return true
					}
					kid, ok := rs.Key.(*ast.Ident)
					if !ok || kid.Name == "_" {
						return true
					}
					if _, isSl := pk.TypesInfo.TypeOf(rs.X).Underlying().(*types.Slice); !isSl {
						return true
					}
					xs := types.ExprString(rs.X)
					var walk func(list []ast.Stmt)
					check := func(list []ast.Stmt, i int) {
						as, ok := list[i].(*ast.AssignStmt)
						if !ok || len(as.Lhs) != 1 || len(as.Rhs) != 1 || types.ExprString(as.Lhs[0]) != xs {
							return
						}
						call, ok := as.Rhs[0].(*ast.CallExpr)
						if !ok || len(call.Args) != 2 || !call.Ellipsis.IsValid() {
							return
						}
						if fid, ok := call.Fun.(*ast.Ident); !ok || fid.Name != "append" {
							return
						}
						a0, ok0 := call.Args[0].(*ast.SliceExpr)
						a1, ok1 := call.Args[1].(*ast.SliceExpr)
						if !ok0 || !ok1 || types.ExprString(a0.X) != xs || types.ExprString(a1.X) != xs {
							return
						}
						if hi, ok := a0.High.(*ast.Ident); !ok || pk.TypesInfo.ObjectOf(hi) != pk.TypesInfo.ObjectOf(kid) {
							return
						}
						n++
						// left right after: the next statement of the same list is a break or a return
						left := false
						if i+1 < len(list) {
							switch nx := list[i+1].(type) {
							case *ast.ReturnStmt:
								left = true
							case *ast.BranchStmt:
								left = nx.Tok == token.BREAK && nx.Label == nil
							}
						}
						key := fmt.Sprintf("%s#range(%s)@%s", sp, xs, c.P.Pos(rs.Pos()))
						c.Check(left, R, key, as.Pos(), "the loop is left right after the deletion", fmt.Sprintf("%s is shortened by one element inside the range loop that walks it and the loop goes on: the element that moved into position %s is skipped", xs, kid.Name))
					}
					walk = func(list []ast.Stmt) {
						for i, s := range list {
							check(list, i)
							switch b := s.(type) {
							case *ast.IfStmt:
								walk(b.Body.List)
								if eb, ok := b.Else.(*ast.BlockStmt); ok {
									walk(eb.List)
								} else if ei, ok := b.Else.(*ast.IfStmt); ok {
									walk([]ast.Stmt{ei})
								}
							case *ast.BlockStmt:
								walk(b.List)
							case *ast.SwitchStmt:
								for _, cc := range b.Body.List {
									if cl, ok := cc.(*ast.CaseClause); ok {
										walk(cl.Body)
									}
								}
							}
						}
					}
					walk(rs.Body.List)
					return true
				})
			}
		}
		c.Ok(R, "module#scanned", token.NoPos, fmt.Sprintf("%d deletions from a slice inside the range loop over it", n))
	}
}

// ---------------------------------------------------------------------------------------------------------------
// R12.13 the layout-based chunker, read on small documents: every text is in the chunks once.

type synthList struct{ items []string }

type synthDocPage struct {
	headings [][2]any // level, text
	paras    []string
	lists    []synthList
}

// uniqueWords gives n distinct words that are not substrings of one another, prefixed so that documents do not share them.
func uniqueWords(prefix string, from, n int) []string {
	out := make([]string, n)
	for i := range out {
		out[i] = fmt.Sprintf("%sq%dz", prefix, from+i)
	}
	return out
}

func synthSentences(prefix string, from, sentences, words int) string {
	var sb strings.Builder
	k := from
	for s := 0; s < sentences; s++ {
		if s > 0 {
			sb.WriteString(" ")
		}
		ws := uniqueWords(prefix, k, words)
		k += words
		sb.WriteString(strings.ToUpper(ws[0][:1]) + ws[0][1:] + " " + strings.Join(ws[1:], " ") + ".")
	}
	return sb.String()
}

func synthDocuments() (names []string, docs map[string][]synthDocPage) {
	docs = map[string][]synthDocPage{}
	add := func(n string, p []synthDocPage) {
		names = append(names, n)
		docs[n] = p
	}
	add("a title, a sub-heading, then the text", []synthDocPage{{
		headings: [][2]any{{1, "Alpha titleword"}, {2, "Beta partword"}},
		paras:    []string{synthSentences("a", 0, 3, 8), synthSentences("a", 100, 2, 9)},
		lists:    []synthList{{[]string{"aitem one", "aitem two", "aitem three"}}},
	}})
	add("levels skipped and coming back", []synthDocPage{
		{headings: [][2]any{{1, "Gamma headword"}, {3, "Delta headword"}}, paras: []string{synthSentences("b", 0, 2, 7)}},
		{headings: [][2]any{{2, "Epsilon headword"}}, paras: []string{synthSentences("b", 100, 2, 7), synthSentences("b", 200, 1, 12)}},
		{},
		{headings: [][2]any{{1, "Zeta headword"}}, paras: []string{synthSentences("b", 300, 3, 6)}},
	})
	add("no headings at all", []synthDocPage{
		{paras: []string{synthSentences("c", 0, 2, 8), synthSentences("c", 100, 2, 8)}},
		{paras: []string{synthSentences("c", 200, 3, 8)}, lists: []synthList{{[]string{"citem one", "citem two"}}}},
	})
	add("text before the first heading", []synthDocPage{
		{paras: []string{synthSentences("d", 0, 2, 8)}},
		{headings: [][2]any{{2, "Eta headword"}}, paras: []string{synthSentences("d", 100, 2, 8)}},
	})
	// a section larger than the maximum chunk size: a minor heading, a paragraph that introduces a list, the list
	long := []string{}
	for i := 0; i < 5; i++ {
		long = append(long, synthSentences("e", 1000*i, 6, 12))
	}
	add("a long section with a minor heading before a list introduction", []synthDocPage{
		{headings: [][2]any{{1, "Theta headword"}}, paras: long[:3]},
		{headings: [][2]any{{4, "Iota minorword"}}, paras: []string{"The eintro covers the following items:"}, lists: []synthList{{[]string{"eitem one", "eitem two", "eitem three"}}}},
		{paras: long[3:]},
	})
	add("one paragraph several times the maximum chunk size", []synthDocPage{
		{headings: [][2]any{{1, "Kappa headword"}}, paras: []string{synthSentences("f", 0, 60, 12), synthSentences("f", 5000, 2, 8)}},
	})
	return
}

// evalField reads the named field of a struct value of type t.
func evalField(v any, t types.Type, name string) (any, types.Type) {
	if p, ok := v.(*eng.EPtr); ok && p != nil {
		v = p.Get()
		if pt, ok := t.Underlying().(*types.Pointer); ok {
			t = pt.Elem()
		}
	}
	s, ok := v.(*eng.EStruct)
	st, ok2 := t.Underlying().(*types.Struct)
	if !ok || !ok2 {
		return nil, nil
	}
	for i := 0; i < st.NumFields() && i < len(s.F); i++ {
		if st.Field(i).Name() == name {
			return s.F[i], st.Field(i).Type()
		}
	}
	return nil, nil
}

// R12.13 [C12]
func ruleChunkerCoversDocumentEvaluated(c *eng.Ctx) {
	const R = "R12.13-CHUNKER-COVERS-DOCUMENT-EVALUATED"
	c.Rule(R, "rag.NewChunker().Chunk with the default configuration, evaluated on small document models (a title directly followed by a sub-heading and then the text; heading levels skipped and coming back over an empty page; no headings; text before the first heading; a section larger than the maximum chunk size holding a minor heading, a list introduction and its list; one paragraph several times the maximum chunk size), every word of which is distinct: the chunk texts joined in index order hold every paragraph word, list item and minor heading exactly once and every major heading at least in a section path or text; indices run 0..n-1, IDs are distinct, and every chunk reports n as the total", 1, 0)
	newC := c.P.FuncExact("rag.NewChunker")
	chunk := c.P.FuncExact("rag.(*Chunker).Chunk")
	docT, pageT, layT := c.P.NamedType("model", "Document"), c.P.NamedType("model", "Page"), c.P.NamedType("model", "PageLayout")
	headT, paraT, listT, itemT := c.P.NamedType("model", "HeadingInfo"), c.P.NamedType("model", "ParagraphInfo"), c.P.NamedType("model", "ListInfo"), c.P.NamedType("model", "ListItem")
	if newC == nil || chunk == nil || docT == nil || pageT == nil || layT == nil || headT == nil || paraT == nil || listT == nil || itemT == nil || len(chunk.Params) != 2 {
		c.Ok(R, "rag.(*Chunker).Chunk", token.NoPos, "chunker or document types not found: not evaluated")
		return
	}
	ptr := func(v any) *eng.EPtr {
		loc := &eng.ELoc{V: v}
		return &eng.EPtr{Get: func() any { return loc.V }, Set: func(x any) { loc.V = x }, Loc: loc}
	}
	names, docs := synthDocuments()
	for _, dn := range names {
		var pages []any
		var words, items, minors, majors []string
		for pi, sp := range docs[dn] {
			lay := eng.ZeroOf(layT).(*eng.EStruct)
			var hs, ps, ls []any
			for _, h := range sp.headings {
				hv := eng.ZeroOf(headT).(*eng.EStruct)
				eng.SetField(hv, headT, "Level", int64(h[0].(int)))
				eng.SetField(hv, headT, "Text", h[1].(string))
				eng.SetField(hv, headT, "Confidence", 0.9)
				hs = append(hs, hv)
				if h[0].(int) <= 3 {
					majors = append(majors, h[1].(string))
				} else {
					minors = append(minors, h[1].(string))
				}
			}
			for i, p := range sp.paras {
				pv := eng.ZeroOf(paraT).(*eng.EStruct)
				eng.SetField(pv, paraT, "Index", int64(i))
				eng.SetField(pv, paraT, "Text", p)
				ps = append(ps, pv)
				words = append(words, strings.Fields(p)...)
			}
			for _, l := range sp.lists {
				lv := eng.ZeroOf(listT).(*eng.EStruct)
				var its []any
				for _, it := range l.items {
					iv := eng.ZeroOf(itemT).(*eng.EStruct)
					eng.SetField(iv, itemT, "Text", it)
					eng.SetField(iv, itemT, "Bullet", "•")
					its = append(its, iv)
					items = append(items, it)
				}
				eng.SetField(lv, listT, "Items", eng.SliceOf(its...))
				eng.SetField(lv, listT, "Type", int64(1))
				ls = append(ls, lv)
			}
			eng.SetField(lay, layT, "Headings", eng.SliceOf(hs...))
			eng.SetField(lay, layT, "Paragraphs", eng.SliceOf(ps...))
			eng.SetField(lay, layT, "Lists", eng.SliceOf(ls...))
			pg := eng.ZeroOf(pageT).(*eng.EStruct)
			eng.SetField(pg, pageT, "Number", int64(pi+1))
			eng.SetField(pg, pageT, "Width", 612.0)
			eng.SetField(pg, pageT, "Height", 792.0)
			eng.SetField(pg, pageT, "Layout", ptr(lay))
			pages = append(pages, ptr(pg))
		}
		doc := eng.ZeroOf(docT).(*eng.EStruct)
		eng.SetField(doc, docT, "Pages", eng.SliceOf(pages...))
		ev := eng.NewEvaluator()
		ev.Steps = 30000000
		ev.MaxDepth = 40
		key := "rag.(*Chunker).Chunk#" + dn
		ck, err := ev.Call(newC, nil, 0)
		var got any
		if err == nil {
			got, err = ev.Call(chunk, []any{ck, ptr(doc)}, 0)
		}
		if err != nil && !err.Panic {
			c.Ok(R, key, chunk.Pos(), "not evaluated: "+err.Msg)
			continue
		}
		if err != nil {
			c.Viol(R, key, chunk.Pos(), "the chunker does not survive the document: "+err.Msg)
			continue
		}
		tup, ok := got.(eng.ETuple)
		if !ok || len(tup) != 2 || tup[1] != nil {
			c.Ok(R, key, chunk.Pos(), "not evaluated: Chunk does not return (result, nil)")
			continue
		}
		resT := chunk.Signature.Results().At(0).Type()
		chs, chsT := evalField(tup[0], resT, "Chunks")
		sl, ok := chs.(*eng.ESlice)
		if !ok || chsT == nil {
			c.Ok(R, key, chunk.Pos(), "not evaluated: the result has no Chunks")
			continue
		}
		elT := chsT.Underlying().(*types.Slice).Elem()
		joined := ""
		bad := ""
		ids := map[string]bool{}
		paths := ""
		for i, l := range sl.L {
			txt, _ := evalField(l.V, elT, "Text")
			id, _ := evalField(l.V, elT, "ID")
			md, mdT := evalField(l.V, elT, "Metadata")
			ts, _ := txt.(string)
			joined += ts + "\n"
			if ids[fmt.Sprint(id)] && bad == "" {
				bad = fmt.Sprintf("two chunks have the ID %v", id)
			}
			ids[fmt.Sprint(id)] = true
			if mdT != nil {
				if ix, _ := evalField(md, mdT, "ChunkIndex"); ix != int64(i) && bad == "" {
					bad = fmt.Sprintf("chunk %d carries the index %v", i, ix)
				}
				if tot, _ := evalField(md, mdT, "TotalChunks"); tot != int64(len(sl.L)) && bad == "" {
					bad = fmt.Sprintf("chunk %d reports %v chunks in total, there are %d", i, tot, len(sl.L))
				}
				if sp, _ := evalField(md, mdT, "SectionPath"); sp != nil {
					if ss, ok := sp.(*eng.ESlice); ok {
						for _, e := range ss.L {
							paths += fmt.Sprint(e.V) + "\n"
						}
					}
				}
				if st, _ := evalField(md, mdT, "SectionTitle"); st != nil {
					paths += fmt.Sprint(st) + "\n"
				}
			}
		}
		count := func(w string) int {
			w = strings.Trim(w, ".:")
			return strings.Count(joined, w)
		}
		for _, w := range words {
			if bad != "" {
				break
			}
			if k := count(w); k != 1 {
				bad = fmt.Sprintf("the paragraph word %q is in the chunk texts %d times", strings.Trim(w, ".:"), k)
			}
		}
		for _, it := range append(items, minors...) {
			if bad != "" {
				break
			}
			if k := count(it); k != 1 {
				bad = fmt.Sprintf("%q is in the chunk texts %d times", it, k)
			}
		}
		for _, h := range majors {
			if bad == "" && count(h) == 0 && !strings.Contains(paths, h) {
				bad = fmt.Sprintf("the heading %q is in no chunk text, section title or section path", h)
			}
		}
		c.Check(bad == "", R, key, chunk.Pos(), fmt.Sprintf("%d chunks hold %d words, %d list items and %d headings", len(sl.L), len(words), len(items), len(minors)+len(majors)), "the chunks do not cover the document once: "+bad)
	}
}

// ---------------------------------------------------------------------------------------------------------------
// RX.CL a struct that has a constructor is not also built by a literal that leaves out what the constructor computes.

func constructorBypassedRule(id string, pkgs ...string) func(*eng.Ctx) {
	return func(c *eng.Ctx) {
		R := id + "-LITERAL-BYPASSES-CONSTRUCTOR"
		c.Rule(R, "where a package has a function new<T> that returns the unexported struct type T built by a keyed literal, and some field it fills is computed (a call, not a constant or a parameter handed through), no other keyed literal of T in the package leaves that field out (packages "+strings.Join(pkgs, ", ")+"): the readers of the field rely on the constructor having computed it, and a literal that was not converted hands them the zero value (a page height of 0, which turns a band test into a division by zero)", 0, 1)
		want := map[string]bool{}
		for _, p := range pkgs {
			want[p] = true
		}
		n := 0
		for _, pk := range c.P.Pkgs {
			sp := eng.ShortPath(pk.PkgPath)
			if !want[sp] && !strings.Contains(sp, eng.PositivePkg) {
				continue
			}
			info := pk.TypesInfo
			// constructors: func newT(...) T|*T whose body returns a keyed literal of T
			type ctor struct {
				fd       *ast.FuncDecl
				computed map[string]bool
			}
			ctors := map[*types.Named]*ctor{}
			litType := func(cl *ast.CompositeLit) *types.Named {
				t := info.TypeOf(cl)
				if t == nil {
					return nil
				}
				nt, _ := t.(*types.Named)
				if nt == nil {
					return nil
				}
				if _, ok := nt.Underlying().(*types.Struct); !ok {
					return nil
				}
				return nt
			}
			for _, f := range pk.Syntax {
				if strings.HasSuffix(c.P.Fset.Position(f.Pos()).Filename, "_test.go") {
					continue
				}
				for _, d := range f.Decls {
					fd, ok := d.(*ast.FuncDecl)
					if !ok || fd.Body == nil || fd.Recv != nil || !strings.HasPrefix(strings.ToLower(fd.Name.Name), "new") {
						continue
					}
					ast.Inspect(fd.Body, func(nd ast.Node) bool {
						cl, ok := nd.(*ast.CompositeLit)
						if !ok {
							return true
						}
						nt := litType(cl)
						if nt == nil || nt.Obj().Exported() || !strings.EqualFold("new"+nt.Obj().Name(), fd.Name.Name) {
							return true
						}
						ct := &ctor{fd: fd, computed: map[string]bool{}}
						for _, el := range cl.Elts {
							kv, ok := el.(*ast.KeyValueExpr)
							if !ok {
								return true
							}
							k, _ := kv.Key.(*ast.Ident)
							if k == nil {
								continue
							}
							isCall := false
							ast.Inspect(kv.Value, func(m ast.Node) bool {
								if ce, ok := m.(*ast.CallExpr); ok {
									if _, conv := info.Types[ce.Fun]; !conv || !info.Types[ce.Fun].IsType() {
										if id, ok := ce.Fun.(*ast.Ident); !ok || (id.Name != "make" && id.Name != "new" && id.Name != "len") {
											isCall = true
										}
									}
								}
								return true
							})
							// a local of the constructor (height, _ := page.Height()) is computed too; a parameter is handed through
							ast.Inspect(kv.Value, func(m ast.Node) bool {
								if id, ok := m.(*ast.Ident); ok {
									if v, ok := info.Uses[id].(*types.Var); ok && !v.IsField() && v.Pos() >= fd.Body.Pos() && v.Pos() <= fd.Body.End() {
										isCall = true
									}
								}
								return true
							})
							if isCall {
								ct.computed[k.Name] = true
							}
						}
						if len(ct.computed) > 0 {
							ctors[nt] = ct
						}
						return true
					})
				}
			}
			if len(ctors) == 0 {
				continue
			}
			for _, f := range pk.Syntax {
				if strings.HasSuffix(c.P.Fset.Position(f.Pos()).Filename, "_test.go") {
					continue
				}
				for _, d := range f.Decls {
					fd, ok := d.(*ast.FuncDecl)
					if !ok || fd.Body == nil {
						continue
					}
					ast.Inspect(fd.Body, func(nd ast.Node) bool {
						cl, ok := nd.(*ast.CompositeLit)
						if !ok || len(cl.Elts) == 0 {
							return true
						}
						nt := litType(cl)
						ct := ctors[nt]
						if nt == nil || ct == nil || ct.fd == fd {
							return true
						}
						keys := map[string]bool{}
						for _, el := range cl.Elts {
							kv, ok := el.(*ast.KeyValueExpr)
							if !ok {
								return true // positional: every field is there
							}
							if k, _ := kv.Key.(*ast.Ident); k != nil {
								keys[k.Name] = true
							}
						}
						var missing []string
						for fld := range ct.computed {
							if !keys[fld] {
								missing = append(missing, fld)
							}
						}
						sort.Strings(missing)
						n++
						key := fmt.Sprintf("%s.%s#literal in %s", sp, nt.Obj().Name(), fd.Name.Name)
						c.Check(len(missing) == 0, R, key, cl.Pos(), "the literal fills what the constructor computes", fmt.Sprintf("%s builds a %s by a literal that leaves out %s, which %s computes: the readers of the field get the zero value here", fd.Name.Name, nt.Obj().Name(), strings.Join(missing, ", "), ct.fd.Name.Name))
						return true
					})
				}
			}
		}
		c.Ok(R, "module#scanned", token.NoPos, fmt.Sprintf("%d literals of struct types that have a constructor", n))
	}
}

// ---------------------------------------------------------------------------------------------------------------
// R4.16 the reader over whole files with revision histories: every number answers with its newest definition.

type revObj struct {
	num     int
	delete  bool
	inStm   bool // stored in the revision's object stream (stream revisions only)
	catalog bool // this object is the catalog (object 1 is, unless some object says so)
}

type revision struct {
	stream bool // cross-reference stream instead of a classic section
	objs   []revObj
}

// buildHistory writes a file with the given revisions. Object 1 is the catalog; every other object n of revision r is
// the string (r<r>o<n>). It returns the file and, per object number, the token its newest definition holds ("" = error).
func buildHistory(revs []revision) ([]byte, map[int]string, []int) {
	var b strings.Builder
	b.WriteString("%PDF-1.5\n%\xe2\xe3\xcf\xd3\n")
	want := map[int]string{}
	maxNum := 1
	for _, r := range revs {
		for _, o := range r.objs {
			if o.num > maxNum {
				maxNum = o.num
			}
		}
	}
	next := maxNum + 1 // numbers for object streams and cross-reference streams
	root := 1
	for _, r := range revs {
		for _, o := range r.objs {
			if o.catalog {
				root = o.num
			}
		}
	}
	prev := -1
	size := 0
	lastStm := 0
	for ri, r := range revs {
		type ent struct {
			kind     int // 0 free, 1 in use, 2 compressed
			a, b2    int
			num      int
			hasEntry bool
		}
		var ents []ent
		var stmObjs []revObj
		for _, o := range r.objs {
			switch {
			case o.delete:
				ents = append(ents, ent{kind: 0, a: 0, b2: 1, num: o.num})
				want[o.num] = ""
			case o.inStm && r.stream:
				stmObjs = append(stmObjs, o)
			default:
				off := b.Len()
				if o.num == root {
					fmt.Fprintf(&b, "%d 0 obj\n<< /Type /Catalog /Rev %d >>\nendobj\n", root, ri)
					want[root] = "Catalog"
				} else {
					fmt.Fprintf(&b, "%d 0 obj\n(r%do%d)\nendobj\n", o.num, ri, o.num)
					want[o.num] = fmt.Sprintf("r%do%d", ri, o.num)
				}
				ents = append(ents, ent{kind: 1, a: off, b2: 0, num: o.num})
			}
		}
		if len(stmObjs) > 0 {
			stmNum := next
			next++
			var hdr, body strings.Builder
			for i, o := range stmObjs {
				fmt.Fprintf(&hdr, "%d %d ", o.num, body.Len())
				fmt.Fprintf(&body, "(r%do%d) ", ri, o.num)
				want[o.num] = fmt.Sprintf("r%do%d", ri, o.num)
				ents = append(ents, ent{kind: 2, a: stmNum, b2: i, num: o.num})
			}
			data := hdr.String() + body.String()
			off := b.Len()
			extends := ""
			if lastStm > 0 {
				extends = fmt.Sprintf(" /Extends %d 0 R", lastStm) // an object stream of a later revision may name the one it extends
			}
			lastStm = stmNum
			fmt.Fprintf(&b, "%d 0 obj\n<< /Type /ObjStm /N %d /First %d%s /Length %d >>\nstream\n%s\nendstream\nendobj\n", stmNum, len(stmObjs), hdr.Len(), extends, len(data), data)
			ents = append(ents, ent{kind: 1, a: off, b2: 0, num: stmNum})
		}
		if ri == 0 {
			ents = append(ents, ent{kind: 0, a: 0, b2: 65535, num: 0})
		}
		sort.Slice(ents, func(i, j int) bool { return ents[i].num < ents[j].num })
		if !r.stream {
			for _, e := range ents {
				if e.num+1 > size {
					size = e.num + 1
				}
			}
			xoff := b.Len()
			b.WriteString("xref\n")
			for _, e := range ents {
				fmt.Fprintf(&b, "%d 1\n", e.num)
				if e.kind == 1 {
					fmt.Fprintf(&b, "%010d %05d n \n", e.a, e.b2)
				} else {
					fmt.Fprintf(&b, "%010d %05d f \n", e.a, e.b2)
				}
			}
			fmt.Fprintf(&b, "trailer\n<< /Size %d /Root %d 0 R", size, root)
			if prev >= 0 {
				fmt.Fprintf(&b, " /Prev %d", prev)
			}
			fmt.Fprintf(&b, " >>\nstartxref\n%d\n%%%%EOF\n", xoff)
			prev = xoff
			continue
		}
		xnum := next
		next++
		xoff := b.Len()
		ents = append(ents, ent{kind: 1, a: xoff, b2: 0, num: xnum})
		for _, e := range ents {
			if e.num+1 > size {
				size = e.num + 1
			}
		}
		var idx strings.Builder
		var data []byte
		for _, e := range ents {
			fmt.Fprintf(&idx, "%d 1 ", e.num)
			data = append(data, byte(e.kind), byte(e.a>>24), byte(e.a>>16), byte(e.a>>8), byte(e.a), byte(e.b2>>8), byte(e.b2))
		}
		fmt.Fprintf(&b, "%d 0 obj\n<< /Type /XRef /Size %d /W [1 4 2] /Index [%s] /Root %d 0 R", xnum, size, strings.TrimSpace(idx.String()), root)
		if prev >= 0 {
			fmt.Fprintf(&b, " /Prev %d", prev)
		}
		fmt.Fprintf(&b, " /Length %d >>\nstream\n", len(data))
		b.Write(data)
		fmt.Fprintf(&b, "\nendstream\nendobj\nstartxref\n%d\n%%%%EOF\n", xoff)
		prev = xoff
	}
	// the numbers to ask for: every object number of the history and two numbers no revision uses
	var nums []int
	for n := 0; n <= maxNum; n++ {
		nums = append(nums, n)
	}
	nums = append(nums, next, next+1)
	return []byte(b.String()), want, nums
}

type statStub struct{ size int64 }

// R4.16 [C04, C01]
func ruleRevisionHistoriesEvaluated(c *eng.Ctx) {
	const R = "R4.16-REVISION-HISTORIES-EVALUATED"
	c.Rule(R, "reader.NewReader followed by GetObject, evaluated on small files with revision histories written by the rule - classic sections and cross-reference streams chained by /Prev in either order, objects added, replaced, deleted and added again, objects inside object streams replaced by plain ones and the reverse, object numbers that no revision defines below the highest one - with every object number of the history and two unused numbers looked up ascending, then descending twice, then again after ClearCache: every lookup gives the value of the newest revision that defines the number, an error where the newest entry is free or the number never existed, and the same answer whatever was looked up before", 1, 0)
	newR := c.P.FuncExact("reader.NewReader")
	get := c.P.FuncExact("reader.(*Reader).GetObject")
	clear := c.P.FuncExact("reader.(*Reader).ClearCache")
	if newR == nil || get == nil || len(newR.Params) != 1 || len(get.Params) != 2 {
		c.Ok(R, "reader.(*Reader).GetObject", token.NoPos, "reader entry points not found: not evaluated")
		return
	}
	o := func(n int) revObj { return revObj{num: n} }
	del := func(n int) revObj { return revObj{num: n, delete: true} }
	inS := func(n int) revObj { return revObj{num: n, inStm: true} }
	type hist struct {
		name string
		revs []revision
	}
	cases := []hist{
		{"one classic revision", []revision{{false, []revObj{o(1), o(2), o(3), o(4)}}}},
		{"classic, then classic: replace, add, delete", []revision{{false, []revObj{o(1), o(2), o(3), o(4)}}, {false, []revObj{o(2), del(3), o(5)}}}},
		{"classic, then a cross-reference stream with an object stream", []revision{{false, []revObj{o(1), o(2), o(3)}}, {true, []revObj{o(3), inS(4), inS(5)}}}},
		{"a stream revision, then classic: a compressed object replaced by a plain one, another deleted", []revision{{true, []revObj{o(1), inS(2), inS(3), o(4)}}, {false, []revObj{o(2), del(3)}}}},
		{"object numbers that are never defined", []revision{{false, []revObj{o(1), o(2), o(3)}}, {false, []revObj{o(6), o(7)}}, {false, []revObj{o(9), o(10), o(11), o(12)}}}},
		{"deleted, then added again", []revision{{false, []revObj{o(1), o(2), o(3)}}, {false, []revObj{del(2)}}, {false, []revObj{o(2)}}}},
		{"three stream revisions: a compressed object replaced in a newer object stream", []revision{{true, []revObj{o(1), inS(2), inS(3)}}, {true, []revObj{inS(3), inS(4)}}, {true, []revObj{o(2), del(4)}}}},
		{"a plain object moved into an object stream", []revision{{false, []revObj{o(1), o(2), o(3), o(4)}}, {true, []revObj{inS(2), inS(4)}}}},
		{"object 1 deleted in a section of its own (the catalog is object 5)", []revision{{false, []revObj{o(1), o(2), o(3), {num: 5, catalog: true}}}, {false, []revObj{del(1), o(2)}}}},
		{"a stream revision with three one-entry subsections", []revision{{false, []revObj{o(1), o(2), o(3), o(4), o(5), o(6), o(7)}}, {true, []revObj{o(3), o(5), o(7)}}}},
	}
	for _, h := range cases {
		file, want, nums := buildHistory(h.revs)
		key := "reader.(*Reader).GetObject#" + h.name
		ev := eng.NewEvaluator()
		ev.Steps = 40000000
		ev.MaxDepth = 60
		ev.External = func(g *ssa.Function, args []any) (any, *eng.EvalError, bool) {
			switch eng.FuncName(g) {
			case "os.(*File).Stat":
				return eng.ETuple{&statStub{int64(len(file))}, nil}, nil, true
			case "os.(*File).Close":
				return nil, nil, true
			case "os.(*File).Seek", "os.(*File).Read", "os.(*File).ReadAt":
				if r, ok := args[0].(*eng.EBytesReader); ok {
					nm := eng.FuncName(g)
					return eng.ReaderMethod(r, nm[strings.LastIndex(nm, ".")+1:], args[1:])
				}
			}
			return nil, nil, false
		}
		ev.Invoke = func(method string, recv any, args []any) (any, *eng.EvalError, bool) {
			if st, ok := recv.(*statStub); ok && method == "Size" {
				return st.size, nil, true
			}
			return nil, nil, false
		}
		rd, err := ev.Call(newR, []any{&eng.EBytesReader{Data: file}}, 0)
		if err != nil && !err.Panic {
			c.Ok(R, key, get.Pos(), "not evaluated: "+err.Msg)
			continue
		}
		if err != nil {
			c.Viol(R, key, get.Pos(), "opening the file brings the reader down: "+err.Msg)
			continue
		}
		tup, ok := rd.(eng.ETuple)
		if !ok || len(tup) != 2 {
			c.Ok(R, key, get.Pos(), "not evaluated: NewReader does not return (reader, error)")
			continue
		}
		if tup[1] != nil {
			c.Viol(R, key, get.Pos(), "a well-formed file with this history is refused")
			continue
		}
		bad, skipped := "", ""
		lookups := 0
		ask := func(n int, when string) {
			if bad != "" || skipped != "" {
				return
			}
			got, err := ev.Call(get, []any{tup[0], int64(n)}, 0)
			if err != nil && !err.Panic {
				skipped = err.Msg
				return
			}
			lookups++
			if err != nil {
				bad = fmt.Sprintf("GetObject(%d) %s: %s", n, when, err.Msg)
				return
			}
			gt, ok := got.(eng.ETuple)
			if !ok || len(gt) != 2 {
				skipped = "GetObject does not return (object, error)"
				return
			}
			tok, defined := want[n]
			switch {
			case !defined || tok == "":
				if gt[1] == nil {
					bad = fmt.Sprintf("GetObject(%d) %s answers %s although the number's newest entry is free or it never existed", n, when, dumpVal(gt[0], 0))
				}
			case gt[1] != nil:
				why := ""
				if ee, ok := gt[1].(*eng.EErr); ok && ee != nil {
					why = ": " + ee.Msg
				}
				bad = fmt.Sprintf("GetObject(%d) %s fails although the newest revision defines the object (%s)%s", n, when, tok, why)
			case !strings.Contains(dumpVal(gt[0], 0), tok):
				bad = fmt.Sprintf("GetObject(%d) %s answers %s, the newest revision says %s", n, when, dumpVal(gt[0], 0), tok)
			}
		}
		for _, n := range nums {
			ask(n, "in ascending order")
		}
		for round := 0; round < 2; round++ {
			for i := len(nums) - 1; i >= 0; i-- {
				ask(nums[i], "in descending order")
			}
		}
		if clear != nil && bad == "" && skipped == "" {
			if _, err := ev.Call(clear, []any{tup[0]}, 0); err != nil {
				skipped = "ClearCache: " + err.Msg
			}
			for i := len(nums) - 1; i >= 0; i -= 2 {
				ask(nums[i], "after ClearCache")
			}
			for _, n := range nums {
				ask(n, "after ClearCache")
			}
		}
		if skipped != "" {
			c.Ok(R, key, get.Pos(), "not evaluated: "+skipped)
			continue
		}
		c.Check(bad == "", R, key, get.Pos(), fmt.Sprintf("%d lookups over %d revisions answered by the newest definition", lookups, len(h.revs)), "a lookup does not give the newest definition of the number: "+bad)
	}
}
