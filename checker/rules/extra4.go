package rules

import (
	"fmt"
	"go/constant"
	"go/token"
	"go/types"
	"sort"
	"strings"

	"golang.org/x/tools/go/ssa"

	"verif/checker/eng"
)

// htmlTagUniverse: element names that can occur as children of a list item and carry text.
var htmlTagUniverse = []string{
	"ul", "ol", "dl", "div", "p", "table", "blockquote", "pre", "h1", "h2", "h3", "h4", "h5", "h6",
	"article", "section", "main", "header", "footer", "nav", "aside", "figure", "details", "address",
	"span", "a", "em", "strong", "b", "i", "code", "label", "small",
}

// htmlNodeField decodes a load of field `name` of an x/net/html Node and returns the node value it is read from.
func htmlNodeField(v ssa.Value, name string) (ssa.Value, bool) {
	fr, ok := eng.LoadOfField(v)
	if !ok || fr.Field != name || !strings.HasSuffix(fr.Struct, "html.Node") {
		return nil, false
	}
	return fr.Base, true
}

func htmlConst(fn *ssa.Function, name string) (int64, bool) {
	if fn.Pkg == nil {
		return 0, false
	}
	for _, imp := range fn.Pkg.Pkg.Imports() {
		if strings.HasSuffix(imp.Path(), "/html") {
			if k, ok := imp.Scope().Lookup(name).(*types.Const); ok {
				return constant.Int64Val(k.Val())
			}
		}
	}
	return 0, false
}

// R19.10 [C19]
func ruleListItemChildCoverage(c *eng.Ctx) {
	const R = "R19.10-LI-CHILD-COVERAGE"
	c.Rule(R, "every element kind that getDirectTextContent leaves out of a list item's text is descended into by the li case of the DOM walks: a child kind that is neither part of the item text nor traversed loses its text (<li><p>text</p></li>)", 2, 0)
	direct := c.P.Func("htmldoc.getDirectTextContent")
	if direct == nil || len(direct.Params) == 0 {
		c.Undec(R, "htmldoc.getDirectTextContent", token.NoPos, "anchor not found")
		return
	}
	elem, ok := htmlConst(direct, "ElementNode")
	if !ok {
		c.Undec(R, "htmldoc.getDirectTextContent", direct.Pos(), "html.ElementNode not found")
		return
	}
	mk := func(self ssa.Value) (func(ssa.Value) bool, func(ssa.Value, *eng.StrIntern) (int64, bool)) {
		isChild := func(v ssa.Value) bool {
			base, ok := htmlNodeField(v, "Data")
			return ok && base != self
		}
		leaf := func(v ssa.Value, si *eng.StrIntern) (int64, bool) {
			if _, ok := htmlNodeField(v, "Type"); ok {
				return elem, true
			}
			if base, ok := htmlNodeField(v, "Data"); ok && base == self {
				return si.ID("li"), true
			}
			if fr, ok := eng.LoadOfField(v); ok && fr.Field == "inList" {
				return 1, true
			}
			return 0, false
		}
		return isChild, leaf
	}
	isChild, leaf := mk(direct.Params[0])
	kept := eng.StrReach(direct, htmlTagUniverse, isChild, leaf, func(in ssa.Instruction) bool {
		ci, ok := in.(ssa.CallInstruction)
		if !ok {
			return false
		}
		n := eng.CalleeName(ci)
		return n == "strings.(*Builder).WriteString" || strings.HasSuffix(n, "htmldoc.getTextContent") || strings.HasSuffix(n, "htmldoc.getTextContentRecursive")
	})
	var dropped []string
	for _, t := range htmlTagUniverse {
		if !kept[t] {
			dropped = append(dropped, t)
		}
	}
	sort.Strings(dropped)
	walkers := map[*ssa.Function]bool{}
	for _, name := range []string{"htmldoc.(*Reader).traverseNode", "htmldoc.(*Reader).traverseNodeFiltered"} {
		if f := c.P.FuncExact(name); f != nil {
			walkers[f] = true
		}
	}
	if len(walkers) == 0 {
		c.Undec(R, "htmldoc.(*Reader).traverseNodeFiltered", token.NoPos, "anchor not found")
		return
	}
	// the functions that handle a list item: whoever asks for the item's direct text; the item is the node they pass
	type handler struct {
		fn   *ssa.Function
		self ssa.Value
	}
	var handlers []handler
	for _, f := range c.P.ModuleFuncs() {
		if f.Pkg != direct.Pkg {
			continue
		}
		for _, ci := range eng.Calls(f, false, func(_ string, ci ssa.CallInstruction) bool { return ci.Common().StaticCallee() == direct }) {
			if p, ok := ci.Common().Args[0].(*ssa.Parameter); ok {
				handlers = append(handlers, handler{f, p})
				break
			}
		}
	}
	sort.Slice(handlers, func(i, j int) bool { return eng.FuncName(handlers[i].fn) < eng.FuncName(handlers[j].fn) })
	for _, h := range handlers {
		w, self := h.fn, h.self
		isChild, leaf := mk(self)
		trav := eng.StrReach(w, dropped, isChild, leaf, func(in ssa.Instruction) bool {
			ci, ok := in.(ssa.CallInstruction)
			if !ok {
				return false
			}
			cal := ci.Common().StaticCallee()
			if cal == nil || !walkers[cal] {
				return false
			}
			for _, a := range ci.Common().Args {
				if a == self {
					return false
				}
			}
			return true
		})
		var lost []string
		for _, t := range dropped {
			if !trav[t] {
				lost = append(lost, "<"+t+">")
			}
		}
		c.Check(len(lost) == 0, R, eng.FuncName(w)+"#li-children", w.Pos(),
			fmt.Sprintf("children left out of the item text (%s) are traversed", strings.Join(dropped, ",")),
			"text of "+strings.Join(lost, ", ")+" children of a list item is neither part of the item's text (getDirectTextContent leaves them out) nor traversed by the li case: it is lost")
	}
}

// R19.11 [C19]
func ruleTableSections(c *eng.Ctx) {
	const R = "R19.11-TABLE-SECTIONS"
	c.Rule(R, "HTML table model: parseTable hands the rows of every row group (thead, tbody, tfoot) and direct tr children to the row parser, a row group hands over its tr children, and a row turns both td and th into cells: a group or cell kind without a branch loses the text of its cells", 3, 0)
	root := c.P.Func("htmldoc.(*Reader).parseTable")
	if root == nil {
		c.Undec(R, "htmldoc.(*Reader).parseTable", token.NoPos, "anchor not found")
		return
	}
	elem, ok := htmlConst(root, "ElementNode")
	if !ok {
		c.Undec(R, "htmldoc.(*Reader).parseTable", root.Pos(), "html.ElementNode not found")
		return
	}
	storesCell := func(in ssa.Instruction) bool {
		st, ok := in.(*ssa.Store)
		if !ok {
			return false
		}
		fr, ok := eng.AsField(st.Addr)
		return ok && fr.Field == "Text" && strings.HasSuffix(fr.Struct, "htmldoc.TableCell")
	}
	direct := func(f *ssa.Function) bool {
		found := false
		eng.Instrs(f, false, func(in ssa.Instruction) {
			if storesCell(in) {
				found = true
			}
		})
		return found
	}
	var builds func(f *ssa.Function, d int) bool
	builds = func(f *ssa.Function, d int) bool {
		if f == nil || f.Blocks == nil || f.Pkg != root.Pkg || d > 2 {
			return false
		}
		if direct(f) {
			return true
		}
		for _, ci := range eng.Calls(f, false, func(string, ssa.CallInstruction) bool { return true }) {
			if cal := ci.Common().StaticCallee(); cal != f && builds(cal, d+1) {
				return true
			}
		}
		return false
	}
	for _, f := range eng.Cluster(root, 2) {
		var self ssa.Value
		for _, p := range f.Params {
			if strings.HasSuffix(eng.TypeName(p.Type()), "html.Node") {
				self = p
				break
			}
		}
		if self == nil || !builds(f, 0) {
			continue
		}
		isChild := func(v ssa.Value) bool {
			base, ok := htmlNodeField(v, "Data")
			return ok && base != self
		}
		leaf := func(v ssa.Value, si *eng.StrIntern) (int64, bool) {
			if _, ok := htmlNodeField(v, "Type"); ok {
				return elem, true
			}
			return 0, false
		}
		var want []string
		var target func(ssa.Instruction) bool
		switch {
		case direct(f):
			want = []string{"td", "th"}
			target = storesCell
		default:
			want = []string{"tr"}
			if f == root {
				want = []string{"thead", "tbody", "tfoot", "tr"}
			}
			target = func(in ssa.Instruction) bool {
				ci, ok := in.(ssa.CallInstruction)
				if !ok {
					return false
				}
				cal := ci.Common().StaticCallee()
				if cal == nil || cal == f || !builds(cal, 0) {
					return false
				}
				for _, a := range ci.Common().Args {
					if a == self {
						return false
					}
				}
				return true
			}
		}
		got := eng.StrReach(f, want, isChild, leaf, target)
		var lost []string
		for _, t := range want {
			if !got[t] {
				lost = append(lost, "<"+t+">")
			}
		}
		c.Check(len(lost) == 0, R, eng.FuncName(f)+"#children", f.Pos(), "handles "+strings.Join(want, ", "),
			"no branch for "+strings.Join(lost, ", ")+" children: the text of the table cells below them is never returned")
	}
}
