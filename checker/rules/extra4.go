package rules

import (
	"fmt"
	"go/ast"
	"go/constant"
	"go/token"
	"go/types"
	"os"
	"sort"
	"strings"

	"golang.org/x/tools/go/ssa"

	"verif/checker/eng"
)

// htmlTagUniverse: element names that can occur as children of a list item and carry text.
var htmlTagUniverse = []string{
	"ul", "ol", "dl", "div", "p", "table", "blockquote", "pre", "h1", "h2", "h3", "h4", "h5", "h6",
	"article", "section", "main", "header", "footer", "nav", "aside", "figure", "details", "address",
	"span", "a", "em", "strong", "b", "i", "code", "label", "small",
}

// htmlNodeField decodes a load of field `name` of an x/net/html Node and returns the node value it is read from.
func htmlNodeField(v ssa.Value, name string) (ssa.Value, bool) {
	fr, ok := eng.LoadOfField(v)
	if !ok || fr.Field != name || !strings.HasSuffix(fr.Struct, "html.Node") {
		return nil, false
	}
	return fr.Base, true
}

func htmlConst(fn *ssa.Function, name string) (int64, bool) {
	if fn.Pkg == nil {
		return 0, false
	}
	for _, imp := range fn.Pkg.Pkg.Imports() {
		if strings.HasSuffix(imp.Path(), "/html") {
			if k, ok := imp.Scope().Lookup(name).(*types.Const); ok {
				return constant.Int64Val(k.Val())
			}
		}
	}
	return 0, false
}

// R19.10 [C19]
func ruleListItemChildCoverage(c *eng.Ctx) {
	const R = "R19.10-LI-CHILD-COVERAGE"
	c.Rule(R, "every element kind that getDirectTextContent leaves out of a list item's text is descended into by the li case of the DOM walks: a child kind that is neither part of the item text nor traversed loses its text (<li><p>text</p></li>)", 2, 0)
	direct := c.P.Func("htmldoc.getDirectTextContent")
	if direct == nil || len(direct.Params) == 0 {
		c.Undec(R, "htmldoc.getDirectTextContent", token.NoPos, "anchor not found")
		return
	}
	elem, ok := htmlConst(direct, "ElementNode")
	if !ok {
		c.Undec(R, "htmldoc.getDirectTextContent", direct.Pos(), "html.ElementNode not found")
		return
	}
	selfTag := "li"
	mk := func(selfV ssa.Value) (func(ssa.Value) bool, func(ssa.Value, *eng.StrIntern) (int64, bool)) {
		// the item node: the parameter itself, or a load of the cell it was spilled to because a closure captures it
		isSelf := func(v ssa.Value) bool {
			if v == selfV {
				return true
			}
			if ld, ok := v.(*ssa.UnOp); ok && ld.Op == token.MUL {
				if cell, ok := ld.X.(*ssa.Alloc); ok {
					n, fromPar := 0, false
					for _, r := range *cell.Referrers() {
						if st, ok := r.(*ssa.Store); ok && st.Addr == ssa.Value(cell) {
							n++
							if st.Val == selfV {
								fromPar = true
							}
						}
					}
					return n == 1 && fromPar
				}
			}
			return false
		}
		isChild := func(v ssa.Value) bool {
			base, ok := htmlNodeField(v, "Data")
			return ok && !isSelf(base)
		}
		leaf := func(v ssa.Value, si *eng.StrIntern) (int64, bool) {
			if _, ok := htmlNodeField(v, "Type"); ok {
				return elem, true
			}
			if base, ok := htmlNodeField(v, "Data"); ok && isSelf(base) {
				return si.ID(selfTag), true
			}
			if fr, ok := eng.LoadOfField(v); ok && fr.Field == "inList" {
				return 1, true
			}
			return 0, false
		}
		return isChild, leaf
	}
	isChild, leaf := mk(direct.Params[0])
	kept := eng.StrReach(direct, htmlTagUniverse, isChild, leaf, func(in ssa.Instruction) bool {
		ci, ok := in.(ssa.CallInstruction)
		if !ok {
			return false
		}
		n := eng.CalleeName(ci)
		return n == "strings.(*Builder).WriteString" || strings.HasSuffix(n, "htmldoc.getTextContent") || strings.HasSuffix(n, "htmldoc.getTextContentRecursive")
	})
	var dropped []string
	for _, t := range htmlTagUniverse {
		if !kept[t] {
			dropped = append(dropped, t)
		}
	}
	sort.Strings(dropped)
	walkers := map[*ssa.Function]bool{}
	for _, name := range []string{"htmldoc.(*Reader).traverseNode", "htmldoc.(*Reader).traverseNodeFiltered"} {
		if f := c.P.FuncExact(name); f != nil {
			walkers[f] = true
		}
	}
	if len(walkers) == 0 {
		c.Undec(R, "htmldoc.(*Reader).traverseNodeFiltered", token.NoPos, "anchor not found")
		return
	}
	// the functions that handle a list item: whoever asks for the item's direct text; the item is the node they pass
	type handler struct {
		fn   *ssa.Function
		self ssa.Value
	}
	var handlers []handler
	for _, f := range c.P.ModuleFuncs() {
		if f.Pkg != direct.Pkg {
			continue
		}
		for _, ci := range eng.Calls(f, false, func(_ string, ci ssa.CallInstruction) bool { return eng.StaticCallee(ci) == direct }) {
			arg := ci.Common().Args[0]
			if ld, ok := arg.(*ssa.UnOp); ok && ld.Op == token.MUL {
				// a parameter spilled to a cell because a closure captures it
				if cell, ok := ld.X.(*ssa.Alloc); ok {
					for _, r := range *cell.Referrers() {
						if st, ok := r.(*ssa.Store); ok && st.Addr == ssa.Value(cell) {
							if p, ok := st.Val.(*ssa.Parameter); ok {
								arg = p
							}
						}
					}
				}
			}
			if p, ok := arg.(*ssa.Parameter); ok {
				handlers = append(handlers, handler{f, p})
				break
			}
		}
	}
	sort.Slice(handlers, func(i, j int) bool { return eng.FuncName(handlers[i].fn) < eng.FuncName(handlers[j].fn) })
	type job struct {
		h   handler
		tag string
	}
	var jobs []job
	for _, h := range handlers {
		// the element kinds for which this function asks for the direct text: each of them is an "item" whose
		// left-out children must be traversed (a second caller, e.g. for block quotes, inherits the contract)
		selfTag = "\x00"
		isChildAny, leafAny := mk(h.self)
		_ = isChildAny
		isSelfData := func(v ssa.Value) bool {
			base, ok := htmlNodeField(v, "Data")
			if !ok {
				return false
			}
			if base == h.self {
				return true
			}
			if ld, ok := base.(*ssa.UnOp); ok && ld.Op == token.MUL {
				if cell, ok := ld.X.(*ssa.Alloc); ok {
					for _, r := range *cell.Referrers() {
						if st, ok := r.(*ssa.Store); ok && st.Addr == ssa.Value(cell) && st.Val == h.self {
							return true
						}
					}
				}
			}
			return false
		}
		leafNoSelf := func(v ssa.Value, si *eng.StrIntern) (int64, bool) {
			if isSelfData(v) {
				return 0, false
			}
			return leafAny(v, si)
		}
		cands := append([]string{"li", "blockquote", "dd", "dt", "td", "th", "figcaption", "caption", "summary", "details"}, htmlTagUniverse...)
		reached := eng.StrReach(h.fn, cands, isSelfData, leafNoSelf, func(in ssa.Instruction) bool {
			ci, ok := in.(ssa.CallInstruction)
			return ok && eng.StaticCallee(ci) == direct
		})
		any := false
		seenTag := map[string]bool{}
		for _, t := range cands {
			if reached[t] && !seenTag[t] {
				seenTag[t] = true
				any = true
				jobs = append(jobs, job{h, t})
			}
		}
		if !any {
			jobs = append(jobs, job{h, "li"})
		}
	}
	// when the call is reached whatever the element is (no test of the kind in this function), one job is enough
	for _, jb := range jobs {
		h := jb.h
		selfTag = jb.tag
		w, self := h.fn, h.self
		isChild, leaf := mk(self)
		trav := eng.StrReach(w, dropped, isChild, leaf, func(in ssa.Instruction) bool {
			ci, ok := in.(ssa.CallInstruction)
			if !ok {
				return false
			}
			cal := eng.StaticCallee(ci)
			if cal == nil || !walkers[cal] {
				return false
			}
			// every child of that kind is to be descended into: the call sits in the loop over the children
			// (a helper that picks the first match and returns it covers one sub-list, not all)
			if !eng.InLoop(ci.Block()) {
				return false
			}
			for _, a := range ci.Common().Args {
				if a == self {
					return false
				}
				if ld, ok := a.(*ssa.UnOp); ok && ld.Op == token.MUL {
					if cell, ok := ld.X.(*ssa.Alloc); ok {
						for _, r := range *cell.Referrers() {
							if st, ok := r.(*ssa.Store); ok && st.Addr == ssa.Value(cell) && st.Val == self {
								return false
							}
						}
					}
				}
			}
			return true
		})
		var lost []string
		for _, t := range dropped {
			if !trav[t] {
				lost = append(lost, "<"+t+">")
			}
		}
		keyTag := "#li-children"
		if jb.tag != "li" {
			keyTag = "#" + jb.tag + "-children"
		}
		c.Check(len(lost) == 0, R, eng.FuncName(w)+keyTag, w.Pos(),
			fmt.Sprintf("children left out of the item text (%s) are traversed", strings.Join(dropped, ",")),
			"text of "+strings.Join(lost, ", ")+" children of a <"+jb.tag+"> element is neither part of its text (getDirectTextContent leaves them out) nor traversed by that element's case: it is lost")
	}
}

// R19.11 [C19]
func ruleTableSections(c *eng.Ctx) {
	const R = "R19.11-TABLE-SECTIONS"
	c.Rule(R, "HTML table model: parseTable hands the rows of every row group (thead, tbody, tfoot) and direct tr children to the row parser, a row group hands over its tr children, and a row turns both td and th into cells: a group or cell kind without a branch loses the text of its cells", 3, 0)
	root := c.P.Func("htmldoc.(*Reader).parseTable")
	if root == nil {
		c.Undec(R, "htmldoc.(*Reader).parseTable", token.NoPos, "anchor not found")
		return
	}
	elem, ok := htmlConst(root, "ElementNode")
	if !ok {
		c.Undec(R, "htmldoc.(*Reader).parseTable", root.Pos(), "html.ElementNode not found")
		return
	}
	storesCell := func(in ssa.Instruction) bool {
		st, ok := in.(*ssa.Store)
		if !ok {
			return false
		}
		fr, ok := eng.AsField(st.Addr)
		return ok && fr.Field == "Text" && strings.HasSuffix(fr.Struct, "htmldoc.TableCell")
	}
	direct := func(f *ssa.Function) bool {
		found := false
		eng.Instrs(f, false, func(in ssa.Instruction) {
			if storesCell(in) {
				found = true
			}
		})
		return found
	}
	var builds func(f *ssa.Function, d int) bool
	builds = func(f *ssa.Function, d int) bool {
		if f == nil || f.Blocks == nil || f.Pkg != root.Pkg || d > 2 {
			return false
		}
		if direct(f) {
			return true
		}
		for _, ci := range eng.Calls(f, false, func(string, ssa.CallInstruction) bool { return true }) {
			if cal := eng.StaticCallee(ci); cal != f && builds(cal, d+1) {
				return true
			}
		}
		return false
	}
	nodeParam := func(f *ssa.Function) ssa.Value {
		for _, p := range f.Params {
			if strings.HasSuffix(eng.TypeName(p.Type()), "html.Node") {
				return p
			}
		}
		return nil
	}
	// cellLevel: f builds one cell from the node it is given (the cell's text is extracted from the
	// parameter itself), as opposed to a row function that builds cells from the children it walks
	cellLevel := func(f *ssa.Function) bool {
		if f == nil || f.Blocks == nil || !direct(f) {
			return false
		}
		self := nodeParam(f)
		if self == nil {
			return false
		}
		res := false
		eng.Instrs(f, false, func(in ssa.Instruction) {
			if !storesCell(in) {
				return
			}
			for w := range eng.Slice(in.(*ssa.Store).Val, func(*ssa.Call) bool { return true }) {
				if call, ok := w.(*ssa.Call); ok {
					// a text extraction applied to the node itself (not an iterator over its children)
					if bt, isB := call.Type().Underlying().(*types.Basic); !isB || bt.Kind() != types.String {
						continue
					}
					for _, a := range call.Call.Args {
						if a == self {
							res = true
						}
					}
				}
			}
		})
		return res
	}
	for _, f := range eng.Cluster(root, 3) {
		self := nodeParam(f)
		if self == nil || !builds(f, 0) || cellLevel(f) {
			continue
		}
		passesChild := func(ci ssa.CallInstruction) bool {
			n := 0
			for _, a := range ci.Common().Args {
				if a == self {
					return false
				}
				if strings.HasSuffix(eng.TypeName(a.Type()), "html.Node") {
					n++
				}
			}
			return n > 0
		}
		var cellCalls []ssa.CallInstruction
		for _, ci := range eng.Calls(f, false, func(string, ssa.CallInstruction) bool { return true }) {
			if cal := eng.StaticCallee(ci); cal != nil && cal != f && cellLevel(cal) && passesChild(ci) {
				cellCalls = append(cellCalls, ci)
			}
		}
		isChild := func(v ssa.Value) bool {
			base, ok := htmlNodeField(v, "Data")
			return ok && base != self
		}
		leaf := func(v ssa.Value, si *eng.StrIntern) (int64, bool) {
			if _, ok := htmlNodeField(v, "Type"); ok {
				return elem, true
			}
			return 0, false
		}
		var want []string
		var target func(ssa.Instruction) bool
		switch {
		case direct(f):
			want = []string{"td", "th"}
			target = storesCell
		case len(cellCalls) > 0:
			want = []string{"td", "th"}
			target = func(in ssa.Instruction) bool {
				for _, ci := range cellCalls {
					if in == ssa.Instruction(ci) {
						return true
					}
				}
				return false
			}
		default:
			want = []string{"tr"}
			if f == root {
				want = []string{"thead", "tbody", "tfoot", "tr"}
			}
			target = func(in ssa.Instruction) bool {
				ci, ok := in.(ssa.CallInstruction)
				if !ok {
					return false
				}
				cal := eng.StaticCallee(ci)
				if cal == nil || cal == f || !builds(cal, 0) || cellLevel(cal) {
					return false
				}
				for _, a := range ci.Common().Args {
					if a == self {
						return false
					}
				}
				return true
			}
		}
		got := eng.StrReach(f, want, isChild, leaf, target)
		var lost []string
		for _, t := range want {
			if !got[t] {
				lost = append(lost, "<"+t+">")
			}
		}
		c.Check(len(lost) == 0, R, eng.FuncName(f)+"#children", f.Pos(), "handles "+strings.Join(want, ", "),
			"no branch for "+strings.Join(lost, ", ")+" children: the text of the table cells below them is never returned")
	}
}

// R14.9 [C14]
func ruleExportFieldCopy(c *eng.Ctx) {
	const R = "R14.9-EXPORT-FIELD-COPY"
	c.Rule(R, "prepareChunkForExport: a field of the exported record that has a namesake of the same type in Chunk or ChunkMetadata is a plain copy of that field on every path (never the position in the exported slice, a default, or another field): what is written must be what the chunk says, or the file does not read back as the collection", 8, 0)
	fn := c.P.Func("rag.(*Exporter).prepareChunkForExport")
	if fn == nil {
		c.Undec(R, "rag.(*Exporter).prepareChunkForExport", token.NoPos, "anchor not found")
		return
	}
	// namesake fields of the two source structs
	src := map[string]types.Type{}
	for _, tn := range []string{"Chunk", "ChunkMetadata"} {
		if obj := fn.Pkg.Pkg.Scope().Lookup(tn); obj != nil {
			if st, ok := obj.Type().Underlying().(*types.Struct); ok {
				for i := 0; i < st.NumFields(); i++ {
					src[st.Field(i).Name()] = st.Field(i).Type()
				}
			}
		}
	}
	seen := map[string]bool{}
	for _, f := range eng.Cluster(fn, 1) {
		eng.Instrs(f, false, func(in ssa.Instruction) {
			st, ok := in.(*ssa.Store)
			if !ok {
				return
			}
			fr, ok := eng.AsField(st.Addr)
			if !ok || !strings.HasSuffix(fr.Struct, "rag.ExportedChunk") {
				return
			}
			want, has := src[fr.Field]
			if !has || !types.Identical(want, st.Val.Type()) {
				return
			}
			// every leaf of the stored value (through merges and conversions) is a load of the namesake field
			var bad string
			visited := map[ssa.Value]bool{}
			var walk func(v ssa.Value)
			walk = func(v ssa.Value) {
				if visited[v] || bad != "" {
					return
				}
				visited[v] = true
				switch x := v.(type) {
				case *ssa.Phi:
					for _, e := range x.Edges {
						walk(e)
					}
					return
				case *ssa.ChangeType:
					walk(x.X)
					return
				}
				if lf, ok := eng.LoadOfField(v); ok && lf.Field == fr.Field && (strings.HasSuffix(lf.Struct, "rag.Chunk") || strings.HasSuffix(lf.Struct, "rag.ChunkMetadata")) {
					return
				}
				if fv, ok := v.(*ssa.Field); ok {
					if lf, ok := eng.AsField(fv); ok && lf.Field == fr.Field {
						return
					}
				}
				bad = v.Name() + " = " + v.String()
			}
			walk(st.Val)
			key := "rag.ExportedChunk." + fr.Field
			if seen[key] && bad == "" {
				return
			}
			seen[key] = true
			c.Check(bad == "", R, key, st.Pos(), "copied from the chunk's "+fr.Field, "exported field "+fr.Field+" is not always the chunk's own "+fr.Field+" (it can be "+bad+"): the written record disagrees with the chunk")
		})
	}
}

// cellRoot follows FieldAddr/IndexAddr chains to the storage cell an address is rooted at.
func cellRoot(v ssa.Value) ssa.Value {
	for i := 0; i < 8; i++ {
		switch x := v.(type) {
		case *ssa.FieldAddr:
			v = x.X
		case *ssa.IndexAddr:
			v = x.X
		default:
			return v
		}
	}
	return v
}

func cellPath(v ssa.Value) string {
	p := ""
	for i := 0; i < 8; i++ {
		fa, ok := v.(*ssa.FieldAddr)
		if !ok {
			break
		}
		if fr, ok := eng.AsField(fa); ok {
			p = "." + fr.Field + p
		}
		v = fa.X
	}
	return p
}

var accumulatingMethods = map[string]bool{"WriteString": true, "Write": true, "WriteByte": true, "WriteRune": true}
var resettingMethods = map[string]bool{"Reset": true, "Truncate": true}

func throughBuiltins(c *ssa.Call) bool {
	_, ok := c.Call.Value.(*ssa.Builtin)
	return ok
}

// R12.10 [C12]
func ruleFlushResets(c *eng.Ctx) {
	const R = "R12.10-FLUSH-RESETS"
	c.Rule(R, "a local flush closure that is called from a loop and hands an accumulator of the enclosing function on (text gathered since the last flush) also clears that accumulator: otherwise every later block starts with everything already emitted and content is repeated across chunks", 1, 1)
	for _, parent := range c.P.ModuleFuncs() {
		if parent.Pkg == nil || len(parent.AnonFuncs) == 0 {
			continue
		}
		sp := eng.ShortPath(parent.Pkg.Pkg.Path())
		if sp != "rag" && !strings.Contains(sp, eng.PositivePkg) {
			continue
		}
		for _, anon := range parent.AnonFuncs {
			if anon.Signature.Params().Len() != 0 || anon.Signature.Results().Len() != 0 {
				continue
			}
			// the closure value and its call sites in the parent
			var mc *ssa.MakeClosure
			eng.Instrs(parent, false, func(in ssa.Instruction) {
				if m, ok := in.(*ssa.MakeClosure); ok && m.Fn == ssa.Value(anon) {
					mc = m
				}
			})
			if mc == nil {
				continue
			}
			inLoop := false
			eng.Instrs(parent, false, func(in ssa.Instruction) {
				if ci, ok := in.(ssa.CallInstruction); ok && ci.Common().Value == ssa.Value(mc) && eng.InLoop(ci.Block()) {
					inLoop = true
				}
			})
			if !inLoop {
				continue
			}
			for i, fv := range anon.FreeVars {
				if i >= len(mc.Bindings) {
					continue
				}
				cell := mc.Bindings[i]
				// accumulated in a loop of the parent: self-dependent store, or a writing method on the cell
				accPath, acc := "", false
				eng.Instrs(parent, false, func(in ssa.Instruction) {
					if !eng.InLoop(in.Block()) {
						return
					}
					switch x := in.(type) {
					case *ssa.Store:
						if cellRoot(x.Addr) != cell {
							return
						}
						for w := range eng.Slice(x.Val, throughBuiltins) {
							if ld, ok := w.(*ssa.UnOp); ok && ld.Op == token.MUL && cellRoot(ld.X) == cell && cellPath(ld.X) == cellPath(x.Addr) {
								acc, accPath = true, cellPath(x.Addr)
							}
						}
					case ssa.CallInstruction:
						cal := eng.StaticCallee(x)
						if cal != nil && accumulatingMethods[cal.Name()] && len(x.Common().Args) > 0 && cellRoot(x.Common().Args[0]) == cell {
							acc, accPath = true, cellPath(x.Common().Args[0])
						}
					}
				})
				if !acc {
					continue
				}
				covers := func(addr ssa.Value) bool { // addr names the accumulated part or something containing it
					p := cellPath(addr)
					return cellRoot(addr) == ssa.Value(fv) && strings.HasPrefix(accPath, p)
				}
				// handed on by the closure: a value read from it reaches a call argument or a store elsewhere
				emitted, reset := false, false
				eng.Instrs(anon, false, func(in ssa.Instruction) {
					switch x := in.(type) {
					case *ssa.UnOp:
						if x.Op == token.MUL && covers(x.X) && flowsElsewhere(x, fv) {
							emitted = true
						}
					case *ssa.Store:
						if covers(x.Addr) {
							self := false
							for w := range eng.Slice(x.Val, throughBuiltins) {
								if ld, ok := w.(*ssa.UnOp); ok && ld.Op == token.MUL && cellRoot(ld.X) == ssa.Value(fv) {
									self = true
								}
							}
							if !self {
								reset = true
							}
						}
					case ssa.CallInstruction:
						cal := eng.StaticCallee(x)
						if cal == nil || len(x.Common().Args) == 0 || !covers(x.Common().Args[0]) {
							return
						}
						if resettingMethods[cal.Name()] {
							reset = true
						} else if cal.Name() == "String" || cal.Name() == "Bytes" {
							if v := x.Value(); v != nil && flowsElsewhere(v, fv) {
								emitted = true
							}
						}
					}
				})
				if !emitted {
					continue
				}
				if !reset {
					// the caller may clear the accumulator itself right after every flush inside the loop
					all, any := true, false
					eng.Instrs(parent, false, func(in ssa.Instruction) {
						call, ok := in.(ssa.CallInstruction)
						if !ok || call.Common().Value != ssa.Value(mc) || !eng.InLoop(call.Block()) {
							return
						}
						any = true
						cleared := false
						eng.Instrs(parent, false, func(in2 ssa.Instruction) {
							if !eng.InstrDominates(call, in2) || !eng.InLoop(in2.Block()) {
								return
							}
							switch x := in2.(type) {
							case *ssa.Store:
								if cellRoot(x.Addr) == cell && strings.HasPrefix(accPath, cellPath(x.Addr)) {
									self := false
									for w := range eng.Slice(x.Val, throughBuiltins) {
										if ld, ok := w.(*ssa.UnOp); ok && ld.Op == token.MUL && cellRoot(ld.X) == cell {
											self = true
										}
									}
									if !self {
										cleared = true
									}
								}
							case ssa.CallInstruction:
								cal := eng.StaticCallee(x)
								if cal != nil && resettingMethods[cal.Name()] && len(x.Common().Args) > 0 && cellRoot(x.Common().Args[0]) == cell {
									cleared = true
								}
							}
						})
						if !cleared {
							all = false
						}
					})
					if any && all {
						reset = true
					}
				}
				name := fv.Name() + accPath
				c.Check(reset, R, eng.FuncName(parent)+"#"+name, anon.Pos(), "the flush clears "+name, "the flush closure hands "+name+" on but never clears it (no assignment of a fresh value, no Reset): the next block starts with the text already emitted and content is repeated in later chunks")
			}
		}
	}
}

// flowsElsewhere: a value read from a captured cell reaches a call argument (other than the builtins that rebuild the
// cell's own value) or a store that is not into the same cell.
func flowsElsewhere(v ssa.Value, cell ssa.Value) bool {
	seen := map[ssa.Value]bool{}
	work := []ssa.Value{v}
	for len(work) > 0 {
		x := work[len(work)-1]
		work = work[:len(work)-1]
		if seen[x] || x.Referrers() == nil {
			continue
		}
		seen[x] = true
		for _, r := range *x.Referrers() {
			switch u := r.(type) {
			case *ssa.Store:
				if u.Val == x && cellRoot(u.Addr) != cell {
					return true
				}
			case *ssa.Call:
				if _, isBuiltin := u.Call.Value.(*ssa.Builtin); isBuiltin {
					if bn := u.Call.Value.(*ssa.Builtin).Name(); bn == "len" || bn == "cap" {
						continue
					}
					work = append(work, u)
					continue
				}
				return true
			case *ssa.If, *ssa.BinOp:
				if b, ok := r.(*ssa.BinOp); ok && (b.Op == token.ADD) {
					work = append(work, b)
				}
			case ssa.Value:
				switch u.(type) {
				case *ssa.Phi, *ssa.Convert, *ssa.ChangeType, *ssa.Slice, *ssa.MakeInterface, *ssa.Field, *ssa.Extract:
					work = append(work, u)
				}
			}
		}
	}
	return false
}

// R18.6 [C18]
func ruleRelMapTotal(c *eng.Ctx) {
	const R = "R18.6-REL-MAP-TOTAL"
	c.Rule(R, "a relationship table (r:id -> Target) is filled for every relationship regardless of how the target is spelled: a filter on the target's text (prefix, suffix, substring) drops absolute or relocated part names, and the declared part then silently falls back to a positional guess", 2, 0)
	for _, fn := range c.P.ModuleFuncs() {
		if fn.Pkg == nil {
			continue
		}
		sp := eng.ShortPath(fn.Pkg.Pkg.Path())
		if sp != "xlsx" && sp != "pptx" && sp != "docx" {
			continue
		}
		eng.Instrs(fn, false, func(in ssa.Instruction) {
			// the table as a list of pairs: a struct made from ID and Target in a loop and appended
			if st, isSt := in.(*ssa.Store); isSt && eng.InLoop(st.Block()) {
				if fa, ok := st.Addr.(*ssa.FieldAddr); ok {
					if _, isLocal := fa.X.(*ssa.Alloc); isLocal {
						fromF := func(v ssa.Value, field string) bool {
							for w := range eng.Slice(v, nil) {
								if fr, ok := eng.AsField(w); ok && fr.Field == field {
									return true
								}
							}
							return false
						}
						if fromF(st.Val, "ID") {
							hasTarget := false
							for _, r := range *fa.X.Referrers() {
								if fa2, ok := r.(*ssa.FieldAddr); ok && fa2 != fa {
									for _, rr := range *fa2.Referrers() {
										if s2, ok := rr.(*ssa.Store); ok && fromF(s2.Val, "Target") {
											hasTarget = true
										}
									}
								}
							}
							if hasTarget {
								bad := relFilterOnTarget(c, fn, st.Block())
								c.Check(bad == "", R, eng.FuncName(fn)+"#rid-table", st.Pos(), "every relationship is recorded", "the r:id -> target table skips relationships depending on the text of their Target (test at "+bad+"): a part written with an absolute or unusual path is no longer found by its id")
							}
						}
					}
				}
			}
			mu, ok := in.(*ssa.MapUpdate)
			if !ok || !eng.InLoop(mu.Block()) {
				return
			}
			fromField := func(v ssa.Value, field string) bool {
				for w := range eng.Slice(v, nil) {
					if fr, ok := eng.AsField(w); ok && fr.Field == field {
						return true
					}
				}
				return false
			}
			if !fromField(mu.Key, "ID") || !fromField(mu.Value, "Target") {
				return
			}
			// conditions that decide whether the update runs and read the target's text
			bad := ""
			for _, b := range fn.Blocks {
				if len(b.Instrs) == 0 || !b.Dominates(mu.Block()) || b == mu.Block() {
					continue
				}
				iff, ok := b.Instrs[len(b.Instrs)-1].(*ssa.If)
				if !ok {
					continue
				}
				readsTarget := false
				for w := range eng.Slice(iff.Cond, func(call *ssa.Call) bool { return strings.HasPrefix(eng.CalleeName(call), "strings.") }) {
					if fr, ok := eng.AsField(w); ok && fr.Field == "Target" {
						readsTarget = true
					}
				}
				if !readsTarget {
					continue
				}
				// comparison of the whole target with "" is not a test of its spelling
				if cmp, ok := iff.Cond.(*ssa.BinOp); ok && (cmp.Op == token.EQL || cmp.Op == token.NEQ) {
					if s, ok := eng.ConstString(cmp.Y); ok && s == "" {
						continue
					}
					if s, ok := eng.ConstString(cmp.X); ok && s == "" {
						continue
					}
				}
				bad = c.P.Pos(iff.Pos())
			}
			c.Check(bad == "", R, eng.FuncName(fn)+"#rid-table", mu.Pos(), "every relationship is recorded", "the r:id -> target table skips relationships depending on the text of their Target (test at "+bad+"): a part written with an absolute or unusual path is no longer found by its id")
		})
	}
}

// R7.9 [C07]
func ruleWidthFromSource(c *eng.Ctx) {
	const R = "R7.9-WIDTH-FROM-SOURCE"
	c.Rule(R, "the observed code width of a CMap (actualByteWidth, which narrows the code length used by LookupString) is measured on the source-code strings of bfchar/bfrange entries, never on the destination string that closes each entry: destinations are UTF-16 and say nothing about how many bytes a code has", 1, 0)
	var fontFuncs []*ssa.Function
	for _, fn := range c.P.ModuleFuncs() {
		if fn.Pkg != nil && eng.ShortPath(fn.Pkg.Pkg.Path()) == "font" {
			fontFuncs = append(fontFuncs, fn)
		}
	}
	n := 0
	for _, fn := range fontFuncs {
		eng.Instrs(fn, false, func(in ssa.Instruction) {
			st, ok := in.(*ssa.Store)
			if !ok {
				return
			}
			fr, ok := eng.AsField(st.Addr)
			if !ok || fr.Field != "actualByteWidth" {
				return
			}
			if _, isConst := st.Val.(*ssa.Const); isConst {
				return // initialisation
			}
			n++
			var bad []string
			measured := 0
			// field-sensitive step: a value read from a field of an entry struct (pair.srcHex) is followed to what
			// was stored into THAT field of such structs in this function, not to everything the struct was built from
			srcVals := []ssa.Value{st.Val}
			fieldSensitive := false
			for w := range eng.Slice(st.Val, func(call *ssa.Call) bool { return eng.CalleeName(call) == "builtin:len" }) {
				ld, ok := w.(*ssa.UnOp)
				if !ok || ld.Op != token.MUL {
					continue
				}
				fa, ok := ld.X.(*ssa.FieldAddr)
				if !ok {
					continue
				}
				if _, isRecv := fa.X.(*ssa.Parameter); isRecv {
					continue
				}
				if bt, ok := ld.Type().Underlying().(*types.Basic); !ok || bt.Info()&types.IsString == 0 {
					continue
				}
				stT := eng.TypeName(fa.X.Type())
				eng.Instrs(fn, false, func(i2 ssa.Instruction) {
					s2, ok := i2.(*ssa.Store)
					if !ok {
						return
					}
					fa2, ok := s2.Addr.(*ssa.FieldAddr)
					if ok && fa2.Field == fa.Field && eng.TypeName(fa2.X.Type()) == stT {
						srcVals = append(srcVals, s2.Val)
						fieldSensitive = true
					}
				})
			}
			through := throughBuiltins
			if fieldSensitive {
				through = func(call *ssa.Call) bool { return eng.CalleeName(call) == "builtin:len" }
			}
			reach := map[ssa.Value]bool{}
			for _, sv := range srcVals {
				for w := range eng.SliceInter(sv, through, fontFuncs) {
					reach[w] = true
				}
			}
			for w := range reach {
				ld, ok := w.(*ssa.UnOp)
				if !ok || ld.Op != token.MUL {
					continue
				}
				ia, ok := ld.X.(*ssa.IndexAddr)
				if !ok {
					continue
				}
				if sl, ok := ia.X.Type().Underlying().(*types.Slice); !ok || !types.Identical(sl.Elem(), types.Typ[types.String]) {
					continue
				}
				// position inside the entry: index = loop variable + k, entries are `stride` strings long
				var loop *ssa.Phi
				idx, ok := eng.IntPoly(ia.Index, func(v ssa.Value) (*eng.Poly, bool) {
					if ph, ok := v.(*ssa.Phi); ok && isLoopCarried(ph) {
						loop = ph
						return eng.PSym("$i"), true
					}
					return nil, false
				})
				if !ok || loop == nil {
					continue
				}
				k, isC := idx.Sub(eng.PSym("$i")).IsConst()
				if !isC || !k.IsInt() {
					continue
				}
				stride := int64(0)
				for _, e := range loop.Edges {
					if b, ok := e.(*ssa.BinOp); ok && b.Op == token.ADD && b.X == ssa.Value(loop) {
						if s, ok := eng.ConstInt(b.Y); ok {
							stride = s
						}
					}
				}
				if stride < 2 {
					continue
				}
				measured++
				if k.Num().Int64() == stride-1 {
					bad = append(bad, fmt.Sprintf("string %d of %d of an entry (the destination) at %s", k.Num().Int64()+1, stride, c.P.Pos(ia.Pos())))
				}
			}
			sort.Strings(bad)
			key := fmt.Sprintf("%s#actualByteWidth%d", eng.FuncName(fn), n)
			if measured == 0 {
				c.Ok(R, key, st.Pos(), "not measured on entry strings here")
				return
			}
			c.Check(len(bad) == 0, R, key, st.Pos(), "measured on source codes", "the observed code width is measured on "+strings.Join(bad, "; ")+": a CMap whose destinations are shorter or longer than its codes is decoded with the wrong code length")
		})
	}
}

// R12.11 [C12]
func ruleBuildSectionsCloseByLevel(c *eng.Ctx) {
	const R = "R12.11-SECTIONS-CLOSE-BY-LEVEL"
	c.Rule(R, "buildSections decides which open sections a heading closes by comparing the heading level recorded for the open sections (elements of the section stack, or a parallel list of levels) with the new heading's level inside a loop: cutting the stack at a depth computed from the new level alone nests siblings under each other when levels are skipped (H1, H3, H3)", 1, 0)
	fn := c.P.Func("rag.(*Chunker).buildSections")
	if fn == nil {
		c.Undec(R, "rag.(*Chunker).buildSections", token.NoPos, "anchor not found")
		return
	}
	found := false
	for _, f := range eng.Cluster(fn, 1) {
		eng.Instrs(f, false, func(in ssa.Instruction) {
			b, ok := in.(*ssa.BinOp)
			if !ok || !eng.InLoop(b.Block()) {
				return
			}
			switch b.Op {
			case token.GEQ, token.GTR, token.LSS, token.LEQ:
			default:
				return
			}
			recorded := func(v ssa.Value) bool {
				for w := range eng.Slice(v, nil) {
					// an int element of a list of levels
					if ld, ok := w.(*ssa.UnOp); ok && ld.Op == token.MUL {
						if ia, ok := ld.X.(*ssa.IndexAddr); ok {
							if st, ok := ia.X.Type().Underlying().(*types.Slice); ok {
								if bt, ok := st.Elem().Underlying().(*types.Basic); ok && bt.Info()&types.IsInteger != 0 {
									return true
								}
							}
						}
					}
					// the level field of a section taken from a list of sections
					if fr, ok := eng.AsField(w); ok && strings.Contains(fr.Field, "Level") && strings.HasSuffix(fr.Struct, "rag.Section") {
						for u := range eng.Slice(fr.Base, nil) {
							if ia, ok := u.(*ssa.IndexAddr); ok {
								if _, ok := ia.X.Type().Underlying().(*types.Slice); ok {
									return true
								}
							}
						}
					}
				}
				return false
			}
			newLevel := func(v ssa.Value) bool {
				for w := range eng.SliceInter(v, nil, eng.Cluster(fn, 1)) {
					if fr, ok := eng.AsField(w); ok && fr.Field == "Level" && strings.Contains(fr.Struct, "model.Heading") {
						return true
					}
				}
				return false
			}
			if (recorded(b.X) && newLevel(b.Y)) || (recorded(b.Y) && newLevel(b.X)) {
				found = true
			}
		})
	}
	c.Check(found, R, "rag.(*Chunker).buildSections#close-by-level", fn.Pos(), "open sections are closed by comparing their recorded level with the new heading's", "no loop compares the level of the open sections with the new heading's level: the stack is cut by a depth derived from the new level alone, so with skipped levels a sibling is nested under its predecessor")
}

// R19.12 [C19]
func ruleEpubModePassthrough(c *eng.Ctx) {
	const R = "R19.12-EPUB-MODE-PASSTHROUGH"
	c.Rule(R, "the EPUB reader hands the caller's navigation-exclusion mode to the HTML reader unchanged: for each of the four modes, the value stored into htmldoc.ExtractOptions.NavigationExclusion is that mode on every path (evaluated over the four values; a clamp or mapping that changes a valid mode breaks the mode lattice through the EPUB entry point)", 2, 0)
	var modes []int64
	var epub []*ssa.Function
	for _, fn := range c.P.ModuleFuncs() {
		if fn.Pkg != nil && eng.ShortPath(fn.Pkg.Pkg.Path()) == "epubdoc" {
			epub = append(epub, fn)
		}
	}
	if len(epub) == 0 {
		c.Undec(R, "epubdoc", token.NoPos, "package not found")
		return
	}
	for _, imp := range epub[0].Pkg.Pkg.Imports() {
		if strings.HasSuffix(imp.Path(), "/htmldoc") {
			for _, n := range []string{"NavigationExclusionNone", "NavigationExclusionExplicit", "NavigationExclusionStandard", "NavigationExclusionAggressive"} {
				if k, ok := imp.Scope().Lookup(n).(*types.Const); ok {
					if x, ok := constant.Int64Val(k.Val()); ok {
						modes = append(modes, x)
					}
				}
			}
		}
	}
	if len(modes) != 4 {
		c.Undec(R, "htmldoc.NavigationExclusionMode", token.NoPos, "the four mode constants were not found")
		return
	}
	isModeField := func(v ssa.Value) bool {
		if fr, ok := eng.LoadOfField(v); ok && fr.Field == "NavigationExclusion" && strings.HasSuffix(fr.Struct, "epubdoc.ExtractOptions") {
			return true
		}
		if f, ok := v.(*ssa.Field); ok {
			if fr, ok := eng.AsField(f); ok && fr.Field == "NavigationExclusion" && strings.HasSuffix(fr.Struct, "epubdoc.ExtractOptions") {
				return true
			}
		}
		return false
	}
	// an integer parameter that every call site in the package feeds with the caller's mode
	modeParam := func(p *ssa.Parameter) bool {
		sites := 0
		okAll := true
		for _, g := range epub {
			eng.Instrs(g, false, func(in ssa.Instruction) {
				ci, ok := in.(ssa.CallInstruction)
				if !ok || eng.StaticCallee(ci) != p.Parent() {
					return
				}
				idx := -1
				for i, q := range p.Parent().Params {
					if q == p {
						idx = i
					}
				}
				if idx < 0 || idx >= len(ci.Common().Args) {
					okAll = false
					return
				}
				sites++
				a := ci.Common().Args[idx]
				for {
					if cv, ok := a.(*ssa.Convert); ok {
						a = cv.X
						continue
					}
					if ct, ok := a.(*ssa.ChangeType); ok {
						a = ct.X
						continue
					}
					break
				}
				if !isModeField(a) {
					okAll = false
				}
			})
		}
		return sites > 0 && okAll
	}
	for _, fn := range epub {
		n := 0
		eng.Instrs(fn, false, func(in ssa.Instruction) {
			st, ok := in.(*ssa.Store)
			if !ok {
				return
			}
			fr, ok := eng.AsField(st.Addr)
			if !ok || fr.Field != "NavigationExclusion" || !strings.HasSuffix(fr.Struct, "htmldoc.ExtractOptions") {
				return
			}
			n++
			var bad []string
			for _, m := range modes {
				m := m
				vals, unknown := eng.EvalAt(fn, func(v ssa.Value) (int64, bool) {
					if isModeField(v) {
						return m, true
					}
					if p, ok := v.(*ssa.Parameter); ok && p.Parent() == fn {
						if bt, ok := p.Type().Underlying().(*types.Basic); ok && bt.Info()&types.IsInteger != 0 && modeParam(p) {
							return m, true
						}
					}
					return 0, false
				}, st, st.Val)
				if unknown {
					bad = append(bad, fmt.Sprintf("mode %d: not a function of the caller's mode alone", m))
					continue
				}
				for x := range vals {
					if x != m {
						bad = append(bad, fmt.Sprintf("mode %d is handed on as %d", m, x))
					}
				}
			}
			sort.Strings(bad)
			c.Check(len(bad) == 0, R, fmt.Sprintf("%s#mode%d", eng.FuncName(fn), n), st.Pos(), "each mode is handed on unchanged", strings.Join(bad, "; ")+": through the EPUB entry point a stricter mode no longer returns a subsequence of the weaker one")
		})
	}
}

// blockModel: block-level content model of the formats' body and table elements, restricted to children that carry
// text (ECMA-376 part 1, 17.2.2 body, 17.4.38 tbl, 17.4.79 tr, 17.4.66 tc with EG_BlockLevelElts / EG_ContentRowContent
// / EG_ContentCellContent: the structured document tag and custom XML wrappers may stand wherever their content may).
var blockModel = map[string]map[string][]string{
	"docx": {
		"body": {"p", "tbl", "sdt", "sdtContent", "customXml"},
		"tbl":  {"tr", "sdt", "sdtContent", "customXml"},
		"tr":   {"tc", "sdt", "sdtContent", "customXml"},
		"tc":   {"p", "tbl", "sdt", "sdtContent", "customXml"},
	},
	// ODF 1.2 part 1: 9.1.2 table:table (rows directly or in header-rows / rows / row-group), 9.1.4 table:table-cell
	// (paragraph content: p, h, list, table), 5.3.1 text:list, 5.3.4 text:list-item
	"odt": {
		"table":      {"table-row", "table-header-rows", "table-rows", "table-row-group"},
		"table-row":  {"table-cell"},
		"table-cell": {"p", "h", "list", "table"},
		"list":       {"list-item", "list-header"},
		"list-item":  {"p", "h", "list"},
	},
	// ECMA-376 part 1, 18.4.8 si / 18.3.1.53 is (CT_Rst), 18.4.4 r (CT_RElt); rPh (phonetic run) is not displayed text
	"xlsx": {
		"si": {"t", "r"},
		"is": {"t", "r"},
		"r":  {"t"},
	},
	// ECMA-376 part 1, 19.3.1.45 spTree / 19.3.1.22 grpSp (CT_GroupShape: sp, grpSp, graphicFrame, cxnSp, pic),
	// 19.3.1.51 txBody, 21.1.2.2.6 a:p (r, br, fld), 21.1.3.13 a:tbl, 21.1.3.18 a:tr, 21.1.3.16 a:tc
	"pptx": {
		"spTree":      {"sp", "grpSp", "graphicFrame"},
		"grpSp":       {"sp", "grpSp", "graphicFrame"},
		"sp":          {"txBody"},
		"txBody":      {"p"},
		"p":           {"r", "br", "fld"},
		"graphicData": {"tbl"},
		"tbl":         {"tr"},
		"tr":          {"tc"},
		"tc":          {"txBody"},
	},
}

func xmlTagName(tag string) string {
	i := strings.Index(tag, `xml:"`)
	if i < 0 {
		return ""
	}
	t := tag[i+5:]
	if j := strings.Index(t, `"`); j >= 0 {
		t = t[:j]
	}
	if strings.Contains(t, ",attr") || strings.Contains(t, ",chardata") || t == "-" {
		return ""
	}
	if j := strings.Index(t, ","); j >= 0 {
		t = t[:j]
	}
	if j := strings.LastIndex(t, " "); j >= 0 { // "namespace local"
		t = t[j+1:]
	}
	return t
}

// R16.9 [C16]
func ruleBlockContentModel(c *eng.Ctx) {
	contentModelRule(c, "R16.9-BLOCK-CONTENT-MODEL", []string{"docx", "odt"}, 9, "the decoders of the DOCX body, table, row and cell and of the ODT table, row, cell, list and list item know every block-level child of the content model that carries text, including the grouping wrappers (content controls, custom XML, header-row and row groups) that may stand wherever their content may: a child kind a decoder has no field or dispatch label for is dropped with all the text below it")
}

// R17.6 [C17]
func ruleStringContentModel(c *eng.Ctx) {
	contentModelRule(c, "R17.6-STRING-CONTENT-MODEL", []string{"xlsx"}, 3,
		"the decoders of a shared string item and of an inline string know both forms of SpreadsheetML string content (CT_Rst: a plain <t> or rich text runs <r><t>), and a run its <t>: a form without a field makes the cell come out empty")
}

// R18.7 [C18]
func ruleShapeContentModel(c *eng.Ctx) {
	contentModelRule(c, "R18.7-SHAPE-CONTENT-MODEL", []string{"pptx"}, 8,
		"the decoders of a slide's shape tree and of a group shape know every text-carrying child of the PresentationML content model (shapes, nested groups, graphic frames), and the text body, paragraph, table, row and cell decoders know theirs: a child kind without a field is dropped, and its text appears on no page")
}

func contentModelRule(c *eng.Ctx, R string, pkgs []string, floor int, doc string) {
	c.Rule(R, doc, floor, 0)
	want := map[string]bool{}
	for _, p := range pkgs {
		want[p] = true
	}
	for _, pkg := range c.P.Pkgs {
		model, ok := blockModel[pkg.Name]
		if !ok || !want[pkg.Name] || !strings.HasSuffix(pkg.PkgPath, "/"+pkg.Name) {
			continue
		}
		scope := pkg.Types.Scope()
		// element name -> struct type decoded for it (XMLName tag, or the tag of a field of that type)
		elemType := map[string]*types.Named{}
		for _, n := range scope.Names() {
			tn, ok := scope.Lookup(n).(*types.TypeName)
			if !ok {
				continue
			}
			st, ok := tn.Type().Underlying().(*types.Struct)
			if !ok {
				continue
			}
			for i := 0; i < st.NumFields(); i++ {
				name := xmlTagName(st.Tag(i))
				if name == "" {
					continue
				}
				if st.Field(i).Name() == "XMLName" {
					if nt, ok := tn.Type().(*types.Named); ok {
						elemType[name] = nt
					}
					continue
				}
				ft := st.Field(i).Type()
				for {
					switch u := ft.(type) {
					case *types.Pointer:
						ft = u.Elem()
						continue
					case *types.Slice:
						ft = u.Elem()
						continue
					}
					break
				}
				if nt, ok := ft.(*types.Named); ok && nt.Obj().Pkg() == pkg.Types {
					if _, isStruct := nt.Underlying().(*types.Struct); isStruct {
						if _, dup := elemType[name]; !dup {
							elemType[name] = nt
						}
					}
				}
			}
		}
		elems := make([]string, 0, len(model))
		for e := range model {
			elems = append(elems, e)
		}
		sort.Strings(elems)
		for _, e := range elems {
			nt := elemType[e]
			key := pkg.Name + " <" + e + ">"
			if nt == nil {
				c.Undec(R, key, token.NoPos, "no struct is decoded for this element")
				continue
			}
			known := map[string]bool{}
			how := "struct tags"
			fd := c.P.Decl(pkg.Name + ".(*" + nt.Obj().Name() + ").UnmarshalXML")
			if fd != nil {
				how = "dispatch labels of " + nt.Obj().Name() + ".UnmarshalXML"
				// string constants of the hand-written decoder and of the package helpers it calls
				var collect func(d *eng.FuncDecl, depth int)
				seen := map[*eng.FuncDecl]bool{}
				collect = func(d *eng.FuncDecl, depth int) {
					if d == nil || seen[d] || depth > 2 {
						return
					}
					seen[d] = true
					ast.Inspect(d.Decl.Body, func(n ast.Node) bool {
						switch x := n.(type) {
						case *ast.BasicLit:
							if tv, ok := d.Pkg.TypesInfo.Types[x]; ok && tv.Value != nil && tv.Value.Kind() == constant.String {
								known[constant.StringVal(tv.Value)] = true
							}
						case *ast.Ident:
							// a package function that is called, or handed on as a function value (a predicate
							// passed to the shared child walker)
							if fnObj, ok := d.Pkg.TypesInfo.Uses[x].(*types.Func); ok && fnObj.Pkg() == pkg.Types {
								if sig, ok := fnObj.Type().(*types.Signature); ok && sig.Recv() == nil {
									collect(c.P.Decl(pkg.Name+"."+fnObj.Name()), depth+1)
								}
							}
						}
						return true
					})
				}
				collect(fd, 0)
			} else if st, ok := nt.Underlying().(*types.Struct); ok {
				for i := 0; i < st.NumFields(); i++ {
					if n := xmlTagName(st.Tag(i)); n != "" {
						known[n] = true
					}
				}
			}
			var missing []string
			for _, child := range model[e] {
				if !known[child] {
					missing = append(missing, "<"+child+">")
				}
			}
			c.Check(len(missing) == 0, R, key, nt.Obj().Pos(), "decodes "+strings.Join(model[e], ", ")+" ("+how+")",
				nt.Obj().Name()+" has no field or dispatch label for "+strings.Join(missing, ", ")+" children of <"+e+">: the text below them is dropped from every output")
		}
	}
}

// R2.11 [C02]
func ruleWeakBound(c *eng.Ctx) {
	const R = "R2.11-WEAK-BOUND"
	c.Rule(R, "an index into a byte slice or string that is guarded by a comparison of the same position with the length of the same slice is implied to be in range by one of its guards (pos+k < len for data[pos+k]; the cursor is followed through its increments): a guard that is off by one (<= for <, a smaller offset than the one read) reads past the end on input that stops exactly there, which panics", 0, 1)
	for _, fn := range c.P.ModuleFuncs() {
		if fn.Blocks == nil {
			continue
		}
		var fv *eng.FieldVersions
		n := 0
		eng.Instrs(fn, false, func(in ssa.Instruction) {
			var d, idx ssa.Value
			switch x := in.(type) {
			case *ssa.IndexAddr:
				if _, ok := x.X.Type().Underlying().(*types.Slice); !ok {
					return
				}
				d, idx = x.X, x.Index
			case *ssa.Index:
				d, idx = x.X, x.Index
			case *ssa.Lookup:
				if bt, ok := x.X.Type().Underlying().(*types.Basic); !ok || bt.Info()&types.IsString == 0 {
					return
				}
				d, idx = x.X, x.Index
			default:
				return
			}
			if _, isConst := idx.(*ssa.Const); isConst {
				return
			}
			if fv == nil {
				fv = eng.NewFieldVersions(fn)
			}
			leaf := fv.Leaf()
			p, ok := eng.IntPoly(idx, leaf)
			if !ok {
				return
			}
			// the slice must be the same value at the guard and at the access: same field version or same SSA value
			sameSlice := func(a, b ssa.Value) bool {
				if a == b {
					return true
				}
				la, oka := a.(*ssa.UnOp)
				lb, okb := b.(*ssa.UnOp)
				if oka && okb && la.Op == token.MUL && lb.Op == token.MUL {
					ka, ia, ok1 := fv.At(la)
					kb, ib, ok2 := fv.At(lb)
					return ok1 && ok2 && ka == kb && fmt.Sprint(ia) == fmt.Sprint(ib)
				}
				return false
			}
			lenOf := func(v ssa.Value) (ssa.Value, bool) {
				if call, ok := v.(*ssa.Call); ok {
					if bi, ok := call.Call.Value.(*ssa.Builtin); ok && bi.Name() == "len" {
						return call.Call.Args[0], true
					}
				}
				return nil, false
			}
			classify := func(f eng.Fact) (related, sufficient bool) {
				op, x, y, ok := f.Cmp()
				if !ok {
					return
				}
				// normalise to  X op len(D)
				if dl, isLen := lenOf(x); isLen {
					if _, both := lenOf(y); both {
						return
					}
					x, y = y, x
					op = eng.Swap(op)
					_ = dl
				}
				dl, isLen := lenOf(y)
				if !isLen || !sameSlice(dl, d) {
					return
				}
				xp, ok := eng.IntPoly(x, leaf)
				if !ok {
					return
				}
				diff, isC := xp.Sub(p).IsConst()
				if !isC || !diff.IsInt() {
					return
				}
				k := diff.Num().Int64()
				switch op {
				case token.LSS:
					return true, k >= 0
				case token.LEQ:
					return true, k >= 1
				case token.EQL:
					return true, false
				default:
					return false, false // a fact of the form X >= len says nothing about being in range
				}
			}
			blk := in.Block()
			suff := eng.GuardedBy(fn, blk, func(f eng.Fact) bool { _, s := classify(f); return s })
			if suff {
				return
			}
			rel := eng.GuardedBy(fn, blk, func(f eng.Fact) bool { r, _ := classify(f); return r })
			if !rel {
				return
			}
			n++
			c.Viol(R, fmt.Sprintf("%s#index%d", eng.FuncName(fn), n), in.Pos(), "the index "+p.String()+" is guarded only by comparisons with the slice length that do not imply it is in range (off by one): input that ends exactly there makes the read panic")
		})
	}
}

// R3.5 [C03]
func ruleMemoOnSuccess(c *eng.Ctx) {
	const R = "R3.5-MEMO-ON-SUCCESS"
	c.Rule(R, "a lazily loaded field that is tested against nil to decide whether to load (t.pages, os.decoded) is not left set when the load fails: every error return that a store to the field can reach is preceded by resetting it, otherwise the failed call is answered from the half-loaded state the next time (a different result for the same operation repeated)", 2, 1)
	isNilConst := func(v ssa.Value) bool {
		k, ok := v.(*ssa.Const)
		return ok && k.Value == nil
	}
	recvField := func(addr ssa.Value, fn *ssa.Function) (string, bool) {
		fa, ok := addr.(*ssa.FieldAddr)
		if !ok || len(fn.Params) == 0 || fa.X != ssa.Value(fn.Params[0]) || fn.Signature.Recv() == nil {
			return "", false
		}
		fr, ok := eng.AsField(fa)
		if !ok {
			return "", false
		}
		return fr.Field, true
	}
	for _, g := range c.P.ModuleFuncs() {
		if g.Blocks == nil || g.Signature.Recv() == nil {
			continue
		}
		// memo fields: receiver fields compared with nil in g such that the field is (re)filled only on the nil side
		// of the test (directly or by a method of the receiver called there) and left alone on the other side
		storesField := func(in ssa.Instruction, f string) bool {
			switch x := in.(type) {
			case *ssa.Store:
				sf, ok := recvField(x.Addr, g)
				return ok && sf == f
			case ssa.CallInstruction:
				cal := eng.StaticCallee(x)
				if cal == nil || cal.Blocks == nil || cal.Signature.Recv() == nil || len(x.Common().Args) == 0 || x.Common().Args[0] != ssa.Value(g.Params[0]) {
					return false
				}
				found := false
				eng.Instrs(cal, false, func(in2 ssa.Instruction) {
					if st, ok := in2.(*ssa.Store); ok {
						if sf, ok := recvField(st.Addr, cal); ok && sf == f {
							found = true
						}
					}
				})
				return found
			}
			return false
		}
		regionStores := func(top *ssa.BasicBlock, f string) bool {
			for _, b := range g.Blocks {
				if b != top && !top.Dominates(b) {
					continue
				}
				for _, in := range b.Instrs {
					if storesField(in, f) {
						return true
					}
				}
			}
			return false
		}
		memo := map[string]bool{}
		eng.Instrs(g, false, func(in ssa.Instruction) {
			b, ok := in.(*ssa.BinOp)
			if !ok || (b.Op != token.EQL && b.Op != token.NEQ) {
				return
			}
			for _, side := range [][2]ssa.Value{{b.X, b.Y}, {b.Y, b.X}} {
				if !isNilConst(side[1]) {
					continue
				}
				ld, ok := side[0].(*ssa.UnOp)
				if !ok || ld.Op != token.MUL {
					continue
				}
				f, ok := recvField(ld.X, g)
				if !ok {
					continue
				}
				for _, r := range *b.Referrers() {
					iff, ok := r.(*ssa.If)
					if !ok || len(iff.Block().Succs) != 2 {
						continue
					}
					nilSucc, setSucc := iff.Block().Succs[0], iff.Block().Succs[1]
					if b.Op == token.NEQ {
						nilSucc, setSucc = setSucc, nilSucc
					}
					if len(nilSucc.Preds) == 1 && regionStores(nilSucc, f) && !regionStores(setSucc, f) {
						memo[f] = true
					}
				}
			}
		})
		if len(memo) == 0 {
			continue
		}
		// loaders: g itself and the methods on the same receiver it calls
		loaders := []*ssa.Function{g}
		for _, ci := range eng.Calls(g, false, func(string, ssa.CallInstruction) bool { return true }) {
			if cal := eng.StaticCallee(ci); cal != nil && cal != g && cal.Blocks != nil && cal.Signature.Recv() != nil && len(ci.Common().Args) > 0 && ci.Common().Args[0] == ssa.Value(g.Params[0]) {
				loaders = append(loaders, cal)
			}
		}
		for _, l := range loaders {
			res := l.Signature.Results()
			if res.Len() == 0 || !types.Identical(res.At(res.Len()-1).Type(), types.Universe.Lookup("error").Type()) {
				continue
			}
			for f := range memo {
				var sets, resets []*ssa.Store
				eng.Instrs(l, false, func(in ssa.Instruction) {
					st, ok := in.(*ssa.Store)
					if !ok {
						return
					}
					if sf, ok := recvField(st.Addr, l); ok && sf == f {
						if isNilConst(st.Val) {
							resets = append(resets, st)
						} else {
							sets = append(sets, st)
						}
					}
				})
				if len(sets) == 0 {
					continue
				}
				bad := ""
				for _, r := range eng.Returns(l) {
					vals := eng.ReturnValues(r)
					ev := vals[len(vals)-1]
					nn, known := eng.ErrValueNonNil(ev)
					if !known {
						// `return nil, err` under `if err != nil`
						nn = eng.GuardedBy(l, r.Block(), func(f eng.Fact) bool {
							op, x, y, ok := f.Cmp()
							return ok && op == token.NEQ && ((x == ev && isNilConst(y)) || (y == ev && isNilConst(x)))
						})
					}
					if !nn {
						continue
					}
					for _, s := range sets {
						reach := eng.ReachableBlocks([]*ssa.BasicBlock{s.Block()}, nil)
						if !reach[r.Block()] && s.Block() != r.Block() {
							continue
						}
						if s.Block() == r.Block() && !eng.InstrDominates(s, r) {
							continue
						}
						cleared := false
						// the reset may sit in a local closure or helper that builds the error (return fail("…"))
						eng.Instrs(l, false, func(in ssa.Instruction) {
							call, ok := in.(ssa.CallInstruction)
							if !ok || cleared {
								return
							}
							if !(call.Block() == r.Block() || call.Block().Dominates(r.Block())) || !(reach[call.Block()] || call.Block() == s.Block()) {
								return
							}
							if call.Block() == s.Block() && !eng.InstrDominates(s, call) {
								return
							}
							var cal *ssa.Function
							if mc, ok := call.Common().Value.(*ssa.MakeClosure); ok {
								cal, _ = mc.Fn.(*ssa.Function)
							} else if sc := eng.StaticCallee(call); sc != nil && sc.Pkg == l.Pkg {
								cal = sc
							}
							if cal == nil || cal.Blocks == nil {
								return
							}
							eng.Instrs(cal, false, func(in2 ssa.Instruction) {
								if st, ok := in2.(*ssa.Store); ok && isNilConst(st.Val) {
									if fr, ok := eng.AsField(st.Addr); ok && fr.Field == f {
										cleared = true
									}
								}
							})
						})
						for _, z := range resets {
							if (z.Block() == r.Block() || z.Block().Dominates(r.Block())) && (reach[z.Block()] || z.Block() == s.Block()) {
								if z.Block() != s.Block() || eng.InstrDominates(s, z) {
									cleared = true
								}
							}
						}
						if !cleared {
							bad = fmt.Sprintf("the error return at %s is reached with %s set at %s", c.P.Pos(r.Pos()), f, c.P.Pos(s.Pos()))
						}
					}
				}
				c.Check(bad == "", R, eng.FuncName(l)+"#"+f, l.Pos(), "the memo field is cleared before every error return it can reach", bad+": the next call sees the field set, skips loading and answers from the partial state")
			}
		}
	}
}

// R5.8 [C05]
func ruleLimitTruncationFilters(c *eng.Ctx) {
	limitTruncation(c, "R5.8-LIMIT-TRUNCATION")
}

// R20.7 [C20]
func ruleLimitTruncationAdmission(c *eng.Ctx) {
	limitTruncation(c, "R20.7-LIMIT-TRUNCATION")
}

func limitTruncation(c *eng.Ctx, R string) {
	c.Rule(R, "data read through io.LimitReader is not taken for the whole input: the function compares what was read with the limit (reading limit+1 and rejecting, or checking the count). A bare LimitReader reports a clean end of input at the cap, so a long stream is silently cut (a decoded stream is no longer the inverse of its encoding; a truncated XML part fails to parse and is misjudged)", 0, 1)
	for _, fn := range c.P.ModuleFuncs() {
		n := 0
		for _, ci := range eng.Calls(fn, false, func(name string, _ ssa.CallInstruction) bool { return name == "io.LimitReader" }) {
			n++
			limit := ci.Common().Args[1]
			atoms := []ssa.Value{limit}
			var walk func(v ssa.Value, d int)
			walk = func(v ssa.Value, d int) {
				if d > 3 {
					return
				}
				switch x := v.(type) {
				case *ssa.BinOp:
					for _, o := range []ssa.Value{x.X, x.Y} {
						atoms = append(atoms, o)
						walk(o, d+1)
					}
				case *ssa.Convert:
					atoms = append(atoms, x.X)
					walk(x.X, d+1)
				}
			}
			walk(limit, 0)
			isAtom := func(v ssa.Value) bool {
				for w := range eng.Slice(v, throughBuiltins) {
					for _, a := range atoms {
						if _, isC := a.(*ssa.Const); isC {
							if ka, ok := eng.ConstInt(a); ok {
								if kw, ok := eng.ConstInt(w); ok && (kw == ka || kw == ka-1 || kw == ka+1) && ka > 1 {
									return true
								}
							}
							continue
						}
						if w == a || eng.SameValue(w, a) {
							return true
						}
					}
				}
				return false
			}
			checked := false
			eng.Instrs(fn, false, func(in ssa.Instruction) {
				b, ok := in.(*ssa.BinOp)
				if !ok {
					return
				}
				switch b.Op {
				case token.LSS, token.LEQ, token.GTR, token.GEQ, token.EQL, token.NEQ:
				default:
					return
				}
				if !eng.InstrDominates(ci, b) {
					return
				}
				if isAtom(b.X) || isAtom(b.Y) {
					checked = true
				}
			})
			c.Check(checked, R, fmt.Sprintf("%s#LimitReader%d", eng.FuncName(fn), n), ci.Pos(), "the amount read is compared with the limit", "the input is read through io.LimitReader and never compared with the limit: input longer than the cap is silently truncated instead of being rejected")
		}
	}
}

// R4.9 [C04]
func ruleXRefEntriesTotal(c *eng.Ctx) {
	const R = "R4.9-XREF-ENTRIES-TOTAL"
	c.Rule(R, "the cross-reference parsers and the revision merge record every entry they read, whatever its kind: the update of the table in the entry loop is not skipped depending on the entry's content. Free entries matter: a newer revision frees an object by a free entry that must override the older in-use one", 3, 0)
	for _, name := range []string{"core.(*XRefParser).parseXRefStream", "core.(*XRefParser).parseTraditionalXRef", "core.MergeXRefTables"} {
		fn := c.P.Func(name)
		if fn == nil {
			c.Undec(R, name, token.NoPos, "anchor not found")
			continue
		}
		n := 0
		type site struct {
			ci ssa.CallInstruction
			in *ssa.Function
		}
		var sites []site
		for _, h := range eng.Cluster(fn, 2) { // the loop may have been moved into a helper
			for _, ci := range eng.Calls(h, false, func(nm string, _ ssa.CallInstruction) bool { return nm == "core.(*XRefTable).Set" }) {
				if eng.InLoop(ci.Block()) {
					sites = append(sites, site{ci, h})
				}
			}
		}
		for _, st := range sites {
			ci, fn := st.ci, st.in
			n++
			entry := ci.Common().Args[len(ci.Common().Args)-1]
			bad := ""
			for _, b := range fn.Blocks {
				if len(b.Instrs) == 0 || !b.Dominates(ci.Block()) || b == ci.Block() {
					continue
				}
				iff, ok := b.Instrs[len(b.Instrs)-1].(*ssa.If)
				if !ok {
					continue
				}
				// does the condition read the entry (a field of it, or the value it was built from)?
				reads := false
				for w := range eng.Slice(iff.Cond, nil) {
					if fr, ok := eng.AsField(w); ok && strings.HasSuffix(fr.Struct, "core.XRefEntry") {
						for u := range eng.Slice(fr.Base, nil) {
							if u == entry || eng.SameValue(u, entry) {
								reads = true
							}
						}
						if fr.Base == entry {
							reads = true
						}
					}
				}
				if !reads {
					continue
				}
				// one branch goes round the loop (or on) without the update
				for _, s := range b.Succs {
					reach := eng.ReachableBlocks([]*ssa.BasicBlock{s}, func(x *ssa.BasicBlock) bool { return x == ci.Block() })
					if reach[b] && s != ci.Block() && !s.Dominates(ci.Block()) {
						bad = c.P.Pos(iff.Cond.Pos())
					}
				}
			}
			c.Check(bad == "", R, fmt.Sprintf("%s#record%d", name, n), ci.Pos(), "every entry read is recorded", "the entry is recorded only if a test of its own content passes (test at "+bad+"): entries of some kind (free entries) are dropped, and an older revision's entry for the same object survives the merge")
		}
		if n == 0 {
			c.Viol(R, eng.FuncName(fn)+"#record", fn.Pos(), "no entry is recorded in a loop")
		}
	}
}

// R3.6 [C03]
func ruleParsedDictsReadOnly(c *eng.Ctx) {
	const R = "R3.6-PARSED-DICT-READONLY"
	c.Rule(R, "outside the parser that builds it, a PDF dictionary (core.Dict) is only written when the function created it (make / literal): dictionaries reached from parameters or from other dictionaries are parsed document objects shared through the reader's object cache, and an entry written into one changes what every later extraction of the document sees", 5, 0)
	for _, fn := range c.P.ModuleFuncs() {
		if fn.Pkg == nil || strings.Contains(eng.FuncName(fn), eng.PositivePkg) {
			continue
		}
		if fn.Signature.Recv() != nil && strings.HasSuffix(eng.TypeName(fn.Signature.Recv().Type()), "core.Dict") {
			continue // the setter itself: its call sites are judged
		}
		n := 0
		eng.Instrs(fn, false, func(in ssa.Instruction) {
			var target ssa.Value
			switch x := in.(type) {
			case *ssa.MapUpdate:
				target = x.Map
			case ssa.CallInstruction:
				if eng.CalleeName(x) == "core.Dict.Set" && len(x.Common().Args) > 0 {
					target = x.Common().Args[0]
				}
			}
			if target == nil || !strings.HasSuffix(eng.TypeName(target.Type()), "core.Dict") {
				return
			}
			mu := struct {
				Map ssa.Value
				p   token.Pos
			}{target, in.Pos()}
			n++
			// every origin of the map value is a make in this function
			fresh, any := true, false
			var walk func(v ssa.Value, d int)
			seen := map[ssa.Value]bool{}
			walk = func(v ssa.Value, d int) {
				if seen[v] || d > 8 {
					return
				}
				seen[v] = true
				switch x := v.(type) {
				case *ssa.MakeMap:
					any = true
				case *ssa.Phi:
					for _, e := range x.Edges {
						walk(e, d+1)
					}
				case *ssa.ChangeType:
					walk(x.X, d+1)
				case *ssa.UnOp:
					// a local variable holding the map: its stores
					if a, ok := x.X.(*ssa.Alloc); ok && x.Op == token.MUL {
						for _, r := range *a.Referrers() {
							if st, ok := r.(*ssa.Store); ok && st.Addr == ssa.Value(a) {
								walk(st.Val, d+1)
							}
						}
						return
					}
					fresh = false
				default:
					fresh = false
				}
			}
			walk(mu.Map, 0)
			c.Check(fresh && any, R, fmt.Sprintf("%s#dict-write%d", eng.FuncName(fn), n), mu.p, "writes a dictionary it created", "writes an entry into a dictionary it did not create (a parsed object that the reader caches and hands to every later lookup): the document seen by later extractions changes")
		})
	}
}

// R3.7 [C03]
func ruleCacheKeyAgreement(c *eng.Ctx) {
	const R = "R3.7-CACHE-KEY-AGREEMENT"
	c.Rule(R, "a method that both probes and fills a map kept in a field of its receiver (a cache) uses the same key for both: a cache filled under one quantity (object number) and probed under another (index in the stream) answers a later lookup with an earlier, different object, so what a reference resolves to depends on what was looked up before", 4, 0)
	for _, fn := range c.P.ModuleFuncs() {
		if fn.Pkg == nil || fn.Signature.Recv() == nil || len(fn.Params) == 0 || strings.Contains(eng.FuncName(fn), eng.PositivePkg) {
			continue
		}
		type use struct {
			key ssa.Value
			pos token.Pos
		}
		looks, fills := map[string][]use{}, map[string][]use{}
		field := func(m ssa.Value) (string, bool) {
			fr, ok := eng.LoadOfField(m)
			if !ok {
				return "", false
			}
			if ld, ok := m.(*ssa.UnOp); ok {
				if fa, ok := ld.X.(*ssa.FieldAddr); ok && fa.X == ssa.Value(fn.Params[0]) {
					return fr.Field, true
				}
			}
			return "", false
		}
		eng.Instrs(fn, false, func(in ssa.Instruction) {
			switch x := in.(type) {
			case *ssa.Lookup:
				if _, isMap := x.X.Type().Underlying().(*types.Map); isMap {
					if f, ok := field(x.X); ok {
						looks[f] = append(looks[f], use{x.Index, x.Pos()})
					}
				}
			case *ssa.MapUpdate:
				if f, ok := field(x.Map); ok {
					fills[f] = append(fills[f], use{x.Key, x.Pos()})
				}
			}
		})
		roles := func(v ssa.Value) string {
			var fs []string
			for w := range eng.Slice(v, nil) {
				if fr, ok := eng.AsField(w); ok {
					fs = append(fs, fr.Field)
				}
				if p, ok := w.(*ssa.Parameter); ok && p != fn.Params[0] {
					fs = append(fs, "param:"+p.Name())
				}
			}
			sort.Strings(fs)
			out := fs[:0]
			for i, f := range fs {
				if i == 0 || f != fs[i-1] {
					out = append(out, f)
				}
			}
			return strings.Join(out, ",")
		}
		var names []string
		for f := range looks {
			if len(fills[f]) > 0 {
				names = append(names, f)
			}
		}
		sort.Strings(names)
		for _, f := range names {
			bad := ""
			for _, l := range looks[f] {
				for _, u := range fills[f] {
					if l.key == u.key || eng.SameValue(l.key, u.key) {
						continue
					}
					if rl, ru := roles(l.key), roles(u.key); rl != ru {
						bad = fmt.Sprintf("probed with a key built from {%s} at %s, filled with a key built from {%s} at %s", rl, c.P.Pos(l.pos), ru, c.P.Pos(u.pos))
					}
				}
			}
			c.Check(bad == "", R, eng.FuncName(fn)+"#"+f, fn.Pos(), "probe and fill use the same key", "the cache "+f+" is "+bad+": an entry stored for one quantity is returned for another")
		}
	}
}

// R7.10 [C07]
func ruleByteAssembly(c *eng.Ctx) {
	const R = "R7.10-BYTE-ASSEMBLY"
	c.Rule(R, "a multi-byte value assembled from consecutive elements of one slice (b[i]<<16 | b[i+1]<<8 | b[i+2]) takes each position once and each shift once: a repeated index leaves one byte of the code out, so every code of that width is looked up under the wrong key", 2, 1)
	for _, fn := range c.P.ModuleFuncs() {
		if fn.Blocks == nil {
			continue
		}
		n := 0
		isRoot := func(b *ssa.BinOp) bool {
			if b.Op != token.OR && b.Op != token.ADD {
				return false
			}
			for _, r := range *b.Referrers() {
				if p, ok := r.(*ssa.BinOp); ok && (p.Op == token.OR || p.Op == token.ADD) {
					return false
				}
			}
			return true
		}
		eng.Instrs(fn, false, func(in ssa.Instruction) {
			root, ok := in.(*ssa.BinOp)
			if !ok || !isRoot(root) {
				return
			}
			type term struct {
				base  ssa.Value
				idx   string
				shift int64
			}
			var terms []term
			okTree := true
			var leafTerm func(v ssa.Value, shift int64)
			leafTerm = func(v ssa.Value, shift int64) {
				switch x := v.(type) {
				case *ssa.Convert:
					leafTerm(x.X, shift)
				case *ssa.BinOp:
					switch x.Op {
					case token.OR, token.ADD:
						leafTerm(x.X, shift)
						leafTerm(x.Y, shift)
					case token.SHL:
						if k, ok := eng.ConstInt(x.Y); ok {
							leafTerm(x.X, shift+k)
						} else {
							okTree = false
						}
					default:
						okTree = false
					}
				case *ssa.UnOp:
					if x.Op != token.MUL {
						okTree = false
						return
					}
					ia, ok := x.X.(*ssa.IndexAddr)
					if !ok {
						okTree = false
						return
					}
					p, ok := eng.IntPoly(ia.Index, func(v ssa.Value) (*eng.Poly, bool) { return eng.PSym(v.Name()), true })
					if !ok {
						okTree = false
						return
					}
					terms = append(terms, term{ia.X, p.String(), shift})
				case *ssa.Index:
					p, ok := eng.IntPoly(x.Index, func(v ssa.Value) (*eng.Poly, bool) { return eng.PSym(v.Name()), true })
					if !ok {
						okTree = false
						return
					}
					terms = append(terms, term{x.X, p.String(), shift})
				default:
					okTree = false
				}
			}
			leafTerm(root, 0)
			if !okTree || len(terms) < 2 {
				return
			}
			shifted := false
			for _, t := range terms {
				if t.shift > 0 {
					shifted = true
				}
			}
			if !shifted {
				return // a plain sum of elements, not an assembly of one value
			}
			for _, t := range terms[1:] {
				if t.base != terms[0].base && !eng.SameValue(t.base, terms[0].base) {
					return
				}
			}
			n++
			bad := ""
			seenIdx, seenShift := map[string]bool{}, map[int64]bool{}
			for _, t := range terms {
				if seenIdx[t.idx] {
					bad = "element " + t.idx + " is used twice"
				}
				if seenShift[t.shift] {
					bad = fmt.Sprintf("two elements are shifted by %d", t.shift)
				}
				seenIdx[t.idx], seenShift[t.shift] = true, true
			}
			c.Check(bad == "", R, fmt.Sprintf("%s#assembly%d", eng.FuncName(fn), n), root.Pos(), "each position and shift used once", "in a value assembled from consecutive bytes "+bad+": one byte of the value is left out")
		})
	}
}

// R18.9 [C18]
func rulePathTrimCutset(c *eng.Ctx) {
	const R = "R18.9-PATH-TRIM-CUTSET"
	c.Rule(R, "a part name (Href, Target) is never shortened with strings.TrimLeft/TrimRight/Trim and a cut set of several characters: the second argument is a set, not a prefix, so TrimLeft(href, \"./\") also eats the dots of \"../text/ch.xhtml\" and the part resolves to the wrong place and is dropped (TrimPrefix/TrimSuffix is what was meant)", 0, 1)
	for _, fn := range c.P.ModuleFuncs() {
		n := 0
		for _, ci := range eng.Calls(fn, false, func(name string, _ ssa.CallInstruction) bool {
			return name == "strings.TrimLeft" || name == "strings.TrimRight" || name == "strings.Trim"
		}) {
			cut, ok := eng.ConstString(ci.Common().Args[1])
			if !ok || len(cut) < 2 {
				continue
			}
			distinct := map[rune]bool{}
			for _, r := range cut {
				distinct[r] = true
			}
			if len(distinct) < 2 {
				continue
			}
			isPath := false
			for w := range eng.Slice(ci.Common().Args[0], func(call *ssa.Call) bool { return strings.HasPrefix(eng.CalleeName(call), "strings.") }) {
				if fr, ok := eng.AsField(w); ok && (fr.Field == "Href" || fr.Field == "Target" || fr.Field == "FullPath") {
					isPath = true
				}
			}
			if !isPath {
				continue
			}
			n++
			c.Viol(R, fmt.Sprintf("%s#trim%d", eng.FuncName(fn), n), ci.Pos(), fmt.Sprintf("a part name is trimmed with the cut set %q: every leading/trailing character of that set is removed, not the prefix", cut))
		}
	}
}

// R19.13 [C19]
func ruleNoDoubleDecode(c *eng.Ctx) {
	const R = "R19.13-NO-DOUBLE-DECODE"
	c.Rule(R, "text taken from the parsed HTML tree (html.Node.Data) is not unescaped again: the parser already decoded character references once, and a second pass turns the literal text \"&lt;\" of the source \"&amp;lt;\" into \"<\"", 0, 1)
	for _, fn := range c.P.ModuleFuncs() {
		n := 0
		for _, ci := range eng.Calls(fn, false, func(name string, _ ssa.CallInstruction) bool {
			return strings.HasSuffix(name, "html.UnescapeString")
		}) {
			fromNode := false
			for w := range eng.SliceInter(ci.Common().Args[0], nil, []*ssa.Function{fn}) {
				if _, ok := htmlNodeField(w, "Data"); ok {
					fromNode = true
				}
				if fr, ok := eng.AsField(w); ok && fr.Field == "Data" && strings.HasSuffix(fr.Struct, "html.Node") {
					fromNode = true
				}
			}
			// a helper that receives the node or its text: judged by its call sites
			if !fromNode {
				for _, g := range c.P.ModuleFuncs() {
					if g.Pkg != fn.Pkg {
						continue
					}
					for _, site := range eng.Calls(g, false, func(string, ssa.CallInstruction) bool { return true }) {
						if eng.StaticCallee(site) != fn {
							continue
						}
						for _, a := range site.Common().Args {
							for w := range eng.Slice(a, nil) {
								if fr, ok := eng.AsField(w); ok && strings.HasSuffix(fr.Struct, "html.Node") {
									fromNode = true
								}
								if strings.HasSuffix(eng.TypeName(w.Type()), "html.Node") {
									fromNode = true
								}
							}
						}
					}
				}
			}
			if !fromNode {
				continue
			}
			n++
			c.Viol(R, fmt.Sprintf("%s#unescape%d", eng.FuncName(fn), n), ci.Pos(), "text of a parsed HTML node is passed to html.UnescapeString: entities are decoded twice")
		}
	}
}

// R14.10 [C14]
func ruleShortLoop(c *eng.Ctx) {
	const R = "R14.10-SHORT-LOOP"
	c.Rule(R, "a loop that scans a slice with an index running to len(x)-k (k >= 1) also looks at the elements it stops short of (x[i+1] for a pairwise scan, or x[len(x)-1] after the loop): otherwise the last element is never examined, and a predicate over the slice (is the chunk in this section?) answers no for it", 0, 1)
	for _, fn := range c.P.ModuleFuncs() {
		if fn.Blocks == nil {
			continue
		}
		n := 0
		eng.Instrs(fn, false, func(in ssa.Instruction) {
			iff, ok := in.(*ssa.If)
			if !ok {
				return
			}
			cmp, ok := iff.Cond.(*ssa.BinOp)
			if !ok || cmp.Op != token.LSS {
				return
			}
			ph, isInd := eng.Induction(cmp.X)
			if !isInd || ph == nil || ph != cmp.X {
				return
			}
			if iff.Block() != ph.Block() {
				return // a test inside the body (is this the last element?), not the bound of the loop
			}
			// bound = len(x) - k
			sub, ok := cmp.Y.(*ssa.BinOp)
			if !ok || sub.Op != token.SUB {
				return
			}
			k, isC := eng.ConstInt(sub.Y)
			if !isC || k < 1 {
				return
			}
			call, ok := sub.X.(*ssa.Call)
			if !ok {
				return
			}
			bi, ok := call.Call.Value.(*ssa.Builtin)
			if !ok || bi.Name() != "len" {
				return
			}
			x := call.Call.Args[0]
			// how is x indexed in the function?
			atI, beyond := false, false
			eng.Instrs(fn, false, func(in2 ssa.Instruction) {
				var base, idx ssa.Value
				switch a := in2.(type) {
				case *ssa.IndexAddr:
					base, idx = a.X, a.Index
				case *ssa.Index:
					base, idx = a.X, a.Index
				case *ssa.Slice:
					if a.X == x || eng.SameValue(a.X, x) {
						beyond = true // re-sliced: other elements are reached some other way
					}
					return
				case *ssa.Range:
					if a.X == x || eng.SameValue(a.X, x) {
						beyond = true
					}
					return
				default:
					return
				}
				if base != x && !eng.SameValue(base, x) {
					return
				}
				if idx == ssa.Value(ph) {
					atI = true
					return
				}
				beyond = true // i+1, len(x)-1, a constant, another variable …
			})
			if !atI || beyond {
				return
			}
			n++
			c.Viol(R, fmt.Sprintf("%s#loop%d", eng.FuncName(fn), n), cmp.Pos(), fmt.Sprintf("the loop stops %d short of the end of the slice and nothing else looks at the remaining element(s)", k))
		})
	}
}

// R18.10 [C18]
func rulePositionalDefaultOnlyWhenUndeclared(c *eng.Ctx) {
	const R = "R18.10-POSITIONAL-DEFAULT"
	c.Rule(R, "the XLSX reader guesses a worksheet part from the tab position (worksheets/sheet<N>.xml) only when the workbook gives no relationship target for the sheet (the looked-up target is empty): used as a fallback for a declared target that cannot be read, it loads an unrelated leftover part under the declared sheet's name", 1, 0)
	fn := c.P.Func("xlsx.(*Reader).parseWorksheets")
	if fn == nil {
		c.Undec(R, "xlsx.(*Reader).parseWorksheets", token.NoPos, "anchor not found")
		return
	}
	n := 0
	for _, h := range eng.Cluster(fn, 1) {
		for _, ci := range eng.Calls(h, false, func(name string, _ ssa.CallInstruction) bool { return name == "fmt.Sprintf" }) {
			f, ok := eng.ConstString(ci.Common().Args[0])
			if !ok || !strings.Contains(f, "sheet%d") {
				continue
			}
			n++
			guarded := eng.GuardedBy(h, ci.Block(), func(ft eng.Fact) bool {
				op, x, y, ok := ft.Cmp()
				if !ok || op != token.EQL {
					return false
				}
				for _, s := range [][2]ssa.Value{{x, y}, {y, x}} {
					if cs, ok := eng.ConstString(s[1]); ok && cs == "" {
						for w := range eng.Slice(s[0], nil) {
							if _, isLk := w.(*ssa.Lookup); isLk {
								return true
							}
							// the target looked up by a function of the package that is handed the r:id
							if call, isCall := w.(*ssa.Call); isCall {
								if g := eng.StaticCallee(call); g != nil && g.Pkg == h.Pkg {
									for _, a := range eng.ArgsWithRecv(call) {
										for u := range eng.Slice(a, nil) {
											if fr, ok := eng.AsField(u); ok && fr.Field == "RID" {
												return true
											}
										}
									}
								}
							}
						}
					}
				}
				return false
			})
			c.Check(guarded, R, fmt.Sprintf("%s#default-name%d", eng.FuncName(h), n), ci.Pos(), "only when no target is declared", "a worksheet part name is made up from the tab position although the workbook declares a target for the sheet: when that target is missing from the archive another part is presented under this sheet's name, and the page count exceeds the number of declared, readable parts")
		}
	}
	if n == 0 {
		c.Ok(R, "xlsx.(*Reader).parseWorksheets#default-name", fn.Pos(), "no positional default is constructed")
	}
}

// R1.8 [C01] / R5.9 [C05]
func ruleFilterParmsParallelC01(c *eng.Ctx) { filterParmsParallel(c, "R1.8-FILTER-PARMS-PARALLEL") }
func ruleFilterParmsParallelC05(c *eng.Ctx) { filterParmsParallel(c, "R5.9-FILTER-PARMS-PARALLEL") }

func filterParmsParallel(c *eng.Ctx, R string) {
	c.Rule(R, "Stream.Decode dispatches on the /Filter object as the dictionary holds it; when it replaces a one-element /Filter array by its element, /DecodeParms is replaced by its element in the same way: /Filter and /DecodeParms are parallel, and a name paired with a parameter array loses the predictor parameters, so the stream is inflated but never un-predicted", 1, 0)
	fn := c.P.Func("core.(*Stream).Decode")
	if fn == nil {
		c.Undec(R, "core.(*Stream).Decode", token.NoPos, "anchor not found")
		return
	}
	fromElement := func(v ssa.Value) bool { // some origin of v is an element of an array object
		for w := range eng.Slice(v, nil) {
			if _, ok := w.(*ssa.IndexAddr); ok {
				return true
			}
			if _, ok := w.(*ssa.Index); ok {
				return true
			}
		}
		return false
	}
	getOf := func(v ssa.Value, key string) bool {
		for w := range eng.Slice(v, nil) {
			if call, ok := w.(*ssa.Call); ok && strings.HasSuffix(eng.CalleeName(call), "core.Dict.Get") && len(call.Call.Args) == 2 {
				if s, ok := eng.ConstString(call.Call.Args[1]); ok && s == key {
					return true
				}
			}
		}
		return false
	}
	n := 0
	for _, h := range eng.Cluster(fn, 1) {
		eng.Instrs(h, false, func(in ssa.Instruction) {
			ta, ok := in.(*ssa.TypeAssert)
			if !ok || !strings.HasSuffix(eng.TypeName(ta.AssertedType), "core.Name") || !getOf(ta.X, "Filter") {
				return
			}
			// only the dispatch on the whole object (the Get result, or a merge that may have rewritten it); the
			// per-element assertion inside the chain loop pairs element i with parameter i by construction
			switch ta.X.(type) {
			case *ssa.Call, *ssa.Phi:
			default:
				return
			}
			if fromElement(ta.X) && !getOf(ta.X, "DecodeParms") {
				// the tested object may be an element of the /Filter array: the parameters must be unwrapped too
				n++
				parmsUnwrapped := false
				eng.Instrs(h, false, func(in2 ssa.Instruction) {
					if ph, ok := in2.(*ssa.Phi); ok && getOf(ph, "DecodeParms") && fromElement(ph) {
						parmsUnwrapped = true
					}
				})
				c.Check(parmsUnwrapped, R, fmt.Sprintf("%s#filter-object%d", eng.FuncName(h), n), ta.Pos(), "/DecodeParms is unwrapped with /Filter", "a one-element /Filter array is replaced by its element before the dispatch, but /DecodeParms is not: the single-filter path receives a parameter array and drops it")
				return
			}
			n++
			c.Ok(R, fmt.Sprintf("%s#filter-object%d", eng.FuncName(h), n), ta.Pos(), "the dispatch tests the /Filter object itself")
		})
	}
	if n == 0 {
		c.Undec(R, "core.(*Stream).Decode#filter-object", fn.Pos(), "no dispatch on the type of the /Filter object found")
	}
}

// R1.9 [C01] / R12.12 [C12]
func ruleWorklistOrderC01(c *eng.Ctx) { worklistOrder(c, "R1.9-WORKLIST-ORDER") }
func ruleWorklistOrderC12(c *eng.Ctx) { worklistOrder(c, "R12.12-WORKLIST-ORDER") }

func worklistOrder(c *eng.Ctx, R string) {
	c.Rule(R, "a tree walk written with an explicit work list visits the nodes in document (depth-first, left-to-right) order: taking from the back requires pushing the children in reverse, taking from the front requires putting the children in front. Front-take with back-append is a breadth-first walk (pages at different depths of the page tree change places), back-take with children appended in their natural order visits siblings right to left", 0, 1)
	for _, fn := range c.P.ModuleFuncs() {
		if fn.Blocks == nil {
			continue
		}
		// order-insensitive folds (counts, sums) may walk in any order
		if res := fn.Signature.Results(); res.Len() == 1 {
			if bt, ok := res.At(0).Type().Underlying().(*types.Basic); ok && bt.Info()&types.IsNumeric != 0 {
				continue
			}
		}
		n := 0
		eng.Instrs(fn, false, func(in ssa.Instruction) {
			w, ok := in.(*ssa.Phi)
			if !ok || !isLoopCarried(w) {
				return
			}
			if _, isSlice := w.Type().Underlying().(*types.Slice); !isSlice {
				return
			}
			// loop condition len(w) > 0 / != 0 in the header
			hdr := w.Block()
			isWork := false
			if iff, ok := hdr.Instrs[len(hdr.Instrs)-1].(*ssa.If); ok {
				if cmp, ok := iff.Cond.(*ssa.BinOp); ok && (cmp.Op == token.GTR || cmp.Op == token.NEQ) {
					if call, ok := cmp.X.(*ssa.Call); ok {
						if bi, ok := call.Call.Value.(*ssa.Builtin); ok && bi.Name() == "len" && call.Call.Args[0] == ssa.Value(w) {
							if k, isC := eng.ConstInt(cmp.Y); isC && k == 0 {
								isWork = true
							}
						}
					}
				}
			}
			if !isWork {
				return
			}
			derived := func(v ssa.Value) bool { // v is w or a re-slice of it
				for i := 0; i < 4; i++ {
					if v == ssa.Value(w) {
						return true
					}
					sl, ok := v.(*ssa.Slice)
					if !ok {
						return false
					}
					v = sl.X
				}
				return false
			}
			front, back := false, false
			backNatural, backReversed, prepend := false, false, false
			eng.Instrs(fn, false, func(in2 ssa.Instruction) {
				switch x := in2.(type) {
				case *ssa.Slice:
					if x.X != ssa.Value(w) {
						return
					}
					if k, ok := eng.ConstInt(x.Low); ok && k == 1 && x.High == nil {
						front = true
					}
					if x.Low == nil && x.High != nil {
						if b, ok := x.High.(*ssa.BinOp); ok && b.Op == token.SUB {
							if k, ok := eng.ConstInt(b.Y); ok && k == 1 {
								back = true
							}
						}
					}
				case *ssa.Call:
					if g := eng.StaticCallee(x); g != nil && eng.InModule(g) && g.Blocks != nil && types.Identical(x.Type(), w.Type()) {
						// the children are pushed by a helper that is handed the list and returns it: the helper pushes
						// them last child first when it counts down or swaps the pushed part around
						handed := false
						for _, a := range x.Call.Args {
							if derived(a) {
								handed = true
							}
							if c2, ok := a.(*ssa.Call); ok {
								if b2, ok := c2.Call.Value.(*ssa.Builtin); ok && b2.Name() == "append" && len(c2.Call.Args) > 0 && derived(c2.Call.Args[0]) {
									handed = true
								}
							}
						}
						if handed && hdr.Dominates(x.Block()) {
							pushes, down := false, false
							eng.Instrs(g, false, func(in3 ssa.Instruction) {
								if c3, ok := in3.(*ssa.Call); ok {
									if b3, ok := c3.Call.Value.(*ssa.Builtin); ok && b3.Name() == "append" {
										pushes = true
									}
								}
								if ph, ok := in3.(*ssa.Phi); ok && isLoopCarried(ph) {
									for _, e := range ph.Edges {
										if b, ok := e.(*ssa.BinOp); ok && b.Op == token.SUB && b.X == ssa.Value(ph) {
											if k, isC := eng.ConstInt(b.Y); isC && k == 1 {
												down = true
											}
										}
									}
								}
							})
							if pushes && down {
								backReversed = true
							} else if pushes {
								backNatural = true
							}
						}
						return
					}
					bi, ok := x.Call.Value.(*ssa.Builtin)
					if !ok || bi.Name() != "append" || len(x.Call.Args) != 2 {
						return
					}
					a0, a1 := x.Call.Args[0], x.Call.Args[1]
					// follow the loop-carried variable through inner phis
					var isWd func(v ssa.Value, d int) bool
					isWd = func(v ssa.Value, d int) bool {
						if d > 4 {
							return false
						}
						if derived(v) {
							return true
						}
						switch y := v.(type) {
						case *ssa.Phi:
							for _, e := range y.Edges {
								if e != ssa.Value(y) && isWd(e, d+1) {
									return true
								}
							}
						case *ssa.Slice:
							return isWd(y.X, d+1)
						case *ssa.Call:
							// the list after an earlier append in the same trip
							if b2, ok := y.Call.Value.(*ssa.Builtin); ok && b2.Name() == "append" && len(y.Call.Args) > 0 {
								return isWd(y.Call.Args[0], d+1)
							}
						}
						return false
					}
					isW := func(v ssa.Value) bool { return isWd(v, 0) }
					// only pushes made inside the work-list loop itself count (a hierarchy stack that is popped in a
					// small loop and pushed to afterwards is not a tree walk)
					inLoopOfHdr := hdr.Dominates(x.Block()) && eng.ReachableBlocks([]*ssa.BasicBlock{x.Block()}, func(b *ssa.BasicBlock) bool { return b != hdr && !hdr.Dominates(b) })[hdr]
					if !inLoopOfHdr {
						return
					}
					switch {
					case isW(a0):
						// back-append: a whole slice (natural order) or single elements from an inner loop
						natural := true
						if sl, ok := a1.(*ssa.Slice); ok {
							if al, ok := sl.X.(*ssa.Alloc); ok && strings.Contains(al.Comment, "varargs") {
								// single element: direction of the enclosing inner loop
								natural = true
								for u := range eng.Slice(a1, nil) {
									_ = u
								}
								// look at the index that selects the pushed child
								for _, r := range *al.Referrers() {
									ia, ok := r.(*ssa.IndexAddr)
									if !ok {
										continue
									}
									for _, rr := range *ia.Referrers() {
										st, ok := rr.(*ssa.Store)
										if !ok {
											continue
										}
										for u := range eng.Slice(st.Val, nil) {
											if ci, ok := u.(*ssa.IndexAddr); ok {
												if _, isInd := eng.Induction(ci.Index); !isInd {
													if _, isC := eng.ConstInt(ci.Index); !isC {
														natural = false // a descending or computed index
													}
												}
											}
										}
									}
								}
								if !eng.InLoop(x.Block()) || x.Block() == hdr {
									natural = true
								}
								// a nil pushed as a marker is not a child
								marker := true
								for _, r := range *al.Referrers() {
									if ia, ok := r.(*ssa.IndexAddr); ok {
										for _, rr := range *ia.Referrers() {
											if st, ok := rr.(*ssa.Store); ok && !eng.IsNilConst(st.Val) {
												marker = false
											}
										}
									}
								}
								if marker {
									return
								}
							}
						}
						if natural {
							backNatural = true
						} else {
							backReversed = true
						}
					case isW(a1) && !isW(a0):
						prepend = true
					}
				}
			})
			if os.Getenv("VDEBUG") != "" {
				fmt.Fprintf(os.Stderr, "WL %s front=%v back=%v bn=%v br=%v pre=%v\n", eng.FuncName(fn), front, back, backNatural, backReversed, prepend)
			}
			if (!front && !back) || (!backNatural && !backReversed && !prepend) {
				return
			}
			if back && !front && popAndPushExclusive(fn, w, hdr, derived) {
				// a stack of cursors: a trip either removes the exhausted top or pushes one frame on top of it, the
				// order of the visit is the order of the cursor inside each frame
				return
			}
			n++
			bad := ""
			switch {
			case front && backNatural && !prepend:
				bad = "elements are taken from the front and children appended at the back: a breadth-first walk"
			case back && backNatural && !backReversed:
				bad = "elements are taken from the back and children appended in their natural order: siblings are visited right to left"
			}
			c.Check(bad == "", R, fmt.Sprintf("%s#worklist%d", eng.FuncName(fn), n), w.Pos(), "the work list preserves depth-first left-to-right order", bad+", not the document order a recursive walk gives")
		})
	}
}

// popAndPushExclusive: in no trip of the work-list loop is the list both shortened at the back and appended to.
func popAndPushExclusive(fn *ssa.Function, w *ssa.Phi, hdr *ssa.BasicBlock, derived func(ssa.Value) bool) bool {
	var pops, pushes []*ssa.BasicBlock
	eng.Instrs(fn, false, func(in ssa.Instruction) {
		switch x := in.(type) {
		case *ssa.Slice:
			if x.X == ssa.Value(w) && x.Low == nil && x.High != nil {
				pops = append(pops, x.Block())
			}
		case *ssa.Call:
			if bi, ok := x.Call.Value.(*ssa.Builtin); ok && bi.Name() == "append" && len(x.Call.Args) == 2 && derived(x.Call.Args[0]) && hdr.Dominates(x.Block()) {
				pushes = append(pushes, x.Block())
			}
		}
	})
	if len(pops) == 0 || len(pushes) == 0 {
		return false
	}
	for _, p := range pops {
		for _, a := range pushes {
			if p == a {
				return false
			}
			if eng.ReachableBlocks([]*ssa.BasicBlock{p}, func(b *ssa.BasicBlock) bool { return b == hdr })[a] {
				return false
			}
			if eng.ReachableBlocks([]*ssa.BasicBlock{a}, func(b *ssa.BasicBlock) bool { return b == hdr })[p] {
				return false
			}
		}
	}
	return true
}

// R10.11 [C10]
func ruleNoSharedOwnership(c *eng.Ctx) {
	const R = "R10.11-NO-SHARED-OWNERSHIP"
	c.Rule(R, "the copy made by Extractor.clone never inherits the duty to close the reader (ownsReader is not taken from the source), and it takes over the source's reader handles only where the source does not own them or cannot open the document again (under the test !e.ownsReader || e.filename == \"\"): two extractors that both own one reader close it under each other, so a terminal operation on a derived extractor breaks the one it came from", 8, 0)
	fn := c.P.Func("tabula.(*Extractor).clone")
	if fn == nil || len(fn.Params) == 0 {
		c.Undec(R, "tabula.(*Extractor).clone", token.NoPos, "anchor not found")
		return
	}
	src := ssa.Value(fn.Params[0])
	handles := map[string]bool{"reader": true, "docxReader": true, "odtReader": true, "xlsxReader": true, "pptxReader": true, "htmlReader": true, "epubReader": true}
	notOwner := func(f eng.Fact) bool {
		if !f.Pos {
			fr, ok := eng.LoadOfField(f.Cond)
			return ok && fr.Field == "ownsReader"
		}
		// or the source has no file to open again (a document given from memory): the copy can only
		// borrow the handle; it still never inherits the duty to close it
		if op, x, y, ok := f.Cmp(); ok && op == token.EQL {
			for _, side := range [][2]ssa.Value{{x, y}, {y, x}} {
				if fr, ok := eng.LoadOfField(side[0]); ok && fr.Field == "filename" {
					if s, isS := eng.ConstString(side[1]); isS && s == "" {
						return true
					}
				}
			}
		}
		return false
	}
	seen := map[string]bool{}
	for _, h := range eng.Cluster(fn, 1) {
		eng.Instrs(h, false, func(in ssa.Instruction) {
			st, ok := in.(*ssa.Store)
			if !ok {
				return
			}
			fr, ok := eng.AsField(st.Addr)
			if !ok || !strings.HasSuffix(fr.Struct, "tabula.Extractor") {
				return
			}
			if fa, ok := st.Addr.(*ssa.FieldAddr); ok && fa.X == src {
				return // a write through the source is R10.1's business
			}
			fromSrc := false
			for w := range eng.Slice(st.Val, nil) {
				if lf, ok := eng.LoadOfField(w); ok && lf.Field == fr.Field {
					fromSrc = true
				}
			}
			switch {
			case fr.Field == "ownsReader":
				k, isC := st.Val.(*ssa.Const)
				okv := isC && k.Value != nil && k.Value.Kind() == constant.Bool && !constant.BoolVal(k.Value)
				seen["ownsReader"] = true
				c.Check(okv, R, eng.FuncName(fn)+"#ownsReader", st.Pos(), "ownership is not inherited", "the copy inherits ownsReader from the source: both extractors then close the same reader")
			case handles[fr.Field] && fromSrc:
				seen[fr.Field] = true
				c.Check(eng.GuardedBy(h, st.Block(), notOwner), R, eng.FuncName(fn)+"#"+fr.Field, st.Pos(), "handle shared only when the source does not own it", "the copy takes over the source's "+fr.Field+" even when the source owns (and will close) it: a terminal operation on either closes the reader under the other")
			}
		})
	}
	// a source that owns a document it cannot open again (given from memory: ownsReader, no file name) must hand
	// the document on, or every builder method yields an extractor with nothing to read: the copy of the handle is
	// reachable when ownsReader is true and filename is empty (evaluated over the two values)
	reach := eng.StrReach(fn, []string{""}, func(v ssa.Value) bool {
		fr, ok := eng.LoadOfField(v)
		return ok && fr.Field == "filename"
	}, func(v ssa.Value, _ *eng.StrIntern) (int64, bool) {
		if fr, ok := eng.LoadOfField(v); ok && fr.Field == "ownsReader" {
			return 1, true
		}
		return 0, false
	}, func(in ssa.Instruction) bool {
		st, ok := in.(*ssa.Store)
		if !ok {
			return false
		}
		fr, ok := eng.AsField(st.Addr)
		return ok && fr.Field == "htmlReader" && strings.HasSuffix(fr.Struct, "tabula.Extractor")
	})
	c.Check(reach[""], R, eng.FuncName(fn)+"#in-memory-source", fn.Pos(), "a document given from memory is handed on to the copy", "an extractor that owns a document it cannot open again (FromHTMLString: no file name) does not hand it to its copies: every builder method on it returns an extractor that fails with nothing to read")
	for name := range handles {
		if !seen[name] {
			c.Ok(R, eng.FuncName(fn)+"#"+name, fn.Pos(), "handle not taken over")
		}
	}
	if !seen["ownsReader"] {
		c.Ok(R, eng.FuncName(fn)+"#ownsReader", fn.Pos(), "ownership is not inherited (the field keeps its zero value)")
	}
}

// R9.7 [C09]
func ruleParagraphPageCoordinates(c *eng.Ctx) {
	const R = "R9.7-PARAGRAPH-PAGE-COORDINATES"
	c.Rule(R, "the reading order normalises the X position of the lines of a column section to the column's left edge; the paragraphs it hands out get that offset added back to their bounding box. Headings and lists are located in page coordinates and the page elements are assembled by matching bounding boxes: paragraphs left in column coordinates are not recognised as the heading or list they are, and their text is emitted twice", 1, 0)
	gp := c.P.Func("layout.(*ReadingOrderResult).GetParagraphs")
	if gp == nil {
		c.Undec(R, "layout.(*ReadingOrderResult).GetParagraphs", token.NoPos, "anchor not found")
		return
	}
	// is there a normalisation at all? (a store  line.BBox.X = line.BBox.X - <offset>  in package layout)
	normalised := false
	for _, fn := range c.P.ModuleFuncs() {
		if fn.Pkg != gp.Pkg {
			continue
		}
		eng.Instrs(fn, false, func(in ssa.Instruction) {
			st, ok := in.(*ssa.Store)
			if !ok {
				return
			}
			fr, ok := eng.AsField(st.Addr)
			if !ok || fr.Field != "X" {
				return
			}
			b, ok := st.Val.(*ssa.BinOp)
			if !ok || b.Op != token.SUB {
				return
			}
			for w := range eng.Slice(st.Addr, nil) {
				if f2, ok := eng.AsField(w); ok && f2.Field == "BBox" && strings.HasSuffix(f2.Struct, "layout.Line") {
					normalised = true
				}
			}
		})
	}
	if !normalised {
		c.Ok(R, "layout.(*ReadingOrderResult).GetParagraphs#page-coordinates", gp.Pos(), "line positions are not normalised: nothing to add back")
		return
	}
	restored := false
	for _, h := range eng.Cluster(gp, 2) {
		eng.Instrs(h, false, func(in ssa.Instruction) {
			st, ok := in.(*ssa.Store)
			if !ok {
				return
			}
			fr, ok := eng.AsField(st.Addr)
			if !ok || fr.Field != "X" {
				return
			}
			b, ok := st.Val.(*ssa.BinOp)
			if !ok || b.Op != token.ADD {
				return
			}
			para := false
			for w := range eng.Slice(st.Addr, nil) {
				if f2, ok := eng.AsField(w); ok && f2.Field == "BBox" && strings.HasSuffix(f2.Struct, "layout.Paragraph") {
					para = true
				}
			}
			fromSection := false
			for _, side := range []ssa.Value{b.X, b.Y} {
				for w := range eng.Slice(side, nil) {
					if f2, ok := eng.AsField(w); ok && strings.HasSuffix(f2.Struct, "layout.ReadingSection") {
						fromSection = true
					}
				}
			}
			if para && fromSection {
				restored = true
			}
		})
	}
	c.Check(restored, R, "layout.(*ReadingOrderResult).GetParagraphs#page-coordinates", gp.Pos(), "the column offset is added back to the paragraph boxes", "paragraphs leave the reading order with X positions relative to their column although headings and lists are in page coordinates: the bounding-box match in buildElementTree fails and heading text is emitted a second time as a paragraph")
}

// relFilterOnTarget: the position of a branch that decides whether block blk runs by looking at the text of a
// relationship's Target ("" when there is none; a comparison of the whole target with "" does not count).
func relFilterOnTarget(c *eng.Ctx, fn *ssa.Function, blk *ssa.BasicBlock) string {
	bad := ""
	for _, b := range fn.Blocks {
		if len(b.Instrs) == 0 || !b.Dominates(blk) || b == blk {
			continue
		}
		iff, ok := b.Instrs[len(b.Instrs)-1].(*ssa.If)
		if !ok {
			continue
		}
		readsTarget := false
		for w := range eng.Slice(iff.Cond, func(call *ssa.Call) bool { return strings.HasPrefix(eng.CalleeName(call), "strings.") }) {
			if fr, ok := eng.AsField(w); ok && fr.Field == "Target" {
				readsTarget = true
			}
		}
		if !readsTarget {
			continue
		}
		if cmp, ok := iff.Cond.(*ssa.BinOp); ok && (cmp.Op == token.EQL || cmp.Op == token.NEQ) {
			if s, ok := eng.ConstString(cmp.Y); ok && s == "" {
				continue
			}
			if s, ok := eng.ConstString(cmp.X); ok && s == "" {
				continue
			}
		}
		bad = c.P.Pos(iff.Cond.Pos())
	}
	return bad
}
