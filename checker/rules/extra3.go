package rules

import (
	"fmt"
	"go/token"
	"go/types"
	"sort"
	"strings"

	"golang.org/x/tools/go/ssa"

	"verif/checker/eng"
)

// Rules added after the third round of seeded changes.

// R1.6 [C01]: stream bodies are copied out of the read-ahead buffer
func ruleReadBytesOwned(c *eng.Ctx) {
	const R = "R1.6-READBYTES-OWNED"
	c.Rule(R, "Lexer.ReadBytes returns memory it allocated: never the slice handed out by bufio.Reader.Peek (that memory is overwritten by the next refill while the parser reads `endstream endobj`, so a stream body changes under its owner depending on where it sits in the 4096-byte window)", 1, 0)
	fn := c.P.Func("core.(*Lexer).ReadBytes")
	if fn == nil {
		c.Undec(R, "core.(*Lexer).ReadBytes", token.NoPos, "anchor not found")
		return
	}
	bad := ""
	for _, r := range eng.Returns(fn) {
		if len(r.Results) == 0 {
			continue
		}
		for v := range eng.Slice(r.Results[0], nil) {
			if ex, ok := v.(*ssa.Extract); ok {
				if call, ok := ex.Tuple.(*ssa.Call); ok && strings.HasSuffix(eng.CalleeName(call), "bufio.(*Reader).Peek") {
					bad = "result of Peek returned at " + c.P.Pos(r.Pos())
				}
			}
		}
	}
	c.Check(bad == "", R, "core.(*Lexer).ReadBytes#owned", fn.Pos(), "returned bytes are copied", bad+": the caller's stream data aliases the read-ahead buffer")
}

// R2.10 [C02]: the visited set of the page-tree walk only grows
func ruleVisitedOnlyGrows(c *eng.Ctx) {
	const R = "R2.10-VISITED-ONLY-GROWS"
	c.Rule(R, "the visited set that bounds the page-tree walk is never deleted from: a set that only holds the current path still rejects cycles but lets a node listed twice be walked once per path, which is exponential in the depth of a 60-object file", 1, 0)
	fn := c.P.Func("pages.(*PageTree).traversePageNode")
	if fn == nil {
		c.Undec(R, "pages.(*PageTree).traversePageNode", token.NoPos, "anchor not found")
		return
	}
	bad := ""
	for _, h := range eng.Cluster(fn, 2) {
		eng.Instrs(h, true, func(in ssa.Instruction) {
			ci, ok := in.(ssa.CallInstruction)
			if !ok {
				return
			}
			if bi, ok := ci.Common().Value.(*ssa.Builtin); ok && (bi.Name() == "delete" || bi.Name() == "clear") {
				if mt, ok := ci.Common().Args[0].Type().Underlying().(*types.Map); ok {
					if kt, ok := mt.Key().Underlying().(*types.Basic); ok && kt.Info()&types.IsInteger != 0 {
						bad = bi.Name() + " on the visited set at " + c.P.Pos(in.Pos())
					}
				}
			}
		})
	}
	c.Check(bad == "", R, "pages.(*PageTree).traversePageNode#visited", fn.Pos(), "visited entries are never removed", bad)
}

// R2.4c [C02]: object-stream index guard uses the length of the indexed slice
func ruleObjStmIndexGuard(c *eng.Ctx) {
	const R = "R2.4c-OBJSTM-INDEX"
	c.Rule(R, "GetObjectByIndex indexes the offset table only under a comparison of the index with the length of that same table (not with /N, which can exceed the entries a failed header parse left behind)", 1, 0)
	fn := c.P.Func("core.(*ObjectStream).GetObjectByIndex")
	if fn == nil {
		c.Undec(R, "core.(*ObjectStream).GetObjectByIndex", token.NoPos, "anchor not found")
		return
	}
	n := 0
	evN, evBad, evSkipped := -1, "", ""
	for _, h := range eng.Cluster(fn, 2) {
		eng.Instrs(h, false, func(in ssa.Instruction) {
			ia, ok := in.(*ssa.IndexAddr)
			if !ok {
				return
			}
			fr, ok := eng.LoadOfField(ia.X)
			if !ok || fr.Struct != "core.ObjectStream" {
				return
			}
			if _, isSl := ia.X.Type().Underlying().(*types.Slice); !isSl {
				return
			}
			table := fr.Field
			if _, isInd := eng.Induction(ia.Index); isInd {
				return // a loop over the table itself
			}
			// index or index+1
			base := ia.Index
			if b, ok := base.(*ssa.BinOp); ok && b.Op == token.ADD {
				base = b.X
			}
			if _, isPar := base.(*ssa.Parameter); !isPar {
				return
			}
			n++
			guard := func(idx, b0 ssa.Value) func(eng.Fact) bool {
				return func(f eng.Fact) bool {
					op, x, y, ok := f.Cmp()
					if !ok || (op != token.LSS && op != token.LEQ) {
						return false
					}
					if !eng.SameValue(x, idx) && !eng.SameValue(x, b0) {
						if bb, isB := x.(*ssa.BinOp); !isB || !eng.SameValue(bb.X, b0) {
							return false
						}
					}
					call, isCall := y.(*ssa.Call)
					if !isCall {
						return false
					}
					bi, isB := call.Call.Value.(*ssa.Builtin)
					if !isB || bi.Name() != "len" {
						return false
					}
					fr2, ok := eng.LoadOfField(call.Call.Args[0])
					return ok && (fr2.Field == table || (fr2.Struct == fr.Struct && lockstepFields(c.P, fr.Struct, fr2.Field, table)))
				}
			}
			ok2 := eng.GuardedBy(h, ia.Block(), guard(ia.Index, base))
			if !ok2 && h != fn {
				// a helper of GetObjectByIndex: the guard may sit before the call, on the argument
				par := base.(*ssa.Parameter)
				pi := -1
				for i, p := range h.Params {
					if p == par {
						pi = i
					}
				}
				sites := 0
				all := true
				eng.Instrs(fn, false, func(in2 ssa.Instruction) {
					call, isCall := in2.(ssa.CallInstruction)
					if !isCall || eng.StaticCallee(call) != h || pi < 0 || pi >= len(call.Common().Args) {
						return
					}
					sites++
					arg := call.Common().Args[pi]
					if !eng.GuardedBy(fn, in2.Block(), guard(arg, arg)) {
						all = false
					}
				})
				ok2 = sites > 0 && all
			}
			if !ok2 {
				// the comparison may sit in a validating helper (if err := os.checkIndex(i); err != nil { return }): decided by evaluation
				if evN < 0 {
					evN, evBad, evSkipped = objStmEvaluated(c)
				}
				if evSkipped == "" && evBad == "" && evN > 0 {
					c.Ok(R, fmt.Sprintf("%s#offsets-index%d", eng.FuncName(h), n), ia.Pos(), fmt.Sprintf("the comparison is not in this function: %d calls with tables shorter than /N evaluated", evN))
					return
				}
			}
			c.Check(ok2, R, fmt.Sprintf("%s#offsets-index%d", eng.FuncName(h), n), ia.Pos(), "guarded by the length of the indexed table", "the offset table ("+table+") is indexed without comparing the index with its length (or the length of a slice filled in lockstep with it): after a header that failed half way the table is shorter than /N and the access panics")
		})
	}
	if n == 0 {
		c.Undec(R, "core.(*ObjectStream).GetObjectByIndex#offsets-index", fn.Pos(), "no parameter-indexed access of the offset table found")
	}
}

// lockstepFields: the slice fields a and b of the struct always have the same length: every store to one of them has a
// store of the same kind (nil, make, append of one element) to the other in the same basic block, module-wide.
func lockstepFields(p *eng.Prog, st string, a, b string) bool {
	if a == b {
		return true
	}
	type ev struct {
		blk  *ssa.BasicBlock
		kind string
	}
	collect := func(field string) (out []ev, ok bool) {
		ok = true
		for _, fn := range p.ModuleFuncs() {
			eng.Instrs(fn, true, func(in ssa.Instruction) {
				sto, isSt := in.(*ssa.Store)
				if !isSt {
					return
				}
				fr, isF := eng.AsField(sto.Addr)
				if !isF || fr.Struct != st || fr.Field != field {
					return
				}
				kind := ""
				switch v := sto.Val.(type) {
				case *ssa.Const:
					if v.IsNil() {
						kind = "nil"
					}
				case *ssa.MakeSlice:
					if k, isC := eng.ConstInt(v.Len); isC && k == 0 {
						kind = "empty"
					}
				case *ssa.Call:
					if bi, isB := v.Call.Value.(*ssa.Builtin); isB && bi.Name() == "append" && len(v.Call.Args) == 2 {
						if f0, ok := eng.LoadOfField(v.Call.Args[0]); ok && f0.Field == field {
							// the appended slice literal has one element
							if sl, ok := v.Call.Args[1].(*ssa.Slice); ok {
								if al, ok := sl.X.(*ssa.Alloc); ok {
									if at, ok := al.Type().(*types.Pointer).Elem().Underlying().(*types.Array); ok && at.Len() == 1 {
										kind = "append1"
									}
								}
							}
						}
					}
				}
				if kind == "" {
					ok = false
				}
				out = append(out, ev{in.Block(), kind})
			})
		}
		return
	}
	ea, oka := collect(a)
	eb, okb := collect(b)
	if !oka || !okb || len(ea) == 0 || len(ea) != len(eb) {
		return false
	}
	used := make([]bool, len(eb))
	for _, x := range ea {
		found := false
		for j, y := range eb {
			if !used[j] && x.blk == y.blk && x.kind == y.kind {
				used[j], found = true, true
				break
			}
		}
		if !found {
			return false
		}
	}
	return true
}

// R4.7 [C04]: deep resolution builds copies
func ruleResolveDeepCopies(c *eng.Ctx) {
	const R = "R4.7-RESOLVE-DEEP-COPIES"
	c.Rule(R, "Reader.resolveDeep never writes into the array or dictionary it was given or resolved (those are the objects held by the object cache): it builds new containers, so later lookups of the same object number still see the stored references", 1, 0)
	fn := c.P.Func("reader.(*Reader).resolveDeep")
	if fn == nil {
		c.Undec(R, "reader.(*Reader).resolveDeep", token.NoPos, "anchor not found")
		return
	}
	var bad []string
	fresh := func(v ssa.Value) bool {
		for w := range eng.Slice(v, nil) {
			switch w.(type) {
			case *ssa.MakeMap, *ssa.MakeSlice:
				return true
			}
		}
		return false
	}
	eng.Instrs(fn, false, func(in ssa.Instruction) {
		switch x := in.(type) {
		case *ssa.MapUpdate:
			if mt, ok := x.Map.Type().Underlying().(*types.Map); ok {
				if kt, ok := mt.Key().Underlying().(*types.Basic); ok && kt.Info()&types.IsInteger != 0 {
					return // the on-path set
				}
			}
			if !fresh(x.Map) {
				bad = append(bad, "dictionary entry stored into a container that was not created here at "+c.P.Pos(x.Pos()))
			}
		case *ssa.Store:
			if ia, ok := x.Addr.(*ssa.IndexAddr); ok && !fresh(ia.X) {
				bad = append(bad, "array element stored into a container that was not created here at "+c.P.Pos(x.Pos()))
			}
		}
	})
	sort.Strings(bad)
	c.Check(len(bad) == 0, R, "reader.(*Reader).resolveDeep#copies", fn.Pos(), "results are built in new containers", strings.Join(bad, "; ")+": the cached object is changed, and what GetObject returns afterwards depends on what was resolved before")
}

// R7.5b [C07]: bfrange destination increments carry
func ruleBfRangeCarry(c *eng.Ctx) {
	const R = "R7.5b-BFRANGE-CARRY"
	c.Rule(R, "the expansion of a bfrange with a multi-unit destination advances the last 16-bit code unit (arithmetic in uint16 or wider): incrementing the last byte alone loses the carry once its low byte passes 0xFF", 1, 0)
	fn := c.P.Func("font.(*CMap).addMultiUnitRange")
	if fn == nil {
		c.Undec(R, "font.(*CMap).addMultiUnitRange", token.NoPos, "anchor not found")
		return
	}
	wide, narrow := false, ""
	eng.Instrs(fn, false, func(in ssa.Instruction) {
		b, ok := in.(*ssa.BinOp)
		if !ok || b.Op != token.ADD {
			return
		}
		bt, ok := b.Type().Underlying().(*types.Basic)
		if !ok {
			return
		}
		switch bt.Kind() {
		case types.Uint16, types.Uint32, types.Int, types.Uint, types.Int32, types.Uint64, types.Int64:
			if !eng.InLoop(b.Block()) {
				return
			}
			if _, isInd := eng.Induction(b); !isInd {
				if _, isInd2 := eng.Induction(b.X); !isInd2 || bt.Kind() == types.Uint16 {
					wide = true
				}
			}
		case types.Uint8:
			if eng.InLoop(b.Block()) {
				narrow = c.P.Pos(b.Pos())
			}
		}
	})
	c.Check(wide && narrow == "", R, "font.(*CMap).addMultiUnitRange#increment", fn.Pos(), "the destination advances as a 16-bit unit", "the destination of a bfrange is advanced by byte arithmetic ("+narrow+"): codes past a 0xFF low byte decode 0x100 too low")
}

// fromModuleGlobal: v is (an element of) a module package-level variable, reached without a copy.
func fromModuleGlobal(v ssa.Value, depth int) *ssa.Global {
	if depth > 6 {
		return nil
	}
	switch x := v.(type) {
	case *ssa.Global:
		if x.Pkg != nil && strings.HasPrefix(x.Pkg.Pkg.Path(), eng.ModPath) {
			return x
		}
	case *ssa.UnOp:
		if x.Op == token.MUL {
			return fromModuleGlobal(x.X, depth+1)
		}
	case *ssa.Lookup:
		return fromModuleGlobal(x.X, depth+1)
	case *ssa.Extract:
		return fromModuleGlobal(x.Tuple, depth+1)
	case *ssa.IndexAddr:
		return fromModuleGlobal(x.X, depth+1)
	case *ssa.Index:
		return fromModuleGlobal(x.X, depth+1)
	case *ssa.FieldAddr:
		return fromModuleGlobal(x.X, depth+1)
	case *ssa.Field:
		return fromModuleGlobal(x.X, depth+1)
	case *ssa.Slice:
		return fromModuleGlobal(x.X, depth+1)
	case *ssa.Phi:
		for _, e := range x.Edges {
			if g := fromModuleGlobal(e, depth+1); g != nil {
				return g
			}
		}
	}
	return nil
}

// R3.4 [C03]
func ruleGlobalTableAlias(c *eng.Ctx) {
	const R = "R3.4-GLOBAL-TABLE-ALIAS"
	c.Rule(R, "no map or slice that lives in a package-level table is stored into a field of a per-document object (it must be copied): the object's later writes would go into the shared table and change what every other document and goroutine sees", 0, 1)
	for _, fn := range c.P.ModuleFuncs() {
		if strings.HasPrefix(fn.Name(), "init") {
			continue
		}
		n := 0
		eng.Instrs(fn, true, func(in ssa.Instruction) {
			st, ok := in.(*ssa.Store)
			if !ok {
				return
			}
			switch st.Val.Type().Underlying().(type) {
			case *types.Map, *types.Slice:
			default:
				return
			}
			fa, ok := st.Addr.(*ssa.FieldAddr)
			if !ok {
				return
			}
			if fromModuleGlobal(fa.X, 0) != nil {
				return // a field of the global itself
			}
			g := fromModuleGlobal(st.Val, 0)
			if g == nil {
				return
			}
			n++
			fr, _ := eng.AsField(fa)
			c.Viol(R, fmt.Sprintf("%s#%s<-%s", eng.FuncName(fn), fr.Field, g.Name()), st.Pos(), "field "+fr.Field+" is made to share the package-level table "+g.Name()+": writes through the field change the table for every other extraction")
		})
	}
}

// R19.9 [C19, C03]
func ruleCheckerPerPass(c *eng.Ctx) {
	const R = "R19.9-CHECKER-PER-PASS"
	c.Rule(R, "an exclusionChecker belongs to one filtering pass: its mode is assigned only where it is constructed and no checker is kept in the Reader (a checker that survives a pass carries what it memoised in a stricter mode into a weaker one)", 2, 0)
	ctor := c.P.Func("htmldoc.newExclusionChecker")
	if ctor == nil {
		c.Undec(R, "htmldoc.newExclusionChecker", token.NoPos, "anchor not found")
		return
	}
	var badMode, kept []string
	for _, fn := range c.P.ModuleFuncs() {
		if fn.Pkg == nil || eng.ShortPath(fn.Pkg.Pkg.Path()) != "htmldoc" {
			continue
		}
		eng.Instrs(fn, true, func(in ssa.Instruction) {
			st, ok := in.(*ssa.Store)
			if !ok {
				return
			}
			fr, ok := eng.AsField(st.Addr)
			if !ok {
				return
			}
			if fr.Field == "mode" && strings.HasSuffix(fr.Struct, "exclusionChecker") && fn != ctor {
				badMode = append(badMode, eng.FuncName(fn)+" at "+c.P.Pos(st.Pos()))
			}
			if strings.HasSuffix(eng.TypeName(st.Val.Type()), "htmldoc.exclusionChecker") && strings.HasSuffix(fr.Struct, "htmldoc.Reader") {
				kept = append(kept, "Reader."+fr.Field+" at "+c.P.Pos(st.Pos()))
			}
		})
	}
	sort.Strings(badMode)
	sort.Strings(kept)
	c.Check(len(badMode) == 0, R, "htmldoc.exclusionChecker.mode#writers", ctor.Pos(), "mode is set by the constructor only", "the mode of an existing checker is changed ("+strings.Join(badMode, ", ")+"): state memoised under the old mode is used under the new one")
	c.Check(len(kept) == 0, R, "htmldoc.Reader#keeps-checker", ctor.Pos(), "no checker outlives its pass", "a checker is kept in the Reader ("+strings.Join(kept, ", ")+")")
}

// R6.7 [C06]
func ruleRealsViaParseFloat(c *eng.Ctx) {
	const R = "R6.7-REALS-VIA-PARSEFLOAT"
	c.Rule(R, "every real number either parser returns is the result of strconv.ParseFloat on the literal: a hand-made mantissa/power-of-ten conversion rounds twice and the two parsers stop agreeing on 16-19 digit literals", 2, 0)
	for _, name := range []string{"contentstream.(*Parser).parseNumber", "core.(*Parser).parseNumber"} {
		fn := c.P.Func(name)
		if fn == nil {
			c.Undec(R, name, token.NoPos, "anchor not found")
			continue
		}
		n, bad := 0, ""
		cluster := eng.Cluster(fn, 2)
		for _, h := range cluster {
			eng.Instrs(h, false, func(in ssa.Instruction) {
				// conversions to core.Real: float64 -> Real (ChangeType / Convert) whose operand must come from ParseFloat
				var x ssa.Value
				switch v := in.(type) {
				case *ssa.ChangeType:
					if eng.TypeName(v.Type()) == "core.Real" {
						x = v.X
					}
				case *ssa.Convert:
					if eng.TypeName(v.Type()) == "core.Real" {
						x = v.X
					}
				}
				if x == nil {
					return
				}
				n++
				ok := false
				arith := false
				for w := range eng.SliceInter(x, nil, cluster) {
					if ex, isEx := w.(*ssa.Extract); isEx {
						if call, isCall := ex.Tuple.(*ssa.Call); isCall && eng.CalleeName(call) == "strconv.ParseFloat" {
							ok = true
						}
					}
					if b, isB := w.(*ssa.BinOp); isB {
						if bt, isBasic := b.Type().Underlying().(*types.Basic); isBasic && bt.Info()&types.IsFloat != 0 {
							arith = true
						}
					}
				}
				if !ok || arith {
					bad = "real built by own arithmetic at " + c.P.Pos(in.Pos())
				}
			})
		}
		if n == 0 {
			// integers only through this entry point is fine for the document parser (reals come from the lexer token)
			c.Ok(R, name, fn.Pos(), "no real constructed here")
			continue
		}
		c.Check(bad == "", R, name, fn.Pos(), "reals are strconv.ParseFloat results", bad+": values with many digits are rounded differently from the other parser")
	}
}

// R10.9 [C10]
func ruleCloseResetsFlags(c *eng.Ctx) {
	const R = "R10.9-CLOSE-RESETS-FLAGS"
	c.Rule(R, "every boolean lifecycle flag that ensureReader sets when it opens a reader is cleared again by Close: a flag left set makes the next operation skip opening and use the reader that Close just dropped", 2, 0)
	open := c.P.Func("tabula.(*Extractor).ensureReader")
	cl := c.P.Func("tabula.(*Extractor).Close")
	if open == nil || cl == nil {
		c.Undec(R, "tabula.(*Extractor).ensureReader", token.NoPos, "anchor not found")
		return
	}
	flags := map[string]bool{}
	for _, h := range eng.Cluster(open, 2) {
		eng.Instrs(h, false, func(in ssa.Instruction) {
			st, ok := in.(*ssa.Store)
			if !ok {
				return
			}
			fr, ok := eng.AsField(st.Addr)
			// a field of the extractor, or of a struct of the package embedded in it (a lifecycle record)
			if !ok || !(strings.HasSuffix(fr.Struct, "tabula.Extractor") || strings.HasPrefix(fr.Struct, "tabula.")) {
				return
			}
			if cst, ok := st.Val.(*ssa.Const); ok && cst.Value != nil && cst.Value.ExactString() == "true" {
				flags[fr.Field] = true
			}
		})
	}
	cleared := map[string]bool{}
	for _, h := range eng.Cluster(cl, 2) {
		eng.Instrs(h, false, func(in ssa.Instruction) {
			st, ok := in.(*ssa.Store)
			if !ok {
				return
			}
			fr, ok := eng.AsField(st.Addr)
			if !ok {
				return
			}
			if cst, ok := st.Val.(*ssa.Const); ok && cst.Value != nil && cst.Value.ExactString() == "false" {
				cleared[fr.Field] = true
			}
		})
	}
	names := keysOf(flags)
	if len(names) == 0 {
		c.Undec(R, "tabula.(*Extractor).ensureReader#flags", open.Pos(), "ensureReader sets no flag")
		return
	}
	for _, f := range names {
		c.Check(cleared[f], R, "tabula.(*Extractor).Close#"+f, cl.Pos(), "cleared by Close", "Close does not clear "+f+", which ensureReader sets: after a terminal operation the extractor believes its reader is still open")
	}
}

// R13.7 [C13]
func ruleSentenceIndexSteps(c *eng.Ctx) {
	const R = "R13.7-NO-INDEX-SKIP"
	c.Rule(R, "the rune loop of splitIntoSentences advances its index only in the loop header: an extra step inside the body (stepping over the character after a terminator) drops that character from every piece", 1, 0)
	fn := c.P.Func("rag.splitIntoSentences")
	if fn == nil {
		c.Undec(R, "rag.splitIntoSentences", token.NoPos, "anchor not found")
		return
	}
	n := 0
	for _, h := range eng.Cluster(fn, 2) {
		eng.Instrs(h, false, func(in ssa.Instruction) {
			ph, ok := in.(*ssa.Phi)
			if !ok || !isLoopCarried(ph) {
				return
			}
			bt, ok := ph.Type().Underlying().(*types.Basic)
			if !ok || bt.Info()&types.IsInteger == 0 {
				return
			}
			// an index: used to index a slice/string
			isIndex := false
			for _, r := range *ph.Referrers() {
				switch x := r.(type) {
				case *ssa.IndexAddr:
					if x.Index == ssa.Value(ph) {
						isIndex = true
					}
				case *ssa.Index:
					if x.Index == ssa.Value(ph) {
						isIndex = true
					}
				case *ssa.BinOp:
					for _, rr := range *x.Referrers() {
						if ia, ok := rr.(*ssa.IndexAddr); ok && ia.Index == ssa.Value(x) {
							isIndex = true
						}
					}
				}
			}
			if !isIndex {
				return
			}
			n++
			// every back-edge value is phi+1 (one step); a value phi+2 or a nested step is a skip
			bad := ""
			for k, e := range ph.Edges {
				if !ph.Block().Dominates(ph.Block().Preds[k]) {
					continue
				}
				steps := 0
				v := e
				for depth := 0; depth < 6; depth++ {
					if v == ssa.Value(ph) {
						break
					}
					b, ok := v.(*ssa.BinOp)
					if !ok || b.Op != token.ADD {
						if p2, ok := v.(*ssa.Phi); ok {
							// merged value: take the longest chain
							best := 0
							for _, e2 := range p2.Edges {
								s2 := 0
								w := e2
								for w != ssa.Value(ph) {
									bb, ok := w.(*ssa.BinOp)
									if !ok || bb.Op != token.ADD {
										break
									}
									s2++
									w = bb.X
								}
								if s2 > best {
									best = s2
								}
							}
							steps += best
						}
						break
					}
					if k2, isC := eng.ConstInt(b.Y); isC && k2 > 1 {
						steps += int(k2) - 1
					}
					steps++
					v = b.X
				}
				if steps > 1 {
					bad = fmt.Sprintf("the index advances %d positions on one trip at %s", steps, c.P.Pos(ph.Pos()))
				}
			}
			c.Check(bad == "", R, fmt.Sprintf("%s#index%d", eng.FuncName(h), n), ph.Pos(), "one step per trip", bad+": a character is skipped without being written")
		})
	}
	if n == 0 {
		c.Ok(R, "rag.splitIntoSentences#range", fn.Pos(), "no hand-advanced index (range loop)")
	}
}

// R14.8 [C14]
func ruleExportNoEmptyShortcut(c *eng.Ctx) {
	const R = "R14.8-EXPORT-EMPTY"
	c.Rule(R, "Exporter.Export has no shortcut for an empty collection: zero chunks still produce the enclosing syntax of the format (`[]`, the CSV header), which is what parses back to zero records", 1, 0)
	fn := c.P.Func("rag.(*Exporter).Export")
	if fn == nil {
		c.Undec(R, "rag.(*Exporter).Export", token.NoPos, "anchor not found")
		return
	}
	bad := ""
	for _, r := range eng.Returns(fn) {
		if eng.GuardedBy(fn, r.Block(), func(f eng.Fact) bool {
			op, x, y, ok := f.Cmp()
			if !ok {
				return false
			}
			for _, s := range [][2]ssa.Value{{x, y}, {y, x}} {
				call, isCall := s[0].(*ssa.Call)
				if !isCall {
					continue
				}
				bi, isB := call.Call.Value.(*ssa.Builtin)
				if !isB || bi.Name() != "len" {
					continue
				}
				if _, isPar := call.Call.Args[0].(*ssa.Parameter); !isPar {
					continue
				}
				k, isC := eng.ConstInt(s[1])
				if isC && ((op == token.EQL && k == 0) || (op == token.LSS && k == 1) || (op == token.LEQ && k == 0)) {
					return true
				}
			}
			return false
		}) {
			bad = "return at " + c.P.Pos(r.Pos()) + " is taken because the collection is empty"
		}
	}
	c.Check(bad == "", R, "rag.(*Exporter).Export#empty", fn.Pos(), "empty collections go through the format writer", bad+": nothing is written, which is not a well-formed document of the format")
}

// R16.8 [C16]
func ruleResolvedStyleReadOnly(c *eng.Ctx) {
	const R = "R16.8-RESOLVED-STYLE-READONLY"
	c.Rule(R, "what StyleResolver.Resolve returns is the resolver's cached object for that style id: the readers never write through it (a paragraph-specific property written there, such as a direct outline level, turns every later paragraph of the same style into a heading)", 4, 0)
	for _, pkg := range []string{"docx", "odt"} {
		res := c.P.Func(pkg + ".(*StyleResolver).Resolve")
		if res == nil {
			continue
		}
		for _, fn := range c.P.ModuleFuncs() {
			if fn.Pkg == nil || eng.ShortPath(fn.Pkg.Pkg.Path()) != pkg {
				continue
			}
			if strings.Contains(eng.FuncName(fn), "(*StyleResolver)") {
				continue // the resolver fills its own cache
			}
			n := 0
			for _, ci := range eng.Calls(fn, true, func(_ string, ci ssa.CallInstruction) bool { return eng.StaticCallee(ci) == res }) {
				v := ci.Value()
				if v == nil {
					continue
				}
				n++
				key := fmt.Sprintf("%s#Resolve%d", eng.FuncName(fn), n)
				bad := ""
				if _, isPtr := v.Type().Underlying().(*types.Pointer); isPtr {
					eng.Instrs(fn, true, func(in ssa.Instruction) {
						st, ok := in.(*ssa.Store)
						if !ok {
							return
						}
						for a := st.Addr; a != nil; {
							fa, ok := a.(*ssa.FieldAddr)
							if !ok {
								break
							}
							if fa.X == ssa.Value(v) {
								fr, _ := eng.AsField(fa)
								bad = "field " + fr.Field + " written at " + c.P.Pos(st.Pos())
							}
							// through phis of the pointer
							if ph, ok := fa.X.(*ssa.Phi); ok {
								for _, e := range ph.Edges {
									if e == ssa.Value(v) {
										fr, _ := eng.AsField(fa)
										bad = "field " + fr.Field + " written at " + c.P.Pos(st.Pos())
									}
								}
							}
							a = fa.X
						}
					})
				}
				c.Check(bad == "", R, key, ci.Pos(), "the resolved style is only read", "the shared resolved style is modified ("+bad+"): the change stays in the resolver's cache for every later paragraph with that style")
			}
		}
	}
}

// R20.5 [C20]
func ruleMagicAtOffsetZero(c *eng.Ctx) {
	const R = "R20.5-MAGIC-AT-START"
	c.Rule(R, "format sniffing tests signatures at the start of the file only (index comparisons or HasPrefix): a search for `%PDF-` anywhere in the first block classifies HTML and ZIP files that merely contain those bytes as PDF", 2, 0)
	for _, name := range []string{"format.DetectFromReader", "format.DetectFromMagic"} {
		fn := c.P.Func(name)
		if fn == nil {
			c.Undec(R, name, token.NoPos, "anchor not found")
			continue
		}
		var bad []string
		cluster := eng.Cluster(fn, 2)
		// the leading block of the file: the data parameter, or the buffer filled by ReadAt
		roots := map[ssa.Value]bool{}
		for _, p := range fn.Params {
			if st, ok := p.Type().Underlying().(*types.Slice); ok {
				if bt, ok := st.Elem().Underlying().(*types.Basic); ok && bt.Kind() == types.Uint8 {
					roots[p] = true
				}
			}
		}
		eng.Instrs(fn, false, func(in ssa.Instruction) {
			if ci, ok := in.(ssa.CallInstruction); ok && ci.Common().IsInvoke() && ci.Common().Method.Name() == "ReadAt" {
				for v := range eng.Slice(ci.Common().Args[0], nil) {
					if _, isMk := v.(*ssa.MakeSlice); isMk {
						roots[v] = true
					}
					if _, isAl := v.(*ssa.Alloc); isAl {
						roots[v] = true
					}
				}
			}
		})
		for _, h := range cluster {
			if strings.Contains(strings.ToLower(h.Name()), "html") {
				continue // HTML has no signature: looking for a tag in the leading text is its definition
			}
			for _, ci := range eng.Calls(h, false, func(n string, _ ssa.CallInstruction) bool {
				switch n {
				case "bytes.Contains", "bytes.Index", "strings.Contains", "strings.Index", "bytes.LastIndex", "strings.LastIndex", "bytes.IndexByte":
					return true
				}
				return false
			}) {
				onMagic := false
				for v := range eng.SliceInter(ci.Common().Args[0], func(*ssa.Call) bool { return true }, cluster) {
					if roots[v] {
						onMagic = true
					}
				}
				if onMagic {
					bad = append(bad, eng.CalleeName(ci)+" in "+eng.FuncName(h)+" at "+c.P.Pos(ci.Pos()))
				}
			}
		}
		sort.Strings(bad)
		c.Check(len(bad) == 0, R, name+"#anchored", fn.Pos(), "signatures are tested at offset 0", "a signature is searched for instead of tested at the start ("+strings.Join(bad, ", ")+")")
	}
}

// R20.6 [C20]
func ruleDRMDefaultDeny(c *eng.Ctx) {
	const R = "R20.6-DRM-DEFAULT-DENY"
	c.Rule(R, "hasEncryptedContent treats an encrypted content document as DRM whatever the algorithm, except the two font-obfuscation algorithms: the positive answer depends on no other test of the algorithm URI (an allow-list of known ciphers lets AES-GCM and vendor schemes through)", 1, 0)
	fn := c.P.Func("epubdoc.hasEncryptedContent")
	if fn == nil {
		c.Undec(R, "epubdoc.hasEncryptedContent", token.NoPos, "anchor not found")
		return
	}
	allowed := map[string]bool{"epubdoc.isFontObfuscation": true, "epubdoc.isContentFile": true}
	n := 0
	for _, r := range eng.Returns(fn) {
		cst, ok := eng.ReturnValues(r)[0].(*ssa.Const)
		if !ok || cst.Value == nil || cst.Value.ExactString() != "true" {
			continue
		}
		n++
		var bad []string
		doms, _ := eng.DominatingIfs([]*ssa.Function{fn}, r)
		for _, ifi := range doms {
			for v := range eng.Slice(ifi.Cond, nil) {
				call, ok := v.(*ssa.Call)
				if !ok {
					continue
				}
				name := eng.CalleeName(call)
				if strings.HasPrefix(name, "builtin:") || allowed[name] {
					continue
				}
				if cal := eng.StaticCallee(call); cal != nil && eng.InModule(cal) {
					bad = append(bad, name+" at "+c.P.Pos(call.Pos()))
				} else if strings.HasPrefix(name, "strings.") && name != "strings.ToLower" {
					// the two exemptions and the content-file test may be inlined: their own constants are accepted
					if len(call.Call.Args) > 1 {
						if cs, ok := eng.ConstString(call.Call.Args[1]); ok && (drmContentSuffix[cs] || drmObfuscationWord[cs]) {
							continue
						}
					}
					bad = append(bad, name+" at "+c.P.Pos(call.Pos()))
				}
			}
		}
		sort.Strings(bad)
		c.Check(len(bad) == 0, R, fmt.Sprintf("epubdoc.hasEncryptedContent#return-true-%d", n), r.Pos(), "DRM unless font obfuscation", "the DRM verdict additionally depends on "+strings.Join(dedupStr(bad), ", ")+": algorithms that test does not know are waved through")
	}
	if n == 0 {
		c.Viol(R, "epubdoc.hasEncryptedContent#return-true", fn.Pos(), "no positive verdict found")
	}
}

// R17.5 [C17]
func ruleBoundsOffsets(c *eng.Ctx) {
	const R = "R17.5-BOUNDS-OFFSETS"
	c.Rule(R, "in the XLSX writers that crop a sheet to its content bounds, every row index into the sheet grid derives from minRow and every column index from minCol (loop variables that start there, or offsets added to them): an index that starts at zero reads column A although the table starts at minCol, so all values shift", 6, 0)
	bounds := c.P.Func("xlsx.(*Reader).findContentBounds")
	if bounds == nil {
		c.Undec(R, "xlsx.(*Reader).findContentBounds", token.NoPos, "anchor not found")
		return
	}
	for _, fn := range c.P.ModuleFuncs() {
		if fn.Pkg == nil || eng.ShortPath(fn.Pkg.Pkg.Path()) != "xlsx" || fn == bounds {
			continue
		}
		var call *ssa.Call
		for _, ci := range eng.Calls(fn, false, func(_ string, ci ssa.CallInstruction) bool { return eng.StaticCallee(ci) == bounds }) {
			if cc, ok := ci.(*ssa.Call); ok {
				call = cc
			}
		}
		if call == nil {
			continue
		}
		// the bounds come back as a tuple (minRow, maxRow, minCol, maxCol) or as a struct with fields of those names
		_, isTuple := call.Type().(*types.Tuple)
		fieldOf := map[int]string{0: "minrow", 2: "mincol"}
		dependsOn := func(v ssa.Value, idx int) bool {
			for w := range eng.Slice(v, nil) {
				if ex, ok := w.(*ssa.Extract); ok && ex.Tuple == ssa.Value(call) && ex.Index == idx {
					return true
				}
				if !isTuple {
					if fr, ok := eng.AsField(w); ok && strings.EqualFold(fr.Field, fieldOf[idx]) {
						if f, ok := w.(*ssa.Field); ok && f.X == ssa.Value(call) {
							return true
						}
						if fr.Struct == strings.TrimPrefix(eng.TypeName(call.Type()), "*") {
							return true
						}
					}
				}
			}
			return false
		}
		isSheetRows := func(v ssa.Value) bool {
			fr, ok := eng.LoadOfField(v)
			return ok && fr.Field == "Rows" && strings.HasSuffix(fr.Struct, "xlsx.Sheet")
		}
		nr, ncol := 0, 0
		eng.Instrs(fn, false, func(in ssa.Instruction) {
			ia, ok := in.(*ssa.IndexAddr)
			if !ok || !call.Block().Dominates(ia.Block()) {
				return
			}
			if isSheetRows(ia.X) {
				nr++
				c.Check(dependsOn(ia.Index, 0), R, fmt.Sprintf("%s#row-index%d", eng.FuncName(fn), nr), ia.Pos(), "row index derives from minRow", "a row of the sheet grid is addressed by an index that does not derive from minRow")
				return
			}
			// a row slice: element of sheet.Rows, possibly re-sliced
			rowSlice := false
			for w := range eng.Slice(ia.X, nil) {
				if ia2, ok := w.(*ssa.IndexAddr); ok && isSheetRows(ia2.X) {
					rowSlice = true
				}
			}
			if !rowSlice {
				return
			}
			if st, ok := ia.X.Type().Underlying().(*types.Slice); !ok || !strings.HasSuffix(eng.TypeName(st.Elem()), "xlsx.Cell") {
				return
			}
			ncol++
			c.Check(dependsOn(ia.Index, 2), R, fmt.Sprintf("%s#col-index%d", eng.FuncName(fn), ncol), ia.Pos(), "column index derives from minCol", "a cell of a sheet row is addressed by an index that does not derive from minCol: the cropped table reads from column A and every value lands minCol positions to the right")
		})
	}
}

// R10.10 [C10]
func ruleSeparatorBetweenNonEmpty(c *eng.Ctx) {
	const R = "R10.10-SEPARATOR-GUARD"
	c.Rule(R, "in the Extractor's page loops the page separator is written only when something has already been written (the builder's Len() > 0 is tested on the way): otherwise a selection whose first page is blank starts with a separator, and the text of a selection is no longer the join of the per-page texts", 2, 0)
	for _, fn := range c.P.ModuleFuncs() {
		if fn.Pkg == nil || eng.ShortPath(fn.Pkg.Pkg.Path()) != "" || fn.Parent() != nil {
			continue
		}
		if !strings.Contains(eng.FuncName(fn), "(*Extractor)") {
			continue
		}
		n := 0
		for _, ci := range eng.Calls(fn, false, func(name string, _ ssa.CallInstruction) bool { return name == "strings.(*Builder).WriteString" }) {
			if !eng.InLoop(ci.Block()) {
				continue
			}
			s, ok := eng.ConstString(ci.Common().Args[1])
			if !ok || s != "\n\n" {
				continue
			}
			recv := ci.Common().Args[0]
			// only separators between pages: the loop ranges over the resolved pages (the function calls resolvePages)
			if len(eng.CallsNamed(fn, false, "tabula.(*Extractor).resolvePages")) == 0 {
				continue
			}
			n++
			guarded := eng.GuardedBy(fn, ci.Block(), func(f eng.Fact) bool {
				op, x, y, ok := f.Cmp()
				if !ok {
					return false
				}
				for _, side := range [][2]ssa.Value{{x, y}, {y, x}} {
					call, isCall := side[0].(*ssa.Call)
					if !isCall || eng.CalleeName(call) != "strings.(*Builder).Len" || !eng.SameValue(call.Call.Args[0], recv) {
						continue
					}
					if k, isC := eng.ConstInt(side[1]); isC && k == 0 && (op == token.GTR || op == token.NEQ || op == token.LSS) {
						return true
					}
				}
				return false
			})
			c.Check(guarded, R, fmt.Sprintf("%s#separator%d", eng.FuncName(fn), n), ci.Pos(), "written only after earlier output", "the page separator can be written before anything else: a blank first page of the selection leaves a leading separator")
		}
		// the same accumulation written with a byte slice: acc = append(acc, "\n\n"...) guarded by len(acc) > 0
		if len(eng.CallsNamed(fn, false, "tabula.(*Extractor).resolvePages")) > 0 {
			for _, ci := range eng.Calls(fn, false, func(name string, _ ssa.CallInstruction) bool { return name == "builtin:append" }) {
				args := ci.Common().Args
				if len(args) != 2 || !eng.InLoop(ci.Block()) {
					continue
				}
				if sep, ok := eng.ConstString(args[1]); !ok || sep != "\n\n" {
					continue
				}
				acc := args[0]
				n++
				guarded := eng.GuardedBy(fn, ci.Block(), func(f eng.Fact) bool {
					op, x, y, ok := f.Cmp()
					if !ok {
						return false
					}
					for _, side := range [][2]ssa.Value{{x, y}, {y, x}} {
						call, isCall := side[0].(*ssa.Call)
						if !isCall || eng.CalleeName(call) != "builtin:len" || !(call.Call.Args[0] == acc || eng.SameValue(call.Call.Args[0], acc)) {
							continue
						}
						if k, isC := eng.ConstInt(side[1]); isC && k == 0 && (op == token.GTR || op == token.NEQ || op == token.LSS) {
							return true
						}
					}
					return false
				})
				c.Check(guarded, R, fmt.Sprintf("%s#separator%d", eng.FuncName(fn), n), ci.Pos(), "written only after earlier output", "the page separator can be written before anything else: a blank first page of the selection leaves a leading separator")
			}
		}
		// the same accumulation written with string concatenation: acc += "\n\n" guarded by len(acc) > 0
		if len(eng.CallsNamed(fn, false, "tabula.(*Extractor).resolvePages")) > 0 {
			eng.Instrs(fn, false, func(in ssa.Instruction) {
				b, ok := in.(*ssa.BinOp)
				if !ok || b.Op != token.ADD || !eng.InLoop(b.Block()) {
					return
				}
				if sep, ok := eng.ConstString(b.Y); !ok || sep != "\n\n" {
					return
				}
				acc := b.X
				n++
				guarded := eng.GuardedBy(fn, b.Block(), func(f eng.Fact) bool {
					op, x, y, ok := f.Cmp()
					if !ok {
						return false
					}
					for _, side := range [][2]ssa.Value{{x, y}, {y, x}} {
						call, isCall := side[0].(*ssa.Call)
						if !isCall {
							continue
						}
						bi, isB := call.Call.Value.(*ssa.Builtin)
						if !isB || bi.Name() != "len" || !(call.Call.Args[0] == acc || eng.SameValue(call.Call.Args[0], acc)) {
							continue
						}
						if k, isC := eng.ConstInt(side[1]); isC && k == 0 && (op == token.GTR || op == token.NEQ || op == token.LSS) {
							return true
						}
					}
					return false
				})
				c.Check(guarded, R, fmt.Sprintf("%s#separator%d", eng.FuncName(fn), n), b.Pos(), "written only after earlier output", "the page separator can be written before anything else: a blank first page of the selection leaves a leading separator")
			})
		}
	}
}

// parallelIndexFindings: a slice built by a conditional append while ranging over a source
// slice (elements can be skipped) is later indexed with the same counter as the source.
func parallelIndexFindings(p *eng.Prog, fn *ssa.Function) []string {
	var out []string
	// 1. filtered slices: append(x, …) in a loop over src where some path through the iteration avoids the append
	type filt struct {
		src   ssa.Value // the slice ranged over
		field string    // field the result is stored to ("" = local)
		hdr   *ssa.BasicBlock
	}
	var filts []filt
	eng.Instrs(fn, false, func(in ssa.Instruction) {
		call, ok := in.(*ssa.Call)
		if !ok {
			return
		}
		bi, ok := call.Call.Value.(*ssa.Builtin)
		if !ok || bi.Name() != "append" || !eng.InLoop(call.Block()) {
			return
		}
		// the loop: nearest dominating header with an induction phi that indexes a slice
		var hdr *ssa.BasicBlock
		var src ssa.Value
		for d := call.Block(); d != nil && hdr == nil; d = d.Idom() {
			for _, i2 := range d.Instrs {
				ph, ok := i2.(*ssa.Phi)
				if !ok {
					break
				}
				if _, isInd := eng.Induction(ph); !isInd {
					continue
				}
				// what does this counter index?
				eng.Instrs(fn, false, func(i3 ssa.Instruction) {
					if ia, ok := i3.(*ssa.IndexAddr); ok {
						if q, ok := eng.Induction(ia.Index); ok && q == ph {
							if _, isSl := ia.X.Type().Underlying().(*types.Slice); isSl && src == nil {
								src = ia.X
								hdr = d
							}
						}
					}
				})
			}
		}
		if hdr == nil || src == nil {
			return
		}
		// can an iteration reach the header again without passing the append block?
		skip := false
		for _, s := range hdr.Succs {
			if eng.ReachableBlocks([]*ssa.BasicBlock{s}, func(b *ssa.BasicBlock) bool { return b == call.Block() })[hdr] && hdr.Dominates(s) {
				// s leads back to the header avoiding the append: but s must be inside the loop body
				if eng.ReachableBlocks([]*ssa.BasicBlock{s}, nil)[call.Block()] {
					skip = true
				}
			}
		}
		if !skip {
			return
		}
		field := ""
		if fr, ok := eng.LoadOfField(call.Call.Args[0]); ok {
			field = fr.Field
		}
		filts = append(filts, filt{src: src, field: field, hdr: hdr})
	})
	if len(filts) == 0 {
		return nil
	}
	// 2. a later loop whose counter indexes both the filtered slice and the source
	eng.Instrs(fn, false, func(in ssa.Instruction) {
		ph, ok := in.(*ssa.Phi)
		if !ok {
			return
		}
		if _, isInd := eng.Induction(ph); !isInd {
			return
		}
		var idxd []ssa.Value
		eng.Instrs(fn, false, func(i3 ssa.Instruction) {
			if ia, ok := i3.(*ssa.IndexAddr); ok {
				if q, ok := eng.Induction(ia.Index); ok && q == ph {
					idxd = append(idxd, ia.X)
				}
			}
		})
		// the loop may only use the length of the filtered list as its bound (for i := range list)
		var bounds []ssa.Value
		eng.Instrs(fn, false, func(i3 ssa.Instruction) {
			b, ok := i3.(*ssa.BinOp)
			if !ok || b.Op != token.LSS {
				return
			}
			if q, ok := eng.Induction(b.X); !ok || q != ph {
				return
			}
			if call, ok := b.Y.(*ssa.Call); ok {
				if bi, ok := call.Call.Value.(*ssa.Builtin); ok && bi.Name() == "len" {
					bounds = append(bounds, call.Call.Args[0])
				}
			}
		})
		idxd = append(idxd, bounds...)
		for _, f := range filts {
			if ph.Block() == f.hdr {
				continue
			}
			onFiltered, onSrc := false, false
			for _, x := range idxd {
				if fr, ok := eng.LoadOfField(x); ok && f.field != "" && fr.Field == f.field {
					onFiltered = true
				}
				if eng.SameValue(x, f.src) {
					onSrc = true
				}
			}
			if onFiltered && onSrc {
				out = append(out, fmt.Sprintf("the counter of the loop at %s indexes both %s (from which elements may have been skipped) and the list it was built from", p.Pos(ph.Pos()), f.field))
			}
		}
	})
	return out
}

// R18.5 [C18]
func ruleParallelIndex(c *eng.Ctx) {
	const R = "R18.5-PARALLEL-INDEX"
	c.Rule(R, "a list built by appending while ranging over a declared list, with some entries skipped (unreadable parts), is never indexed in parallel with the declared list by one counter: after a skip the positions no longer correspond and every later part gets its neighbour's relationships and notes", 3, 1)
	for _, fn := range c.P.ModuleFuncs() {
		if fn.Pkg == nil {
			continue
		}
		sp := eng.ShortPath(fn.Pkg.Pkg.Path())
		if sp != "pptx" && sp != "xlsx" && sp != "epubdoc" && sp != "docx" && sp != "odt" && !strings.Contains(sp, eng.PositivePkg) {
			continue
		}
		if fn.Parent() != nil {
			continue
		}
		f := parallelIndexFindings(c.P, fn)
		c.Check(len(f) == 0, R, eng.FuncName(fn), fn.Pos(), "no parallel indexing of a filtered list", strings.Join(f, "; "))
	}
}
