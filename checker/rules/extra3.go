package rules

import (
	"fmt"
	"go/token"
	"go/types"
	"sort"
	"strings"

	"golang.org/x/tools/go/ssa"

	"verif/checker/eng"
)

// Rules added after the third round of seeded changes.

// R1.6 [C01]: stream bodies are copied out of the read-ahead buffer
func ruleReadBytesOwned(c *eng.Ctx) {
	const R = "R1.6-READBYTES-OWNED"
	c.Rule(R, "Lexer.ReadBytes returns memory it allocated: never the slice handed out by bufio.Reader.Peek (that memory is overwritten by the next refill while the parser reads `endstream endobj`, so a stream body changes under its owner depending on where it sits in the 4096-byte window)", 1, 0)
	fn := c.P.Func("core.(*Lexer).ReadBytes")
	if fn == nil {
		c.Undec(R, "core.(*Lexer).ReadBytes", token.NoPos, "anchor not found")
		return
	}
	bad := ""
	for _, r := range eng.Returns(fn) {
		if len(r.Results) == 0 {
			continue
		}
		for v := range eng.Slice(r.Results[0], nil) {
			if ex, ok := v.(*ssa.Extract); ok {
				if call, ok := ex.Tuple.(*ssa.Call); ok && strings.HasSuffix(eng.CalleeName(call), "bufio.(*Reader).Peek") {
					bad = "result of Peek returned at " + c.P.Pos(r.Pos())
				}
			}
		}
	}
	c.Check(bad == "", R, "core.(*Lexer).ReadBytes#owned", fn.Pos(), "returned bytes are copied", bad+": the caller's stream data aliases the read-ahead buffer")
}

// R2.10 [C02]: the visited set of the page-tree walk only grows
func ruleVisitedOnlyGrows(c *eng.Ctx) {
	const R = "R2.10-VISITED-ONLY-GROWS"
	c.Rule(R, "the visited set that bounds the page-tree walk is never deleted from: a set that only holds the current path still rejects cycles but lets a node listed twice be walked once per path, which is exponential in the depth of a 60-object file", 1, 0)
	fn := c.P.Func("pages.(*PageTree).traversePageNode")
	if fn == nil {
		c.Undec(R, "pages.(*PageTree).traversePageNode", token.NoPos, "anchor not found")
		return
	}
	bad := ""
	for _, h := range eng.Cluster(fn, 2) {
		eng.Instrs(h, true, func(in ssa.Instruction) {
			ci, ok := in.(ssa.CallInstruction)
			if !ok {
				return
			}
			if bi, ok := ci.Common().Value.(*ssa.Builtin); ok && (bi.Name() == "delete" || bi.Name() == "clear") {
				if mt, ok := ci.Common().Args[0].Type().Underlying().(*types.Map); ok {
					if kt, ok := mt.Key().Underlying().(*types.Basic); ok && kt.Info()&types.IsInteger != 0 {
						bad = bi.Name() + " on the visited set at " + c.P.Pos(in.Pos())
					}
				}
			}
		})
	}
	c.Check(bad == "", R, "pages.(*PageTree).traversePageNode#visited", fn.Pos(), "visited entries are never removed", bad)
}

// R2.4c [C02]: object-stream index guard uses the length of the indexed slice
func ruleObjStmIndexGuard(c *eng.Ctx) {
	const R = "R2.4c-OBJSTM-INDEX"
	c.Rule(R, "GetObjectByIndex indexes the offset table only under a comparison of the index with the length of that same table (not with /N, which can exceed the entries a failed header parse left behind)", 1, 0)
	fn := c.P.Func("core.(*ObjectStream).GetObjectByIndex")
	if fn == nil {
		c.Undec(R, "core.(*ObjectStream).GetObjectByIndex", token.NoPos, "anchor not found")
		return
	}
	n := 0
	for _, h := range eng.Cluster(fn, 2) {
		eng.Instrs(h, false, func(in ssa.Instruction) {
			ia, ok := in.(*ssa.IndexAddr)
			if !ok {
				return
			}
			fr, ok := eng.LoadOfField(ia.X)
			if !ok || fr.Field != "offsets" {
				return
			}
			if _, isInd := eng.Induction(ia.Index); isInd {
				return // a loop over the table itself
			}
			// index or index+1
			base := ia.Index
			if b, ok := base.(*ssa.BinOp); ok && b.Op == token.ADD {
				base = b.X
			}
			if _, isPar := base.(*ssa.Parameter); !isPar {
				return
			}
			n++
			guard := func(idx, b0 ssa.Value) func(eng.Fact) bool {
				return func(f eng.Fact) bool {
					op, x, y, ok := f.Cmp()
					if !ok || (op != token.LSS && op != token.LEQ) {
						return false
					}
					if !eng.SameValue(x, idx) && !eng.SameValue(x, b0) {
						if bb, isB := x.(*ssa.BinOp); !isB || !eng.SameValue(bb.X, b0) {
							return false
						}
					}
					call, isCall := y.(*ssa.Call)
					if !isCall {
						return false
					}
					bi, isB := call.Call.Value.(*ssa.Builtin)
					if !isB || bi.Name() != "len" {
						return false
					}
					fr2, ok := eng.LoadOfField(call.Call.Args[0])
					return ok && fr2.Field == "offsets"
				}
			}
			ok2 := eng.GuardedBy(h, ia.Block(), guard(ia.Index, base))
			if !ok2 && h != fn {
				// a helper of GetObjectByIndex: the guard may sit before the call, on the argument
				par := base.(*ssa.Parameter)
				pi := -1
				for i, p := range h.Params {
					if p == par {
						pi = i
					}
				}
				sites := 0
				all := true
				eng.Instrs(fn, false, func(in2 ssa.Instruction) {
					call, isCall := in2.(ssa.CallInstruction)
					if !isCall || call.Common().StaticCallee() != h || pi < 0 || pi >= len(call.Common().Args) {
						return
					}
					sites++
					arg := call.Common().Args[pi]
					if !eng.GuardedBy(fn, in2.Block(), guard(arg, arg)) {
						all = false
					}
				})
				ok2 = sites > 0 && all
			}
			c.Check(ok2, R, fmt.Sprintf("%s#offsets-index%d", eng.FuncName(h), n), ia.Pos(), "guarded by len(offsets)", "the offset table is indexed without comparing the index with len(offsets): after a header that failed half way the table is shorter than /N and the access panics")
		})
	}
	if n == 0 {
		c.Undec(R, "core.(*ObjectStream).GetObjectByIndex#offsets-index", fn.Pos(), "no parameter-indexed access of the offset table found")
	}
}

// R4.7 [C04]: deep resolution builds copies
func ruleResolveDeepCopies(c *eng.Ctx) {
	const R = "R4.7-RESOLVE-DEEP-COPIES"
	c.Rule(R, "Reader.resolveDeep never writes into the array or dictionary it was given or resolved (those are the objects held by the object cache): it builds new containers, so later lookups of the same object number still see the stored references", 1, 0)
	fn := c.P.Func("reader.(*Reader).resolveDeep")
	if fn == nil {
		c.Undec(R, "reader.(*Reader).resolveDeep", token.NoPos, "anchor not found")
		return
	}
	var bad []string
	fresh := func(v ssa.Value) bool {
		for w := range eng.Slice(v, nil) {
			switch w.(type) {
			case *ssa.MakeMap, *ssa.MakeSlice:
				return true
			}
		}
		return false
	}
	eng.Instrs(fn, false, func(in ssa.Instruction) {
		switch x := in.(type) {
		case *ssa.MapUpdate:
			if mt, ok := x.Map.Type().Underlying().(*types.Map); ok {
				if kt, ok := mt.Key().Underlying().(*types.Basic); ok && kt.Info()&types.IsInteger != 0 {
					return // the on-path set
				}
			}
			if !fresh(x.Map) {
				bad = append(bad, "dictionary entry stored into a container that was not created here at "+c.P.Pos(x.Pos()))
			}
		case *ssa.Store:
			if ia, ok := x.Addr.(*ssa.IndexAddr); ok && !fresh(ia.X) {
				bad = append(bad, "array element stored into a container that was not created here at "+c.P.Pos(x.Pos()))
			}
		}
	})
	sort.Strings(bad)
	c.Check(len(bad) == 0, R, "reader.(*Reader).resolveDeep#copies", fn.Pos(), "results are built in new containers", strings.Join(bad, "; ")+": the cached object is changed, and what GetObject returns afterwards depends on what was resolved before")
}

// R7.5b [C07]: bfrange destination increments carry
func ruleBfRangeCarry(c *eng.Ctx) {
	const R = "R7.5b-BFRANGE-CARRY"
	c.Rule(R, "the expansion of a bfrange with a multi-unit destination advances the last 16-bit code unit (arithmetic in uint16 or wider): incrementing the last byte alone loses the carry once its low byte passes 0xFF", 1, 0)
	fn := c.P.Func("font.(*CMap).addMultiUnitRange")
	if fn == nil {
		c.Undec(R, "font.(*CMap).addMultiUnitRange", token.NoPos, "anchor not found")
		return
	}
	wide, narrow := false, ""
	eng.Instrs(fn, false, func(in ssa.Instruction) {
		b, ok := in.(*ssa.BinOp)
		if !ok || b.Op != token.ADD {
			return
		}
		bt, ok := b.Type().Underlying().(*types.Basic)
		if !ok {
			return
		}
		switch bt.Kind() {
		case types.Uint16, types.Uint32, types.Int, types.Uint, types.Int32, types.Uint64, types.Int64:
			if !eng.InLoop(b.Block()) {
				return
			}
			if _, isInd := eng.Induction(b); !isInd {
				if _, isInd2 := eng.Induction(b.X); !isInd2 || bt.Kind() == types.Uint16 {
					wide = true
				}
			}
		case types.Uint8:
			if eng.InLoop(b.Block()) {
				narrow = c.P.Pos(b.Pos())
			}
		}
	})
	c.Check(wide && narrow == "", R, "font.(*CMap).addMultiUnitRange#increment", fn.Pos(), "the destination advances as a 16-bit unit", "the destination of a bfrange is advanced by byte arithmetic ("+narrow+"): codes past a 0xFF low byte decode 0x100 too low")
}
