package rules

import (
	"go/token"
	"go/types"

	"golang.org/x/tools/go/ssa"

	"verif/checker/eng"
)

// Idioms shared by the rules added after the fifth round.

// sortedInsertStores returns the stores `s[pos] = v` of fn where v satisfies
// isVal and pos is derived from sort.SearchInts(s', v') with v' satisfying
// isVal: the element is placed where a binary search says it belongs, so an
// ascending slice stays ascending.
func sortedInsertStores(fn *ssa.Function, isVal func(ssa.Value) bool) []*ssa.Store {
	var out []*ssa.Store
	eng.Instrs(fn, false, func(in ssa.Instruction) {
		st, ok := in.(*ssa.Store)
		if !ok {
			return
		}
		ia, ok := st.Addr.(*ssa.IndexAddr)
		if !ok || !isVal(st.Val) {
			return
		}
		if fromSearchInts(ia.Index, isVal) {
			out = append(out, st)
		}
	})
	return out
}

func fromSearchInts(v ssa.Value, isVal func(ssa.Value) bool) bool {
	for w := range eng.Slice(v, func(*ssa.Call) bool { return true }) {
		if call, ok := w.(*ssa.Call); ok && eng.CalleeName(call) == "sort.SearchInts" && len(call.Call.Args) == 2 {
			if isVal == nil || isVal(call.Call.Args[1]) {
				return true
			}
		}
	}
	return false
}

// sortedInsertDedup reports whether every path to blk established that the
// value is not yet in the ascending slice: either the search position is past
// the end (pos >= len(s)) or the element found there differs (s[pos] != v).
func sortedInsertDedup(fn *ssa.Function, blk *ssa.BasicBlock, isVal func(ssa.Value) bool) bool {
	elem := func(v ssa.Value) bool {
		u, ok := v.(*ssa.UnOp)
		if !ok || u.Op != token.MUL {
			return false
		}
		ia, isEl := u.X.(*ssa.IndexAddr)
		return isEl && fromSearchInts(ia.Index, isVal)
	}
	return eng.GuardedBy(fn, blk, func(f eng.Fact) bool {
		op, x, y, ok := f.Cmp()
		if !ok {
			return false
		}
		if op == token.LEQ {
			op, x, y = token.GEQ, y, x
		}
		switch op {
		case token.GEQ:
			if c, ok := y.(*ssa.Call); ok && eng.CalleeName(c) == "builtin:len" {
				return fromSearchInts(x, isVal)
			}
		case token.NEQ:
			return (isVal(x) && elem(y)) || (isVal(y) && elem(x))
		}
		return false
	})
}

func lastIf(b *ssa.BasicBlock) (*ssa.If, bool) {
	if len(b.Instrs) == 0 {
		return nil, false
	}
	iff, ok := b.Instrs[len(b.Instrs)-1].(*ssa.If)
	return iff, ok
}

// splitLoop abstracts the state of a "cut pieces off the front of a remaining
// string" loop. The remaining text is either a loop-carried string phi of the
// host function, or a string field of a local state struct of the host that is
// advanced by the host or by methods the host's loop calls on that struct.
type splitLoop struct {
	host  *ssa.Function
	rem   *ssa.Phi
	base  ssa.Value
	field int
	steps []splitStep
}

type splitStep struct {
	fn   *ssa.Function
	base ssa.Value // the state struct as seen in fn (field mode)
}

type remUpdate struct {
	step splitStep
	blk  *ssa.BasicBlock // every path to the update passes through the start of this block
	val  ssa.Value
	pos  token.Pos
}

func findSplitLoop(fn *ssa.Function) *splitLoop {
	l := &splitLoop{host: fn, field: -1}
	eng.Instrs(fn, false, func(in ssa.Instruction) {
		if ph, ok := in.(*ssa.Phi); ok && l.rem == nil {
			if b, ok := ph.Type().Underlying().(*types.Basic); ok && b.Kind() == types.String && isLoopCarried(ph) {
				l.rem = ph
			}
		}
	})
	if l.rem != nil {
		l.steps = []splitStep{{fn, nil}}
		return l
	}
	for _, b := range fn.Blocks {
		iff, ok := lastIf(b)
		if !ok || !eng.InLoop(b) || l.base != nil {
			continue
		}
		for w := range eng.Slice(iff.Cond, nil) {
			call, ok := w.(*ssa.Call)
			if !ok || eng.CalleeName(call) != "builtin:len" {
				continue
			}
			u, ok := call.Call.Args[0].(*ssa.UnOp)
			if !ok || u.Op != token.MUL {
				continue
			}
			if bt, ok := u.Type().Underlying().(*types.Basic); !ok || bt.Kind() != types.String {
				continue
			}
			if fa, ok := u.X.(*ssa.FieldAddr); ok {
				if _, isAl := fa.X.(*ssa.Alloc); isAl {
					l.base, l.field = fa.X, fa.Field
				}
			}
		}
	}
	if l.base == nil {
		return nil
	}
	l.steps = []splitStep{{fn, l.base}}
	seen := map[*ssa.Function]bool{fn: true}
	eng.Instrs(fn, false, func(in ssa.Instruction) {
		call, ok := in.(*ssa.Call)
		if !ok || !eng.InLoop(call.Block()) {
			return
		}
		g := call.Call.StaticCallee()
		if g == nil || seen[g] || len(g.Blocks) == 0 || len(g.Params) == 0 || len(call.Call.Args) == 0 || call.Call.Args[0] != l.base {
			return
		}
		seen[g] = true
		l.steps = append(l.steps, splitStep{g, g.Params[0]})
	})
	return l
}

// isRemLoad: v is exactly the remaining text as seen in step s.
func (l *splitLoop) isRemLoad(v ssa.Value, s splitStep) bool {
	if l.rem != nil {
		return v == ssa.Value(l.rem)
	}
	u, ok := v.(*ssa.UnOp)
	if !ok || u.Op != token.MUL {
		return false
	}
	fa, ok := u.X.(*ssa.FieldAddr)
	return ok && fa.X == s.base && fa.Field == l.field
}

// derivesRem: v is computed from the remaining text.
func (l *splitLoop) derivesRem(v ssa.Value, s splitStep) bool {
	for w := range eng.Slice(v, nil) {
		if l.isRemLoad(w, s) {
			return true
		}
	}
	return false
}

// updates lists the values the remaining text is replaced by inside the loop.
func (l *splitLoop) updates() []remUpdate {
	var out []remUpdate
	if l.rem != nil {
		for i, e := range l.rem.Edges {
			pred := l.rem.Block().Preds[i]
			if !l.rem.Block().Dominates(pred) {
				continue
			}
			out = append(out, remUpdate{l.steps[0], pred, e, l.rem.Pos()})
		}
		return out
	}
	for _, s := range l.steps {
		eng.Instrs(s.fn, false, func(in ssa.Instruction) {
			st, ok := in.(*ssa.Store)
			if !ok {
				return
			}
			fa, ok := st.Addr.(*ssa.FieldAddr)
			if !ok || fa.X != s.base || fa.Field != l.field {
				return
			}
			if s.fn == l.host && !eng.InLoop(st.Block()) {
				return // initialisation before the loop
			}
			out = append(out, remUpdate{s, st.Block(), st.Val, st.Pos()})
		})
	}
	return out
}

// funcs returns the functions that make up the loop body.
func (l *splitLoop) funcs() []*ssa.Function {
	var out []*ssa.Function
	for _, s := range l.steps {
		out = append(out, s.fn)
	}
	return out
}

// minMaxCall: see eng.MinMaxCall.
func minMaxCall(v ssa.Value) (kind int, args []ssa.Value, ok bool) { return eng.MinMaxCall(v) }
