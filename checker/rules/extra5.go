package rules

import (
	"fmt"
	"go/constant"
	"go/token"
	"go/types"
	"os"
	"reflect"
	"sort"
	"strings"

	"golang.org/x/tools/go/packages"
	"golang.org/x/tools/go/ssa"

	"verif/checker/eng"
)

// Idioms shared by the rules added after the fifth round.

// sortedInsertStores returns the stores `s[pos] = v` of fn where v satisfies
// isVal and pos is derived from sort.SearchInts(s', v') with v' satisfying
// isVal: the element is placed where a binary search says it belongs, so an
// ascending slice stays ascending.
func sortedInsertStores(fn *ssa.Function, isVal func(ssa.Value) bool) []*ssa.Store {
	var out []*ssa.Store
	eng.Instrs(fn, false, func(in ssa.Instruction) {
		st, ok := in.(*ssa.Store)
		if !ok {
			return
		}
		ia, ok := st.Addr.(*ssa.IndexAddr)
		if !ok || !isVal(st.Val) {
			return
		}
		if fromSearchInts(ia.Index, isVal) {
			out = append(out, st)
		}
	})
	return out
}

func fromSearchInts(v ssa.Value, isVal func(ssa.Value) bool) bool {
	for w := range eng.Slice(v, func(*ssa.Call) bool { return true }) {
		if call, ok := w.(*ssa.Call); ok && eng.CalleeName(call) == "sort.SearchInts" && len(call.Call.Args) == 2 {
			if isVal == nil || isVal(call.Call.Args[1]) {
				return true
			}
		}
	}
	return false
}

// sortedInsertDedup reports whether every path to blk established that the
// value is not yet in the ascending slice: either the search position is past
// the end (pos >= len(s)) or the element found there differs (s[pos] != v).
func sortedInsertDedup(fn *ssa.Function, blk *ssa.BasicBlock, isVal func(ssa.Value) bool) bool {
	elem := func(v ssa.Value) bool {
		u, ok := v.(*ssa.UnOp)
		if !ok || u.Op != token.MUL {
			return false
		}
		ia, isEl := u.X.(*ssa.IndexAddr)
		return isEl && fromSearchInts(ia.Index, isVal)
	}
	return eng.GuardedBy(fn, blk, func(f eng.Fact) bool {
		op, x, y, ok := f.Cmp()
		if !ok {
			return false
		}
		if op == token.LEQ {
			op, x, y = token.GEQ, y, x
		}
		switch op {
		case token.GEQ:
			if c, ok := y.(*ssa.Call); ok && eng.CalleeName(c) == "builtin:len" {
				return fromSearchInts(x, isVal)
			}
		case token.NEQ:
			return (isVal(x) && elem(y)) || (isVal(y) && elem(x))
		}
		return false
	})
}

func lastIf(b *ssa.BasicBlock) (*ssa.If, bool) {
	if len(b.Instrs) == 0 {
		return nil, false
	}
	iff, ok := b.Instrs[len(b.Instrs)-1].(*ssa.If)
	return iff, ok
}

// splitLoop abstracts the state of a "cut pieces off the front of a remaining
// string" loop. The remaining text is either a loop-carried string phi of the
// host function, or a string field of a local state struct of the host that is
// advanced by the host or by methods the host's loop calls on that struct.
type splitLoop struct {
	host  *ssa.Function
	rem   *ssa.Phi
	base  ssa.Value
	field int
	steps []splitStep
}

type splitStep struct {
	fn   *ssa.Function
	base ssa.Value // the state struct as seen in fn (field mode)
}

type remUpdate struct {
	step splitStep
	blk  *ssa.BasicBlock // every path to the update passes through the start of this block
	val  ssa.Value
	pos  token.Pos
}

func findSplitLoop(fn *ssa.Function) *splitLoop {
	l := &splitLoop{host: fn, field: -1}
	eng.Instrs(fn, false, func(in ssa.Instruction) {
		if ph, ok := in.(*ssa.Phi); ok && l.rem == nil {
			if b, ok := ph.Type().Underlying().(*types.Basic); ok && b.Kind() == types.String && isLoopCarried(ph) {
				l.rem = ph
			}
		}
	})
	if l.rem != nil {
		l.steps = []splitStep{{fn, nil}}
		return l
	}
	for _, b := range fn.Blocks {
		iff, ok := lastIf(b)
		if !ok || !eng.InLoop(b) || l.base != nil {
			continue
		}
		for w := range eng.Slice(iff.Cond, nil) {
			call, ok := w.(*ssa.Call)
			if !ok || eng.CalleeName(call) != "builtin:len" {
				continue
			}
			u, ok := call.Call.Args[0].(*ssa.UnOp)
			if !ok || u.Op != token.MUL {
				continue
			}
			if bt, ok := u.Type().Underlying().(*types.Basic); !ok || bt.Kind() != types.String {
				continue
			}
			if fa, ok := u.X.(*ssa.FieldAddr); ok {
				if _, isAl := fa.X.(*ssa.Alloc); isAl {
					l.base, l.field = fa.X, fa.Field
				}
			}
		}
	}
	if l.base == nil {
		return nil
	}
	l.steps = []splitStep{{fn, l.base}}
	seen := map[*ssa.Function]bool{fn: true}
	eng.Instrs(fn, false, func(in ssa.Instruction) {
		call, ok := in.(*ssa.Call)
		if !ok || !eng.InLoop(call.Block()) {
			return
		}
		g := eng.StaticCallee(call)
		if g == nil || seen[g] || len(g.Blocks) == 0 || len(g.Params) == 0 || len(call.Call.Args) == 0 || call.Call.Args[0] != l.base {
			return
		}
		seen[g] = true
		l.steps = append(l.steps, splitStep{g, g.Params[0]})
	})
	return l
}

// isRemLoad: v is exactly the remaining text as seen in step s.
func (l *splitLoop) isRemLoad(v ssa.Value, s splitStep) bool {
	if l.rem != nil {
		return v == ssa.Value(l.rem)
	}
	u, ok := v.(*ssa.UnOp)
	if !ok || u.Op != token.MUL {
		return false
	}
	fa, ok := u.X.(*ssa.FieldAddr)
	return ok && fa.X == s.base && fa.Field == l.field
}

// derivesRem: v is computed from the remaining text.
func (l *splitLoop) derivesRem(v ssa.Value, s splitStep) bool {
	for w := range eng.Slice(v, nil) {
		if l.isRemLoad(w, s) {
			return true
		}
	}
	return false
}

// updates lists the values the remaining text is replaced by inside the loop.
func (l *splitLoop) updates() []remUpdate {
	var out []remUpdate
	if l.rem != nil {
		for i, e := range l.rem.Edges {
			pred := l.rem.Block().Preds[i]
			if !l.rem.Block().Dominates(pred) {
				continue
			}
			out = append(out, remUpdate{l.steps[0], pred, e, l.rem.Pos()})
		}
		return out
	}
	for _, s := range l.steps {
		eng.Instrs(s.fn, false, func(in ssa.Instruction) {
			st, ok := in.(*ssa.Store)
			if !ok {
				return
			}
			fa, ok := st.Addr.(*ssa.FieldAddr)
			if !ok || fa.X != s.base || fa.Field != l.field {
				return
			}
			if s.fn == l.host && !eng.InLoop(st.Block()) {
				return // initialisation before the loop
			}
			out = append(out, remUpdate{s, st.Block(), st.Val, st.Pos()})
		})
	}
	return out
}

// funcs returns the functions that make up the loop body.
func (l *splitLoop) funcs() []*ssa.Function {
	var out []*ssa.Function
	for _, s := range l.steps {
		out = append(out, s.fn)
	}
	return out
}

// minMaxCall: see eng.MinMaxCall.
func minMaxCall(v ssa.Value) (kind int, args []ssa.Value, ok bool) { return eng.MinMaxCall(v) }

// ---------------------------------------------------------------------------
// A small interprocedural term evaluator: integer expressions are reduced to
// polynomials over symbols, across calls of module functions (parameters are
// bound to the caller's arguments), through min/max helpers and non-loop phis
// (both give a set of alternatives), and through fields of a local object:
// a field stored once before any loop is replaced by the stored value, a field
// that is advanced in a loop or by a method becomes the symbol "state.<name>".

type symEnv struct {
	fn     *ssa.Function
	call   *ssa.Call
	parent *symEnv
}

type symStore struct {
	st  *ssa.Store
	env *symEnv
}

type symCtx struct {
	leaf   func(v ssa.Value) (*eng.Poly, bool)
	states map[string][]symStore // state symbol -> the stores that advance it
}

func (e *symEnv) bound(p *ssa.Parameter) (ssa.Value, *symEnv, bool) {
	if e == nil || e.call == nil {
		return nil, nil, false
	}
	for i, q := range e.fn.Params {
		if q == p && i < len(e.call.Call.Args) {
			return e.call.Call.Args[i], e.parent, true
		}
	}
	return nil, nil, false
}

// fieldStores lists the stores to field f of the object base (an Alloc of e.fn):
// in e.fn itself and in the functions e.fn calls with the object as first argument.
func fieldStores(base ssa.Value, f int, e *symEnv) []symStore {
	var out []symStore
	eng.Instrs(e.fn, false, func(in ssa.Instruction) {
		switch x := in.(type) {
		case *ssa.Store:
			if fa, ok := x.Addr.(*ssa.FieldAddr); ok && fa.X == base && fa.Field == f {
				out = append(out, symStore{x, e})
			}
		case *ssa.Call:
			g := eng.StaticCallee(x)
			if g == nil || len(g.Blocks) == 0 || len(g.Params) == 0 || len(x.Call.Args) == 0 || x.Call.Args[0] != base {
				return
			}
			ge := &symEnv{g, x, e}
			eng.Instrs(g, false, func(in2 ssa.Instruction) {
				if st, ok := in2.(*ssa.Store); ok {
					if fa, ok := st.Addr.(*ssa.FieldAddr); ok && fa.X == ssa.Value(g.Params[0]) && fa.Field == f {
						out = append(out, symStore{st, ge})
					}
				}
			})
		}
	})
	return out
}

// resolve follows parameter bindings and init-only fields to the value they stand for.
func (c *symCtx) resolve(v ssa.Value, e *symEnv) (ssa.Value, *symEnv) {
	for i := 0; i < 16; i++ {
		switch x := v.(type) {
		case *ssa.Parameter:
			if a, pe, ok := e.bound(x); ok {
				v, e = a, pe
				continue
			}
		case *ssa.UnOp:
			if x.Op != token.MUL {
				return v, e
			}
			fa, ok := x.X.(*ssa.FieldAddr)
			if !ok {
				return v, e
			}
			base, be := c.resolve(fa.X, e)
			if _, isAl := base.(*ssa.Alloc); !isAl || be == nil {
				return v, e
			}
			sts := fieldStores(base, fa.Field, be)
			if len(sts) == 1 && sts[0].env == be && !eng.InLoop(sts[0].st.Block()) {
				v, e = sts[0].st.Val, be
				continue
			}
		}
		return v, e
	}
	return v, e
}

// alts evaluates v in environment e to the set of polynomials it may equal
// (several for min/max and clamping phis). nil when it cannot be evaluated.
func (c *symCtx) alts(v ssa.Value, e *symEnv, depth int) []*eng.Poly {
	if depth > 8 {
		return nil
	}
	v, e = c.resolve(v, e)
	union := func(vs []ssa.Value, ve *symEnv) []*eng.Poly {
		var out []*eng.Poly
		for _, w := range vs {
			a := c.alts(w, ve, depth+1)
			if a == nil {
				return nil
			}
		next:
			for _, p := range a {
				for _, q := range out {
					if q.Equal(p) {
						continue next
					}
				}
				out = append(out, p)
			}
		}
		return out
	}
	results := func(call *ssa.Call, idx int) []*eng.Poly {
		g := eng.StaticCallee(call)
		if g == nil || len(g.Blocks) == 0 || !eng.InModule(g) {
			return nil
		}
		ge := &symEnv{g, call, e}
		var vs []ssa.Value
		for _, r := range eng.Returns(g) {
			rv := eng.ReturnValues(r)
			if idx >= len(rv) {
				return nil
			}
			vs = append(vs, rv[idx])
		}
		if len(vs) == 0 {
			return nil
		}
		return union(vs, ge)
	}
	switch x := v.(type) {
	case *ssa.Phi:
		if !isLoopCarried(x) {
			return union(x.Edges, e)
		}
	case *ssa.Call:
		if _, args, ok := minMaxCall(x); ok {
			return union(args, e)
		}
		if _, isB := x.Call.Value.(*ssa.Builtin); !isB {
			if c.leaf != nil {
				if p, ok := c.leaf(x); ok {
					return []*eng.Poly{p}
				}
			}
			return results(x, 0)
		}
	case *ssa.Extract:
		if call, ok := x.Tuple.(*ssa.Call); ok {
			return results(call, x.Index)
		}
	}
	p, ok := eng.IntPoly(v, func(w ssa.Value) (*eng.Poly, bool) {
		if c.leaf != nil {
			if p, ok := c.leaf(w); ok {
				return p, true
			}
		}
		rw, re := c.resolve(w, e)
		if rw != w || re != e {
			if a := c.alts(rw, re, depth+1); len(a) == 1 {
				return a[0], true
			}
			return nil, false
		}
		switch y := w.(type) {
		case *ssa.Parameter:
			return eng.PSym(y.Name()), true
		case *ssa.UnOp:
			if y.Op == token.MUL {
				if fa, ok := y.X.(*ssa.FieldAddr); ok {
					base, be := c.resolve(fa.X, e)
					if al, isAl := base.(*ssa.Alloc); isAl && be != nil {
						sts := fieldStores(base, fa.Field, be)
						if len(sts) == 0 {
							return eng.PConst(0), true
						}
						name := "state." + fieldNameOf(al, fa.Field)
						if c.states == nil {
							c.states = map[string][]symStore{}
						}
						c.states[name] = sts
						return eng.PSym(name), true
					}
				}
			}
		case *ssa.Call:
			if b, ok := y.Call.Value.(*ssa.Builtin); ok && b.Name() == "len" && len(y.Call.Args) == 1 {
				lv, _ := c.resolve(y.Call.Args[0], e)
				if p, ok := lv.(*ssa.Parameter); ok {
					return eng.PSym("len(" + p.Name() + ")"), true
				}
				return nil, false
			}
			if a := c.alts(y, e, depth+1); len(a) == 1 {
				return a[0], true
			}
		case *ssa.Phi, *ssa.Extract:
			if a := c.alts(y, e, depth+1); len(a) == 1 && w != v {
				return a[0], true
			}
		}
		return nil, false
	})
	if !ok {
		return nil
	}
	return []*eng.Poly{p}
}

func fieldNameOf(al *ssa.Alloc, f int) string {
	t := al.Type().Underlying().(*types.Pointer).Elem().Underlying()
	if st, ok := t.(*types.Struct); ok && f < st.NumFields() {
		return st.Field(f).Name()
	}
	return fmt.Sprintf("f%d", f)
}

func polySetEqual(a, b []*eng.Poly) bool {
	if len(a) != len(b) || len(a) == 0 {
		return false
	}
	for _, p := range a {
		found := false
		for _, q := range b {
			if p.Equal(q) {
				found = true
			}
		}
		if !found {
			return false
		}
	}
	return true
}

// ---------------------------------------------------------------------------
// paramMutations computes, for every module function, which of its slice
// parameters it writes through: an element store, a copy into it, an in-place
// sort, an append onto a re-sliced prefix (p[:0], p[:k] — the new elements
// land in the caller's backing array), or handing it to a function that does.
type mutInfo struct {
	pos  token.Pos
	what string
}

func rootParam(v ssa.Value, fn *ssa.Function) int {
	return rootParamSeen(v, fn, map[ssa.Value]bool{})
}

func rootParamSeen(v ssa.Value, fn *ssa.Function, seen map[ssa.Value]bool) int {
	for v != nil && !seen[v] {
		seen[v] = true
		switch x := v.(type) {
		case *ssa.Parameter:
			for k, p := range fn.Params {
				if p == x {
					if _, ok := p.Type().Underlying().(*types.Slice); ok {
						return k
					}
				}
			}
			return -1
		case *ssa.Slice:
			v = x.X
		case *ssa.ChangeType:
			v = x.X
		case *ssa.Phi:
			// a phi rooted at the parameter on any edge
			for _, e := range x.Edges {
				if k := rootParamSeen(e, fn, seen); k >= 0 {
					return k
				}
			}
			return -1
		case *ssa.UnOp:
			// a parameter captured by a closure lives in a cell: follow the cell's stores
			al, ok := x.X.(*ssa.Alloc)
			if x.Op != token.MUL || !ok {
				return -1
			}
			for _, r := range *al.Referrers() {
				if st, ok := r.(*ssa.Store); ok && st.Addr == ssa.Value(al) {
					if k := rootParamSeen(st.Val, fn, seen); k >= 0 {
						return k
					}
				}
			}
			return -1
		default:
			return -1
		}
	}
	return -1
}

// prefixRoot: v is (an accumulator that started as) a re-sliced prefix p[:k] of slice parameter p, so that
// appending to it overwrites elements of the caller's backing array. Returns the parameter index or -1.
func prefixRoot(v ssa.Value, fn *ssa.Function, seen map[ssa.Value]bool) int {
	if v == nil || seen[v] {
		return -1
	}
	seen[v] = true
	switch x := v.(type) {
	case *ssa.Slice:
		if x.High != nil {
			return rootParam(x.X, fn)
		}
		return prefixRoot(x.X, fn, seen)
	case *ssa.Phi:
		for _, e := range x.Edges {
			if k := prefixRoot(e, fn, seen); k >= 0 {
				return k
			}
		}
	case *ssa.Call:
		if eng.CalleeName(x) == "builtin:append" && len(x.Call.Args) > 0 {
			return prefixRoot(x.Call.Args[0], fn, seen)
		}
	}
	return -1
}

var sortInPlace = map[string]bool{
	"sort.Slice": true, "sort.SliceStable": true, "sort.Sort": true, "sort.Stable": true, "sort.Ints": true,
	"sort.Strings": true, "sort.Float64s": true, "slices.Sort": true, "slices.SortFunc": true, "slices.SortStableFunc": true, "slices.Reverse": true,
}

func paramMutations(p *eng.Prog) map[*ssa.Function]map[int]mutInfo {
	out := map[*ssa.Function]map[int]mutInfo{}
	fns := p.ModuleFuncs()
	set := func(fn *ssa.Function, k int, pos token.Pos, what string) bool {
		if k < 0 {
			return false
		}
		if out[fn] == nil {
			out[fn] = map[int]mutInfo{}
		}
		if _, dup := out[fn][k]; dup {
			return false
		}
		out[fn][k] = mutInfo{pos, what}
		return true
	}
	for changed, round := true, 0; changed && round < 6; round++ {
		changed = false
		for _, fn := range fns {
			if fn.Blocks == nil {
				continue
			}
			eng.Instrs(fn, false, func(in ssa.Instruction) {
				switch x := in.(type) {
				case *ssa.Store:
					if ia, ok := x.Addr.(*ssa.IndexAddr); ok {
						if set(fn, rootParam(ia.X, fn), x.Pos(), "element store") {
							changed = true
						}
					}
				case ssa.CallInstruction:
					com := x.Common()
					name := eng.CalleeName(x)
					switch {
					case name == "builtin:copy" && len(com.Args) == 2:
						if set(fn, rootParam(com.Args[0], fn), x.Pos(), "copy into it") {
							changed = true
						}
					case name == "builtin:append" && len(com.Args) >= 1:
						if set(fn, prefixRoot(com.Args[0], fn, map[ssa.Value]bool{}), x.Pos(), "append onto a re-sliced prefix") {
							changed = true
						}
					case sortInPlace[name] && len(com.Args) >= 1:
						a := com.Args[0]
						if mi, ok := a.(*ssa.MakeInterface); ok {
							a = mi.X
						}
						if set(fn, rootParam(a, fn), x.Pos(), "sorted in place ("+name+")") {
							changed = true
						}
					default:
						if g := com.StaticCallee(); g != nil && out[g] != nil {
							for k, mi := range out[g] {
								if k < len(com.Args) {
									if set(fn, rootParam(com.Args[k], fn), x.Pos(), "handed to "+eng.FuncName(g)+" ("+mi.what+")") {
										changed = true
									}
								}
							}
						}
					}
				}
			})
		}
	}
	return out
}

// R3.8 [C03, C11]
func ruleInputReadonly(c *eng.Ctx) {
	const R = "R3.8-INPUT-READONLY"
	c.Rule(R, "functions that receive data the caller keeps (the raw bytes of a cached stream handed to a filter, the fragments of a page handed to header/footer detection) do not write through that slice: no element store, copy, in-place sort or append onto a re-sliced prefix, directly or in a callee", 60, 1)
	mut := paramMutations(c.P)
	hf := map[*ssa.Function]bool{}
	if det := c.P.Func("layout.(*HeaderFooterDetector).Detect"); det != nil {
		for _, f := range eng.Cluster(det, 4) {
			hf[f] = true
		}
	} else {
		c.Undec(R, "layout.(*HeaderFooterDetector).Detect", token.NoPos, "anchor not found")
	}
	for _, fn := range c.P.ModuleFuncs() {
		if fn.Pkg == nil || fn.Parent() != nil {
			continue
		}
		path := fn.Pkg.Pkg.Path()
		inFilters := strings.HasSuffix(path, "internal/filters")
		exported := false
		if obj, ok := fn.Object().(*types.Func); ok && obj.Exported() {
			exported = true
			if recv := fn.Signature.Recv(); recv != nil {
				t := recv.Type()
				if pt, ok := t.(*types.Pointer); ok {
					t = pt.Elem()
				}
				if nt, ok := t.(*types.Named); ok && !nt.Obj().Exported() {
					exported = false
				}
			}
		}
		// an unexported helper of the detector is judged only for parameters that some caller fills with data it did
		// not build itself (a parameter, a field): a helper that sorts a group its caller just assembled in a
		// slice of its own touches nobody's input
		if !inFilters && !exported && !hf[fn] && !strings.Contains(path, eng.PositivePkg) {
			continue
		}
		helperOnly := !inFilters && !exported && hf[fn] && !strings.Contains(path, eng.PositivePkg)
		for k, p := range fn.Params {
			if _, ok := p.Type().Underlying().(*types.Slice); !ok {
				continue
			}
			key := fmt.Sprintf("%s#%s", eng.FuncName(fn), p.Name())
			if helperOnly && allCallersPassOwnStorage(c.P, fn, k) {
				c.Ok(R, key, fn.Pos(), "only ever given a slice its caller built itself")
				continue
			}
			if mi, bad := mut[fn][k]; bad {
				c.Viol(R, key, mi.pos, "the caller's slice "+p.Name()+" is written through ("+mi.what+"): data the caller keeps (cached stream bytes, a page's fragments) is changed by the call, so a second call on the same input sees something else")
			} else {
				c.Ok(R, key, fn.Pos(), "not written through")
			}
		}
	}
}

// R19.14 [C19]
func ruleTextCollectorSkipsHidden(c *eng.Ctx) {
	const R = "R19.14-COLLECTOR-SKIPS-HIDDEN"
	c.Rule(R, "a recursive text collector of the HTML reader (a function that writes the data of text nodes and calls itself on the children) does not descend into a script or style element: the block-level walk only skips those where it meets them, a script nested inside a paragraph or cell is reached through the collector alone (a collector that walks with an explicit stack must at least consult the skip test)", 0, 0)
	n := 0
	for _, f := range c.P.ModuleFuncs() {
		if f.Pkg == nil || eng.ShortPath(f.Pkg.Pkg.Path()) != "htmldoc" || f.Parent() != nil {
			continue
		}
		var self ssa.Value
		for _, p := range f.Params {
			if strings.HasSuffix(eng.TypeName(p.Type()), "html.Node") {
				self = p
				break
			}
		}
		if self == nil {
			continue
		}
		// emits the data of text nodes
		emits := false
		for _, ci := range eng.Calls(f, false, func(nm string, wc ssa.CallInstruction) bool { return isStringWrite(nm, wc) }) {
			args := ci.Common().Args
			if base, ok := htmlNodeField(args[len(args)-1], "Data"); ok && base == self {
				emits = true
			}
		}
		if !emits {
			continue
		}
		descends := func(in ssa.Instruction) bool {
			ci, ok := in.(ssa.CallInstruction)
			if !ok || eng.StaticCallee(ci) != f {
				return false
			}
			for _, a := range ci.Common().Args {
				if a == self {
					return false
				}
			}
			return true
		}
		rec := false
		eng.Instrs(f, false, func(in ssa.Instruction) {
			if descends(in) {
				rec = true
			}
		})
		if !rec {
			continue
		}
		elem, ok := htmlConst(f, "ElementNode")
		if !ok {
			c.Undec(R, eng.FuncName(f), f.Pos(), "html.ElementNode not found")
			continue
		}
		n++
		isSelfData := func(v ssa.Value) bool {
			base, ok := htmlNodeField(v, "Data")
			return ok && base == self
		}
		leaf := func(v ssa.Value, _ *eng.StrIntern) (int64, bool) {
			if base, ok := htmlNodeField(v, "Type"); ok && base == self {
				return elem, true
			}
			return 0, false
		}
		got := eng.StrReach(f, []string{"script", "style"}, isSelfData, leaf, descends)
		var leak []string
		for _, t := range []string{"script", "style"} {
			if got[t] {
				leak = append(leak, "<"+t+">")
			}
		}
		c.Check(len(leak) == 0, R, eng.FuncName(f), f.Pos(), "script and style are not descended into",
			"the collector descends into "+strings.Join(leak, ", ")+": source text of a script or style sheet nested in a content element is returned as document text")
	}
	if n > 0 {
		return
	}
	// no recursive collector: the walk may be a loop over an explicit stack. Such a collector (it writes the Data of
	// a node and follows FirstChild/NextSibling) must at least consult the skip predicate of the package, or compare
	// an element name with script and style itself
	m := 0
	for _, f := range c.P.ModuleFuncs() {
		if f.Pkg == nil || f.Blocks == nil || eng.ShortPath(f.Pkg.Pkg.Path()) != "htmldoc" {
			continue
		}
		emits, walks := false, false
		for _, ci := range eng.Calls(f, true, func(nm string, wc ssa.CallInstruction) bool { return isStringWrite(nm, wc) }) {
			args := ci.Common().Args
			if _, ok := htmlNodeField(args[len(args)-1], "Data"); ok {
				emits = true
			}
		}
		for _, h := range eng.Cluster(f, 1) {
			eng.Instrs(h, true, func(in ssa.Instruction) {
				if fa, ok := in.(*ssa.FieldAddr); ok {
					if fr, ok := eng.AsField(fa); ok && strings.HasSuffix(fr.Struct, "html.Node") && (fr.Field == "FirstChild" || fr.Field == "NextSibling" || fr.Field == "LastChild" || fr.Field == "PrevSibling") {
						walks = true
					}
				}
			})
		}
		// an explicit stack or work list of nodes
		stack := false
		for _, ci := range eng.Calls(f, true, func(nm string, _ ssa.CallInstruction) bool { return nm == "builtin:append" }) {
			if st, ok := ci.Value().Type().Underlying().(*types.Slice); ok {
				if strings.Contains(st.Elem().String(), "html.Node") {
					stack = true
				}
				if es, ok := st.Elem().Underlying().(*types.Struct); ok {
					for i := 0; i < es.NumFields(); i++ {
						if strings.Contains(es.Field(i).Type().String(), "html.Node") {
							stack = true
						}
					}
				}
			}
		}
		if !emits || !walks || !stack {
			continue
		}
		m++
		skips := false
		for _, h := range eng.Cluster(f, 2) {
			words := map[string]bool{}
			eng.Instrs(h, true, func(in ssa.Instruction) {
				for _, op := range in.Operands(nil) {
					if op == nil || *op == nil {
						continue
					}
					if s, ok := eng.ConstString(*op); ok && (s == "script" || s == "style") {
						words[s] = true
					}
				}
			})
			if words["script"] && words["style"] {
				skips = true
			}
		}
		c.Check(skips, R, eng.FuncName(f)+"#iterative", f.Pos(), "the iterative collector consults the skip test for script and style", "a text collector that walks the nodes itself never tests for script or style elements: their source text is returned as document text")
	}
	if m == 0 {
		c.Undec(R, "htmldoc#collector", token.NoPos, "no text collector (recursive, or iterative over a stack of nodes) found in the HTML reader")
	}
}

// R8.5 [C08]
func ruleFontSizeInputs(c *eng.Ctx) {
	const R = "R8.5-FONT-SIZE-INPUTS"
	c.Rule(R, "the effective font size reported for a fragment is computed from the Tf size and the text matrix only: it does not read the spacing and scaling parameters that move glyphs without resizing them (Tz horizontal scaling, Tc, Tw, TL, Ts)", 1, 0)
	fn := c.P.Func("graphicsstate.(*GraphicsState).GetEffectiveFontSize")
	if fn == nil {
		c.Undec(R, "graphicsstate.(*GraphicsState).GetEffectiveFontSize", token.NoPos, "anchor not found")
		return
	}
	forbidden := map[string]bool{"HorizontalScaling": true, "CharSpacing": true, "WordSpacing": true, "Leading": true, "Rise": true, "TextRise": true}
	var bad []string
	var uses, base bool
	for _, r := range eng.Returns(fn) {
		for _, rv := range eng.ReturnValues(r) {
			for v := range eng.SliceInter(rv, func(*ssa.Call) bool { return true }, eng.Cluster(fn, 2)) {
				fr, ok := eng.AsField(v)
				if !ok {
					continue
				}
				if forbidden[fr.Field] {
					bad = append(bad, fr.Field)
				}
				switch fr.Field {
				case "FontSize":
					base = true
				case "TextMatrix":
					uses = true
				}
			}
		}
	}
	bad = dedupStr(bad)
	c.Check(len(bad) == 0 && base && uses, R, "graphicsstate.(*GraphicsState).GetEffectiveFontSize", fn.Pos(), "size = f(FontSize, TextMatrix)",
		"the reported font size depends on "+strings.Join(bad, ", ")+" (or no longer on FontSize and the text matrix): text that differs only in spacing/scaling parameters gets different sizes and heights")
}

// R15.4 [C15]
func ruleHeadingBeforeList(c *eng.Ctx) {
	const R = "R15.4-HEADING-BEFORE-LIST"
	c.Rule(R, "in the docx and odt Markdown writers a paragraph is written as a list item only after it was found not to be a heading: a numbered heading (heading style plus numbering properties) stays a heading with its level", 1, 0)
	for _, fn := range c.P.ModuleFuncs() {
		if fn.Pkg == nil {
			continue
		}
		sp := eng.ShortPath(fn.Pkg.Pkg.Path())
		if sp != "docx" && sp != "odt" {
			continue
		}
		n := 0
		for _, ci := range eng.Calls(fn, false, func(nm string, _ ssa.CallInstruction) bool { return strings.HasSuffix(nm, ").writeMarkdownListItem") }) {
			n++
			notHeading := eng.GuardedBy(fn, ci.Block(), func(f eng.Fact) bool {
				if f.Pos {
					return false
				}
				fr, ok := eng.LoadOfField(f.Cond)
				return ok && fr.Field == "IsHeading"
			})
			c.Check(notHeading, R, fmt.Sprintf("%s#list-item%d", eng.FuncName(fn), n), ci.Pos(), "list item only when not a heading",
				"a paragraph can be written as a list item without having been tested for being a heading: a numbered heading loses its '#' marker and level")
		}
	}
}

// R15.5 [C15, C12, C19]
func ruleRowCellsComplete(c *eng.Ctx) {
	const R = "R15.5-ROW-CELLS-COMPLETE"
	c.Rule(R, "a table renderer writes every cell of every row: a loop that reads row[j] runs up to that row's own length, or up to a column count accumulated over all rows — never up to the length of one fixed row (the first), which silently drops the surplus cells of a wider row", 8, 0)
	for _, root := range c.P.ModuleFuncs() {
		if root.Name() != "ToMarkdown" || root.Signature.Recv() == nil || root.Pkg == nil {
			continue
		}
		rt := root.Signature.Recv().Type()
		if pt, ok := rt.(*types.Pointer); ok {
			rt = pt.Elem()
		}
		st, ok := rt.Underlying().(*types.Struct)
		if !ok {
			continue
		}
		hasRows := false
		for i := 0; i < st.NumFields(); i++ {
			if st.Field(i).Name() == "Rows" {
				hasRows = true
			}
		}
		if !hasRows {
			continue
		}
		cluster := eng.Cluster(root, 2)
		n := 0
		seenIA := map[*ssa.IndexAddr]bool{}
		for _, fn := range cluster {
			if fn.Pkg != root.Pkg {
				continue
			}
			eng.Instrs(fn, true, func(in ssa.Instruction) {
				ia, ok := in.(*ssa.IndexAddr)
				if !ok || seenIA[ia] {
					return
				}
				seenIA[ia] = true
				fn := ia.Parent()
				// a row: a slice of cell structs (with a Text field) or of strings
				sl, ok := ia.X.Type().Underlying().(*types.Slice)
				if !ok {
					return
				}
				isCell := false
				switch et := sl.Elem().Underlying().(type) {
				case *types.Struct:
					for i := 0; i < et.NumFields(); i++ {
						if et.Field(i).Name() == "Text" || et.Field(i).Name() == "Value" {
							isCell = true
						}
					}
				case *types.Basic:
					isCell = et.Kind() == types.String
				}
				if !isCell {
					return
				}
				ph, isInd := eng.Induction(ia.Index)
				if !isInd {
					return
				}
				// the loop bound of the induction variable
				var bound ssa.Value
				for _, cand := range []ssa.Value{ph, ia.Index} {
					for _, r := range *cand.Referrers() {
						if b, ok := r.(*ssa.BinOp); ok && b.Op == token.LSS && b.X == cand && bound == nil {
							if _, isIf := lastIf(b.Block()); isIf && eng.InLoop(b.Block()) {
								bound = b.Y
							}
						}
					}
				}
				if bound == nil {
					return
				}
				n++
				key := fmt.Sprintf("%s#cells%d", eng.FuncName(fn), n)
				if call, ok := bound.(*ssa.Call); ok && eng.CalleeName(call) == "builtin:len" && eng.SameValue(call.Call.Args[0], ia.X) {
					c.Ok(R, key, ia.Pos(), "runs to the row's own length")
					return
				}
				acc, fixed := false, false
				for v := range sliceWithFreeVars(bound, cluster) {
					switch x := v.(type) {
					case *ssa.Phi:
						if isLoopCarried(x) {
							if _, isI := eng.Induction(x); !isI {
								acc = true
							}
						}
					case *ssa.Call:
						if eng.CalleeName(x) != "builtin:len" {
							continue
						}
						if ld, ok := x.Call.Args[0].(*ssa.UnOp); ok && ld.Op == token.MUL {
							if ra, ok := ld.X.(*ssa.IndexAddr); ok {
								if _, isC := eng.ConstInt(ra.Index); isC {
									fixed = true
								}
							}
						}
					}
				}
				c.Check(acc || !fixed, R, key, ia.Pos(), "bound is accumulated over all rows",
					"the cells of a row are written up to the length of one fixed row: a row wider than that one loses its surplus cells")
			})
		}
	}
}

// sliceWithFreeVars is eng.SliceInter that also follows the free variables of closures to the values the
// enclosing function stores in the captured cells.
func sliceWithFreeVars(v ssa.Value, cluster []*ssa.Function) map[ssa.Value]bool {
	out := map[ssa.Value]bool{}
	work := []ssa.Value{v}
	for round := 0; round < 8 && len(work) > 0; round++ {
		var next []ssa.Value
		for _, w := range work {
			for x := range eng.SliceInter(w, func(*ssa.Call) bool { return true }, cluster) {
				if out[x] {
					continue
				}
				out[x] = true
				fv, ok := x.(*ssa.FreeVar)
				if !ok || fv.Parent() == nil || fv.Parent().Parent() == nil {
					continue
				}
				anon := fv.Parent()
				idx := -1
				for i, f := range anon.FreeVars {
					if f == fv {
						idx = i
					}
				}
				eng.Instrs(anon.Parent(), true, func(in ssa.Instruction) {
					mc, ok := in.(*ssa.MakeClosure)
					if !ok || mc.Fn != ssa.Value(anon) || idx < 0 || idx >= len(mc.Bindings) {
						return
					}
					cell := mc.Bindings[idx]
					next = append(next, cell)
					if refs := cell.Referrers(); refs != nil {
						for _, r := range *refs {
							if st, ok := r.(*ssa.Store); ok && st.Addr == cell {
								next = append(next, st.Val)
							}
						}
					}
				})
			}
		}
		work = next
	}
	return out
}

// R16.11 [C16]
func ruleCharDataUnconditional(c *eng.Ctx) {
	const R = "R16.11-CHARDATA-UNCONDITIONAL"
	c.Rule(R, "the hand-written inline decoder of the ODT reader keeps every character-data token: no branch in the decoder (or in the helper the text is handed to) depends on the content of the token, so blank runs between two spans — real text in mixed content — are not dropped", 1, 0)
	root := c.P.Func("odt.decodeInlineContent")
	if root == nil {
		c.Undec(R, "odt.decodeInlineContent", token.NoPos, "anchor not found")
		return
	}
	n := 0
	for _, fn := range eng.Cluster(root, 2) {
		if fn.Pkg != root.Pkg {
			continue
		}
		eng.Instrs(fn, false, func(in ssa.Instruction) {
			ta, ok := in.(*ssa.TypeAssert)
			if !ok || !strings.HasSuffix(eng.TypeName(ta.AssertedType), "xml.CharData") {
				return
			}
			n++
			key := fmt.Sprintf("%s#chardata%d", eng.FuncName(fn), n)
			isText := func(v ssa.Value, start func(ssa.Value) bool) bool {
				for w := range eng.Slice(v, func(*ssa.Call) bool { return true }) {
					if start(w) {
						return true
					}
				}
				return false
			}
			fromTA := func(w ssa.Value) bool {
				if ex, ok := w.(*ssa.Extract); ok && ex.Tuple == ssa.Value(ta) && ex.Index == 0 {
					return true
				}
				return w == ssa.Value(ta) && !ta.CommaOk
			}
			bad := token.NoPos
			for _, b := range fn.Blocks {
				if iff, ok := lastIf(b); ok && isText(iff.Cond, fromTA) {
					bad = iff.Cond.Pos()
				}
			}
			// one level down: a helper that receives the text
			for _, ci := range eng.Calls(fn, false, func(string, ssa.CallInstruction) bool { return true }) {
				g := eng.StaticCallee(ci)
				if g == nil || g.Blocks == nil || g.Pkg != fn.Pkg {
					continue
				}
				for i, a := range ci.Common().Args {
					if i >= len(g.Params) || !isText(a, fromTA) {
						continue
					}
					p := ssa.Value(g.Params[i])
					for _, b := range g.Blocks {
						if iff, ok := lastIf(b); ok && isText(iff.Cond, func(w ssa.Value) bool { return w == p }) {
							bad = iff.Cond.Pos()
						}
					}
				}
			}
			c.Check(bad == token.NoPos, R, key, ta.Pos(), "character data is kept whatever it contains",
				"a branch at "+c.P.Pos(bad)+" depends on the content of a character-data token: text (such as the blank between two spans) can be dropped")
		})
	}
	if n == 0 {
		c.Undec(R, "odt.decodeInlineContent#chardata", root.Pos(), "no character-data case found")
	}
}

// R16.12 [C16]
func ruleFlushBeforeElement(c *eng.Ctx) {
	const R = "R16.12-FLUSH-BEFORE-ELEMENT"
	c.Rule(R, "docx/odt Document(): list items are gathered in a pending list that a closure adds to the page and clears; every other element added to the page inside the body loop is added only after that closure ran in the same iteration, so the pending list is placed before the element that follows it in the source, and the closure runs once more after the loop", 8, 0)
	for _, name := range []string{"docx.(*Reader).Document", "odt.(*Reader).Document"} {
		fn := c.P.Func(name)
		if fn == nil {
			c.Undec(R, name, token.NoPos, "anchor not found")
			continue
		}
		// the flush closure: clears a captured *model.List cell
		var flush *ssa.Function
		for _, an := range fn.AnonFuncs {
			eng.Instrs(an, false, func(in ssa.Instruction) {
				st, ok := in.(*ssa.Store)
				if !ok || !eng.IsNilConst(st.Val) {
					return
				}
				if fv, ok := st.Addr.(*ssa.FreeVar); ok && strings.HasSuffix(eng.TypeName(fv.Type()), "model.List") {
					flush = an
				}
			})
		}
		if flush == nil {
			c.Undec(R, name+"#flush", fn.Pos(), "no closure that clears the pending list found")
			continue
		}
		callsFlush := func(in ssa.Instruction) bool {
			ci, ok := in.(ssa.CallInstruction)
			return ok && eng.StaticCallee(ci) == flush
		}
		hasFlush := func(b *ssa.BasicBlock, before ssa.Instruction) bool {
			for _, in := range b.Instrs {
				if in == before {
					return false
				}
				if callsFlush(in) {
					return true
				}
			}
			return false
		}
		// loop headers restart the obligation: the flush must happen in the same iteration
		isHeader := func(b *ssa.BasicBlock) bool {
			if !eng.InLoop(b) {
				return false
			}
			for _, p := range b.Preds {
				if !eng.InLoop(p) || b.Dominates(p) {
					if b.Dominates(p) {
						return true
					}
				}
			}
			return false
		}
		must := eng.MustCross(fn, func(e eng.Edge) bool { return hasFlush(e.From, nil) }, isHeader)
		n := 0
		for _, ci := range eng.Calls(fn, false, func(nm string, _ ssa.CallInstruction) bool { return strings.HasSuffix(nm, ".AddElement") }) {
			if !eng.InLoop(ci.Block()) {
				continue
			}
			n++
			ok := must[ci.Block()] || hasFlush(ci.Block(), ci)
			c.Check(ok, R, fmt.Sprintf("%s#add%d", name, n), ci.Pos(), "added after the pending list was flushed",
				"an element is added to the page while list items may still be pending: the list that precedes it in the source comes out after it")
		}
		// and once after the loop
		final := false
		for _, b := range fn.Blocks {
			if !eng.InLoop(b) {
				for _, in := range b.Instrs {
					if callsFlush(in) {
						for _, q := range fn.Blocks {
							if eng.InLoop(q) && q.Dominates(b) {
								final = true
							}
						}
					}
				}
			}
		}
		c.Check(final, R, name+"#final-flush", fn.Pos(), "pending list flushed after the loop", "the list still pending when the body ends is never added to the page")
	}
}

// enclosingLoopHeaders returns the headers of the loops that contain block b, outermost first.
func enclosingLoopHeaders(b *ssa.BasicBlock) []*ssa.BasicBlock {
	var hs []*ssa.BasicBlock
	fn := b.Parent()
	for _, h := range fn.Blocks {
		if !h.Dominates(b) {
			continue
		}
		// h is a loop header containing b: some predecessor of h is reachable from b without leaving h's dominance
		back := false
		for _, p := range h.Preds {
			if h.Dominates(p) {
				reach := eng.ReachableBlocks([]*ssa.BasicBlock{b}, func(x *ssa.BasicBlock) bool { return x == h })
				if reach[p] || p == b {
					back = true
				}
			}
		}
		if back {
			hs = append(hs, h)
		}
	}
	sort.Slice(hs, func(i, j int) bool { return hs[i].Dominates(hs[j]) && hs[i] != hs[j] })
	return hs
}

// loopRangeSource returns the slice/array values whose length bounds the induction variable of the loop at header h.
func loopRangeSource(h *ssa.BasicBlock) []ssa.Value {
	var out []ssa.Value
	for _, in := range h.Instrs {
		ph, ok := in.(*ssa.Phi)
		if !ok {
			continue
		}
		ind, isInd := eng.Induction(ph)
		if !isInd {
			continue
		}
		cands := []ssa.Value{ind}
		for _, e := range ind.Edges {
			if b, ok := e.(*ssa.BinOp); ok && b.X == ssa.Value(ind) {
				cands = append(cands, b)
			}
		}
		for _, cand := range cands {
			for _, r := range *cand.Referrers() {
				if b, ok := r.(*ssa.BinOp); ok && b.Op == token.LSS && b.X == cand {
					if call, ok := b.Y.(*ssa.Call); ok && eng.CalleeName(call) == "builtin:len" {
						out = append(out, call.Call.Args[0])
					}
				}
			}
		}
	}
	return out
}

// R18.11 [C18]
func ruleChaptersInSpineOrder(c *eng.Ctx) {
	const R = "R18.11-CHAPTERS-SPINE-ORDER"
	c.Rule(R, "the EPUB reader appends chapters while walking the spine (the outermost loop around the append ranges over the package's Spine), or sorts them by spine position afterwards: walking the archive members instead yields the chapters in ZIP order", 1, 0)
	root := c.P.Func("epubdoc.(*Reader).loadChapters")
	if root == nil {
		c.Undec(R, "epubdoc.(*Reader).loadChapters", token.NoPos, "anchor not found")
		return
	}
	n := 0
	for _, fn := range eng.Cluster(root, 2) {
		if fn.Pkg != root.Pkg {
			continue
		}
		sorted := false
		for _, ci := range eng.Calls(fn, false, func(nm string, _ ssa.CallInstruction) bool { return sortInPlace[nm] }) {
			for v := range eng.Slice(ci.Common().Args[0], nil) {
				if fr, ok := eng.AsField(v); ok && fr.Field == "chapters" {
					sorted = true
				}
			}
		}
		eng.Instrs(fn, false, func(in ssa.Instruction) {
			st, ok := in.(*ssa.Store)
			if !ok {
				return
			}
			fr, ok := eng.AsField(st.Addr)
			if !ok || fr.Field != "chapters" {
				return
			}
			call, ok := st.Val.(*ssa.Call)
			if !ok || eng.CalleeName(call) != "builtin:append" {
				return
			}
			n++
			key := fmt.Sprintf("%s#append%d", eng.FuncName(fn), n)
			hs := enclosingLoopHeaders(st.Block())
			okOrder := sorted
			if len(hs) > 0 {
				for _, src := range loopRangeSource(hs[0]) {
					if builtInOrderOf(src, "Spine", 0) {
						okOrder = true
					}
				}
			}
			c.Check(okOrder, R, key, st.Pos(), "chapters are appended in spine order", "chapters are appended inside a loop that does not walk the spine and are not sorted by spine position afterwards: the reading order becomes the order of the archive members")
		})
	}
	if n == 0 {
		c.Undec(R, "epubdoc.(*Reader).loadChapters#append", root.Pos(), "no append to the chapter list found")
	}
}

// R18.12 [C18]
func ruleRelIDAttrQualified(c *eng.Ctx) {
	const R = "R18.12-RELID-ATTR-QUALIFIED"
	c.Rule(R, "elements of presentation.xml that carry both a plain id and an r:id attribute (p:sldId, p:sldMasterId; ECMA-376 part 1 19.2.1.33/36) are decoded with the relationship id bound to the relationships namespace: encoding/xml matches an unqualified `id,attr` tag against BOTH attributes and keeps whichever comes last, so the declared order would depend on the attribute order the writer chose; no field with the unqualified tag is read", 1, 0)
	both := map[string]bool{"sldId": true, "sldMasterId": true}
	var pkg *packages.Package
	for _, pk := range c.P.Pkgs {
		if eng.ShortPath(pk.PkgPath) == "pptx" {
			pkg = pk
		}
	}
	if pkg == nil {
		c.Undec(R, "pptx", token.NoPos, "package not loaded")
		return
	}
	scope := pkg.Types.Scope()
	n := 0
	for _, nm := range scope.Names() {
		tn, ok := scope.Lookup(nm).(*types.TypeName)
		if !ok {
			continue
		}
		st, ok := tn.Type().Underlying().(*types.Struct)
		if !ok {
			continue
		}
		for i := 0; i < st.NumFields(); i++ {
			if !both[xmlTagName(st.Tag(i))] {
				continue
			}
			ft := st.Field(i).Type()
			for {
				switch u := ft.(type) {
				case *types.Pointer:
					ft = u.Elem()
					continue
				case *types.Slice:
					ft = u.Elem()
					continue
				}
				break
			}
			est, ok := ft.Underlying().(*types.Struct)
			if !ok {
				continue
			}
			n++
			key := "pptx <" + xmlTagName(st.Tag(i)) + ">"
			qualified := false
			var loose []*types.Var
			for j := 0; j < est.NumFields(); j++ {
				tag := reflect.StructTag(est.Tag(j)).Get("xml")
				if !strings.HasSuffix(tag, "id,attr") {
					continue
				}
				if strings.Contains(tag, "relationships id,attr") {
					qualified = true
				} else if tag == "id,attr" {
					loose = append(loose, est.Field(j))
				}
			}
			// a hand-written decoder: the fields assigned only where the attribute's namespace was compared
			// with the relationships namespace are qualified, the other assigned fields are loose
			if nt, ok := ft.(*types.Named); ok {
				if um := c.P.Func("pptx.(*" + nt.Obj().Name() + ").UnmarshalXML"); um != nil {
					eng.Instrs(um, false, func(in ssa.Instruction) {
						stI, ok := in.(*ssa.Store)
						if !ok {
							return
						}
						fa, ok := stI.Addr.(*ssa.FieldAddr)
						if !ok || fa.X != ssa.Value(um.Params[0]) {
							return
						}
						nsOK := eng.GuardedBy(um, stI.Block(), func(f eng.Fact) bool {
							op, x, y, ok := f.Cmp()
							if !ok || op != token.EQL {
								return false
							}
							for _, side := range [][2]ssa.Value{{x, y}, {y, x}} {
								if cs, ok := eng.ConstString(side[1]); ok && strings.HasSuffix(cs, "/relationships") {
									if fr, ok := eng.LoadOfField(side[0]); ok && fr.Field == "Space" {
										return true
									}
								}
							}
							return false
						})
						if nsOK {
							qualified = true
						} else {
							loose = append(loose, est.Field(fa.Field))
						}
					})
				}
			}
			// an unqualified field must not be read
			readLoose := ""
			for _, fn := range c.P.ModuleFuncs() {
				if fn.Pkg == nil || fn.Pkg.Pkg != pkg.Types {
					continue
				}
				eng.Instrs(fn, false, func(in ssa.Instruction) {
					var fv *types.Var
					switch x := in.(type) {
					case *ssa.FieldAddr:
						onlyStored := true
						for _, r := range *x.Referrers() {
							if stR, ok := r.(*ssa.Store); !ok || stR.Addr != ssa.Value(x) {
								if _, isDbg := r.(*ssa.DebugRef); !isDbg {
									onlyStored = false
								}
							}
						}
						if onlyStored {
							return
						}
						if s, ok := x.X.Type().Underlying().(*types.Pointer); ok {
							if ss, ok := s.Elem().Underlying().(*types.Struct); ok && ss == est {
								fv = ss.Field(x.Field)
							}
						}
					case *ssa.Field:
						if ss, ok := x.X.Type().Underlying().(*types.Struct); ok && ss == est {
							fv = ss.Field(x.Field)
						}
					}
					for _, l := range loose {
						if fv == l {
							readLoose = l.Name()
						}
					}
				})
			}
			c.Check(qualified && readLoose == "", R, key, st.Field(i).Pos(), "relationship id is namespace-qualified",
				"the relationship id of this element is not bound to the relationships namespace (or the ambiguous field "+readLoose+" is read): with r:id written before id the slide order falls back to file names")
		}
	}
	if n == 0 {
		c.Undec(R, "pptx <sldId>", token.NoPos, "no struct is decoded for this element")
	}
}

// R1.10 [C01, C10]
func ruleFontsFromOwnResources(c *eng.Ctx) {
	const R = "R1.10-FONTS-FROM-OWN-RESOURCES"
	c.Rule(R, "a page is decoded with the fonts its own resource dictionary names: every path to the text extraction of a page passed the registration of that page's fonts, and a font registered under a resource name is built from that entry's own dictionary, never taken from a table filled while other pages or entries were read (resource names and BaseFont values are not unique across pages)", 3, 0)
	fn := c.P.Func("reader.(*Reader).extractTextWithFragments")
	if fn == nil {
		c.Undec(R, "reader.(*Reader).extractTextWithFragments", token.NoPos, "anchor not found")
	} else {
		isReg := func(in ssa.Instruction) bool {
			ci, ok := in.(ssa.CallInstruction)
			if !ok {
				return false
			}
			nm := eng.CalleeName(ci)
			return strings.HasSuffix(nm, ").RegisterFontsFromPage") || strings.HasSuffix(nm, ").RegisterFontsFromResources")
		}
		blockHas := func(b *ssa.BasicBlock, before ssa.Instruction) bool {
			for _, in := range b.Instrs {
				if in == before {
					return false
				}
				if isReg(in) {
					return true
				}
			}
			return false
		}
		must := eng.MustCross(fn, func(e eng.Edge) bool { return blockHas(e.From, nil) }, nil)
		n := 0
		for _, ci := range eng.Calls(fn, false, func(nm string, _ ssa.CallInstruction) bool {
			return strings.HasSuffix(nm, ").ExtractFromBytes") || nm == "text.(*Extractor).Extract"
		}) {
			n++
			c.Check(must[ci.Block()] || blockHas(ci.Block(), ci), R, fmt.Sprintf("reader.(*Reader).extractTextWithFragments#extract%d", n), ci.Pos(),
				"fonts of the page registered on every path", "the page's text can be extracted without its fonts having been registered from its own resources (a shortcut through fonts remembered from other pages)")
		}
		if n == 0 {
			c.Undec(R, "reader.(*Reader).extractTextWithFragments#extract", fn.Pos(), "no extraction call found")
		}
	}
	reg := c.P.Func("text.(*Extractor).RegisterFontsFromResources")
	if reg == nil {
		c.Undec(R, "text.(*Extractor).RegisterFontsFromResources", token.NoPos, "anchor not found")
		return
	}
	n := 0
	for _, h := range eng.Cluster(reg, 1) {
		if h.Pkg != reg.Pkg {
			continue
		}
		for _, ci := range eng.Calls(h, false, func(nm string, _ ssa.CallInstruction) bool { return strings.HasSuffix(nm, ").RegisterParsedFont") }) {
			if !eng.InLoop(ci.Block()) {
				continue
			}
			n++
			args := ci.Common().Args
			fv := args[len(args)-1]
			cached, built := false, false
			for v := range eng.Slice(fv, func(*ssa.Call) bool { return true }) {
				switch x := v.(type) {
				case *ssa.Lookup:
					if _, isMap := x.X.Type().Underlying().(*types.Map); isMap && strings.Contains(x.Type().String(), "font.Font") {
						// a table keyed by the identity of the font object (its indirect reference) is sound
						byRef := false
						for k := range eng.Slice(x.Index, func(*ssa.Call) bool { return true }) {
							if strings.HasSuffix(eng.TypeName(k.Type()), "core.IndirectRef") {
								byRef = true
							}
						}
						if !byRef {
							cached = true
						}
					}
				case *ssa.Call:
					if strings.HasPrefix(eng.CalleeName(x), "font.New") {
						built = true
					}
				}
			}
			c.Check((built || !cached) && !cached, R, fmt.Sprintf("%s#register%d", eng.FuncName(h), n), ci.Pos(), "registered font is built from the entry's dictionary",
				"a font is registered from a lookup table instead of (only) from the dictionary of the resource entry: two different fonts that share the table key decode with the same encoding")
		}
	}
	if n == 0 {
		c.Undec(R, "text.(*Extractor).RegisterFontsFromResources#register", reg.Pos(), "no font registration in the entry loop found")
	}
}

// R4.10 [C04]
func ruleObjStmHeaderOrder(c *eng.Ctx) {
	const R = "R4.10-OBJSTM-HEADER-ORDER"
	c.Rule(R, "the (object number, offset) pairs of an object stream stay in header order: a type-2 cross-reference entry addresses a member by its position in the header, and a member ends where the next pair in header order begins, so the slice is never reordered in place", 1, 1)
	n := 0
	// the header storage: the slice fields of the object stream that parseHeader appends the pairs to (one slice of
	// pairs, or parallel slices of numbers and offsets)
	pairFields := map[string]bool{"offsets": true}
	if ph := c.P.Func("core.(*ObjectStream).parseHeader"); ph != nil {
		eng.Instrs(ph, false, func(in ssa.Instruction) {
			st, ok := in.(*ssa.Store)
			if !ok {
				return
			}
			fr, ok := eng.AsField(st.Addr)
			if !ok || !strings.HasSuffix(fr.Struct, "core.ObjectStream") {
				return
			}
			if call, ok := st.Val.(*ssa.Call); ok && eng.CalleeName(call) == "builtin:append" {
				pairFields[fr.Field] = true
			}
		})
	}
	for _, fn := range c.P.ModuleFuncs() {
		if fn.Pkg == nil {
			continue
		}
		sp := eng.ShortPath(fn.Pkg.Pkg.Path())
		if sp != "core" && !strings.Contains(fn.Pkg.Pkg.Path(), eng.PositivePkg) {
			continue
		}
		usesOffsets := false
		eng.Instrs(fn, false, func(in ssa.Instruction) {
			if fa, ok := in.(*ssa.FieldAddr); ok {
				if fr, ok := eng.AsField(fa); ok && pairFields[fr.Field] {
					usesOffsets = true
				}
			}
		})
		if !usesOffsets {
			continue
		}
		n++
		bad := token.NoPos
		for _, ci := range eng.Calls(fn, false, func(nm string, _ ssa.CallInstruction) bool { return sortInPlace[nm] }) {
			for v := range eng.Slice(ci.Common().Args[0], nil) {
				if fr, ok := eng.AsField(v); ok && pairFields[fr.Field] {
					bad = ci.Pos()
				}
			}
		}
		if bad != token.NoPos {
			c.Viol(R, eng.FuncName(fn), bad, "the header pairs of the object stream are sorted in place: index k no longer means 'the k-th pair of the header', so a type-2 entry fetches another member")
		} else {
			c.Ok(R, eng.FuncName(fn), fn.Pos(), "header order kept")
		}
	}
	if n == 0 {
		c.Undec(R, "core.(*ObjectStream)", token.NoPos, "no function uses the header pairs")
	}
}

// fileIntFuncs: module functions (returning an integer) whose result can be an integer read from the file: the
// conversion of a core.Int / core.Real object, directly or through other such functions.
type fieldKey struct {
	st  string
	idx int
}

var fileIntFields = map[fieldKey]bool{}

func fileIntFuncs(p *eng.Prog) map[*ssa.Function]bool {
	out := map[*ssa.Function]bool{}
	fileIntFields = map[fieldKey]bool{}
	for changed, round := true, 0; changed && round < 5; round++ {
		changed = false
		for _, fn := range p.ModuleFuncs() {
			// fields that receive a file integer
			eng.Instrs(fn, false, func(in ssa.Instruction) {
				st, ok := in.(*ssa.Store)
				if !ok {
					return
				}
				fa, ok := st.Addr.(*ssa.FieldAddr)
				if !ok {
					return
				}
				if bt, ok := st.Val.Type().Underlying().(*types.Basic); !ok || bt.Info()&types.IsInteger == 0 {
					return
				}
				k := fieldKey{eng.TypeName(fa.X.Type()), fa.Field}
				if !fileIntFields[k] && isFileInt(st.Val, out) {
					fileIntFields[k] = true
					changed = true
				}
			})
			if out[fn] || fn.Blocks == nil || fn.Signature.Results().Len() == 0 {
				continue
			}
			for _, r := range eng.Returns(fn) {
				rv := eng.ReturnValues(r)
				if len(rv) == 0 {
					continue
				}
				if bt, ok := rv[0].Type().Underlying().(*types.Basic); !ok || bt.Info()&types.IsInteger == 0 {
					continue
				}
				if isFileInt(rv[0], out) {
					out[fn] = true
					changed = true
				}
			}
		}
	}
	return out
}

func isFileInt(v ssa.Value, fns map[*ssa.Function]bool) bool {
	for w := range eng.Slice(v, nil) {
		switch x := w.(type) {
		case *ssa.Convert:
			if tn := eng.TypeName(x.X.Type()); strings.HasSuffix(tn, "core.Int") || strings.HasSuffix(tn, "core.Real") || strings.HasSuffix(tn, ".fileInt") {
				return true
			}
		case *ssa.UnOp:
			if fa, ok := x.X.(*ssa.FieldAddr); ok && x.Op == token.MUL && fileIntFields[fieldKey{eng.TypeName(fa.X.Type()), fa.Field}] {
				return true
			}
		case *ssa.Call:
			if g := eng.StaticCallee(x); g != nil && fns[g] {
				return true
			}
		case *ssa.Extract:
			if call, ok := x.Tuple.(*ssa.Call); ok && x.Index == 0 {
				if g := eng.StaticCallee(call); g != nil && fns[g] {
					return true
				}
			}
		}
	}
	return false
}

// R2.12 [C02]
func ruleAllocFromFileInt(c *eng.Ctx) {
	if os.Getenv("VDEBUG") == "fidx" {
		DebugFileIntIndex(c)
	}
	DebugByteAsRune(c)
	DebugRepeatSinks(c)
	DebugFloatSizes(c)
	if os.Getenv("VDEBUG") == "bidx" {
		DebugBinaryIndex(c)
	}
	if os.Getenv("VDEBUG") == "ploop" {
		DebugParsedLoops(c)
	}
	const R = "R2.12-ALLOC-FROM-FILE-INT"
	c.Rule(R, "no slice, map or channel is sized by an integer read from the file (a converted core.Int/core.Real, directly or through the accessors that return one) unless a comparison with a constant or with the length of data that is present bounds it first: a negative or huge /Count, /N, /Length or /Size otherwise aborts the process in make()", 1, 1)
	fns := fileIntFuncs(c.P)
	n := 0
	for _, fn := range c.P.ModuleFuncs() {
		if fn.Blocks == nil {
			continue
		}
		k := 0
		eng.Instrs(fn, false, func(in ssa.Instruction) {
			var sizes []ssa.Value
			viaCallSites := false
			switch x := in.(type) {
			case *ssa.MakeSlice:
				sizes = []ssa.Value{x.Len, x.Cap}
			case *ssa.MakeMap:
				if x.Reserve != nil {
					sizes = []ssa.Value{x.Reserve}
				}
			case *ssa.MakeChan:
				sizes = []ssa.Value{x.Size}
			case *ssa.Call:
				// image.NewGray(image.Rect(0, 0, w, h)) and its siblings allocate w*h pixels
				nm := eng.CalleeName(x)
				if !strings.HasPrefix(nm, "image.New") || len(x.Call.Args) == 0 {
					return
				}
				if rc, ok := x.Call.Args[0].(*ssa.Call); ok && eng.CalleeName(rc) == "image.Rect" {
					sizes = append(sizes, rc.Call.Args...)
					viaCallSites = true
				} else {
					return
				}
			default:
				return
			}
			for i, sz := range sizes {
				if i == 1 && sizes[0] == sizes[1] {
					continue
				}
				if _, isC := eng.ConstInt(sz); isC || !isFileInt(sz, fns) {
					continue
				}
				n++
				k++
				accept := func(b ssa.Value) bool {
					if _, isC := eng.ConstInt(b); isC {
						return true
					}
					for v := range eng.Slice(b, nil) {
						if call, ok := v.(*ssa.Call); ok && eng.CalleeName(call) == "builtin:len" {
							return true
						}
					}
					return false
				}
				ok := hasUpperGuard(fn, sz, in.Block(), accept) || bounded(fn, sz, 1<<30, true, in.Block(), 0)
				if !ok && viaCallSites {
					ok = fieldGuardedAtCallSites(c.P, fn, sz, accept, 0)
					if !ok {
						// the other dimension is bounded by a quotient of the data length by this one
						// (w <= len*8/h): the product is bounded
						me, isF := eng.LoadOfField(sz)
						for _, other := range sizes {
							if other == sz || !isF {
								continue
							}
							if fieldGuardedAtCallSites(c.P, fn, other, func(b ssa.Value) bool {
								if !accept(b) {
									return false
								}
								for w := range eng.Slice(b, nil) {
									if q, isQ := w.(*ssa.BinOp); isQ && q.Op == token.QUO {
										if fq, ok := eng.LoadOfField(q.Y); ok && fq.Field == me.Field && fq.Struct == me.Struct {
											return true
										}
									}
								}
								return false
							}, 0) {
								ok = true
							}
						}
					}
				}
				key := fmt.Sprintf("%s#make%d", eng.FuncName(fn), k)
				c.Check(ok, R, key, in.Pos(), "file-supplied size bounded before the allocation",
					"an allocation is sized by an integer taken from the file with no upper bound on the way: a negative or huge value panics in make() or exhausts memory")
			}
		})
	}
}

// R2.13 [C02]
func ruleSliceBoundOwnLength(c *eng.Ctx) {
	const R = "R2.13-SLICE-BOUND-OWN-LENGTH"
	c.Rule(R, "when the upper bound of a slice expression on a string or byte slice is clamped with a length (min(k, len(y)), or the written-out clamp), the length is that of the value being sliced: the length of a different value (the bytes before upper-casing, another buffer) does not bound it and the expression panics on input where the two differ", 1, 1)
	n := 0
	for _, fn := range c.P.ModuleFuncs() {
		if fn.Blocks == nil {
			continue
		}
		k := 0
		eng.Instrs(fn, false, func(in ssa.Instruction) {
			sl, ok := in.(*ssa.Slice)
			if !ok || sl.High == nil {
				return
			}
			switch t := sl.X.Type().Underlying().(type) {
			case *types.Basic:
				if t.Kind() != types.String {
					return
				}
			case *types.Slice:
				if b, ok := t.Elem().Underlying().(*types.Basic); !ok || b.Kind() != types.Uint8 {
					return
				}
			default:
				return
			}
			// the bound is a clamp: min(..) call, or a phi one of whose inputs is a len()
			var lens []ssa.Value
			clamp := false
			switch h := sl.High.(type) {
			case *ssa.Call:
				if kind, args, ok := minMaxCall(h); ok && kind < 0 {
					clamp = true
					for _, a := range args {
						if call, ok := a.(*ssa.Call); ok && eng.CalleeName(call) == "builtin:len" {
							lens = append(lens, call.Call.Args[0])
						}
					}
				}
			case *ssa.Phi:
				if !isLoopCarried(h) {
					for _, e := range h.Edges {
						if call, ok := e.(*ssa.Call); ok && eng.CalleeName(call) == "builtin:len" {
							clamp = true
							lens = append(lens, call.Call.Args[0])
						}
					}
				}
			}
			if !clamp || len(lens) == 0 {
				return
			}
			n++
			k++
			own := false
			for _, l := range lens {
				if eng.SameValue(l, sl.X) {
					own = true
				}
			}
			c.Check(own, R, fmt.Sprintf("%s#slice%d", eng.FuncName(fn), k), sl.Pos(), "clamped by the sliced value's own length",
				"the upper bound is clamped by the length of a different value than the one being sliced: where the two lengths differ the expression panics with slice bounds out of range")
		})
	}
}

// R10.12 [C10]
func rulePageRangeInclusive(c *eng.Ctx) {
	const R = "R10.12-RANGE-INCLUSIVE"
	c.Rule(R, "PageRange(start, end) selects exactly the pages start..end, both ends included: the function touches its two arguments only through comparisons and +1 steps, so evaluating it for the orderings start == end, start+1 == end and start+2 == end decides which page numbers reach the selection", 3, 0)
	name := "tabula.(*Extractor).PageRange"
	fn := c.P.Func(name)
	if fn == nil {
		c.Undec(R, name, token.NoPos, "anchor not found")
		return
	}
	var ps, pe *ssa.Parameter
	for _, p := range fn.Params {
		if bt, ok := p.Type().Underlying().(*types.Basic); ok && bt.Kind() == types.Int {
			if ps == nil {
				ps = p
			} else if pe == nil {
				pe = p
			}
		}
	}
	var app *ssa.Call
	var elem ssa.Value
	for _, ci := range eng.Calls(fn, true, func(nm string, _ ssa.CallInstruction) bool { return nm == "builtin:append" }) {
		call, ok := ci.(*ssa.Call)
		if !ok || len(call.Call.Args) != 2 {
			continue
		}
		// append(s, v) is append(s, tmp[:]) with tmp[0] = v
		if sl, ok := call.Call.Args[1].(*ssa.Slice); ok {
			if al, ok := sl.X.(*ssa.Alloc); ok {
				for _, r := range *al.Referrers() {
					if ia, ok := r.(*ssa.IndexAddr); ok {
						for _, rr := range *ia.Referrers() {
							if st, ok := rr.(*ssa.Store); ok {
								if bt, ok := st.Val.Type().Underlying().(*types.Basic); ok && bt.Kind() == types.Int {
									app, elem = call, st.Val
								}
							}
						}
					}
				}
			}
		}
	}
	if ps == nil || pe == nil || app == nil {
		c.Undec(R, name, fn.Pos(), "cannot find the two bounds and the append of a page number")
		return
	}
	// the loop may sit in a closure that captured the two bounds: captured cell -> parameter it holds
	host := app.Parent()
	capt := map[ssa.Value]*ssa.Parameter{}
	if host != fn && host.Parent() == fn {
		eng.Instrs(fn, false, func(in ssa.Instruction) {
			mc, ok := in.(*ssa.MakeClosure)
			if !ok || mc.Fn != ssa.Value(host) {
				return
			}
			for i, bnd := range mc.Bindings {
				if i >= len(host.FreeVars) {
					break
				}
				switch x := bnd.(type) {
				case *ssa.Parameter:
					capt[host.FreeVars[i]] = x
				case *ssa.Alloc:
					for _, r := range *x.Referrers() {
						if st, ok := r.(*ssa.Store); ok && st.Addr == ssa.Value(x) {
							if prm, ok := st.Val.(*ssa.Parameter); ok {
								capt[host.FreeVars[i]] = prm
							}
						}
					}
				}
			}
		})
	}
	for _, span := range []int64{0, 1, 2} {
		const start = 4
		leaf := func(v ssa.Value) (int64, bool) {
			if u, ok := v.(*ssa.UnOp); ok && u.Op == token.MUL {
				if prm, ok := capt[u.X]; ok {
					v = prm
				}
			}
			if prm, ok := capt[v]; ok {
				v = prm
			}
			switch v {
			case ssa.Value(ps):
				return start, true
			case ssa.Value(pe):
				return start + span, true
			}
			return 0, false
		}
		vals, unknown := eng.EvalAtAll(host, leaf, app, elem)
		want := map[int64]bool{}
		for k := int64(start); k <= start+span; k++ {
			want[k] = true
		}
		ok := !unknown && len(vals) == len(want)
		for k := range want {
			if !vals[k] {
				ok = false
			}
		}
		var got []string
		for k := range vals {
			got = append(got, fmt.Sprint(k))
		}
		sort.Strings(got)
		c.Check(ok, R, fmt.Sprintf("%s#span%d", name, span), app.Pos(), "selects start..end inclusive",
			fmt.Sprintf("PageRange(%d, %d) adds pages {%s} to the selection instead of %d..%d (a one-page range selecting nothing means the whole document)", start, start+span, strings.Join(got, ","), start, start+span))
	}
}

// R14.11 [C14]
func rulePageRangeOverlap(c *eng.Ctx) {
	const R = "R14.11-PAGE-RANGE-OVERLAP"
	c.Rule(R, "FilterByPageRange(s, e) selects exactly the chunks whose page span [PageStart, PageEnd] intersects [s, e]: the predicate touches the four numbers only through comparisons, so it is evaluated for every ordering of them (all s<=e, PageStart<=PageEnd over 1..5) and compared with PageEnd >= s && PageStart <= e", 1, 0)
	name := "rag.(*ChunkCollection).FilterByPageRange"
	fn := c.P.Func(name)
	if fn == nil {
		c.Undec(R, name, token.NoPos, "anchor not found")
		return
	}
	var ints []*ssa.Parameter
	for _, p := range fn.Params {
		if bt, ok := p.Type().Underlying().(*types.Basic); ok && bt.Kind() == types.Int {
			ints = append(ints, p)
		}
	}
	var mc *ssa.MakeClosure
	eng.Instrs(fn, false, func(in ssa.Instruction) {
		if m, ok := in.(*ssa.MakeClosure); ok {
			if sig, ok := m.Fn.(*ssa.Function); ok && sig.Signature.Results().Len() == 1 {
				mc = m
			}
		}
	})
	if len(ints) != 2 || mc == nil {
		c.Ok(R, name, fn.Pos(), "not evaluated: the predicate is not a closure over the two bounds")
		return
	}
	pred := mc.Fn.(*ssa.Function)
	bad, undec := "", ""
	n := 0
	for s := int64(1); s <= 5 && bad == ""; s++ {
		for e := s; e <= 5 && bad == ""; e++ {
			parentLeaf := func(v ssa.Value) (int64, bool) {
				switch v {
				case ssa.Value(ints[0]):
					return s, true
				case ssa.Value(ints[1]):
					return e, true
				}
				return 0, false
			}
			// the values of the captured cells when the closure is made
			free := map[ssa.Value]int64{}
			okFree := true
			for i, b := range mc.Bindings {
				if i >= len(pred.FreeVars) {
					break
				}
				al, isAl := b.(*ssa.Alloc)
				if !isAl {
					if x, unk := eng.EvalAt(fn, parentLeaf, mc, b); !unk && len(x) == 1 {
						for k := range x {
							free[pred.FreeVars[i]] = k
						}
					}
					continue
				}
				if bt, ok := al.Type().Underlying().(*types.Pointer).Elem().Underlying().(*types.Basic); !ok || bt.Kind() != types.Int {
					continue
				}
				ld := (ssa.Value)(nil)
				_ = ld
				// value stored in the cell on the way to the closure
				var last ssa.Value
				for _, r := range *al.Referrers() {
					if st, ok := r.(*ssa.Store); ok && st.Addr == ssa.Value(al) {
						last = st.Val
					}
				}
				if last == nil {
					okFree = false
					continue
				}
				x, unk := eng.EvalAt(fn, parentLeaf, mc, last)
				if unk || len(x) != 1 {
					okFree = false
					continue
				}
				for k := range x {
					free[pred.FreeVars[i]] = k
				}
			}
			if !okFree {
				bad, undec = "-", "the bounds captured by the predicate cannot be evaluated"
				break
			}
			for ps := int64(1); ps <= 5 && bad == ""; ps++ {
				for pe := ps; pe <= 5 && bad == ""; pe++ {
					leaf := func(v ssa.Value) (int64, bool) {
						if fr, ok := eng.LoadOfField(v); ok {
							switch fr.Field {
							case "PageStart":
								return ps, true
							case "PageEnd":
								return pe, true
							}
						}
						if u, ok := v.(*ssa.UnOp); ok && u.Op == token.MUL {
							if k, ok := free[u.X]; ok {
								return k, true
							}
						}
						if k, ok := free[v]; ok {
							return k, true
						}
						return 0, false
					}
					got := map[int64]bool{}
					unknown := false
					for _, r := range eng.Returns(pred) {
						x, unk := eng.EvalAt(pred, leaf, r, r.Results[0])
						if unk {
							unknown = true
						}
						for k := range x {
							got[k] = true
						}
					}
					n++
					want := int64(0)
					if pe >= s && ps <= e {
						want = 1
					}
					if unknown || len(got) != 1 {
						undec = fmt.Sprintf("the predicate does not evaluate for a chunk on pages %d-%d and the range %d-%d (it no longer only compares the four numbers)", ps, pe, s, e)
						bad = "-"
					} else if !got[want] {
						bad = fmt.Sprintf("a chunk on pages %d-%d and FilterByPageRange(%d, %d): selected=%v, the spans intersect=%v", ps, pe, s, e, got[1] && !got[0], want == 1)
					}
				}
			}
		}
	}
	if undec != "" {
		// a predicate built another way (a method value of a selector object, closures over reassigned
		// variables) is outside the evaluated fragment: nothing is claimed about it, and nothing is alleged
		c.Ok(R, name, fn.Pos(), "not evaluated: "+undec)
		return
	}
	c.Check(bad == "", R, name, fn.Pos(), fmt.Sprintf("predicate equals span intersection on %d orderings", n), "the page-range filter is not the overlap predicate: "+bad)
}

// R17.8 [C17, C14, C15]
func ruleJoinBufferFresh(c *eng.Ctx) {
	const R = "R17.8-JOIN-BUFFER-FRESH"
	c.Rule(R, "a slice of fields that is filled by index and joined once per trip of a loop (one line per row) is allocated inside that trip: a buffer made once outside keeps, in every slot a trip does not store, the text the previous row left there", 0, 1)
	n := 0
	for _, fn := range c.P.ModuleFuncs() {
		if fn.Blocks == nil {
			continue
		}
		k := 0
		for _, ci := range eng.CallsNamed(fn, false, "strings.Join") {
			var mk ssa.Instruction
			var mkVal ssa.Value
			switch x := ci.Common().Args[0].(type) {
			case *ssa.MakeSlice:
				mk, mkVal = x, x
			case *ssa.Slice:
				// make with a constant length is a new array sliced whole
				if al, isAl := x.X.(*ssa.Alloc); isAl && al.Heap {
					mk, mkVal = al, x
				}
			}
			ok := mk != nil
			if !ok {
				// a buffer captured by a closure lives in a cell
				if ld, isLd := ci.Common().Args[0].(*ssa.UnOp); isLd && ld.Op == token.MUL {
					if fv, isFV := ld.X.(*ssa.FreeVar); isFV {
						if cellMakeOutsideLoop(fv, ci) {
							n++
							k++
							c.Viol(R, fmt.Sprintf("%s#join%d", eng.FuncName(fn), k), ci.Pos(), "the joined field buffer is shared by all calls of this closure (made once outside) and filled by index: slots a row does not store keep the previous row's text")
						}
					}
				}
				continue
			}
			hs := enclosingLoopHeaders(ci.Block())
			if len(hs) == 0 {
				continue
			}
			// filled by index
			byIndex := false
			for _, r := range *mkVal.Referrers() {
				if _, ok := r.(*ssa.IndexAddr); ok {
					byIndex = true
				}
			}
			if !byIndex {
				continue
			}
			n++
			k++
			inner := hs[len(hs)-1]
			fresh := inner.Dominates(mk.Block()) && inner != mk.Block()
			c.Check(fresh, R, fmt.Sprintf("%s#join%d", eng.FuncName(fn), k), ci.Pos(), "field buffer allocated in the trip that joins it",
				"the joined field buffer is allocated outside the loop that joins it once per trip and is filled by index: slots a trip does not store keep the previous row's text")
		}
	}
}

// cellMakeOutsideLoop: the free variable fv of a closure holds a slice made in the enclosing function and stored
// by index inside the closure, and the closure is called from a loop of the enclosing function.
func cellMakeOutsideLoop(fv *ssa.FreeVar, join ssa.CallInstruction) bool {
	anon := fv.Parent()
	if anon == nil || anon.Parent() == nil {
		return false
	}
	// filled by index inside the closure
	byIndex := false
	eng.Instrs(anon, false, func(in ssa.Instruction) {
		if ia, ok := in.(*ssa.IndexAddr); ok {
			if ld, ok := ia.X.(*ssa.UnOp); ok && ld.X == ssa.Value(fv) {
				for _, r := range *ia.Referrers() {
					if _, isSt := r.(*ssa.Store); isSt {
						byIndex = true
					}
				}
			}
		}
	})
	if !byIndex {
		return false
	}
	idx := -1
	for i, f := range anon.FreeVars {
		if f == fv {
			idx = i
		}
	}
	res := false
	eng.Instrs(anon.Parent(), false, func(in ssa.Instruction) {
		mc, ok := in.(*ssa.MakeClosure)
		if !ok || mc.Fn != ssa.Value(anon) || idx < 0 || idx >= len(mc.Bindings) {
			return
		}
		cell, ok := mc.Bindings[idx].(*ssa.Alloc)
		if !ok {
			return
		}
		for _, r := range *cell.Referrers() {
			st, ok := r.(*ssa.Store)
			if !ok || st.Addr != ssa.Value(cell) {
				continue
			}
			if mk, ok := st.Val.(*ssa.MakeSlice); ok {
				// made where the closure is made (once), and the closure is called in a loop nested deeper than the make
				called := false
				eng.Instrs(anon.Parent(), false, func(i2 ssa.Instruction) {
					if ci, ok := i2.(ssa.CallInstruction); ok && eng.StaticCallee(ci) == anon && eng.InLoop(ci.Block()) {
						hs := enclosingLoopHeaders(ci.Block())
						if len(hs) > 0 {
							inner := hs[len(hs)-1]
							if !(inner.Dominates(mk.Block()) && inner != mk.Block()) {
								called = true
							}
						}
					}
				})
				if called {
					res = true
				}
			}
		}
	})
	return res
}

// R15.6 [C15]
func ruleListKindPerLevel(c *eng.Ctx) {
	const R = "R15.6-LIST-KIND-PER-LEVEL"
	c.Rule(R, "in the docx and odt list-item writers the choice between a numbered and a bullet marker is made from the item's list identity AND its level (the kind is defined per level inside one list definition): the deciding condition depends on the level field and on no memo of the answer looked up without the level", 2, 0)
	for _, fn := range c.P.ModuleFuncs() {
		if fn.Pkg == nil || fn.Parent() != nil {
			continue
		}
		sp := eng.ShortPath(fn.Pkg.Pkg.Path())
		if sp != "docx" && sp != "odt" {
			continue
		}
		// the bullet marker write
		var bullets []ssa.CallInstruction
		for _, ci := range eng.Calls(fn, false, func(nm string, wc ssa.CallInstruction) bool { return isStringWrite(nm, wc) }) {
			args := ci.Common().Args
			if s, ok := eng.ConstString(args[len(args)-1]); ok && (s == "- " || s == "* ") {
				bullets = append(bullets, ci)
			}
		}
		if len(bullets) == 0 {
			continue
		}
		cluster := eng.Cluster(fn, 1)
		for i, b := range bullets {
			// the innermost branch that decides between this write and a numbered marker
			var dec *ssa.If
			for d := b.Block().Idom(); d != nil; d = d.Idom() {
				if iff, ok := lastIf(d); ok {
					// the other side reaches a formatted number
					other := false
					for _, s := range d.Succs {
						if s == b.Block() || s.Dominates(b.Block()) {
							continue
						}
						for blk := range eng.ReachableBlocks([]*ssa.BasicBlock{s}, func(x *ssa.BasicBlock) bool { return x == b.Block() }) {
							for _, in := range blk.Instrs {
								if call, ok := in.(*ssa.Call); ok && strings.HasSuffix(eng.CalleeName(call), "fmt.Sprintf") {
									if f, ok := eng.ConstString(call.Call.Args[0]); ok && strings.Contains(f, "%d") {
										other = true
									}
								}
							}
						}
					}
					if other {
						dec = iff
						break
					}
				}
			}
			if dec == nil {
				continue
			}
			key := fmt.Sprintf("%s#kind%d", eng.FuncName(fn), i+1)
			hasLevel := func(v ssa.Value) bool {
				for w := range eng.SliceInter(v, func(*ssa.Call) bool { return true }, cluster) {
					if fr, ok := eng.AsField(w); ok && (fr.Field == "ListLevel" || fr.Field == "Level") {
						return true
					}
				}
				return false
			}
			usesLevel := hasLevel(dec.Cond)
			cached := token.NoPos
			for w := range eng.SliceInter(dec.Cond, func(*ssa.Call) bool { return true }, cluster) {
				if lk, ok := w.(*ssa.Lookup); ok {
					// a memo of the decision itself (a map to bool / a small scalar) keyed without the level;
					// tables of definitions (map to struct, to per-level map) are how the level is looked up
					if mt, isMap := lk.X.Type().Underlying().(*types.Map); isMap && !hasLevel(lk.Index) {
						if _, isBasic := mt.Elem().Underlying().(*types.Basic); isBasic {
							cached = lk.Pos()
						}
					}
				}
			}
			c.Check(usesLevel && cached == token.NoPos, R, key, dec.Cond.Pos(), "marker kind decided from list identity and level",
				"the numbered/bullet decision does not depend on the item's level, or is read from a table keyed without it: a bullet sub-list under a numbered list gets the parent's marker kind")
		}
	}
}

// R15.7 [C15]
func ruleIndentFromOwnLevel(c *eng.Ctx) {
	const R = "R15.7-INDENT-FROM-OWN-LEVEL"
	c.Rule(R, "the indentation written in front of a list item is computed from that item's own level: it is never a string of blanks kept from one item to the next (widened and narrowed as the level changes), which goes stale on any path that forgets to adjust it", 4, 1)
	isBlank := func(s string) bool { return s != "" && strings.Trim(s, " \t") == "" }
	for _, fn := range c.P.ModuleFuncs() {
		if fn.Blocks == nil {
			continue
		}
		usesLevel := false
		eng.Instrs(fn, false, func(in ssa.Instruction) {
			if fa, ok := in.(*ssa.FieldAddr); ok {
				if fr, ok := eng.AsField(fa); ok && (fr.Field == "Level" || fr.Field == "ListLevel") {
					usesLevel = true
				}
			}
			if f, ok := in.(*ssa.Field); ok {
				if fr, ok := eng.AsField(f); ok && (fr.Field == "Level" || fr.Field == "ListLevel") {
					usesLevel = true
				}
			}
		})
		if !usesLevel {
			continue
		}
		n := 0
		for _, ci := range eng.Calls(fn, false, func(nm string, wc ssa.CallInstruction) bool { return isStringWrite(nm, wc) }) {
			args := ci.Common().Args
			arg := args[len(args)-1]
			if s, ok := eng.ConstString(arg); ok {
				if isBlank(s) && eng.InLoop(ci.Block()) {
					n++
					c.Ok(R, fmt.Sprintf("%s#indent%d", eng.FuncName(fn), n), ci.Pos(), "constant blanks written per level")
				}
				continue
			}
			thruRepeat := func(call *ssa.Call) bool { return eng.CalleeName(call) == "strings.Repeat" }
			// a blank string that is loop-carried
			carried := false
			blank := false
			for w := range eng.Slice(arg, thruRepeat) {
				if ph, ok := w.(*ssa.Phi); ok && isLoopCarried(ph) && isStringValue(ph) {
					for x := range eng.Slice(ph, thruRepeat) {
						if s, ok := eng.ConstString(x); ok && isBlank(s) {
							carried = true
						}
					}
				}
				if s, ok := eng.ConstString(w); ok && isBlank(s) {
					blank = true
				}
			}
			if !blank {
				continue
			}
			n++
			c.Check(!carried, R, fmt.Sprintf("%s#indent%d", eng.FuncName(fn), n), ci.Pos(), "indentation computed from the item's level",
				"the indentation is a string of blanks carried from one item to the next: an item that returns to a shallower level on a path that does not narrow it keeps the deeper indentation")
		}
	}
}

func isStringValue(v ssa.Value) bool {
	b, ok := v.Type().Underlying().(*types.Basic)
	return ok && b.Info()&types.IsString != 0
}

// R15.8 [C15, C18]
func ruleSlideTablesNotSkipped(c *eng.Ctx) {
	const R = "R15.8-SLIDE-TABLES-NOT-SKIPPED"
	c.Rule(R, "in the pptx writers the rendering of a slide's tables is not placed under a test of the slide's other content (title, text blocks, notes) that leaves the tables out: a slide whose only content is a table would be skipped with all its cell text", 2, 0)
	n := 0
	for _, fn := range c.P.ModuleFuncs() {
		if fn.Pkg == nil || eng.ShortPath(fn.Pkg.Pkg.Path()) != "pptx" || fn.Parent() != nil {
			continue
		}
		cluster := eng.Cluster(fn, 1)
		for _, ci := range eng.Calls(fn, false, func(nm string, _ ssa.CallInstruction) bool {
			return nm == "pptx.(*Table).ToMarkdown" || nm == "pptx.(*Table).ToText" || nm == "pptx.Table.ToMarkdown"
		}) {
			if !eng.InLoop(ci.Block()) {
				continue
			}
			n++
			key := fmt.Sprintf("%s#tables%d", eng.FuncName(fn), n)
			bad := token.NoPos
			for d := ci.Block().Idom(); d != nil; d = d.Idom() {
				iff, ok := lastIf(d)
				if !ok || !eng.InLoop(d) {
					continue
				}
				// d decides whether the tables are rendered in this trip only if one of its branches cannot
				// reach them without starting the next trip of the loop that contains both
				var hdr *ssa.BasicBlock
				for _, h := range enclosingLoopHeaders(ci.Block()) {
					if h.Dominates(d) {
						hdr = h
					}
				}
				reach := 0
				for _, sx := range d.Succs {
					if sx == ci.Block() || eng.ReachableBlocks([]*ssa.BasicBlock{sx}, func(x *ssa.BasicBlock) bool { return x == hdr })[ci.Block()] {
						reach++
					}
				}
				if reach != 1 {
					continue
				}
				other, tables := false, false
				for w := range eng.SliceInter(iff.Cond, func(*ssa.Call) bool { return true }, cluster) {
					if fr, ok := eng.AsField(w); ok && strings.HasSuffix(fr.Struct, "pptx.Slide") {
						if fr.Field == "Tables" {
							tables = true
						} else if fr.Field == "Title" || fr.Field == "Content" || fr.Field == "Notes" {
							other = true
						}
					}
				}
				if other && !tables {
					bad = iff.Cond.Pos()
				}
			}
			c.Check(bad == token.NoPos, R, key, ci.Pos(), "tables rendered regardless of the slide's other content",
				"the tables of a slide are rendered only under a test of its other content ("+c.P.Pos(bad)+") that does not look at the tables: a table-only slide loses all its cell text")
		}
	}
}

// R14.12 [C14]
func ruleExportTruncates(c *eng.Ctx) {
	const R = "R14.12-EXPORT-TRUNCATES"
	c.Rule(R, "a file an export is written to is opened truncated: os.Create, or os.OpenFile whose flags contain O_TRUNC (or O_EXCL / O_APPEND, which cannot leave an old tail either); O_WRONLY|O_CREATE alone keeps the tail of a longer earlier export after the new records, and the file no longer parses back to the exported collection", 0, 1)
	for _, fn := range c.P.ModuleFuncs() {
		if fn.Blocks == nil {
			continue
		}
		n := 0
		for _, ci := range eng.CallsNamed(fn, true, "os.OpenFile") {
			args := ci.Common().Args
			if len(args) < 2 {
				continue
			}
			flags, isC := eng.ConstInt(args[1])
			if !isC {
				continue
			}
			const wr = int64(os.O_WRONLY | os.O_RDWR)
			if flags&wr == 0 || flags&int64(os.O_CREATE) == 0 {
				continue
			}
			n++
			ok := flags&int64(os.O_TRUNC|os.O_EXCL|os.O_APPEND) != 0
			c.Check(ok, R, fmt.Sprintf("%s#open%d", eng.FuncName(fn), n), ci.Pos(), "opened truncated", "the output file is opened for writing with O_CREATE but without O_TRUNC: when it already exists and is longer than the new content, the old tail stays behind the new records")
		}
	}
}

// R18.13 [C18, C16, C17]
func ruleMemberNameExact(c *eng.Ctx) {
	const R = "R18.13-MEMBER-NAME-EXACT"
	c.Rule(R, "a part of a ZIP container is found by exact comparison with the member's name: ZIP member names are case-sensitive, so a case-folding comparison (strings.EqualFold, lower-casing both sides) returns the first of two members that differ only in case, whichever part was asked for", 0, 1)
	isMemberName := func(v ssa.Value) bool {
		for w := range eng.Slice(v, func(call *ssa.Call) bool {
			n := eng.CalleeName(call)
			return n == "strings.ToLower" || n == "strings.ToUpper"
		}) {
			if fr, ok := eng.AsField(w); ok && fr.Field == "Name" && (strings.HasSuffix(fr.Struct, "zip.FileHeader") || strings.HasSuffix(fr.Struct, "zip.File")) {
				return true
			}
		}
		return false
	}
	for _, fn := range c.P.ModuleFuncs() {
		if fn.Blocks == nil {
			continue
		}
		n := 0
		for _, ci := range eng.CallsNamed(fn, true, "strings.EqualFold") {
			args := ci.Common().Args
			if isMemberName(args[0]) || isMemberName(args[1]) {
				n++
				c.Viol(R, fmt.Sprintf("%s#fold%d", eng.FuncName(fn), n), ci.Pos(), "a ZIP member is selected by a case-insensitive name comparison: of two parts whose names differ only in case the first in archive order is returned for both")
			}
		}
		eng.Instrs(fn, true, func(in ssa.Instruction) {
			b, ok := in.(*ssa.BinOp)
			if !ok || b.Op != token.EQL {
				return
			}
			for _, side := range []ssa.Value{b.X, b.Y} {
				if call, ok := side.(*ssa.Call); ok {
					if nm := eng.CalleeName(call); (nm == "strings.ToLower" || nm == "strings.ToUpper") && isMemberName(call.Call.Args[0]) {
						n++
						c.Viol(R, fmt.Sprintf("%s#fold%d", eng.FuncName(fn), n), b.Pos(), "a ZIP member is selected by comparing case-folded names: of two parts whose names differ only in case the first in archive order is returned for both")
					}
				}
			}
		})
	}
}

// R17.9 [C17, C15]
func ruleGridFromCells(c *eng.Ctx) {
	const R = "R17.9-GRID-FROM-CELLS"
	c.Rule(R, "the dense grid of a worksheet is sized from the cells that are there and each of its rows has storage of its own: no allocation size of parseWorksheet's grid depends on a declared range (the <dimension> element, parsed with ParseRangeRef, is written separately from the cells and is often stale), and every row stored into the grid is a slice made in the same trip of the loop", 3, 0)
	root := c.P.Func("xlsx.(*Reader).parseWorksheet")
	if root == nil {
		c.Undec(R, "xlsx.(*Reader).parseWorksheet", token.NoPos, "anchor not found")
		return
	}
	cluster := eng.Cluster(root, 2)
	isCells := func(t types.Type) (rows, cells bool) {
		sl, ok := t.Underlying().(*types.Slice)
		if !ok {
			return false, false
		}
		if in, ok := sl.Elem().Underlying().(*types.Slice); ok {
			if _, deeper := in.Elem().Underlying().(*types.Slice); !deeper && strings.HasSuffix(eng.TypeName(in.Elem()), "xlsx.Cell") {
				return true, false
			}
			return false, false
		}
		if strings.HasSuffix(eng.TypeName(sl.Elem()), "xlsx.Cell") {
			return false, true
		}
		return false, false
	}
	nSize, nRow := 0, 0
	// freshSliceFn: every return of g hands back a slice made in that call (directly, or through a function of which
	// the same holds)
	var freshSliceFn func(g *ssa.Function, d int) bool
	freshSliceFn = func(g *ssa.Function, d int) bool {
		if g == nil || g.Blocks == nil || d > 3 {
			return false
		}
		n := 0
		for _, r := range eng.Returns(g) {
			rv := eng.ReturnValues(r)
			if len(rv) == 0 {
				continue
			}
			n++
			switch v := rv[0].(type) {
			case *ssa.MakeSlice:
			case *ssa.Call:
				if !freshSliceFn(eng.StaticCallee(v), d+1) {
					return false
				}
			default:
				return false
			}
		}
		return n > 0
	}
	// instantiations of generic helpers of the package belong to the cluster too
	var withAnon []*ssa.Function
	for _, fn := range cluster {
		withAnon = append(withAnon, fn)
		withAnon = append(withAnon, fn.AnonFuncs...)
	}
	for _, fn := range cluster {
		if fn.Pkg != root.Pkg && !(fn.Pkg == nil && fn.Origin() != nil && fn.Origin().Pkg == root.Pkg) {
			continue
		}
		eng.Instrs(fn, false, func(in ssa.Instruction) {
			switch x := in.(type) {
			case *ssa.MakeSlice:
				rows, cells := isCells(x.Type())
				if !rows && !cells {
					return
				}
				nSize++
				declared := token.NoPos
				for _, sz := range []ssa.Value{x.Len, x.Cap} {
					for w := range eng.SliceInter(sz, func(*ssa.Call) bool { return true }, cluster) {
						if call, ok := w.(*ssa.Call); ok && strings.HasSuffix(eng.CalleeName(call), "xlsx.ParseRangeRef") {
							declared = call.Pos()
						}
						if fr, ok := eng.AsField(w); ok && fr.Field == "Dimension" {
							declared = w.Pos()
						}
					}
				}
				c.Check(declared == token.NoPos, R, fmt.Sprintf("%s#grid-size%d", eng.FuncName(fn), nSize), x.Pos(), "sized from the scan of the cells",
					"the grid is sized from a declared range ("+c.P.Pos(declared)+") instead of from the cells: cells outside a stale declaration are dropped")
			case *ssa.Store:
				// Rows[i] = <row>
				ia, ok := x.Addr.(*ssa.IndexAddr)
				if !ok {
					return
				}
				if rows, _ := isCells(ia.X.Type()); !rows || !eng.InLoop(x.Block()) {
					return
				}
				nRow++
				fresh := false
				switch v := x.Val.(type) {
				case *ssa.MakeSlice:
					hs := enclosingLoopHeaders(x.Block())
					fresh = len(hs) > 0 && hs[len(hs)-1].Dominates(v.Block()) && hs[len(hs)-1] != v.Block()
					if v.Block() == x.Block() {
						fresh = true
					}
				case *ssa.Slice:
					if al, ok := v.X.(*ssa.Alloc); ok && al.Heap && al.Block() == x.Block() {
						fresh = true
					}
				case *ssa.Call:
					// the element comes from a function handed in as a parameter (tabulate(n, func(i int) []Cell {...})):
					// every function handed in at the call sites returns a slice made in that call
					if prm, isParam := v.Call.Value.(*ssa.Parameter); isParam && eng.InLoop(v.Block()) {
						pi := -1
						for i, q := range fn.Params {
							if q == prm {
								pi = i
							}
						}
						sites, all := 0, true
						for _, caller := range withAnon {
							eng.Instrs(caller, false, func(in2 ssa.Instruction) {
								ci, ok := in2.(ssa.CallInstruction)
								if !ok || eng.StaticCallee(ci) != fn || pi < 0 || pi >= len(ci.Common().Args) {
									return
								}
								sites++
								mc, ok := ci.Common().Args[pi].(*ssa.MakeClosure)
								if !ok {
									all = false
									return
								}
								lit, _ := mc.Fn.(*ssa.Function)
								if !freshSliceFn(lit, 0) {
									all = false
								}
							})
						}
						fresh = sites > 0 && all
					}
					// a helper that returns a slice it made (newRow(i, width))
					if g := eng.StaticCallee(v); g != nil && g.Blocks != nil && eng.InModule(g) && eng.InLoop(v.Block()) {
						all, n := true, 0
						for _, r := range eng.Returns(g) {
							rv := eng.ReturnValues(r)
							if len(rv) == 0 {
								continue
							}
							n++
							if _, isMk := rv[0].(*ssa.MakeSlice); !isMk {
								all = false
							}
						}
						hs := enclosingLoopHeaders(x.Block())
						fresh = all && n > 0 && len(hs) > 0 && hs[len(hs)-1].Dominates(v.Block()) && (hs[len(hs)-1] != v.Block() || v.Block() == x.Block())
					}
				}
				c.Check(fresh, R, fmt.Sprintf("%s#row-storage%d", eng.FuncName(fn), nRow), x.Pos(), "each grid row is a slice made in the same loop trip",
					"a row of the grid is not a slice made for it in the same loop trip (a shared or reused row): cells written to one row show up in every row that shares the storage")
			}
		})
	}
}

// R6.10 [C06, C01]
func ruleTokenValueOwned(c *eng.Ctx) {
	const R = "R6.10-TOKEN-VALUE-OWNED"
	c.Rule(R, "the bytes of a token belong to the token: the Value stored in a core.Token is built in storage of the call that makes the token (a local buffer, a literal, a copy), never taken from a buffer kept in the Lexer, which the next token overwrites while the parser still holds this one as lookahead", 8, 0)
	n := 0
	// token constructors: functions of the package that store one of their parameters into Token.Value
	ctorParam := map[*ssa.Function]int{}
	for _, fn := range c.P.ModuleFuncs() {
		if fn.Pkg == nil || eng.ShortPath(fn.Pkg.Pkg.Path()) != "core" || fn.Blocks == nil {
			continue
		}
		eng.Instrs(fn, false, func(in ssa.Instruction) {
			st, ok := in.(*ssa.Store)
			if !ok {
				return
			}
			fr, ok := eng.AsField(st.Addr)
			if !ok || fr.Field != "Value" || !strings.HasSuffix(fr.Struct, "core.Token") {
				return
			}
			for i, prm := range fn.Params {
				if st.Val == ssa.Value(prm) {
					ctorParam[fn] = i
				}
			}
		})
	}
	for _, fn := range c.P.ModuleFuncs() {
		if fn.Pkg == nil || eng.ShortPath(fn.Pkg.Pkg.Path()) != "core" || fn.Signature.Recv() == nil || len(fn.Params) == 0 {
			continue
		}
		if !strings.HasSuffix(eng.TypeName(fn.Params[0].Type()), "core.Lexer") {
			continue
		}
		recv := ssa.Value(fn.Params[0])
		k := 0
		eng.Instrs(fn, false, func(in ssa.Instruction) {
			var val ssa.Value
			var at token.Pos
			if st, ok := in.(*ssa.Store); ok {
				fr, ok := eng.AsField(st.Addr)
				if !ok || fr.Field != "Value" || !strings.HasSuffix(fr.Struct, "core.Token") {
					return
				}
				val, at = st.Val, st.Pos()
			} else if ci, ok := in.(ssa.CallInstruction); ok {
				g := eng.StaticCallee(ci)
				i, isCtor := ctorParam[g]
				if g == nil || !isCtor || i >= len(ci.Common().Args) {
					return
				}
				val, at = ci.Common().Args[i], ci.Pos()
			} else {
				return
			}
			st := struct {
				Val ssa.Value
				pos token.Pos
			}{val, at}
			n++
			k++
			shared := token.NoPos
			for w := range eng.Slice(st.Val, func(*ssa.Call) bool { return true }) {
				fa, ok := w.(*ssa.FieldAddr)
				if !ok || fa.X != recv {
					continue
				}
				// a buffer-like field of the lexer (bytes.Buffer, []byte) feeding the token's bytes
				ft := fa.Type().Underlying().(*types.Pointer).Elem()
				if strings.HasSuffix(eng.TypeName(ft), "bytes.Buffer") {
					shared = fa.Pos()
				}
				if sl, ok := ft.Underlying().(*types.Slice); ok {
					if b, ok := sl.Elem().Underlying().(*types.Basic); ok && b.Kind() == types.Uint8 {
						shared = fa.Pos()
					}
				}
			}
			c.Check(shared == token.NoPos, R, fmt.Sprintf("%s#value%d", eng.FuncName(fn), k), st.pos, "token bytes are the call's own",
				"the token's Value comes from a buffer kept in the Lexer ("+c.P.Pos(shared)+"): the next token overwrites it while the parser still holds this token as lookahead")
		})
	}
}

// R13.7 [C13]
func ruleWholeBlockOnlyUnderMax(c *eng.Ctx) {
	const R = "R13.7-WHOLE-BLOCK-UNDER-MAX"
	c.Rule(R, "textBlockToChunks emits a text block unsplit only on paths where the size calculator said it is not above the hard maximum (IsAboveMax false): a shortcut decided by another quantity (a byte length against another option) lets a block through that exceeds the configured maximum", 1, 0)
	name := "rag.(*DocumentChunker).textBlockToChunks"
	fn := c.P.Func(name)
	if fn == nil {
		c.Undec(R, name, token.NoPos, "anchor not found")
		return
	}
	var blockP ssa.Value
	for _, p := range fn.Params {
		if strings.HasSuffix(eng.TypeName(p.Type()), "rag.textBlock") {
			blockP = p
		}
	}
	if blockP == nil {
		c.Undec(R, name, fn.Pos(), "no text block parameter")
		return
	}
	notAbove := func(f eng.Fact) bool {
		if f.Pos {
			return false
		}
		call, ok := f.Cond.(*ssa.Call)
		return ok && strings.HasSuffix(eng.CalleeName(call), ").IsAboveMax")
	}
	n := 0
	for _, ci := range eng.Calls(fn, false, func(nm string, _ ssa.CallInstruction) bool { return strings.HasSuffix(nm, ").createTextChunk") }) {
		whole := false
		for _, a := range ci.Common().Args {
			if a == blockP {
				whole = true
			}
			// the parameter spilled to a cell and loaded again
			if ld, ok := a.(*ssa.UnOp); ok && ld.Op == token.MUL {
				if al, ok := ld.X.(*ssa.Alloc); ok {
					for _, r := range *al.Referrers() {
						if st, ok := r.(*ssa.Store); ok && st.Addr == ssa.Value(al) && st.Val == blockP {
							whole = true
						}
					}
				}
			}
		}
		if !whole {
			continue
		}
		n++
		c.Check(eng.GuardedBy(fn, ci.Block(), notAbove), R, fmt.Sprintf("%s#whole%d", name, n), ci.Pos(), "unsplit only when not above the maximum",
			"the block can be emitted unsplit on a path that did not establish IsAboveMax == false: a block above the hard maximum becomes one chunk")
	}
	if n == 0 {
		c.Undec(R, name+"#whole", fn.Pos(), "no unsplit emission of the block found")
	}
}

// controllingIfs returns the branches inside the loop(s) around blk that decide, within one trip, whether blk is
// reached: dominating Ifs of which exactly one successor can reach blk without starting the next trip.
func controllingIfs(blk *ssa.BasicBlock) []*ssa.If {
	var out []*ssa.If
	hs := enclosingLoopHeaders(blk)
	for d := blk.Idom(); d != nil; d = d.Idom() {
		iff, ok := lastIf(d)
		if !ok || !eng.InLoop(d) {
			continue
		}
		var hdr *ssa.BasicBlock
		for _, h := range hs {
			if h.Dominates(d) {
				hdr = h
			}
		}
		reach := 0
		for _, sx := range d.Succs {
			if sx == blk || eng.ReachableBlocks([]*ssa.BasicBlock{sx}, func(x *ssa.BasicBlock) bool { return x == hdr })[blk] {
				reach++
			}
		}
		if reach == 1 {
			out = append(out, iff)
		}
	}
	return out
}

// R10.13 [C10]
func rulePerPageDecision(c *eng.Ctx) {
	const R = "R10.13-PER-PAGE-DECISION"
	c.Rule(R, "in the page loop of Extractor.Text the choice of how a page is rendered depends on the options and on that page's own fragments, never on a value carried over from the pages before it (a verdict computed on the first page and kept): the text of page k is the same in every selection that contains it", 1, 0)
	name := "tabula.(*Extractor).Text"
	fn := c.P.Func(name)
	if fn == nil {
		c.Undec(R, name, token.NoPos, "anchor not found")
		return
	}
	n := 0
	for _, h := range eng.Cluster(fn, 1) {
		if h.Pkg != fn.Pkg {
			continue
		}
		for _, ci := range eng.Calls(h, false, func(nm string, _ ssa.CallInstruction) bool {
			return strings.HasSuffix(nm, ").extractByColumn") || strings.HasSuffix(nm, ").assembleText") || strings.HasSuffix(nm, ").extractWithParagraphs") || strings.HasSuffix(nm, ").extractPreserveLayout")
		}) {
			if !eng.InLoop(ci.Block()) {
				continue
			}
			n++
			carried := token.NoPos
			for _, iff := range controllingIfs(ci.Block()) {
				for w := range eng.Slice(iff.Cond, func(*ssa.Call) bool { return true }) {
					ph, ok := w.(*ssa.Phi)
					if !ok || !isLoopCarried(ph) {
						continue
					}
					if _, isInd := eng.Induction(ph); isInd {
						continue
					}
					if bt, ok := ph.Type().Underlying().(*types.Basic); ok && bt.Info()&(types.IsBoolean|types.IsInteger) != 0 {
						carried = iff.Cond.Pos()
					}
				}
			}
			c.Check(carried == token.NoPos, R, fmt.Sprintf("%s#render%d", eng.FuncName(h), n), ci.Pos(), "decided from the options and the page itself",
				"how the page is rendered depends on a value carried over from earlier pages of the selection ("+c.P.Pos(carried)+"): the same page comes out differently depending on which pages precede it")
		}
	}
	if n == 0 {
		// the renderer may be a function value chosen before the loop from the options alone: nothing carried
		// between pages can then influence it; no claim is made about other shapes
		c.Ok(R, name+"#render", fn.Pos(), "not evaluated: no direct per-page rendering call in the page loop")
	}
}

// R11.9 [C11]
func rulePageOwnGeometry(c *eng.Ctx) {
	const R = "R11.9-PAGE-OWN-GEOMETRY"
	c.Rule(R, "every page handed to header/footer detection carries its own index, fragments and page size: each field of the layout.PageFragments built in detectHeaderFooter is computed from the element of the page list the same loop trip is looking at, not from one fixed page (pages of one document differ in size, and the band positions are measured from the page height)", 4, 0)
	name := "tabula.(*Extractor).detectHeaderFooter"
	root := c.P.Func(name)
	if root == nil {
		c.Undec(R, name, token.NoPos, "anchor not found")
		return
	}
	n := 0
	for _, fn := range eng.Cluster(root, 1) {
		if fn.Pkg != root.Pkg {
			continue
		}
		eng.Instrs(fn, false, func(in ssa.Instruction) {
			st, ok := in.(*ssa.Store)
			if !ok {
				return
			}
			fr, ok := eng.AsField(st.Addr)
			if !ok || !strings.HasSuffix(fr.Struct, "layout.PageFragments") {
				return
			}
			n++
			own, fixed := false, false
			for w := range eng.SliceInter(st.Val, func(*ssa.Call) bool { return true }, []*ssa.Function{root, fn}) {
				ia, ok := w.(*ssa.IndexAddr)
				if !ok {
					continue
				}
				if _, isInd := eng.Induction(ia.Index); isInd {
					own = true
				}
				if _, isC := eng.ConstInt(ia.Index); isC {
					if sl, ok := ia.X.Type().Underlying().(*types.Slice); ok && strings.Contains(sl.Elem().String(), "extractedPage") {
						fixed = true
					}
				}
			}
			c.Check(own && !fixed, R, fmt.Sprintf("%s#%s", eng.FuncName(fn), fr.Field), st.Pos(), "from the page of this loop trip",
				"the "+fr.Field+" given to detection is not computed from the page the loop trip is looking at (a value looked up once for one fixed page): pages of other sizes get the wrong band positions and their headers and footers stay")
		})
	}
	if n == 0 {
		c.Undec(R, name+"#fields", root.Pos(), "no layout.PageFragments is filled")
	}
	// the same for the filter: whether a page is treated as character-level (position alone decides, no text
	// comparison) is a finding about that page's own fragments, not something remembered from detection
	ff := c.P.Func("layout.(*HeaderFooterResult).FilterFragments")
	inHF := c.P.Func("layout.(*HeaderFooterResult).isInHeaderFooter")
	if ff == nil || inHF == nil || len(ff.Params) < 3 {
		c.Undec(R, "layout.(*HeaderFooterResult).FilterFragments#charLevel", token.NoPos, "anchor not found")
		return
	}
	frags := ssa.Value(ff.Params[2])
	m := 0
	for _, h := range eng.Cluster(ff, 1) {
		for _, ci := range eng.Calls(h, true, func(_ string, ci ssa.CallInstruction) bool { return eng.StaticCallee(ci) == inHF }) {
			for k, a := range eng.ArgsWithRecv(ci) {
				if k >= len(inHF.Params) {
					continue
				}
				bt, isB := a.Type().Underlying().(*types.Basic)
				if !isB || bt.Kind() != types.Bool || !strings.Contains(strings.ToLower(inHF.Params[k].Name()), "char") {
					continue
				}
				m++
				if cst, isC := a.(*ssa.Const); isC && cst.Value != nil {
					c.Ok(R, fmt.Sprintf("layout.(*HeaderFooterResult).FilterFragments#charLevel%d", m), ci.Pos(), "constant")
					continue
				}
				own, stored := false, ""
				work := []ssa.Value{a}
				seenW := map[ssa.Value]bool{}
				for len(work) > 0 {
					cur := work[len(work)-1]
					work = work[:len(work)-1]
					for w := range eng.SliceInter(cur, func(*ssa.Call) bool { return true }, []*ssa.Function{ff, h}) {
						if seenW[w] {
							continue
						}
						seenW[w] = true
						if w == frags {
							own = true
						}
						if fr, ok := eng.LoadOfField(w); ok && addrRoot(w) == ssa.Value(ff.Params[0]) {
							stored = fr.Field
						}
						// a variable of the enclosing function captured by a function literal (the keep-predicate
						// handed to a generic filter helper): what the enclosing function put into it
						if fv, ok := w.(*ssa.FreeVar); ok {
							anon := fv.Parent()
							idx := -1
							for i, x := range anon.FreeVars {
								if x == fv {
									idx = i
								}
							}
							if anon.Parent() != nil && idx >= 0 {
								eng.Instrs(anon.Parent(), false, func(in ssa.Instruction) {
									mc, ok := in.(*ssa.MakeClosure)
									if !ok || mc.Fn != ssa.Value(anon) || idx >= len(mc.Bindings) {
										return
									}
									b := mc.Bindings[idx]
									if cell, ok := b.(*ssa.Alloc); ok {
										for _, r := range *cell.Referrers() {
											if st, ok := r.(*ssa.Store); ok && st.Addr == ssa.Value(cell) {
												work = append(work, st.Val)
											}
										}
									} else {
										work = append(work, b)
									}
								})
							}
						}
					}
				}
				c.Check(own && stored == "", R, fmt.Sprintf("layout.(*HeaderFooterResult).FilterFragments#charLevel%d", m), ci.Pos(), "decided from the page's own fragments",
					"whether the page is character-level is not decided from the fragments of the page being filtered (it reads the stored field "+stored+"): one character-level page switches every page of the document to position-only filtering, which deletes body lines near the margins")
			}
		}
	}
	if m == 0 {
		// no such flag is handed on (a strategy object chosen per call instead): the decision is still this page's own
		// when FilterFragments asks isCharacterLevel about its own fragments and reads no remembered flag
		asksOwn, remembered := false, ""
		for _, h := range eng.Cluster(ff, 1) {
			if h.Pkg != ff.Pkg {
				continue
			}
			for _, ci := range eng.CallsNamed(h, true, "layout.isCharacterLevel") {
				for _, a := range ci.Common().Args {
					for w := range eng.SliceInter(a, nil, []*ssa.Function{ff, h}) {
						if w == frags {
							asksOwn = true
						}
					}
				}
			}
		}
		eng.Instrs(ff, true, func(in ssa.Instruction) {
			if v, ok := in.(ssa.Value); ok {
				if fr, ok := eng.LoadOfField(v); ok && addrRoot(v) == ssa.Value(ff.Params[0]) && strings.Contains(strings.ToLower(fr.Field), "char") {
					remembered = fr.Field
				}
			}
		})
		c.Check(asksOwn && remembered == "", R, "layout.(*HeaderFooterResult).FilterFragments#charLevel", ff.Pos(), "isCharacterLevel is asked about the page's own fragments", "whether the page is character-level is not decided from the fragments of the page being filtered (remembered field "+remembered+")")
	}
}

// R2.14 [C02, C04, C03]
func ruleMarkUnmarkBalance(c *eng.Ctx) {
	const R = "R2.14-MARK-UNMARK-BALANCE"
	c.Rule(R, "an in-progress mark (a key put into a map of the receiver that the same function also deletes: the path of the current resolution) is taken back on every path from the mark to a return, explicitly or by a deferred function: a mark left behind by an error return makes the next, unrelated lookup of that object report a cycle (a set kept in another representation than a map - a sorted slice with add and remove methods - is outside this rule)", 1, 0)
	mapRoot := func(v ssa.Value) string {
		if fr, ok := eng.LoadOfField(v); ok {
			return fr.Struct + "." + fr.Field
		}
		if p, ok := v.(*ssa.Parameter); ok {
			return "param:" + p.Name()
		}
		return ""
	}
	deletesOf := func(f *ssa.Function, root string) []ssa.Instruction {
		var out []ssa.Instruction
		eng.Instrs(f, false, func(in ssa.Instruction) {
			if ci, ok := in.(ssa.CallInstruction); ok {
				if b, ok := ci.Common().Value.(*ssa.Builtin); ok && b.Name() == "delete" && mapRootThrough(ci.Common().Args[0], mapRoot) == root {
					out = append(out, in)
				}
			}
		})
		return out
	}
	for _, fn := range c.P.ModuleFuncs() {
		if fn.Blocks == nil || fn.Parent() != nil || fn.Signature.Recv() == nil {
			continue
		}
		// marks: m[k] = true on a map of the receiver
		var marks []*ssa.MapUpdate
		eng.Instrs(fn, false, func(in ssa.Instruction) {
			if mu, ok := in.(*ssa.MapUpdate); ok {
				if k, isC := mu.Value.(*ssa.Const); isC && k.Value != nil && k.Value.Kind() == constant.Bool && constant.BoolVal(k.Value) {
					if r := mapRoot(mu.Map); r != "" && !strings.HasPrefix(r, "param:") {
						marks = append(marks, mu)
					}
				}
			}
		})
		for i, mu := range marks {
			root := mapRoot(mu.Map)
			direct := deletesOf(fn, root)
			deferred := false
			eng.Instrs(fn, false, func(in ssa.Instruction) {
				if d, ok := in.(*ssa.Defer); ok {
					if g := eng.StaticCallee(d); g != nil && len(deletesOf(g, root)) > 0 {
						deferred = true
					}
				}
			})
			if len(direct) == 0 && !deferred {
				continue // a visited set that only grows: not an in-progress mark
			}
			key := fmt.Sprintf("%s#mark%d", eng.FuncName(fn), i+1)
			// every path from the mark to a return passes a delete, or a deferring of one
			isUnmark := func(in ssa.Instruction) bool {
				for _, d := range direct {
					if d == in {
						return true
					}
				}
				if d, ok := in.(*ssa.Defer); ok {
					if g := eng.StaticCallee(d); g != nil && len(deletesOf(g, root)) > 0 {
						return true
					}
				}
				return false
			}
			leak := token.NoPos
			seen := map[*ssa.BasicBlock]bool{}
			var walk func(b *ssa.BasicBlock, start int)
			walk = func(b *ssa.BasicBlock, start int) {
				if leak != token.NoPos {
					return
				}
				for k := start; k < len(b.Instrs); k++ {
					in := b.Instrs[k]
					if isUnmark(in) {
						return
					}
					if r, ok := in.(*ssa.Return); ok {
						leak = r.Pos()
						return
					}
				}
				for _, s := range b.Succs {
					if !seen[s] {
						seen[s] = true
						walk(s, 0)
					}
				}
			}
			idx := 0
			for k, in := range mu.Block().Instrs {
				if in == ssa.Instruction(mu) {
					idx = k + 1
				}
			}
			walk(mu.Block(), idx)
			c.Check(leak == token.NoPos, R, key, mu.Pos(), "the mark is taken back on every path to a return",
				"the in-progress mark set here is still in the map at the return at "+c.P.Pos(leak)+": after a failed lookup the object stays marked and the next lookup of it reports a cycle")
		}
	}
}

func mapRootThrough(v ssa.Value, mapRoot func(ssa.Value) string) string {
	if r := mapRoot(v); r != "" {
		return r
	}
	// inside a deferred closure the receiver is a captured variable
	if ld, ok := v.(*ssa.UnOp); ok && ld.Op == token.MUL {
		if fa, ok := ld.X.(*ssa.FieldAddr); ok {
			if fr, ok := eng.AsField(fa); ok {
				return fr.Struct + "." + fr.Field
			}
		}
	}
	return ""
}

// R3.9 [C03, C14]
func ruleReadOnlyExports(c *eng.Ctx) {
	const R = "R3.9-EXPORT-READS-ONLY"
	c.Rule(R, "rendering, exporting, filtering and searching a chunk collection do not write into its chunks: no function of package rag named To…, Export…, Filter…, Search…, Get…, Find… stores into a field of a Chunk or ChunkMetadata it did not create itself (a 'temporary' that is a copy of the pointer is the collection's own chunk), so a second export of the same collection gives the same records", 20, 1)
	readOnly := func(name string) bool {
		for _, p := range []string{"To", "Export", "Filter", "Search", "Get", "Find", "Count", "Stat"} {
			if strings.HasPrefix(name, p) {
				return true
			}
		}
		return false
	}
	isChunkish := func(t types.Type) bool {
		n := eng.TypeName(t)
		return strings.HasSuffix(n, "rag.Chunk") || strings.HasSuffix(n, "rag.ChunkMetadata") || strings.HasSuffix(n, ".exportedChunk")
	}
	var created func(v ssa.Value, depth int) bool
	created = func(v ssa.Value, depth int) bool {
		if depth > 8 {
			return false
		}
		switch x := v.(type) {
		case *ssa.Alloc:
			return true
		case *ssa.FieldAddr:
			return created(x.X, depth+1)
		case *ssa.IndexAddr:
			return created(x.X, depth+1)
		case *ssa.MakeSlice:
			return true
		case *ssa.Phi:
			for _, e := range x.Edges {
				if !created(e, depth+1) {
					return false
				}
			}
			return true
		}
		return false
	}
	for _, fn := range c.P.ModuleFuncs() {
		if fn.Pkg == nil || fn.Parent() != nil {
			continue
		}
		sp := eng.ShortPath(fn.Pkg.Pkg.Path())
		if sp != "rag" && !strings.Contains(fn.Pkg.Pkg.Path(), eng.PositivePkg) {
			continue
		}
		if !readOnly(fn.Name()) {
			continue
		}
		bad := token.NoPos
		what := ""
		eng.Instrs(fn, true, func(in ssa.Instruction) {
			st, ok := in.(*ssa.Store)
			if !ok {
				return
			}
			fa, ok := st.Addr.(*ssa.FieldAddr)
			if !ok {
				return
			}
			pt, ok := fa.X.Type().Underlying().(*types.Pointer)
			if !ok || !isChunkish(pt.Elem()) {
				return
			}
			if created(fa.X, 0) {
				return
			}
			bad = st.Pos()
			if fr, ok := eng.AsField(fa); ok {
				what = fr.Field
			}
		})
		if bad != token.NoPos {
			c.Viol(R, eng.FuncName(fn), bad, "a read-only operation stores into field "+what+" of a chunk it did not create: the collection is changed by being rendered, and a later export of it differs from an earlier one")
		} else {
			c.Ok(R, eng.FuncName(fn), fn.Pos(), "no store into chunks of the collection")
		}
	}
}

// R17.11 [C17]
func ruleMarkdownBlanksCovered(c *eng.Ctx) {
	const R = "R17.11-MARKDOWN-BLANKS-COVERED"
	c.Rule(R, "the Markdown and text writers of the xlsx reader consult the merge state of the cells they write: the value of a data cell is written under a test that lets only unmerged cells and merge roots through, so a covered cell of a merged region comes out blank instead of showing a stale stored value", 2, 0)
	for _, name := range []string{"xlsx.(*Reader).MarkdownWithOptions", "xlsx.(*Reader).TextWithOptions"} {
		root := c.P.Func(name)
		if root == nil {
			c.Undec(R, name, token.NoPos, "anchor not found")
			continue
		}
		guarded := false
		for _, fn := range eng.Cluster(root, 2) {
			if fn.Pkg != root.Pkg {
				continue
			}
			facts := eng.MustCross(fn, func(e eng.Edge) bool {
				return eng.AnyEdgeFact(e, func(f eng.Fact) bool {
					fr, ok := eng.LoadOfField(f.Cond)
					if !ok {
						if fl, isF := f.Cond.(*ssa.Field); isF {
							fr, ok = eng.AsField(fl)
						}
					}
					if !ok {
						return false
					}
					return (fr.Field == "IsMerged" && !f.Pos) || (fr.Field == "IsMergeRoot" && f.Pos)
				})
			}, nil)
			eng.Instrs(fn, false, func(in ssa.Instruction) {
				var fr eng.FieldRef
				ok := false
				switch x := in.(type) {
				case *ssa.FieldAddr:
					fr, ok = eng.AsField(x)
				case *ssa.Field:
					fr, ok = eng.AsField(x)
				}
				if ok && fr.Field == "Value" && strings.HasSuffix(fr.Struct, "xlsx.Cell") && eng.InLoop(in.Block()) && facts[in.Block()] {
					guarded = true
				}
			})
		}
		c.Check(guarded, R, name, root.Pos(), "cell values are written under the merge test", "no cell value is written under a test of IsMerged/IsMergeRoot any more: covered cells of merged regions show their stale stored values")
	}
}

// R14.13 [C14]
func ruleSearchNormalisesBoth(c *eng.Ctx) {
	const R = "R14.13-SEARCH-NORMALISES-BOTH"
	c.Rule(R, "ChunkCollection.Search compares keyword and chunk text under the same normalisation: every case-folding function applied to the keyword (strings.ToLower, ToUpper, a Unicode folding) is applied to the chunk text as well, by the same function; folding one side fully and the other by hand (ASCII only) drops the chunks whose match contains non-ASCII upper case", 1, 0)
	name := "rag.(*ChunkCollection).Search"
	fn := c.P.Func(name)
	if fn == nil {
		c.Undec(R, name, token.NoPos, "anchor not found")
		return
	}
	folds := map[string]bool{"strings.ToLower": true, "strings.ToUpper": true, "strings.ToTitle": true, "strings.ToLowerSpecial": true, "strings.ToUpperSpecial": true}
	var kw ssa.Value
	for _, p := range fn.Params {
		if bt, ok := p.Type().Underlying().(*types.Basic); ok && bt.Kind() == types.String {
			kw = p
		}
	}
	onKeyword := map[string]bool{}
	onText := map[string]bool{}
	hosts := eng.Cluster(fn, 2)
	for i := 0; i < len(hosts); i++ {
		hosts = append(hosts, hosts[i].AnonFuncs...)
	}
	// predicates handed on as function values (a method value of a selector object)
	eng.Instrs(fn, false, func(in ssa.Instruction) {
		if ci, ok := in.(ssa.CallInstruction); ok {
			for _, a := range ci.Common().Args {
				if _, isSig := a.Type().Underlying().(*types.Signature); isSig {
					if fs, _ := eng.FuncValues(a); len(fs) > 0 {
						hosts = append(hosts, fs...)
					}
				}
			}
		}
	})
	seenH := map[*ssa.Function]bool{}
	for _, h := range hosts {
		if h.Pkg != fn.Pkg || seenH[h] {
			continue
		}
		seenH[h] = true
		for _, ci := range eng.Calls(h, false, func(nm string, _ ssa.CallInstruction) bool { return folds[nm] }) {
			nm := eng.CalleeName(ci)
			arg := ci.Common().Args[0]
			for w := range sliceWithFreeVars(arg, []*ssa.Function{fn, h}) {
				if w == kw {
					onKeyword[nm] = true
				}
				if fr, ok := eng.AsField(w); ok && fr.Field == "Text" && strings.HasSuffix(fr.Struct, "rag.Chunk") {
					onText[nm] = true
				}
			}
		}
	}
	var lop []string
	for f := range onKeyword {
		if !onText[f] {
			lop = append(lop, f)
		}
	}
	for f := range onText {
		if !onKeyword[f] {
			lop = append(lop, f)
		}
	}
	sort.Strings(lop)
	c.Check(len(lop) == 0, R, name, fn.Pos(), "keyword and text are folded by the same functions", strings.Join(lop, ", ")+" is applied to one side of the comparison only: the two sides are no longer compared under one normalisation, and chunks whose match needs the full folding are silently left out")
}

// R15.9 [C15]
func ruleOneHeaderRow(c *eng.Ctx) {
	const R = "R15.9-ONE-HEADER-ROW"
	c.Rule(R, "a pipe table has exactly one header line directly followed by the delimiter row: in the table renderers no loop over the rows writes cell text before the delimiter row is written (a second 'header' line in front of the delimiter puts the first one outside the table)", 6, 0)
	for _, root := range c.P.ModuleFuncs() {
		if root.Name() != "ToMarkdown" || root.Signature.Recv() == nil || root.Pkg == nil || root.Blocks == nil {
			continue
		}
		rt := root.Signature.Recv().Type()
		if pt, ok := rt.(*types.Pointer); ok {
			rt = pt.Elem()
		}
		st, ok := rt.Underlying().(*types.Struct)
		if !ok {
			continue
		}
		hasRows := false
		for i := 0; i < st.NumFields(); i++ {
			if st.Field(i).Name() == "Rows" {
				hasRows = true
			}
		}
		if !hasRows {
			continue
		}
		// the delimiter write: a constant containing "---"
		var sep *ssa.BasicBlock
		eng.Instrs(root, false, func(in ssa.Instruction) {
			if sep != nil {
				return
			}
			var ops []ssa.Value
			switch x := in.(type) {
			case ssa.CallInstruction:
				if strings.HasSuffix(eng.CalleeName(x), ").WriteString") {
					ops = x.Common().Args
				}
			case *ssa.BinOp:
				if x.Op == token.ADD && isStringValue(x) {
					ops = []ssa.Value{x.X, x.Y}
				}
			case *ssa.Store:
				// an element of the argument list of append(parts, " --- |")
				if _, isEl := x.Addr.(*ssa.IndexAddr); isEl {
					ops = []ssa.Value{x.Val}
				}
			}
			for _, o := range ops {
				if s, ok := eng.ConstString(o); ok && strings.Contains(s, "---") {
					sep = in.Block()
				}
			}
		})
		if sep == nil {
			continue
		}
		bad := token.NoPos
		for _, h := range root.Blocks {
			if !eng.InLoop(h) || !h.Dominates(sep) || h == sep {
				continue
			}
			// the delimiter is written after this loop, not inside it
			inLoop := func(b *ssa.BasicBlock) bool {
				return h.Dominates(b) && eng.ReachableBlocks([]*ssa.BasicBlock{b}, nil)[h]
			}
			if inLoop(sep) {
				continue
			}
			// a loop over rows: its induction variable indexes a slice of rows
			overRows := false
			writes := false
			for _, b := range root.Blocks {
				if !inLoop(b) && b != h {
					continue
				}
				for _, in := range b.Instrs {
					switch x := in.(type) {
					case *ssa.IndexAddr:
						if sl, ok := x.X.Type().Underlying().(*types.Slice); ok {
							if _, rows := sl.Elem().Underlying().(*types.Slice); rows {
								if ph, isInd := eng.Induction(x.Index); isInd && ph.Block() == h {
									overRows = true
								}
							}
						}
					case ssa.CallInstruction:
						if strings.HasSuffix(eng.CalleeName(x), ").WriteString") {
							a := x.Common().Args
							if _, isC := eng.ConstString(a[len(a)-1]); !isC {
								writes = true
							}
						}
					case *ssa.BinOp:
						if x.Op == token.ADD && isStringValue(x) {
							_, c1 := eng.ConstString(x.X)
							_, c2 := eng.ConstString(x.Y)
							if !c1 && !c2 {
								writes = true
							}
						}
					}
				}
			}
			if overRows && writes {
				bad = h.Instrs[0].Pos()
			}
		}
		c.Check(bad == token.NoPos, R, eng.FuncName(root), root.Pos(), "one row is written before the delimiter row", "a loop over the rows writes cell text before the delimiter row ("+c.P.Pos(bad)+"): with more than one line in front of the delimiter the first is no longer part of the table")
	}
}

// R16.13 [C16]
func ruleInlineContainersRecursive(c *eng.Ctx) {
	const R = "R16.13-INLINE-CONTAINER-MODEL"
	c.Rule(R, "an element that the ODT inline reader decodes into a struct of its own (a span, a hyperlink) is an inline container: the struct is read with the inline reader again (a custom UnmarshalXML that calls decodeInlineContent), so the text of nested spans and of <text:s>, <text:tab>, <text:line-break> inside it is kept; a struct with plain `,chardata` keeps only the direct character data", 1, 0)
	root := c.P.Func("odt.decodeInlineContent")
	if root == nil {
		c.Undec(R, "odt.decodeInlineContent", token.NoPos, "anchor not found")
		return
	}
	n := 0
	for _, fn := range eng.Cluster(root, 2) {
		if fn.Pkg != root.Pkg {
			continue
		}
		for _, ci := range eng.Calls(fn, false, func(nm string, _ ssa.CallInstruction) bool { return nm == "encoding/xml.(*Decoder).DecodeElement" }) {
			args := ci.Common().Args
			if len(args) < 2 {
				continue
			}
			v := args[1]
			if mi, ok := v.(*ssa.MakeInterface); ok {
				v = mi.X
			}
			pt, ok := v.Type().Underlying().(*types.Pointer)
			if !ok {
				continue
			}
			nt, ok := pt.Elem().(*types.Named)
			if !ok {
				continue
			}
			n++
			um := c.P.FuncExact("odt.(*" + nt.Obj().Name() + ").UnmarshalXML")
			okRec := false
			if um != nil {
				for _, h := range eng.Cluster(um, 1) {
					for _, cc := range eng.Calls(h, false, func(string, ssa.CallInstruction) bool { return true }) {
						if eng.StaticCallee(cc) == root {
							okRec = true
						}
					}
				}
			}
			c.Check(okRec, R, fmt.Sprintf("odt <%s>", nt.Obj().Name()), ci.Pos(), "read with the inline reader",
				"the element is decoded into "+nt.Obj().Name()+" without reading its children with the inline reader: text of spans, blanks, tabs and line breaks nested in it is lost")
		}
	}
	if n == 0 {
		c.Ok(R, "odt.decodeInlineContent#containers", root.Pos(), "no inline element is decoded into a struct of its own")
	}
}

// DebugFileIntIndex lists index and slice operations whose index derives from a file integer (development aid).
func DebugFileIntIndex(c *eng.Ctx) {
	fns := fileIntFuncs(c.P)
	for _, fn := range c.P.ModuleFuncs() {
		if fn.Blocks == nil {
			continue
		}
		eng.Instrs(fn, false, func(in ssa.Instruction) {
			var idxs []ssa.Value
			switch x := in.(type) {
			case *ssa.IndexAddr:
				idxs = []ssa.Value{x.Index}
			case *ssa.Index:
				idxs = []ssa.Value{x.Index}
			case *ssa.Slice:
				idxs = []ssa.Value{x.Low, x.High}
			default:
				return
			}
			for _, ix := range idxs {
				if ix == nil {
					continue
				}
				if _, isC := eng.ConstInt(ix); isC || !isFileInt(ix, fns) {
					continue
				}
				up := hasUpperGuard(fn, ix, in.Block(), func(ssa.Value) bool { return true })
				lo := bounded(fn, ix, 0, false, in.Block(), 0)
				fmt.Fprintf(os.Stderr, "FIDX %s %s upper=%v lower=%v\n", c.P.Pos(in.Pos()), eng.FuncName(fn), up, lo)
			}
		})
	}
}

// fieldGuardedAtCallSites: sz is a field of the receiver/parameter of the unexported function fn, and every call site
// of fn (transitively through unexported callers) is reached only after a comparison bounded the same field from
// above.
func fieldGuardedAtCallSites(p *eng.Prog, fn *ssa.Function, sz ssa.Value, accept func(ssa.Value) bool, depth int) bool {
	fr, ok := eng.LoadOfField(sz)
	if !ok || depth > 3 {
		return false
	}
	if obj, isF := fn.Object().(*types.Func); !isF || obj.Exported() {
		return false
	}
	n, all := 0, true
	for _, g := range p.ModuleFuncs() {
		if g.Pkg != fn.Pkg {
			continue
		}
		for _, ci := range eng.Calls(g, true, func(_ string, ci ssa.CallInstruction) bool { return eng.StaticCallee(ci) == fn }) {
			n++
			host := ci.Parent()
			guarded := eng.GuardedBy(host, ci.Block(), func(f eng.Fact) bool {
				op, x, y, ok := f.Cmp()
				if !ok {
					return false
				}
				if op == token.GTR || op == token.GEQ {
					op, x, y = eng.Swap(op), y, x
				}
				if op != token.LSS && op != token.LEQ {
					return false
				}
				fx, isF := eng.LoadOfField(x)
				return isF && fx.Field == fr.Field && fx.Struct == fr.Struct && accept(y)
			})
			if !guarded {
				// the caller may itself be an unexported converter reached only through a guarded call
				var inner ssa.Value
				eng.Instrs(host, false, func(in ssa.Instruction) {
					if u, ok := in.(*ssa.UnOp); ok {
						if f2, ok := eng.LoadOfField(u); ok && f2.Field == fr.Field && f2.Struct == fr.Struct {
							inner = u
						}
					}
				})
				if inner == nil || !fieldGuardedAtCallSites(p, host, inner, accept, depth+1) {
					all = false
				}
			}
		}
	}
	return n > 0 && all
}

// R2.15 [C02]
func ruleParsedCountCapped(c *eng.Ctx) {
	const R = "R2.15-PARSED-COUNT-CAPPED"
	c.Rule(R, "a count parsed from document text (a span, a repeat count: strconv.Atoi/ParseInt stored into a field) that reaches the size of an allocation — directly or summed up over the cells of a row — is compared with a constant cap somewhere in its package: without any cap one attribute set to 2^31 sizes a slice or a grid", 2, 0)
	// fields that receive a parsed number
	type fkey struct {
		st  string
		idx int
	}
	parsedField := map[fkey]string{}
	pkgsWith := map[*ssa.Package]bool{}
	isParsed := func(v ssa.Value) bool {
		for w := range eng.Slice(v, nil) {
			if ex, ok := w.(*ssa.Extract); ok && ex.Index == 0 {
				if call, ok := ex.Tuple.(*ssa.Call); ok {
					switch eng.CalleeName(call) {
					case "strconv.Atoi", "strconv.ParseInt", "strconv.ParseUint":
						return true
					}
				}
			}
		}
		return false
	}
	for _, fn := range c.P.ModuleFuncs() {
		eng.Instrs(fn, false, func(in ssa.Instruction) {
			st, ok := in.(*ssa.Store)
			if !ok {
				return
			}
			fa, ok := st.Addr.(*ssa.FieldAddr)
			if !ok {
				return
			}
			if bt, ok := st.Val.Type().Underlying().(*types.Basic); !ok || bt.Info()&types.IsInteger == 0 {
				return
			}
			if isParsed(st.Val) {
				if fr, ok := eng.AsField(fa); ok {
					parsedField[fkey{eng.TypeName(fa.X.Type()), fa.Field}] = fr.Field
					if fn.Pkg != nil {
						pkgsWith[fn.Pkg] = true
					}
				}
			}
		})
	}
	fieldOf := func(v ssa.Value) (fkey, bool) {
		switch x := v.(type) {
		case *ssa.UnOp:
			if fa, ok := x.X.(*ssa.FieldAddr); ok && x.Op == token.MUL {
				return fkey{eng.TypeName(fa.X.Type()), fa.Field}, true
			}
		case *ssa.Field:
			return fkey{"*" + eng.TypeName(x.X.Type()), x.Field}, true
		}
		return fkey{}, false
	}
	norm := func(k fkey) fkey { k.st = strings.TrimPrefix(k.st, "*"); return k }
	pf := map[fkey]string{}
	for k, v := range parsedField {
		pf[norm(k)] = v
	}
	// caps: comparisons of such a field (possibly ±1) with something that contains a constant >= 2
	capped := map[fkey]bool{}
	for _, fn := range c.P.ModuleFuncs() {
		if !pkgsWith[fn.Pkg] {
			continue
		}
		eng.Instrs(fn, false, func(in ssa.Instruction) {
			b, ok := in.(*ssa.BinOp)
			if !ok {
				return
			}
			switch b.Op {
			case token.LSS, token.LEQ, token.GTR, token.GEQ:
			default:
				return
			}
			for _, side := range [][2]ssa.Value{{b.X, b.Y}, {b.Y, b.X}} {
				hasConst := false
				for w := range eng.Slice(side[1], nil) {
					if k, isC := eng.ConstInt(w); isC && k >= 2 {
						hasConst = true
					}
				}
				if !hasConst {
					continue
				}
				for w := range eng.Slice(side[0], nil) {
					if fk, ok := fieldOf(w); ok {
						if _, isP := pf[norm(fk)]; isP {
							capped[norm(fk)] = true
						}
					}
				}
			}
		})
	}
	n := 0
	for _, fn := range c.P.ModuleFuncs() {
		if fn.Blocks == nil || !pkgsWith[fn.Pkg] {
			continue
		}
		k := 0
		eng.Instrs(fn, false, func(in ssa.Instruction) {
			var sizes []ssa.Value
			switch x := in.(type) {
			case *ssa.MakeSlice:
				sizes = []ssa.Value{x.Len, x.Cap}
			case *ssa.Call:
				if eng.CalleeName(x) == "model.NewTable" {
					sizes = x.Call.Args
				}
			}
			seen := map[fkey]bool{}
			for _, sz := range sizes {
				if _, isC := eng.ConstInt(sz); isC {
					continue
				}
				for w := range eng.Slice(sz, nil) {
					fk, ok := fieldOf(w)
					if !ok {
						continue
					}
					fk = norm(fk)
					name, isP := pf[fk]
					if !isP || seen[fk] {
						continue
					}
					seen[fk] = true
					n++
					k++
					c.Check(capped[fk], R, fmt.Sprintf("%s#size%d(%s)", eng.FuncName(fn), k, name), in.Pos(), "the parsed count is compared with a constant cap in its package",
						"the size of this allocation is built from "+name+", a number parsed from the document that is never compared with a cap: a span or repeat count of 2^31 in one attribute exhausts memory")
				}
			}
		})
	}
}

// DebugBinaryIndex lists index/slice/make operations whose operand derives from a binary read (development aid).
func DebugBinaryIndex(c *eng.Ctx) {
	isBin := func(v ssa.Value) bool {
		for w := range eng.Slice(v, nil) {
			if call, ok := w.(*ssa.Call); ok {
				n := eng.CalleeName(call)
				if strings.Contains(n, "binary.") && (strings.Contains(n, "Uint16") || strings.Contains(n, "Uint32") || strings.Contains(n, "Uint64")) {
					return true
				}
			}
		}
		return false
	}
	for _, fn := range c.P.ModuleFuncs() {
		if fn.Blocks == nil {
			continue
		}
		eng.Instrs(fn, false, func(in ssa.Instruction) {
			var idxs []ssa.Value
			kind := ""
			switch x := in.(type) {
			case *ssa.IndexAddr:
				idxs, kind = []ssa.Value{x.Index}, "index"
			case *ssa.Index:
				idxs, kind = []ssa.Value{x.Index}, "index"
			case *ssa.Slice:
				idxs, kind = []ssa.Value{x.Low, x.High}, "slice"
			case *ssa.MakeSlice:
				idxs, kind = []ssa.Value{x.Len}, "make"
			default:
				return
			}
			for _, ix := range idxs {
				if ix == nil {
					continue
				}
				if _, isC := eng.ConstInt(ix); isC || !isBin(ix) {
					continue
				}
				up := hasUpperGuard(fn, ix, in.Block(), func(ssa.Value) bool { return true })
				fmt.Fprintf(os.Stderr, "BIDX %s %s %s upper=%v\n", kind, c.P.Pos(in.Pos()), eng.FuncName(fn), up)
			}
		})
	}
}

// DebugParsedLoops lists loop bounds and strings.Repeat counts that derive from parsed numbers (development aid).
func DebugParsedLoops(c *eng.Ctx) {
	type fkey struct {
		st  string
		idx int
	}
	direct := func(v ssa.Value) bool {
		for w := range eng.Slice(v, nil) {
			if ex, ok := w.(*ssa.Extract); ok && ex.Index == 0 {
				if call, ok := ex.Tuple.(*ssa.Call); ok {
					switch eng.CalleeName(call) {
					case "strconv.Atoi", "strconv.ParseInt", "strconv.ParseUint", "strconv.ParseFloat":
						return true
					}
				}
			}
		}
		return false
	}
	pf := map[fkey]bool{}
	for _, fn := range c.P.ModuleFuncs() {
		eng.Instrs(fn, false, func(in ssa.Instruction) {
			if st, ok := in.(*ssa.Store); ok {
				if fa, ok := st.Addr.(*ssa.FieldAddr); ok && direct(st.Val) {
					pf[fkey{strings.TrimPrefix(eng.TypeName(fa.X.Type()), "*"), fa.Field}] = true
				}
			}
		})
	}
	tainted := func(v ssa.Value) bool {
		if direct(v) {
			return true
		}
		for w := range eng.Slice(v, nil) {
			switch x := w.(type) {
			case *ssa.UnOp:
				if fa, ok := x.X.(*ssa.FieldAddr); ok && x.Op == token.MUL && pf[fkey{strings.TrimPrefix(eng.TypeName(fa.X.Type()), "*"), fa.Field}] {
					return true
				}
			case *ssa.Field:
				if pf[fkey{strings.TrimPrefix(eng.TypeName(x.X.Type()), "*"), x.Field}] {
					return true
				}
			}
		}
		return false
	}
	for _, fn := range c.P.ModuleFuncs() {
		if fn.Blocks == nil {
			continue
		}
		eng.Instrs(fn, false, func(in ssa.Instruction) {
			switch x := in.(type) {
			case *ssa.BinOp:
				if x.Op != token.LSS && x.Op != token.LEQ {
					return
				}
				if _, isInd := eng.Induction(x.X); !isInd {
					if ph, ok := x.X.(*ssa.Phi); !ok || !isLoopCarried(ph) {
						return
					}
				}
				if _, isIf := lastIf(x.Block()); !isIf || !eng.InLoop(x.Block()) {
					return
				}
				if tainted(x.Y) {
					up := hasUpperGuard(fn, x.Y, x.Block(), func(b ssa.Value) bool { _, isC := eng.ConstInt(b); return isC })
					fmt.Fprintf(os.Stderr, "PLOOP %s %s constUpper=%v\n", c.P.Pos(x.Pos()), eng.FuncName(fn), up)
				}
			case *ssa.Call:
				if eng.CalleeName(x) == "strings.Repeat" && tainted(x.Call.Args[1]) {
					up := hasUpperGuard(fn, x.Call.Args[1], x.Block(), func(b ssa.Value) bool { _, isC := eng.ConstInt(b); return isC })
					fmt.Fprintf(os.Stderr, "PREPEAT %s %s constUpper=%v\n", c.P.Pos(x.Pos()), eng.FuncName(fn), up)
				}
			}
		})
	}
}

// validatedByEarlierPass: block blk comes after a complete pass over the collection in field `field` that leaves only
// when every element satisfies pred — a loop that (1) walks the whole collection with a +1 index from its start,
// (2) reaches its next trip only over edges where pred holds for the element, (3) is left towards blk only through its
// header (when the index has run out, never by break), and the function (4) never writes the collection. Then pred
// holds for every element of the collection at blk, whichever loop reads it there.
func validatedByEarlierPass(fn *ssa.Function, blk *ssa.BasicBlock, field string, pred func(eng.Fact) bool) bool {
	// (4)
	written := false
	eng.Instrs(fn, true, func(in ssa.Instruction) {
		st, ok := in.(*ssa.Store)
		if !ok {
			return
		}
		if fr, ok := eng.AsField(st.Addr); ok && fr.Field == field {
			written = true
		}
		if ia, ok := st.Addr.(*ssa.IndexAddr); ok {
			if fr, ok := eng.LoadOfField(ia.X); ok && fr.Field == field {
				written = true
			}
		}
	})
	if written {
		return false
	}
	for _, h := range fn.Blocks {
		if !h.Dominates(blk) || h == blk {
			continue
		}
		// natural loop of h
		body := map[*ssa.BasicBlock]bool{h: true}
		var latches []*ssa.BasicBlock
		for _, p := range h.Preds {
			if h.Dominates(p) {
				latches = append(latches, p)
			}
		}
		if len(latches) == 0 {
			continue
		}
		stack := append([]*ssa.BasicBlock(nil), latches...)
		for len(stack) > 0 {
			b := stack[len(stack)-1]
			stack = stack[:len(stack)-1]
			if body[b] {
				continue
			}
			body[b] = true
			stack = append(stack, b.Preds...)
		}
		if body[blk] {
			continue
		}
		// (1)
		whole := false
		for _, src := range loopRangeSource(h) {
			if fr, ok := eng.LoadOfField(src); ok && fr.Field == field {
				whole = true
			}
		}
		if whole {
			whole = false
			for _, in := range h.Instrs {
				if ph, ok := in.(*ssa.Phi); ok {
					if ind, isInd := eng.Induction(ph); isInd && ind == ph {
						for i, e := range ph.Edges {
							if body[h.Preds[i]] {
								continue
							}
							if k, isC := eng.ConstInt(e); isC && (k == 0 || k == -1) {
								whole = true
							}
						}
					}
				}
			}
		}
		if !whole {
			continue
		}
		// (2)
		ok := true
		for _, l := range latches {
			guarded := eng.GuardedBy(fn, l, pred)
			for i, sx := range l.Succs {
				if sx == h && eng.AnyEdgeFact(eng.Edge{From: l, Succ: i}, pred) {
					guarded = true
				}
			}
			if !guarded {
				ok = false
			}
		}
		// (3)
		for b := range body {
			if b == h {
				continue
			}
			for _, sx := range b.Succs {
				if !body[sx] && (sx == blk || eng.ReachableBlocks([]*ssa.BasicBlock{sx}, nil)[blk]) {
					ok = false
				}
			}
		}
		if ok {
			return true
		}
	}
	return false
}

// builtInOrderOf: the slice value src lists things in the order of the collection in field `field`: it is (a view of)
// that collection, or a local list every element of which was appended inside a loop whose outermost range is such a
// list (a first pass that resolves the entries, a second pass that reads them).
func builtInOrderOf(src ssa.Value, field string, depth int) bool {
	if depth > 2 {
		return false
	}
	var appends []*ssa.Call
	for v := range eng.Slice(src, nil) {
		if fr, ok := eng.AsField(v); ok && fr.Field == field {
			return true
		}
		if call, ok := v.(*ssa.Call); ok && eng.CalleeName(call) == "builtin:append" {
			appends = append(appends, call)
		}
	}
	if len(appends) == 0 {
		return false
	}
	for _, a := range appends {
		hs := enclosingLoopHeaders(a.Block())
		if len(hs) == 0 {
			return false
		}
		ok := false
		for _, s2 := range loopRangeSource(hs[0]) {
			if s2 != src && builtInOrderOf(s2, field, depth+1) {
				ok = true
			}
		}
		if !ok {
			return false
		}
	}
	return true
}

// allCallersPassOwnStorage: at every call site of fn in the module the k-th argument is a slice the caller built in
// its own storage (make, append chains, literals): nothing reachable from a parameter, a field or a global.
func allCallersPassOwnStorage(p *eng.Prog, fn *ssa.Function, k int) bool {
	n := 0
	ok := true
	for _, g := range p.ModuleFuncs() {
		if g.Blocks == nil {
			continue
		}
		for _, ci := range eng.Calls(g, true, func(_ string, ci ssa.CallInstruction) bool { return eng.StaticCallee(ci) == fn }) {
			args := eng.ArgsWithRecv(ci)
			if k >= len(args) {
				ok = false
				continue
			}
			n++
			for w := range eng.Slice(args[k], nil) {
				switch x := w.(type) {
				case *ssa.Parameter, *ssa.Global, *ssa.FieldAddr, *ssa.Field, *ssa.FreeVar:
					ok = false
				case *ssa.Slice:
					_ = x
				}
			}
		}
	}
	return ok && n > 0
}

// valueCursorLoop: the loop of fn keeps its state in a struct VALUE that is carried round the loop (a loop-carried phi
// of a struct type of the module with a string field) and handed through stage functions that return the next state
// (cur = step(cur)). The split-loop rules read a remaining text that is a string variable, or a field of a struct the
// loop updates in place; they do not interpret this functional form and say so instead of alleging anything.
func valueCursorLoop(fn *ssa.Function) bool {
	found := false
	hasString := func(t types.Type) bool {
		st, ok := t.Underlying().(*types.Struct)
		if !ok {
			return false
		}
		for i := 0; i < st.NumFields(); i++ {
			if b, ok := st.Field(i).Type().Underlying().(*types.Basic); ok && b.Kind() == types.String {
				return true
			}
		}
		return false
	}
	eng.Instrs(fn, false, func(in ssa.Instruction) {
		switch x := in.(type) {
		case *ssa.Phi:
			if isLoopCarried(x) && hasString(x.Type()) {
				found = true
			}
		case *ssa.Store:
			// the state variable lives in a local cell and is replaced as a whole by what a stage returns
			al, ok := x.Addr.(*ssa.Alloc)
			if !ok || !eng.InLoop(x.Block()) || !hasString(x.Val.Type()) {
				return
			}
			_ = al
			switch v := x.Val.(type) {
			case *ssa.Call:
				found = true
			case *ssa.Extract:
				if _, isCall := v.Tuple.(*ssa.Call); isCall {
					found = true
				}
			}
		}
	})
	return found
}

const notEvaluatedValueCursor = "not evaluated: the loop state is a struct value handed from stage function to stage function (cur = step(cur)); this rule reads a remaining text kept in a string variable or updated in place"
