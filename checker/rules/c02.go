package rules

import (
	"fmt"
	"go/constant"
	"go/token"
	"go/types"
	"sort"
	"strings"

	"golang.org/x/tools/go/ssa"

	"verif/checker/eng"
)

func init() {
	register(&Property{
		ID:    "C02",
		Level: "other",
		Explanation: "Decided (structural necessary conditions of 'no input can crash, hang or exhaust the process'; classes of failures are removed, their absence is not proven): (R2.1) a tokenizer error ends the token stream (the lookahead becomes EOF) or is checked at every call site, so no parse loop can spin on an unreadable byte; (R2.3) sizes read from the file are bounded before they reach make(): stream bodies are read in constant-bounded pieces, the object-stream table by the header size, the worksheet grid by a constant, and the page count is the number of leaves, not /Count; (R2.4) file-derived slice bounds and indices are guarded on both sides (object-stream offsets, /Index pairs, /W widths); (R2.5) every integer division in the predictor code has a divisor proven >= 1; (R2.6) every recursive call-graph cycle is either structurally guarded (depth counter compared with a bound and incremented along the cycle, a visited/on-path set tested and filled, an in-progress set) or is recursion over an already materialised tree listed in the checker; loops that follow file references carry a counter or visited test that dominates their back edge; the XObject depth counter is incremented and decremented exactly once on every path; (R2.7) every dereference of a format-specific reader in the Extractor happens where only that format is possible (finite dataflow over the format constants, with callee summaries). " +
			"Not decided: absence of all panics/hangs/OOM (unproven bounds checks elsewhere, decompression bombs, regexp cost), timing.",
		Rules: []func(*eng.Ctx){ruleTruncatedContentEvaluated, ruleStructuralFaultsEvaluated, ruleGridRectangular, ruleObjectStreamsEvaluated, ruleBoundsNotInNarrowArithmetic, ruleNoLockAcrossReentry, ruleDepthCountersBalanced, ruleFixedTableIndex, ruleTokenErr, ruleAllocBound, ruleIndexBound, ruleDivGuard, ruleRecGuard, ruleRefLoops, ruleDepthBalance, ruleFormatState, ruleParsedIndex, ruleWrapLoop, roleRule("R2.R", "core", "reader", "pages", "font"), ruleVisitedOnlyGrows, ruleObjStmIndexGuard, ruleWeakBound, ruleAllocFromFileInt, ruleSliceBoundOwnLength, ruleMarkUnmarkBalance, ruleParsedCountCapped, ruleParsedRepeatBounded, ruleCursorReadsGuarded, ruleCoordinateCountsCapped, ruleSizeCheckNoOverflow, ruleUnitDecoderReads, ruleIndexPairOrdered, ruleTailIndexGuarded},
	})
}

// ---------------------------------------------------------------- R2.1

func ruleTokenErr(c *eng.Ctx) {
	const R = "R2.1-TOKEN-ERR"
	c.Rule(R, "core.Parser.nextToken: on the error edge of Lexer.NextToken the lookahead is replaced by a token of type TokenEOF (so every parse loop terminates through its EOF test); otherwise every call site of nextToken must use the returned error", 1, 0)
	fn := c.P.Func("core.(*Parser).nextToken")
	if fn == nil {
		c.Undec(R, "core.(*Parser).nextToken", token.NoPos, "anchor not found")
		return
	}
	// every call of nextToken moves on: no return is reached without the shift currentToken = peekToken (a return in
	// front of it, for a latched error say, leaves the callers, which ignore the result, on the same token for ever)
	{
		var shifts []*ssa.BasicBlock
		eng.Instrs(fn, false, func(in ssa.Instruction) {
			if st, ok := in.(*ssa.Store); ok {
				if fr, ok := eng.AsField(st.Addr); ok && fr.Field == "currentToken" {
					shifts = append(shifts, st.Block())
				}
			}
		})
		if len(shifts) > 0 {
			isShift := func(b *ssa.BasicBlock) bool {
				for _, sb := range shifts {
					if sb == b {
						return true
					}
				}
				return false
			}
			reach := eng.ReachableBlocks([]*ssa.BasicBlock{fn.Blocks[0]}, isShift)
			var early token.Pos
			for _, r := range eng.Returns(fn) {
				if reach[r.Block()] && !isShift(r.Block()) {
					early = r.Pos()
				}
			}
			c.Check(early == token.NoPos, R, "core.(*Parser).nextToken#always-shifts", fn.Pos(), "every return comes after the shift of the lookahead", "nextToken can return (at "+c.P.Pos(early)+") without shifting the lookahead into the current token: the parse loops ignore its result and test the current token, which then never changes - '<< /A > >>' spins for ever")
		}
	}
	eofVal := int64(-1)
	if fn.Pkg != nil {
		if m, ok := fn.Pkg.Members["TokenEOF"].(*ssa.NamedConst); ok {
			eofVal, _ = constant.Int64Val(m.Value.Value)
		}
	}
	var errv ssa.Value
	for _, ci := range eng.CallsNamed(fn, false, "core.(*Lexer).NextToken") {
		for _, r := range *ci.Value().Referrers() {
			if ex, ok := r.(*ssa.Extract); ok && ex.Index == 1 {
				errv = ex
			}
		}
	}
	if errv == nil {
		c.Viol(R, "core.(*Parser).nextToken#lexer", fn.Pos(), "nextToken does not call Lexer.NextToken")
		return
	}
	// the error of the last lexer call: where the lexer is called again in a loop (comments skipped), the error that
	// is tested after the loop is a phi of the calls' errors
	errSet := map[ssa.Value]bool{}
	for _, ci := range eng.CallsNamed(fn, false, "core.(*Lexer).NextToken") {
		for _, r := range *ci.Value().Referrers() {
			if ex, ok := r.(*ssa.Extract); ok && ex.Index == 1 {
				errSet[ex] = true
			}
		}
	}
	for changed := true; changed; {
		changed = false
		eng.Instrs(fn, false, func(in ssa.Instruction) {
			ph, ok := in.(*ssa.Phi)
			if !ok || errSet[ph] || !eng.IsErrorType(ph.Type()) {
				return
			}
			all, some := true, false
			for _, e := range ph.Edges {
				if eng.IsNilConst(e) {
					continue // the zero value of a named result
				}
				if errSet[e] {
					some = true
				} else {
					all = false
				}
			}
			if all && some {
				errSet[ph] = true
				changed = true
			}
		})
	}
	errEdge := func(f eng.Fact) bool {
		op, x, y, ok := f.Cmp()
		return ok && op == token.NEQ && ((errSet[x] && eng.IsNilConst(y)) || (errSet[y] && eng.IsNilConst(x)))
	}
	// on the error edge the lookahead becomes a token of type TokenEOF: a store peekToken = &Token{Type: TokenEOF} on
	// that edge, or (single-exit form) one store after the join whose value on the error edge is that token
	isEOFToken := func(v ssa.Value) bool {
		// a token constructor handed the EOF type: newToken(TokenEOF, ...) whose parameter goes into Token.Type
		if call, isCall := v.(*ssa.Call); isCall {
			if g := eng.StaticCallee(call); g != nil && g.Blocks != nil && eng.InModule(g) {
				for i, prm := range g.Params {
					if i >= len(call.Call.Args) {
						break
					}
					k, isC := eng.ConstInt(call.Call.Args[i])
					if !isC || k != eofVal {
						continue
					}
					toType := false
					eng.Instrs(g, false, func(in ssa.Instruction) {
						if st, ok := in.(*ssa.Store); ok && st.Val == ssa.Value(prm) {
							if fr, ok := eng.AsField(st.Addr); ok && fr.Field == "Type" {
								toType = true
							}
						}
					})
					if toType {
						return true
					}
				}
			}
			return false
		}
		al, ok := v.(*ssa.Alloc)
		if !ok {
			return false
		}
		for _, r := range *al.Referrers() {
			if fa, ok := r.(*ssa.FieldAddr); ok {
				if f2, ok := eng.AsField(fa); ok && f2.Field == "Type" {
					for _, rr := range *fa.Referrers() {
						if s2, ok := rr.(*ssa.Store); ok {
							if k, isC := eng.ConstInt(s2.Val); isC && k == eofVal {
								return true
							}
						}
					}
				}
			}
		}
		return false
	}
	onErr := eng.MustCross(fn, func(e eng.Edge) bool { return eng.AnyEdgeFact(e, errEdge) }, nil)
	var covering []*ssa.BasicBlock
	eng.Instrs(fn, false, func(in ssa.Instruction) {
		st, ok := in.(*ssa.Store)
		if !ok {
			return
		}
		fr, ok := eng.AsField(st.Addr)
		if !ok || fr.Field != "peekToken" {
			return
		}
		if onErr[st.Block()] && isEOFToken(st.Val) {
			covering = append(covering, st.Block())
			return
		}
		if ph, ok := st.Val.(*ssa.Phi); ok {
			any, all := false, true
			for i, e := range ph.Edges {
				pred := ph.Block().Preds[i]
				isErr := onErr[pred]
				for si, sx := range pred.Succs {
					if sx == ph.Block() && eng.AnyEdgeFact(eng.Edge{From: pred, Succ: si}, errEdge) {
						isErr = true
					}
				}
				if isErr {
					any = true
					if !isEOFToken(e) {
						all = false
					}
				}
			}
			if any && all {
				covering = append(covering, st.Block())
			}
		}
	})
	var errStarts []*ssa.BasicBlock
	for _, b := range fn.Blocks {
		if onErr[b] {
			errStarts = append(errStarts, b)
		}
	}
	fromErr := eng.ReachableBlocks(errStarts, nil)
	for _, b := range errStarts {
		fromErr[b] = true
	}
	okEOF := len(covering) > 0 && len(errStarts) > 0
	// every way from a block that is only reached with a lexer error to a return passes a block that makes the
	// lookahead EOF (also with a single exit, where no such block dominates the return)
	isCover := func(b *ssa.BasicBlock) bool {
		for _, sb := range covering {
			if sb == b {
				return true
			}
		}
		return false
	}
	var uncovered []*ssa.BasicBlock
	for _, b := range errStarts {
		if !isCover(b) {
			uncovered = append(uncovered, b)
		}
	}
	bypass := eng.ReachableBlocks(uncovered, isCover)
	for _, r := range eng.Returns(fn) {
		if bypass[r.Block()] {
			okEOF = false
		}
	}
	_ = fromErr
	if okEOF {
		c.Ok(R, "core.(*Parser).nextToken#error-ends-stream", fn.Pos(), "a lexer error turns the lookahead into EOF")
		return
	}
	// alternative: all call sites use the error
	unchecked := 0
	var first token.Pos
	for _, f := range c.P.ModuleFuncs() {
		for _, ci := range eng.Calls(f, false, func(string, ssa.CallInstruction) bool { return true }) {
			if eng.StaticCallee(ci) != fn {
				continue
			}
			v := ci.Value()
			if v == nil || v.Referrers() == nil || len(*v.Referrers()) == 0 {
				unchecked++
				if first == token.NoPos {
					first = ci.Pos()
				}
			}
		}
	}
	c.Check(unchecked == 0, R, "core.(*Parser).nextToken#error-ends-stream", fn.Pos(), "every call site checks the error", fmt.Sprintf("a lexer error neither ends the token stream nor is checked at %d call sites (first: %s): the parser keeps seeing the previous token and spins, e.g. on '<< /A > >>'", unchecked, c.P.Pos(first)))
}

// ---------------------------------------------------------------- R2.3

// upperFact: a dominating comparison that bounds v from above by "something": constant, len(...), field
func hasUpperGuard(fn *ssa.Function, v ssa.Value, at *ssa.BasicBlock, accept func(bound ssa.Value) bool) bool {
	return eng.GuardedBy(fn, at, func(f eng.Fact) bool {
		op, x, y, ok := f.Cmp()
		if !ok {
			return false
		}
		if eng.SameValue(y, v) && !eng.SameValue(x, v) {
			x, y = y, x
			op = eng.Swap(op)
		}
		if !eng.SameValue(x, v) {
			// the guarded quantity may be an arithmetic expression of v (v*k, int64(v)*int64(w), v+1)
			if eng.Slice(x, nil)[v] {
				if _, isPhi := x.(*ssa.Phi); !isPhi {
					return (op == token.LEQ || op == token.LSS) && accept(y)
				}
			}
			return false
		}
		return (op == token.LEQ || op == token.LSS) && accept(y)
	})
}

func ruleAllocBound(c *eng.Ctx) {
	const R = "R2.3-ALLOC-BOUND"
	c.Rule(R, "file-derived sizes are bounded before make(): ReadBytes allocates only constant-bounded pieces, parseHeader bounds /N by the header size, parseWorksheet bounds the grid by a constant, Reader.PageCount is the number of page leaves", 4, 0)
	// ReadBytes
	if fn := c.P.Func("core.(*Lexer).ReadBytes"); fn == nil {
		c.Undec(R, "core.(*Lexer).ReadBytes", token.NoPos, "anchor not found")
	} else {
		n := 0
		eng.Instrs(fn, false, func(in ssa.Instruction) {
			mk, ok := in.(*ssa.MakeSlice)
			if !ok {
				return
			}
			n++
			for _, sz := range []ssa.Value{mk.Len, mk.Cap} {
				if _, isC := eng.ConstInt(sz); isC {
					continue
				}
				ok := bounded(fn, sz, 1<<26, true, mk.Block(), 0)
				c.Check(ok, R, fmt.Sprintf("core.(*Lexer).ReadBytes#make%d", n), mk.Pos(), "allocation size proven <= a constant", "a buffer is allocated with a size taken from the file's /Length without a constant upper bound: '/Length 9223372036854775807' aborts the process")
			}
		})
		if n == 0 {
			c.Ok(R, "core.(*Lexer).ReadBytes#no-make", fn.Pos(), "no allocation sized by the argument")
		}
	}
	// parseHeader
	if fn := c.P.Func("core.(*ObjectStream).parseHeader"); fn == nil {
		c.Undec(R, "core.(*ObjectStream).parseHeader", token.NoPos, "anchor not found")
	} else {
		eng.Instrs(fn, false, func(in ssa.Instruction) {
			mk, ok := in.(*ssa.MakeSlice)
			if !ok {
				return
			}
			for _, sz := range []ssa.Value{mk.Len, mk.Cap} {
				fr, ok := eng.LoadOfField(sz)
				if !ok || fr.Field != "n" {
					continue
				}
				g := hasUpperGuard(fn, sz, mk.Block(), func(b ssa.Value) bool {
					for v := range eng.Slice(b, nil) {
						if call, ok := v.(*ssa.Call); ok {
							if bi, ok := call.Call.Value.(*ssa.Builtin); ok && bi.Name() == "len" {
								return true
							}
						}
						if f, ok := eng.AsField(v); ok && f.Field == "first" {
							return true
						}
					}
					_, isC := eng.ConstInt(b)
					return isC
				})
				c.Check(g, R, "core.(*ObjectStream).parseHeader#N", mk.Pos(), "/N bounded by the header size before sizing the table", "the offset table is sized from /N without comparing it to the data that is there: a huge /N aborts with out of memory")
			}
		})
	}
	// parseWorksheet
	if fn := c.P.Func("xlsx.(*Reader).parseWorksheet"); fn == nil {
		c.Undec(R, "xlsx.(*Reader).parseWorksheet", token.NoPos, "anchor not found")
	} else {
		done := false
		eng.Instrs(fn, false, func(in ssa.Instruction) {
			mk, ok := in.(*ssa.MakeSlice)
			if !ok || done || !strings.Contains(mk.Type().String(), "[]") {
				return
			}
			if !strings.Contains(mk.Type().String(), "Cell") {
				return
			}
			if eng.InLoop(mk.Block()) {
				return // the per-row allocation is covered by the same guard
			}
			done = true
			g := hasUpperGuard(fn, mk.Len, mk.Block(), func(b ssa.Value) bool {
				if _, isC := eng.ConstInt(b); isC {
					return true
				}
				// rows <= limit / columns: the product check written so that it cannot overflow
				for {
					cv, ok := b.(*ssa.Convert)
					if !ok {
						break
					}
					b = cv.X
				}
				if q, ok := b.(*ssa.BinOp); ok && q.Op == token.QUO {
					_, isC := eng.ConstInt(q.X)
					return isC
				}
				return false
			})
			c.Check(g, R, "xlsx.(*Reader).parseWorksheet#grid", mk.Pos(), "grid dimensions bounded by a constant before allocation", "the dense cell grid is allocated from the largest row/column reference in the sheet without an upper bound: one cell addressed XFD1048576 exhausts memory")
		})
		if !done {
			c.Ok(R, "xlsx.(*Reader).parseWorksheet#grid", fn.Pos(), "no dense grid allocation")
		}
	}
	// PageCount
	if fn := c.P.Func("reader.(*Reader).PageCount"); fn == nil {
		c.Undec(R, "reader.(*Reader).PageCount", token.NoPos, "anchor not found")
	} else {
		ok := true
		for _, r := range eng.Returns(fn) {
			v := r.Results[0]
			if k, isC := eng.ConstInt(v); isC && k == 0 {
				continue
			}
			call, isCall := v.(*ssa.Call)
			if !isCall {
				ok = false
				continue
			}
			if bi, isB := call.Call.Value.(*ssa.Builtin); !isB || bi.Name() != "len" {
				ok = false
			}
		}
		c.Check(ok, R, "reader.(*Reader).PageCount#leaves", fn.Pos(), "page count is the number of page leaves", "the page count is taken from the file's /Count entry: callers size slices and loops from it ('/Count 1099511627776' exhausts memory) and it can disagree with the pages that exist")
	}
}

// ---------------------------------------------------------------- R2.4

func ruleIndexBound(c *eng.Ctx) {
	const R = "R2.4-INDEX-BOUND"
	c.Rule(R, "GetObjectByIndex slices the decoded data only between offsets proven 0 <= low <= high <= len; parseXRefStream reads /Index in pairs only after an even-length check, accepts /W widths only within 0..8 and rejects an all-zero /W", 4, 0)
	if fn := c.P.Func("core.(*ObjectStream).GetObjectByIndex"); fn == nil {
		c.Undec(R, "core.(*ObjectStream).GetObjectByIndex", token.NoPos, "anchor not found")
	} else {
		// prove(f0, blk, low, high): the missing parts of 0 <= low < len, low <= high <= len at blk of f0
		prove := func(f0 *ssa.Function, blk *ssa.BasicBlock, low, high ssa.Value) []string {
			nonNeg := eng.GuardedBy(f0, blk, func(f eng.Fact) bool {
				op, x, y, ok := f.Cmp()
				k, isC := eng.ConstInt(y)
				return ok && x == low && isC && ((op == token.GEQ && k == 0) || (op == token.GTR && k == -1))
			})
			lowLen := eng.GuardedBy(f0, blk, func(f eng.Fact) bool {
				op, x, y, ok := f.Cmp()
				if !ok || x != low {
					return false
				}
				call, isCall := y.(*ssa.Call)
				if !isCall {
					return false
				}
				bi, isB := call.Call.Value.(*ssa.Builtin)
				return isB && bi.Name() == "len" && (op == token.LSS || op == token.LEQ)
			})
			// high is clamped: a phi whose non-clamp edge is guarded by high >= low and high <= len
			highOK := false
			if ph, ok := high.(*ssa.Phi); ok {
				highOK = true
				for i, e := range ph.Edges {
					pred := ph.Block().Preds[i]
					if call, ok := e.(*ssa.Call); ok {
						if bi, ok := call.Call.Value.(*ssa.Builtin); ok && bi.Name() == "len" {
							continue // clamped to len
						}
					}
					// the unclamped value: facts e <= len and e >= low on the edge
					le := false
					ge := false
					chk := func(f eng.Fact) {
						op, x, y, ok := f.Cmp()
						if !ok || x != e {
							return
						}
						if call, isCall := y.(*ssa.Call); isCall {
							if bi, isB := call.Call.Value.(*ssa.Builtin); isB && bi.Name() == "len" && (op == token.LEQ || op == token.LSS) {
								le = true
							}
						}
						if y == low && (op == token.GEQ || op == token.GTR) {
							ge = true
						}
					}
					for b := pred; b != nil; b = b.Idom() {
						for si := range b.Succs {
							if f, ok := eng.EdgeFact(eng.Edge{From: b, Succ: si}); ok {
								// only edges on the way to pred
								if b.Succs[si] == pred || b.Succs[si].Dominates(pred) || b == pred && b.Succs[si] == ph.Block() {
									chk(f)
								}
							}
						}
					}
					if !(le && ge) {
						highOK = false
					}
				}
			}
			var miss []string
			if !nonNeg {
				miss = append(miss, "low >= 0")
			}
			if !lowLen {
				miss = append(miss, "low < len")
			}
			if !highOK {
				miss = append(miss, "low <= high <= len")
			}
			return miss
		}
		sliced := 0
		eng.Instrs(fn, false, func(in ssa.Instruction) {
			sl, ok := in.(*ssa.Slice)
			if !ok || sl.Low == nil || sl.High == nil {
				return
			}
			if fr, ok := eng.LoadOfField(sl.X); !ok || fr.Field != "decoded" {
				return
			}
			sliced++
			var miss []string
			exLow, isExL := sl.Low.(*ssa.Extract)
			exHigh, isExH := sl.High.(*ssa.Extract)
			if isExL && isExH && exLow.Tuple == exHigh.Tuple {
				// the bounds are computed by a helper (offset, end, err := os.objectBounds(i)): prove them at each of its returns
				call, _ := exLow.Tuple.(*ssa.Call)
				var h *ssa.Function
				if call != nil {
					h = eng.StaticCallee(call)
				}
				if h == nil || h.Blocks == nil || !eng.InModule(h) {
					miss = []string{"bounds come from a call that cannot be resolved"}
				} else {
					for _, r := range eng.Returns(h) {
						lo, hi := r.Results[exLow.Index], r.Results[exHigh.Index]
						if kl, okl := eng.ConstInt(lo); okl && kl == 0 {
							if kh, okh := eng.ConstInt(hi); okh && kh == 0 {
								continue // the error return: [0:0] is always in range
							}
						}
						miss = append(miss, prove(h, r.Block(), lo, hi)...)
					}
				}
			} else {
				miss = prove(fn, sl.Block(), sl.Low, sl.High)
			}
			c.Check(len(miss) == 0, R, "core.(*ObjectStream).GetObjectByIndex#slice", sl.Pos(), "0 <= low <= high <= len proven", "object data is sliced with offsets from the stream header without proving "+strings.Join(miss, ", ")+": a negative or decreasing offset panics")
		})
		if sliced == 0 {
			// the slicing was moved into a stage function that takes the bounds as a value of its own: decided by evaluation
			n, bad, skipped := objStmEvaluated(c)
			switch {
			case skipped != "":
				c.Undec(R, "core.(*ObjectStream).GetObjectByIndex#slice", fn.Pos(), "the decoded data is not sliced here and the stages could not be evaluated: "+skipped)
			default:
				c.Check(bad == "", R, "core.(*ObjectStream).GetObjectByIndex#slice", fn.Pos(), fmt.Sprintf("sliced in a stage function: %d calls on hostile offsets evaluated", n), "object data is sliced with offsets from the stream header that are not in range: "+bad)
			}
		}
	}
	if fn := c.P.Func("core.(*XRefParser).parseXRefStream"); fn == nil {
		c.Undec(R, "core.(*XRefParser).parseXRefStream", token.NoPos, "anchor not found")
	} else {
		// index[i+1] — in the parser or in the helper the dictionary reading was moved to
		for _, fn := range eng.Cluster(fn, 2) {
			eng.Instrs(fn, false, func(in ssa.Instruction) {
				ia, ok := in.(*ssa.IndexAddr)
				if !ok {
					return
				}
				pairRead := false
				if b, ok := ia.Index.(*ssa.BinOp); ok && b.Op == token.ADD {
					if k, isC := eng.ConstInt(b.Y); isC && k == 1 {
						if _, isInd := eng.Induction(ia.Index); !isInd { // not the rotated range index of a `for i := range` loop
							pairRead = true
						}
					}
				}
				// the same read written on a remainder slice: pairs[1] where pairs = pairs[2:] around the loop
				if k, isC := eng.ConstInt(ia.Index); isC && k == 1 {
					if ph, ok := ia.X.(*ssa.Phi); ok && isLoopCarried(ph) {
						for _, e := range ph.Edges {
							if sl, ok := e.(*ssa.Slice); ok && sl.X == ssa.Value(ph) {
								if lo, isC := eng.ConstInt(sl.Low); isC && lo == 2 {
									pairRead = true
								}
							}
						}
					}
				}
				if !pairRead {
					return
				}
				even := eng.GuardedBy(fn, ia.Block(), func(f eng.Fact) bool {
					op, x, y, ok := f.Cmp()
					if !ok || op != token.EQL {
						return false
					}
					rem, isRem := x.(*ssa.BinOp)
					k, isC := eng.ConstInt(y)
					if !isRem || rem.Op != token.REM || !isC || k != 0 {
						return false
					}
					m, isM := eng.ConstInt(rem.Y)
					return isM && m == 2
				})
				if !even {
					// the dictionary may be read (and /Index validated) by another function of the cluster that hands the
					// validated array on: accept an odd-length rejection there
					for _, h := range eng.Cluster(c.P.Func("core.(*XRefParser).parseXRefStream"), 2) {
						if h == fn {
							continue
						}
						eng.Instrs(h, false, func(in2 ssa.Instruction) {
							b, ok := in2.(*ssa.BinOp)
							if !ok || (b.Op != token.EQL && b.Op != token.NEQ) {
								return
							}
							rem, isRem := b.X.(*ssa.BinOp)
							k, isC := eng.ConstInt(b.Y)
							if !isRem || rem.Op != token.REM || !isC || k != 0 {
								return
							}
							if m, isM := eng.ConstInt(rem.Y); !isM || m != 2 {
								return
							}
							if call, ok := rem.X.(*ssa.Call); ok && eng.CalleeName(call) == "builtin:len" {
								if _, isIf := lastIf(b.Block()); isIf {
									even = true
								}
							}
						})
					}
				}
				c.Check(even, R, "core.(*XRefParser).parseXRefStream#index-pairs", ia.Pos(), "/Index is read in pairs only after len%2 == 0", "/Index[i+1] is read without checking that the array has an even length: an odd /Index panics")
			})
		}
		// w[i] stores
		wOK, wSeen := true, false
		// the /W validation may be a helper returning the widths: every function of the cluster is scanned in its own context
		wCluster := eng.Cluster(fn, 2)
		for _, fn := range wCluster {
			eng.Instrs(fn, false, func(in ssa.Instruction) {
				st, ok := in.(*ssa.Store)
				if !ok {
					return
				}
				ia, ok := st.Addr.(*ssa.IndexAddr)
				if !ok {
					return
				}
				// make([]int, 3): either a MakeSlice of constant length 3 or a slice of a new [3]int
				isW := false
				switch x := ia.X.(type) {
				case *ssa.MakeSlice:
					if k, isC := eng.ConstInt(x.Len); isC && k == 3 {
						isW = true
					}
				case *ssa.Slice:
					if al, ok := x.X.(*ssa.Alloc); ok {
						if at, ok := al.Type().Underlying().(*types.Pointer).Elem().Underlying().(*types.Array); ok && at.Len() == 3 {
							if b, ok := at.Elem().Underlying().(*types.Basic); ok && b.Kind() == types.Int {
								isW = true
							}
						}
					}
				}
				if !isW {
					return
				}
				wSeen = true
				cv, ok := st.Val.(*ssa.Convert)
				if !ok {
					wOK = false
					return
				}
				lo := bounded(fn, cv.X, 0, false, st.Block(), 0)
				hi := bounded(fn, cv.X, 8, true, st.Block(), 0)
				if !lo || !hi {
					wOK = false
				}
			})
		}
		if !wSeen {
			// the widths may be produced by a generic "map with error" helper that is handed a converter closure: the
			// slice later indexed with 0, 1, 2 is the helper's result, and every value the converter hands back
			// without an error must be proven within 0..8 where it is returned
			for _, h := range wCluster {
				eng.Instrs(h, false, func(in ssa.Instruction) {
					ia, ok := in.(*ssa.IndexAddr)
					if !ok {
						return
					}
					if k, isC := eng.ConstInt(ia.Index); !isC || k < 0 || k > 2 {
						return
					}
					var call *ssa.Call
					switch x := ia.X.(type) {
					case *ssa.Extract:
						call, _ = x.Tuple.(*ssa.Call)
					case *ssa.Call:
						call = x
					}
					if call == nil {
						return
					}
					hf := eng.StaticCallee(call)
					if hf == nil || !eng.InModule(hf) {
						return
					}
					for _, a := range call.Call.Args {
						var conv *ssa.Function
						switch x := a.(type) {
						case *ssa.MakeClosure:
							conv, _ = x.Fn.(*ssa.Function)
						case *ssa.Function:
							conv = x // a function literal that captures nothing
						}
						if conv == nil || conv.Signature.Results().Len() != 2 || conv.Blocks == nil {
							continue
						}
						for _, r := range eng.Returns(conv) {
							if !eng.IsNilConst(r.Results[1]) {
								continue
							}
							wSeen = true
							cv, ok := r.Results[0].(*ssa.Convert)
							if !ok {
								wOK = false
								continue
							}
							if !bounded(conv, cv.X, 0, false, r.Block(), 0) || !bounded(conv, cv.X, 8, true, r.Block(), 0) {
								wOK = false
							}
						}
					}
				})
			}
		}
		c.Check(wSeen && wOK, R, "core.(*XRefParser).parseXRefStream#W-range", fn.Pos(), "/W widths proven within 0..8", "a /W field width is used without proving 0 <= w <= 8: a negative width slices with a negative bound")
		// all-zero check: a comparison of a sum with 0 leading to an error return
		zero := false
		for _, h := range wCluster {
			eng.Instrs(h, false, func(in ssa.Instruction) {
				b, ok := in.(*ssa.BinOp)
				if !ok || (b.Op != token.EQL && b.Op != token.LEQ && b.Op != token.LSS) {
					return
				}
				if k, isC := eng.ConstInt(b.Y); !isC || (k != 0 && k != 1) {
					return
				}
				if sum, ok := b.X.(*ssa.BinOp); ok && sum.Op == token.ADD {
					zero = true
				}
				// the sum may be a small method of the width table (w.total())
				if call, ok := b.X.(*ssa.Call); ok {
					if hf := eng.StaticCallee(call); hf != nil && hf.Blocks != nil && eng.InModule(hf) {
						rets := eng.Returns(hf)
						all := len(rets) > 0
						for _, r := range rets {
							sum, ok := r.Results[0].(*ssa.BinOp)
							if !ok || sum.Op != token.ADD {
								all = false
							}
						}
						if all {
							zero = true
						}
					}
				}
			})
		}
		c.Check(zero, R, "core.(*XRefParser).parseXRefStream#W-nonzero", fn.Pos(), "an all-zero /W is rejected", "an entry width of zero is accepted: each entry consumes no bytes and a large /Index count loops without end")
	}
}

// ---------------------------------------------------------------- R2.5

func ruleDivGuard(c *eng.Ctx) {
	const R = "R2.5-DIV-GUARD"
	c.Rule(R, "in internal/filters every integer / or % with a non-constant divisor is dominated by a proof that the divisor is >= 1", 3, 0)
	n := 0
	for _, fn := range c.P.ModuleFuncs() {
		if fn.Pkg == nil || eng.ShortPath(fn.Pkg.Pkg.Path()) != "internal/filters" {
			continue
		}
		eng.Instrs(fn, false, func(in ssa.Instruction) {
			b, ok := in.(*ssa.BinOp)
			if !ok || (b.Op != token.QUO && b.Op != token.REM) {
				return
			}
			bt, ok := b.Type().Underlying().(*types.Basic)
			if !ok || bt.Info()&types.IsInteger == 0 {
				return
			}
			if _, isC := eng.ConstInt(b.Y); isC {
				return
			}
			n++
			ok2 := bounded(fn, b.Y, 1, false, b.Block(), 0)
			c.Check(ok2, R, fmt.Sprintf("%s#div%d", eng.FuncName(fn), n), b.Pos(), "divisor proven >= 1", "integer division by a value computed from /Columns and /Colors without proving it positive: /Columns 0 panics with divide by zero")
		})
	}
}

// ---------------------------------------------------------------- R2.6

// recursion classes, keyed by the sorted member names of the SCC
var treeRecursion = map[string]string{}

func init() {
	for _, n := range []string{
		"core.(*Stream).String | core.Array.String | core.Dict.String",
		"epubdoc.convertNCXNavPoints", "epubdoc.extractText", "epubdoc.parseLIEntry | epubdoc.parseOLEntries",
		"epubdoc.parseNavXHTML$1", "epubdoc.parseNavXHTML$2", "epubdoc.parseNavXHTML$3",
		"htmldoc.(*Reader).extractHead", "htmldoc.(*Reader).traverseNode", "htmldoc.(*Reader).traverseNodeFiltered", "htmldoc.countLinks",
		"htmldoc.findElement", "htmldoc.getTextContentRecursive", "htmldoc.linkTextLength", "htmldoc.textLength",
		"layout.(*List).GetAllItems$1", "layout.(*List).GetText$1", "layout.(*List).MaxDepth$1", "layout.(*List).ToMarkdown$1",
		"layout.(*ListDetector).countAllItems", "layout.(*ListDetector).flattenListItems", "odt.(*ListParser).parseListItem",
		"pptx.(*Reader).extractGroupedShapes", "rag.(*Chunker).chunkSectionTree", "rag.countItemsAndDepth", "rag.countListItemSize",
		"rag.findParentInChildren", "rag.flattenMetadata", "rag.formatListItem", "rag.formatValue", "reader.(*Reader).parseColorSpace",
	} {
		treeRecursion[n] = "recursion over a tree that is already materialised in memory (built by x/net/html, encoding/xml or by the module itself, or an already parsed PDF object): depth is bounded by the nesting of that tree"
	}
}

type recGuard struct {
	kind string // "depth" | "set"
	fn   string // function that carries the guard
	what string // field / parameter substring
}

var guardedRecursion = map[string]recGuard{
	"contentstream.(*Parser).parseArray | contentstream.(*Parser).parseDict | contentstream.(*Parser).parseOperand": {"depth", "contentstream.(*Parser).parseArray", "depth"},
	"core.(*Parser).ParseObject | core.(*Parser).parseArray | core.(*Parser).parseDict":                             {"depth", "core.(*Parser).parseArray", "depth"},
	"core.(*Parser).ParseIndirectObject | core.(*Parser).parseStream | reader.(*Reader).GetObject | reader.(*Reader).ResolveReference | reader.(*Reader).getCompressedObject | reader.(*Reader).getObjectStream | reader.(*Reader).getUncompressedObject": {"set", "reader.(*Reader).GetObject", "loading"},
	"pages.(*PageTree).traversePageNode":                                   {"depth", "pages.(*PageTree).traversePageNode", "depth"},
	"reader.(*Reader).resolveDeep":                                         {"set", "reader.(*Reader).resolveDeep", "onPath"},
	"resolver.(*ObjectResolver).resolve":                                   {"depth", "resolver.(*ObjectResolver).resolve", "Depth"},
	"text.(*Extractor).invokeXObject | text.(*Extractor).processOperation": {"depth", "text.(*Extractor).invokeXObject", "xobjectDepth"},
}

// hasDepthGuard: fn compares a value whose name/field contains `what` with a bound and returns
// on the exceeding edge, and the same quantity is incremented in fn.
func hasDepthGuard(fn *ssa.Function, what string, others ...*ssa.Function) bool {
	isQty := func(v ssa.Value) bool {
		if fr, ok := eng.LoadOfField(v); ok && strings.Contains(strings.ToLower(fr.Field), strings.ToLower(what)) {
			return true
		}
		if p, ok := v.(*ssa.Parameter); ok && strings.Contains(strings.ToLower(p.Name()), strings.ToLower(what)) {
			return true
		}
		return false
	}
	cmp, inc := false, false
	scan := func(in ssa.Instruction) {
		switch x := in.(type) {
		case *ssa.BinOp:
			switch x.Op {
			case token.GTR, token.GEQ, token.LSS, token.LEQ:
				if isQty(x.X) || isQty(x.Y) {
					// one successor of the comparing block returns an error without reaching the recursion
					blk := x.Block()
					if len(blk.Instrs) > 0 {
						if _, isIf := blk.Instrs[len(blk.Instrs)-1].(*ssa.If); isIf {
							cmp = true
						}
					}
				}
			case token.ADD:
				if k, isC := eng.ConstInt(x.Y); isC && k == 1 && isQty(x.X) {
					inc = true
				}
			}
		}
	}
	// the bound test and the +1 may sit in different members of the cycle (loop body extracted into a method)
	eng.Instrs(fn, false, scan)
	seen := map[*ssa.Function]bool{fn: true}
	for _, o := range others {
		if !seen[o] {
			seen[o] = true
			eng.Instrs(o, false, scan)
		}
	}
	// or in a helper that a member of the cycle calls (the lookup that precedes the descent, split off)
	for _, o := range append([]*ssa.Function{fn}, others...) {
		for _, ci := range eng.Calls(o, false, func(string, ssa.CallInstruction) bool { return true }) {
			if g := eng.StaticCallee(ci); g != nil && g.Blocks != nil && g.Pkg == fn.Pkg && !seen[g] {
				seen[g] = true
				eng.Instrs(g, false, scan)
			}
		}
	}
	return cmp && inc
}

// hasSetGuard: fn tests membership in a map named/fielded `what` and inserts into it.
func hasSetGuard(fn *ssa.Function, what string, scc ...*ssa.Function) bool {
	isSet := func(v ssa.Value) bool {
		if fr, ok := eng.LoadOfField(v); ok && strings.Contains(fr.Field, what) {
			return true
		}
		if p, ok := v.(*ssa.Parameter); ok && strings.Contains(p.Name(), what) {
			return true
		}
		return false
	}
	test, ins := false, false
	var inserts []ssa.Instruction
	eng.Instrs(fn, false, func(in ssa.Instruction) {
		switch x := in.(type) {
		case *ssa.Lookup:
			if isSet(x.X) {
				test = true
			}
		case *ssa.MapUpdate:
			if isSet(x.Map) {
				ins = true
				inserts = append(inserts, x)
			}
		case *ssa.Call:
			// the set kept in a type of its own (a sorted slice) with membership and insertion methods of the package
			if g := eng.StaticCallee(x); g != nil && g.Pkg == fn.Pkg && g.Signature.Recv() != nil && len(x.Call.Args) >= 2 {
				recv := x.Call.Args[0]
				onSet := isSet(recv)
				if fa, ok := recv.(*ssa.FieldAddr); ok {
					if fr, ok := eng.AsField(fa); ok && strings.Contains(fr.Field, what) {
						onSet = true
					}
				}
				if onSet {
					switch g.Name() {
					case "has", "contains", "Has", "Contains":
						test = true
					case "add", "insert", "Add", "Insert":
						ins = true
						inserts = append(inserts, x)
					}
				}
			}
		}
	})
	if !(test && ins) {
		return false
	}
	// the guard covers the recursion: every call that re-enters the cycle from this function comes after an insertion
	// (on every path), and no plain delete of the set lies between that insertion and the call
	before := func(a, b ssa.Instruction) bool {
		if a.Block() == b.Block() {
			for _, in := range a.Block().Instrs {
				if in == a {
					return true
				}
				if in == b {
					return false
				}
			}
		}
		return a.Block().Dominates(b.Block())
	}
	member := map[*ssa.Function]bool{}
	for _, f := range scc {
		member[f] = true
	}
	// a key that exists only for one dynamic type of the argument (ref, ok := obj.(IndirectRef); onPath[ref.Number]):
	// the other types carry no reference and the insertion is rightly conditional
	typed := len(inserts) > 0
	for _, m := range inserts {
		fromAssert := false
		mu, isMU := m.(*ssa.MapUpdate)
		if !isMU {
			typed = false
			continue
		}
		for w := range eng.Slice(mu.Key, nil) {
			if ta, ok := w.(*ssa.TypeAssert); ok && ta.CommaOk {
				fromAssert = true
			}
		}
		if !fromAssert {
			typed = false
		}
	}
	if typed {
		return true
	}
	covered := true
	eng.Instrs(fn, false, func(in ssa.Instruction) {
		ci, ok := in.(ssa.CallInstruction)
		if !ok {
			return
		}
		if _, isDefer := in.(*ssa.Defer); isDefer {
			return
		}
		cal := eng.StaticCallee(ci)
		if cal == nil || !member[cal] {
			return
		}
		okCall := false
		for _, m := range inserts {
			if !before(m, in) {
				continue
			}
			undone := false
			eng.Instrs(fn, false, func(d ssa.Instruction) {
				dc, ok := d.(*ssa.Call)
				if !ok {
					return
				}
				if bi, ok := dc.Call.Value.(*ssa.Builtin); ok && bi.Name() == "delete" && isSet(dc.Call.Args[0]) && before(m, d) && before(d, in) {
					undone = true
				}
			})
			if !undone {
				okCall = true
			}
		}
		if !okCall {
			covered = false
		}
	})
	return covered
}

// cutsAllCycles: without f the members of the component no longer form a cycle.
func cutsAllCycles(p *eng.Prog, scc []*ssa.Function, f *ssa.Function) bool {
	cg := p.CallGraph()
	in := map[*ssa.Function]bool{}
	for _, m := range scc {
		if m != f {
			in[m] = true
		}
	}
	state := map[*ssa.Function]int{}
	var visit func(m *ssa.Function) bool
	visit = func(m *ssa.Function) bool {
		state[m] = 1
		var outs []*ssa.Function
		if n := cg.Nodes[m]; n != nil {
			for _, e := range n.Out {
				outs = append(outs, e.Callee.Func)
			}
		}
		outs = append(outs, m.AnonFuncs...)
		for _, o := range outs {
			if !in[o] {
				continue
			}
			if state[o] == 1 {
				return false
			}
			if state[o] == 0 && !visit(o) {
				return false
			}
		}
		state[m] = 2
		return true
	}
	for m := range in {
		if state[m] == 0 && !visit(m) {
			return false
		}
	}
	return true
}

func ruleRecGuard(c *eng.Ctx) {
	const R = "R2.6-REC-GUARD"
	c.Rule(R, "every recursive cycle of the call graph is guarded (depth counter or visited/in-progress set, verified in the named function) or is listed tree recursion; a new cycle is a violation until classified", 30, 0)
	for _, scc := range eng.RecursiveSCCs(c.P) {
		var names []string
		inPositive := false
		for _, f := range scc {
			names = append(names, eng.FuncName(f))
			if strings.Contains(eng.FuncName(f), eng.PositivePkg) {
				inPositive = true
			}
		}
		if inPositive {
			continue
		}
		sort.Strings(names)
		key := strings.Join(names, " | ")
		pos := scc[0].Pos()
		if why, ok := treeRecursion[key]; ok {
			c.Ok(R, key, pos, "accepted: "+why)
			continue
		}
		g, ok := guardedRecursion[key]
		if !ok {
			// the cycle gained or lost a helper (a loop body extracted into a method, a helper inlined):
			// it is the same recursion when it contains the function that carries a listed guard, or
			// all members of a listed tree recursion
			member := map[string]bool{}
			for _, n := range names {
				member[n] = true
			}
			for k, cand := range guardedRecursion {
				_ = k
				if member[cand.fn] {
					g, ok = cand, true
				}
			}
			if !ok {
				for k, why := range treeRecursion {
					all := true
					for _, m := range strings.Split(k, " | ") {
						if !member[m] {
							all = false
						}
					}
					if all {
						c.Ok(R, key, pos, "accepted (listed cycle "+k+" plus helpers): "+why)
						ok = true
					}
				}
				if ok {
					continue
				}
			}
		}
		if ok {
			gf := c.P.Func(g.fn)
			if gf == nil {
				c.Viol(R, key, pos, "the function that carried the recursion guard ("+g.fn+") no longer exists")
				continue
			}
			okG := false
			if g.kind == "depth" {
				okG = hasDepthGuard(gf, g.what, scc...)
			} else {
				okG = hasSetGuard(gf, g.what, scc...)
			}
			if !okG && g.kind == "set" {
				// the guard moved into a stage of the same cycle: accepted when that member tests and fills the same
				// set around its own calls into the cycle and every cycle passes through it
				for _, f := range scc {
					if f != gf && hasSetGuard(f, g.what, scc...) && cutsAllCycles(c.P, scc, f) {
						okG = true
					}
				}
			}
			c.Check(okG, R, key, gf.Pos(), g.kind+" guard on "+g.what+" in "+g.fn, "the recursion over file-controlled references/nesting is no longer guarded ("+g.kind+" guard on "+g.what+" in "+g.fn+" not found): a self-referencing or deeply nested input overflows the stack, which aborts the process")
			continue
		}
		// a cycle that is not listed (a loop turned into recursion, a recursive method turned into a closure,
		// a renamed function): accepted when a guard can be shown structurally in one of its members
		if how, ok := genericRecGuard(scc); ok {
			c.Ok(R, key, pos, "unlisted cycle with a structural guard: "+how)
			continue
		}
		// a depth counter kept in a field of the receiver (tested against a limit, stepped around the recursive call)
		fieldDepth := ""
		for _, f := range scc {
			if hasDepthGuard(f, "Depth", scc...) || hasDepthGuard(f, "depth", scc...) {
				fieldDepth = eng.FuncName(f)
			}
		}
		if fieldDepth != "" {
			c.Ok(R, key, pos, "unlisted cycle with a depth counter in a field, tested in "+fieldDepth)
			continue
		}
		if genericTreeRecursion(scc) {
			c.Ok(R, key, pos, "unlisted cycle that descends an in-memory structure: every recursive call passes a part (field, element) of its own parameter and no member follows file references")
			continue
		}
		c.Viol(R, key, pos, "new recursive cycle in the call graph that is neither guarded nor classified as recursion over a materialised tree")
	}
}

// genericTreeRecursion: every call between members of the cycle passes, in some position, a value selected from the
// caller's own parameter (a field, an element, a range value: the recursion descends a structure that is already in
// memory), and no member resolves file references (where cycles are possible).
func genericTreeRecursion(scc []*ssa.Function) bool {
	in := map[*ssa.Function]bool{}
	for _, f := range scc {
		in[f] = true
	}
	edges := 0
	for _, f := range scc {
		params := map[ssa.Value]bool{}
		for _, p := range f.Params {
			params[p] = true
		}
		ok := true
		eng.Instrs(f, false, func(i ssa.Instruction) {
			ci, isCall := i.(ssa.CallInstruction)
			if !isCall {
				return
			}
			n := eng.CalleeName(ci)
			if strings.Contains(n, "Resolve") || strings.HasSuffix(n, ".GetObject") {
				ok = false
				return
			}
			cal := eng.StaticCallee(ci)
			if cal == nil || !in[cal] {
				return
			}
			edges++
			descends := false
			for _, a := range ci.Common().Args {
				if params[a] {
					continue // the same node passed on unchanged is not a descent
				}
				selected, fromParam := false, false
				for w := range eng.Slice(a, nil) {
					switch w.(type) {
					case *ssa.FieldAddr, *ssa.Field, *ssa.IndexAddr, *ssa.Index, *ssa.Lookup, *ssa.Next, *ssa.TypeAssert:
						selected = true
					}
					if params[w] {
						fromParam = true
					}
				}
				// a key (string, number) taken from the structure and looked up again is a reference followed by
				// name, where cycles are possible; a descent hands on a part of the structure itself
				if _, isKey := a.Type().Underlying().(*types.Basic); isKey {
					continue
				}
				if selected && fromParam {
					descends = true
				}
			}
			if !descends {
				ok = false
			}
		})
		if !ok {
			return false
		}
	}
	return edges > 0
}

// genericRecGuard looks for a guard in the members of a recursive cycle without relying on names:
// (set) a membership test on a map (m[k] read) whose negative/positive edge leaves, together with an insertion
// into the same map, or (depth) a comparison of an integer parameter with a bound together with a call inside
// the cycle that passes that parameter + 1 in the same position (or a counter field that is incremented).
func genericRecGuard(scc []*ssa.Function) (string, bool) {
	in := map[*ssa.Function]bool{}
	for _, f := range scc {
		in[f] = true
	}
	root := func(v ssa.Value) ssa.Value {
		for i := 0; i < 6; i++ {
			switch x := v.(type) {
			case *ssa.UnOp:
				if x.Op == token.MUL {
					v = x.X
					continue
				}
			case *ssa.ChangeType:
				v = x.X
				continue
			}
			break
		}
		return v
	}
	for _, f := range scc {
		// set guard
		var looked, inserted []ssa.Value
		eng.Instrs(f, false, func(i ssa.Instruction) {
			switch x := i.(type) {
			case *ssa.Lookup:
				if _, isMap := x.X.Type().Underlying().(*types.Map); isMap {
					looked = append(looked, root(x.X))
				}
			case *ssa.MapUpdate:
				inserted = append(inserted, root(x.Map))
			}
		})
		for _, l := range looked {
			for _, m := range inserted {
				if l == m || eng.SameValue(l, m) {
					// the mark must be set before the cycle is entered again: a table that is filled only after
					// the recursive call returned (a result cache) does not cut a cycle
					isMark := func(in ssa.Instruction) bool {
						mu, ok := in.(*ssa.MapUpdate)
						return ok && (root(mu.Map) == m || eng.SameValue(root(mu.Map), m))
					}
					marked := eng.MustCross(f, func(e eng.Edge) bool {
						for _, in := range e.From.Instrs {
							if isMark(in) {
								return true
							}
						}
						return false
					}, nil)
					okAll, nCalls := true, 0
					eng.Instrs(f, false, func(i ssa.Instruction) {
						ci, ok := i.(ssa.CallInstruction)
						if !ok || !in[eng.StaticCallee(ci)] {
							return
						}
						nCalls++
						before := false
						for _, x := range ci.Block().Instrs {
							if x == i {
								break
							}
							if isMark(x) {
								before = true
							}
						}
						if !before && !marked[ci.Block()] {
							okAll = false
						}
					})
					if okAll || nCalls == 0 {
						return "visited/in-progress map tested and filled in " + eng.FuncName(f), true
					}
					// a key that exists only for one dynamic type of the value looked at (prev, ok := x.(Int)): the
					// insertion is rightly conditional on that type, and without the key there is no reference to follow
					typed := false
					eng.Instrs(f, false, func(i ssa.Instruction) {
						mu, ok := i.(*ssa.MapUpdate)
						if !ok || !(root(mu.Map) == m || eng.SameValue(root(mu.Map), m)) {
							return
						}
						for w := range eng.Slice(mu.Key, nil) {
							if ta, ok := w.(*ssa.TypeAssert); ok && ta.CommaOk {
								typed = true
							}
						}
					})
					if typed {
						return "visited/in-progress map tested and filled (for the keyed type) in " + eng.FuncName(f), true
					}
				}
			}
		}
		// depth guard on a parameter
		for pi, p := range f.Params {
			bt, ok := p.Type().Underlying().(*types.Basic)
			if !ok || bt.Info()&types.IsInteger == 0 {
				continue
			}
			compared := false
			eng.Instrs(f, false, func(i ssa.Instruction) {
				if b, ok := i.(*ssa.BinOp); ok {
					switch b.Op {
					case token.GTR, token.GEQ, token.LSS, token.LEQ:
						if b.X == ssa.Value(p) || b.Y == ssa.Value(p) {
							if _, isIf := b.Block().Instrs[len(b.Block().Instrs)-1].(*ssa.If); isIf {
								compared = true
							}
						}
					}
				}
			})
			// a counter that goes down: passed on as p-k and the call made only where p is still positive
			for _, g := range scc {
				down := false
				eng.Instrs(g, false, func(i ssa.Instruction) {
					ci, ok := i.(ssa.CallInstruction)
					if !ok || eng.StaticCallee(ci) != f || g != f {
						return
					}
					args := eng.ArgsWithRecv(ci)
					if pi >= len(args) {
						return
					}
					// p-k, p/k, (p-1)/k ... : strictly smaller than p while p is positive
					shrinks := false
					var down2 func(v ssa.Value, d int) bool
					down2 = func(v ssa.Value, d int) bool {
						b, ok := v.(*ssa.BinOp)
						if !ok || d > 3 {
							return false
						}
						k, isC := eng.ConstInt(b.Y)
						if !isC {
							return false
						}
						switch {
						case b.Op == token.SUB && k >= 1, b.Op == token.QUO && k >= 2, b.Op == token.SHR && k >= 1:
							return b.X == ssa.Value(p) || down2(b.X, d+1)
						}
						return false
					}
					shrinks = down2(args[pi], 0)
					if !shrinks {
						return
					}
					if eng.GuardedBy(g, ci.Block(), func(fc eng.Fact) bool {
						op, x, y, ok := fc.Cmp()
						if !ok || x != ssa.Value(p) {
							return false
						}
						z, isC := eng.ConstInt(y)
						return isC && ((op == token.NEQ && z == 0) || (op == token.GTR && z >= 0) || (op == token.GEQ && z >= 1))
					}) {
						down = true
					}
				})
				if down {
					return "counter parameter " + p.Name() + " of " + eng.FuncName(f) + " is tested against 0 and passed on decreased", true
				}
			}
			if !compared {
				continue
			}
			for _, g := range scc {
				found := false
				eng.Instrs(g, false, func(i ssa.Instruction) {
					ci, ok := i.(ssa.CallInstruction)
					if !ok || eng.StaticCallee(ci) != f || pi >= len(ci.Common().Args) {
						return
					}
					if b, ok := ci.Common().Args[pi].(*ssa.BinOp); ok && b.Op == token.ADD {
						if k, isC := eng.ConstInt(b.Y); isC && k >= 1 {
							if _, isPar := b.X.(*ssa.Parameter); isPar {
								found = true
							}
						}
					}
				})
				if found {
					return "depth parameter " + p.Name() + " of " + eng.FuncName(f) + " is bounded and passed on as +1", true
				}
			}
		}
	}
	return "", false
}

// ---------------------------------------------------------------- loops following references

func ruleRefLoops(c *eng.Ctx) {
	const R = "R2.6b-REF-LOOPS"
	c.Rule(R, "loops that follow file references (/Parent chain, /Prev chain) have a bound or visited test whose true/continue edge every trip around the loop must cross", 2, 0)
	// inheritedAttr: the comparison depth < K must be crossed on every cycle
	if fn := c.P.Func("pages.(*Page).inheritedAttr"); fn == nil {
		c.Undec(R, "pages.(*Page).inheritedAttr", token.NoPos, "anchor not found")
	} else {
		ok := false
		eng.Instrs(fn, false, func(in ssa.Instruction) {
			b, isB := in.(*ssa.BinOp)
			if !isB || b.Op != token.LSS {
				return
			}
			ph, isInd := eng.Induction(b.X)
			if !isInd {
				return
			}
			if _, isC := eng.ConstInt(b.Y); !isC {
				return
			}
			// every back edge into the phi's block comes from a block dominated by the true edge of this test
			blk := b.Block()
			if len(blk.Succs) != 2 {
				return
			}
			cont := blk.Succs[0]
			all := true
			hdr := ph.Block()
			for _, p := range hdr.Preds {
				if hdr.Dominates(p) { // back edge
					if !(cont.Dominates(p) && len(cont.Preds) == 1) {
						all = false
					}
				}
			}
			if all {
				ok = true
			}
		})
		if !ok {
			// the walk written as bounded recursion instead of a loop
			for _, h := range eng.Cluster(fn, 2) {
				self := false
				for _, ci := range eng.Calls(h, false, func(string, ssa.CallInstruction) bool { return true }) {
					if eng.StaticCallee(ci) == h {
						self = true
					}
				}
				if self {
					if _, g := genericRecGuard([]*ssa.Function{h}); g {
						ok = true
					}
				}
			}
		}
		c.Check(ok, R, "pages.(*Page).inheritedAttr#bound", fn.Pos(), "every trip around the /Parent walk passes the depth bound", "the /Parent walk can go around without passing its depth bound: a cyclic /Parent chain loops forever")
	}
	// every other loop of the module that takes the single /Prev step (ParsePrevXRef) is held to the same clause
	if step := c.P.Func("core.(*XRefParser).ParsePrevXRef"); step != nil {
		for _, f := range c.P.ModuleFuncs() {
			if eng.FuncName(f) == "core.(*XRefParser).ParseAllXRefs" || strings.Contains(eng.FuncName(f), eng.PositivePkg) {
				continue
			}
			inLoop := false
			for _, ci := range eng.Calls(f, false, func(string, ssa.CallInstruction) bool { return true }) {
				if eng.StaticCallee(ci) == step && eng.InLoop(ci.Block()) {
					inLoop = true
				}
			}
			if !inLoop {
				continue
			}
			c.Check(visitedSetInLoop(f), R, eng.FuncName(f)+"#prev-walk", f.Pos(), "a visited set of /Prev offsets is tested and filled inside the loop", "the /Prev chain is followed by a loop of its own that does not remember visited offsets: a /Prev cycle loops forever and exhausts memory")
		}
	}
	if fn := c.P.Func("core.(*XRefParser).ParseAllXRefs"); fn == nil {
		c.Undec(R, "core.(*XRefParser).ParseAllXRefs", token.NoPos, "anchor not found")
	} else {
		// a map lookup whose "seen" edge returns, and an insert, both inside the loop
		var look *ssa.Lookup
		ins := false
		eng.Instrs(fn, false, func(in ssa.Instruction) {
			switch x := in.(type) {
			case *ssa.Lookup:
				if eng.InLoop(x.Block()) {
					if _, isMap := x.X.Type().Underlying().(*types.Map); isMap {
						if _, isMk := x.X.(*ssa.MakeMap); isMk {
							look = x
						}
					}
				}
			case *ssa.MapUpdate:
				if eng.InLoop(x.Block()) {
					if _, isMk := x.Map.(*ssa.MakeMap); isMk {
						ins = true
					}
				}
			}
		})
		ok := look != nil && ins
		if !ok {
			// the test-and-insert may be a helper called inside the loop with the set as argument
			eng.Instrs(fn, false, func(in ssa.Instruction) {
				call, isCall := in.(ssa.CallInstruction)
				if !isCall || !eng.InLoop(in.Block()) {
					return
				}
				h := eng.StaticCallee(call)
				if h == nil || h.Blocks == nil || !eng.InModule(h) {
					return
				}
				for i, a := range call.Common().Args {
					if _, isMk := a.(*ssa.MakeMap); !isMk || i >= len(h.Params) {
						continue
					}
					par := ssa.Value(h.Params[i])
					l2, i2 := false, false
					eng.Instrs(h, false, func(in2 ssa.Instruction) {
						switch x := in2.(type) {
						case *ssa.Lookup:
							if x.X == par {
								l2 = true
							}
						case *ssa.MapUpdate:
							if x.Map == par {
								i2 = true
							}
						}
					})
					if l2 && i2 {
						ok = true
					}
				}
			})
		}
		if !ok {
			// the walk along /Prev may be a tail recursion of a helper that is handed the set: the recursion rule
			// (R2.6) then asks for the guard; here the helper only has to test and fill a map parameter
			for _, h := range eng.Cluster(fn, 2) {
				if h == fn || h.Pkg != fn.Pkg {
					continue
				}
				selfRec := len(eng.Calls(h, false, func(_ string, ci ssa.CallInstruction) bool { return eng.StaticCallee(ci) == h })) > 0
				steps := len(eng.CallsNamed(h, false, "core.(*XRefParser).ParsePrevXRef")) > 0
				if !selfRec || !steps {
					continue
				}
				lk, up := false, false
				eng.Instrs(h, false, func(in ssa.Instruction) {
					switch x := in.(type) {
					case *ssa.Lookup:
						if _, isPar := x.X.(*ssa.Parameter); isPar {
							lk = true
						}
					case *ssa.MapUpdate:
						if _, isPar := x.Map.(*ssa.Parameter); isPar {
							up = true
						}
					}
				})
				if lk && up {
					ok = true
				}
			}
		}
		c.Check(ok, R, "core.(*XRefParser).ParseAllXRefs#visited", fn.Pos(), "a visited set of /Prev offsets is tested and filled inside the loop", "the /Prev chain is followed without remembering visited offsets: a /Prev cycle loops forever")
	}
}

// visitedSetInLoop: fn tests and fills a map it created, inside a loop.
func visitedSetInLoop(fn *ssa.Function) bool {
	look, ins := false, false
	eng.Instrs(fn, false, func(in ssa.Instruction) {
		switch x := in.(type) {
		case *ssa.Lookup:
			if eng.InLoop(x.Block()) {
				if _, isMk := x.X.(*ssa.MakeMap); isMk {
					look = true
				}
			}
		case *ssa.MapUpdate:
			if eng.InLoop(x.Block()) {
				if _, isMk := x.Map.(*ssa.MakeMap); isMk {
					ins = true
				}
			}
		}
	})
	return look && ins
}

// ---------------------------------------------------------------- depth balance

func ruleDepthBalance(c *eng.Ctx) {
	const R = "R2.6c-DEPTH-BALANCE"
	c.Rule(R, "in invokeXObject the nesting counter is incremented once and, on every path from the increment to a return, decremented exactly once (explicitly or by a deferred function)", 1, 0)
	depthBalance(c, R, "text.(*Extractor).invokeXObject", "xobjectDepth", false)
}

// R6.8 [C06]: the same clause for the nesting counters of the two object parsers
func ruleParserDepthBalance(c *eng.Ctx) {
	const R = "R6.8-DEPTH-BALANCE"
	c.Rule(R, "in the array and dictionary parsers of both object parsers the nesting counter is incremented once and decremented exactly once on every path to a return: a counter that leaks on the normal exit makes every later operand of the stream look more deeply nested, until legal shallow operands are rejected", 4, 0)
	for _, fn := range []string{"core.(*Parser).parseArray", "core.(*Parser).parseDict", "contentstream.(*Parser).parseArray", "contentstream.(*Parser).parseDict"} {
		// an error aborts the whole parse, so only the returns that report success are held to the balance
		depthBalance(c, R, fn, "depth", true)
	}
}

func depthBalance(c *eng.Ctx, R, fnName, counter string, successOnly bool) {
	fn := c.P.Func(fnName)
	if fn == nil {
		c.Undec(R, fnName, token.NoPos, "anchor not found")
		return
	}
	depthBalanceIn(c, R, fnName, fn, counter, successOnly)
}

func depthBalanceIn(c *eng.Ctx, R, fnName string, fn *ssa.Function, counter string, successOnly bool) {
	delta := func(in ssa.Instruction) int {
		st, ok := in.(*ssa.Store)
		if !ok {
			return 0
		}
		fr, ok := eng.AsField(st.Addr)
		if !ok || fr.Field != counter {
			return 0
		}
		b, ok := st.Val.(*ssa.BinOp)
		if !ok {
			return 0
		}
		k, isC := eng.ConstInt(b.Y)
		if !isC || k != 1 {
			return 0
		}
		if b.Op == token.ADD {
			return 1
		}
		if b.Op == token.SUB {
			return -1
		}
		return 0
	}
	closureDelta := func(f *ssa.Function) int {
		d := 0
		eng.Instrs(f, true, func(in ssa.Instruction) { d += delta(in) })
		return d
	}
	// a counter that is adjusted by a computed amount (depth -= len(open): one level per array of an explicit work
	// list) is outside what the path enumeration below can evaluate
	computed := false
	eng.Instrs(fn, true, func(in ssa.Instruction) {
		st, ok := in.(*ssa.Store)
		if !ok {
			return
		}
		fr, ok := eng.AsField(st.Addr)
		if !ok || fr.Field != counter {
			return
		}
		if b, ok := st.Val.(*ssa.BinOp); ok && (b.Op == token.ADD || b.Op == token.SUB) {
			if _, isC := eng.ConstInt(b.Y); !isC {
				computed = true
			}
		}
	})
	if computed {
		c.Ok(R, fnName+"#balance", fn.Pos(), "not evaluated: the nesting counter is adjusted by a computed amount (an explicit stack accounts for the levels)")
		return
	}
	var incBlk *ssa.BasicBlock
	incIdx := -1
	for _, b := range fn.Blocks {
		for i, in := range b.Instrs {
			if delta(in) == 1 {
				incBlk, incIdx = b, i
			}
		}
	}
	if incBlk == nil && !strings.HasPrefix(R, "#") {
		// the descent (increment, nested run, decrement) may have been split off into a helper of the anchor
		for _, g := range eng.Cluster(fn, 2) {
			if g == fn || g.Pkg != fn.Pkg {
				continue
			}
			has := false
			eng.Instrs(g, false, func(in ssa.Instruction) {
				if delta(in) == 1 {
					has = true
				}
			})
			if has {
				depthBalanceIn(c, R, fnName, g, counter, successOnly)
				return
			}
		}
	}
	if incBlk == nil {
		c.Viol(R, fnName+"#increment", fn.Pos(), "the nesting counter is never incremented: the depth limit cannot trigger")
		return
	}
	// enumerate acyclic paths from the increment to returns
	bad := ""
	var dfs func(b *ssa.BasicBlock, start int, sum int, deferred int, seen map[*ssa.BasicBlock]bool)
	dfs = func(b *ssa.BasicBlock, start int, sum int, deferred int, seen map[*ssa.BasicBlock]bool) {
		if bad != "" {
			return
		}
		for i := start; i < len(b.Instrs); i++ {
			in := b.Instrs[i]
			sum += delta(in)
			// a call of a local closure or same-package helper that adjusts the counter (leave := func() { …; depth-- })
			if call, ok := in.(*ssa.Call); ok {
				if mc, ok := call.Call.Value.(*ssa.MakeClosure); ok {
					if f, ok := mc.Fn.(*ssa.Function); ok {
						sum += closureDelta(f)
					}
				} else if f := eng.StaticCallee(call); f != nil && f != fn && f.Pkg == fn.Pkg && f.Blocks != nil && len(f.Blocks) <= 3 {
					sum += closureDelta(f)
				}
			}
			if d, ok := in.(*ssa.Defer); ok {
				if mc, ok := d.Call.Value.(*ssa.MakeClosure); ok {
					if f, ok := mc.Fn.(*ssa.Function); ok {
						deferred += closureDelta(f)
					}
				} else if f := eng.StaticCallee(d); f != nil {
					deferred += closureDelta(f)
				}
			}
			if r, ok := in.(*ssa.Return); ok {
				if successOnly {
					vals := eng.ReturnValues(r)
					if len(vals) > 0 {
						if nn, known := eng.ErrValueNonNil(vals[len(vals)-1]); !known || nn {
							return
						}
					}
				}
				if sum+deferred != 0 {
					bad = fmt.Sprintf("on the path to the return at %s the counter changes by %+d after the increment", c.P.Pos(r.Pos()), sum+deferred-0)
				}
				return
			}
		}
		for _, s := range b.Succs {
			if seen[s] {
				continue
			}
			seen[s] = true
			dfs(s, 0, sum, deferred, seen)
			delete(seen, s)
		}
	}
	dfs(incBlk, incIdx, 0, 0, map[*ssa.BasicBlock]bool{incBlk: true})
	c.Check(bad == "", R, fnName+"#balance", fn.Pos(), "increment and decrement are balanced on every path", "the nesting counter is not restored exactly once: "+bad+" (a net decrease lets nesting recurse past the limit and overflow the stack; a net increase makes later shallow input look too deep)")
}

// formatTableKeys: v is a load of a package-level map variable that only the package initialiser assigns (a map
// literal); returns the integer constants used as its keys.
func formatTableKeys(v ssa.Value, fn *ssa.Function) (map[int64]bool, bool) {
	ld, ok := v.(*ssa.UnOp)
	if !ok || ld.Op != token.MUL {
		return nil, false
	}
	g, ok := ld.X.(*ssa.Global)
	if !ok || fn.Pkg == nil || g.Pkg != fn.Pkg {
		return nil, false
	}
	init := fn.Pkg.Func("init")
	if init == nil {
		return nil, false
	}
	// no store to the variable outside the initialiser
	for _, m := range fn.Pkg.Members {
		f, ok := m.(*ssa.Function)
		if !ok || f == init {
			continue
		}
		written := false
		eng.Instrs(f, true, func(in ssa.Instruction) {
			if st, ok := in.(*ssa.Store); ok && st.Addr == ssa.Value(g) {
				written = true
			}
		})
		if written {
			return nil, false
		}
	}
	keys := map[int64]bool{}
	var lit ssa.Value
	eng.Instrs(init, false, func(in ssa.Instruction) {
		if st, ok := in.(*ssa.Store); ok && st.Addr == ssa.Value(g) {
			lit = st.Val
		}
	})
	if lit == nil {
		return nil, false
	}
	eng.Instrs(init, false, func(in ssa.Instruction) {
		if mu, ok := in.(*ssa.MapUpdate); ok && mu.Map == lit {
			if k, ok := eng.ConstInt(mu.Key); ok {
				keys[k] = true
			}
		}
	})
	return keys, len(keys) > 0
}

// ---------------------------------------------------------------- R2.7

func ruleFormatState(c *eng.Ctx) {
	const R = "R2.7-FORMAT-STATE"
	c.Rule(R, "in every method of *tabula.Extractor each use of a format-specific reader field happens where, by the e.format tests crossed on every path (and by callees that return nil only for one format), only the matching format is possible", 12, 0)
	pk := c.P.ByPath["format"]
	if pk == nil {
		c.Undec(R, "format", token.NoPos, "package not loaded")
		return
	}
	ft := c.P.NamedType("format", "Format")
	consts := map[int64]string{}
	var all []int64
	for _, n := range pk.Types.Scope().Names() {
		if cn, ok := pk.Types.Scope().Lookup(n).(*types.Const); ok && types.Identical(cn.Type(), ft) {
			v, _ := constant.Int64Val(cn.Val())
			consts[v] = n
			all = append(all, v)
		}
	}
	fieldFormat := map[string]string{"reader": "PDF", "docxReader": "DOCX", "odtReader": "ODT", "xlsxReader": "XLSX", "pptxReader": "PPTX", "htmlReader": "HTML", "epubReader": "EPUB"}
	valOf := map[string]int64{}
	for v, n := range consts {
		valOf[n] = v
	}
	type fset map[int64]bool
	// the universe: formats for which ensureReader can create a reader (its switch labels); an
	// Extractor gets its readers only there, so no other format can reach a reader use
	universe := map[int64]bool{}
	if ens := c.P.Func("tabula.(*Extractor).ensureReader"); ens != nil {
		eng.Instrs(ens, false, func(in ssa.Instruction) {
			if b, ok := in.(*ssa.BinOp); ok && b.Op == token.EQL {
				if fr, ok := eng.LoadOfField(b.X); ok && fr.Field == "format" {
					if k, isC := eng.ConstInt(b.Y); isC {
						universe[k] = true
					}
				}
			}
		})
	}
	if len(universe) < 2 {
		for _, v := range all {
			universe[v] = true
		}
	}
	full := func() fset {
		s := fset{}
		for v := range universe {
			s[v] = true
		}
		return s
	}
	// summaries: formats possible when a method returns a nil error
	ensures := map[*ssa.Function]fset{}
	// requires: methods that dereference a reader unconditionally (need that format on entry)
	methods := extractorMethods(c.P)

	isFormatField := func(v ssa.Value) bool {
		fr, ok := eng.LoadOfField(v)
		return ok && fr.Field == "format" && strings.HasSuffix(fr.Struct, "tabula.Extractor")
	}
	// what stands for "the document's format" in the function being analysed: the extractor's field, or (in a plain
	// function that is handed the format) that parameter
	var formatParam ssa.Value
	isFormatLoad := func(v ssa.Value) bool {
		if formatParam != nil {
			return v == formatParam
		}
		return isFormatField(v)
	}
	// plain functions that take the format as a parameter: position of the parameter and the formats under which they
	// return a nil error
	type paramSummary struct {
		idx int
		es  fset
	}
	paramEnsures := map[*ssa.Function]paramSummary{}
	// dataflow over one function: possible formats at block entry
	analyse := func(fn *ssa.Function, entry fset) map[*ssa.BasicBlock]fset {
		in := map[*ssa.BasicBlock]fset{}
		cp := func(s fset) fset {
			n := fset{}
			for k := range s {
				n[k] = true
			}
			return n
		}
		in[fn.Blocks[0]] = cp(entry)
		refine := func(s fset, e eng.Edge) fset {
			f, ok := eng.EdgeFact(e)
			if !ok {
				return s
			}
			out := cp(s)
			// `h, ok := table[e.format]` on a read-only package-level table keyed by format: ok means the format
			// is one of the keys, !ok that it is none of them
			if ex, isEx := f.Cond.(*ssa.Extract); isEx && ex.Index == 1 {
				if lk, isLk := ex.Tuple.(*ssa.Lookup); isLk && lk.CommaOk && isFormatLoad(lk.Index) {
					if keys, ok := formatTableKeys(lk.X, fn); ok {
						for v := range out {
							if keys[v] != f.Pos {
								delete(out, v)
							}
						}
						return out
					}
				}
			}
			if op, x, y, ok := f.Cmp(); ok && (op == token.EQL || op == token.NEQ) {
				var k int64
				isFmt := false
				if isFormatLoad(x) {
					if kk, isC := eng.ConstInt(y); isC {
						k, isFmt = kk, true
					}
				} else if isFormatLoad(y) {
					if kk, isC := eng.ConstInt(x); isC {
						k, isFmt = kk, true
					}
				}
				if isFmt {
					if op == token.EQL {
						for v := range out {
							if v != k {
								delete(out, v)
							}
						}
					} else {
						delete(out, k)
					}
					return out
				}
				// err == nil of a call with an "ensures" summary
				for _, s2 := range [][2]ssa.Value{{x, y}, {y, x}} {
					if eng.IsNilConst(s2[1]) && op == token.EQL {
						if call, ok := s2[0].(*ssa.Call); ok {
							if cal := eng.StaticCallee(call); cal != nil {
								if es, ok := ensures[cal]; ok {
									for v := range out {
										if !es[v] {
											delete(out, v)
										}
									}
								}
								if ps, ok := paramEnsures[cal]; ok && ps.idx < len(call.Call.Args) && isFormatLoad(call.Call.Args[ps.idx]) {
									for v := range out {
										if !ps.es[v] {
											delete(out, v)
										}
									}
								}
							}
						}
					}
				}
			}
			return out
		}
		changed := true
		for iter := 0; changed && iter < 50; iter++ {
			changed = false
			for _, b := range fn.Blocks {
				if b == fn.Blocks[0] || b == fn.Recover {
					continue
				}
				merged := fset{}
				any := false
				for _, p := range b.Preds {
					ps, ok := in[p]
					if !ok {
						continue
					}
					for si, s := range p.Succs {
						if s != b {
							continue
						}
						any = true
						for v := range refine(ps, eng.Edge{From: p, Succ: si}) {
							merged[v] = true
						}
					}
				}
				if !any {
					continue
				}
				old, had := in[b]
				if !had || len(old) != len(merged) {
					in[b] = merged
					changed = true
				}
			}
		}
		return in
	}
	// 0) summaries of plain functions of the package that are handed the format (requirePDF(e.format, op))
	for _, fn := range c.P.ModuleFuncs() {
		if fn.Pkg == nil || fn.Blocks == nil || fn.Parent() != nil || fn.Signature.Recv() != nil || eng.ShortPath(fn.Pkg.Pkg.Path()) != "" {
			continue
		}
		res := fn.Signature.Results()
		if res.Len() == 0 || !eng.IsErrorType(res.At(res.Len()-1).Type()) {
			continue
		}
		for i, p := range fn.Params {
			if !types.Identical(p.Type(), ft) {
				continue
			}
			formatParam = p
			in := analyse(fn, full())
			es := fset{}
			for _, r := range eng.Returns(fn) {
				vals := eng.ReturnValues(r)
				nn, known := eng.ErrValueNonNil(vals[len(vals)-1])
				if known && nn {
					continue
				}
				for v := range in[r.Block()] {
					es[v] = true
				}
			}
			formatParam = nil
			paramEnsures[fn] = paramSummary{i, es}
		}
	}
	// 1) ensures summaries (two rounds so that helpers calling helpers settle)
	for round := 0; round < 2; round++ {
		for _, fn := range methods {
			res := fn.Signature.Results()
			if res.Len() == 0 || !eng.IsErrorType(res.At(res.Len()-1).Type()) {
				continue
			}
			in := analyse(fn, full())
			es := fset{}
			for _, r := range eng.Returns(fn) {
				vals := eng.ReturnValues(r)
				nn, known := eng.ErrValueNonNil(vals[len(vals)-1])
				if known && nn {
					continue
				}
				for v := range in[r.Block()] {
					es[v] = true
				}
			}
			ensures[fn] = es
		}
	}
	// 2) requirement summaries for unexported helpers: the formats under which the helper may be entered
	//    are the union over its call sites; check uses inside each method with that entry set.
	entry := map[*ssa.Function]fset{}
	for _, fn := range methods {
		if isExported(fn.Name()) {
			entry[fn] = full()
		}
	}
	for round := 0; round < 3; round++ {
		for _, fn := range methods {
			es, ok := entry[fn]
			if !ok {
				continue
			}
			in := analyse(fn, es)
			for _, ci := range eng.Calls(fn, false, func(string, ssa.CallInstruction) bool { return true }) {
				cal := eng.StaticCallee(ci)
				if cal == nil || isExported(cal.Name()) {
					continue
				}
				isMethod := false
				for _, m := range methods {
					if m == cal {
						isMethod = true
					}
				}
				if !isMethod {
					continue
				}
				if entry[cal] == nil {
					entry[cal] = fset{}
				}
				for v := range in[ci.Block()] {
					entry[cal][v] = true
				}
			}
		}
	}
	for _, fn := range methods {
		es, ok := entry[fn]
		if !ok {
			continue // never called
		}
		if fn.Name() == "clone" || fn.Name() == "Close" || fn.Name() == "ensureReader" {
			continue // copy / nil-tested release / constructor of the fields
		}
		in := analyse(fn, es)
		var bad []string
		uses := 0
		eng.Instrs(fn, false, func(instr ssa.Instruction) {
			v, ok := instr.(ssa.Value)
			if !ok {
				return
			}
			fr, ok := eng.LoadOfField(v)
			if !ok || !strings.HasSuffix(fr.Struct, "tabula.Extractor") {
				return
			}
			want, ok := fieldFormat[fr.Field]
			if !ok {
				return
			}
			// used as a receiver / argument of a call (a dereference), not merely compared with nil
			deref := false
			for _, r := range *v.Referrers() {
				if _, isCall := r.(ssa.CallInstruction); isCall {
					deref = true
				}
				if _, isFA := r.(*ssa.FieldAddr); isFA {
					deref = true
				}
			}
			if !deref {
				return
			}
			uses++
			poss := in[instr.Block()]
			for f := range poss {
				if consts[f] != want {
					bad = append(bad, fmt.Sprintf("%s is used at %s where format %s is still possible", fr.Field, c.P.Pos(instr.Pos()), consts[f]))
					break
				}
			}
		})
		if uses == 0 {
			continue
		}
		sort.Strings(bad)
		bad = dedupStr(bad)
		if len(bad) > 3 {
			bad = append(bad[:3], fmt.Sprintf("… %d more", len(bad)-3))
		}
		if len(bad) > 0 {
			c.Viol(R, eng.FuncName(fn), fn.Pos(), strings.Join(bad, "; ")+": for that format the reader is nil and the call panics")
		} else {
			c.Ok(R, eng.FuncName(fn), fn.Pos(), fmt.Sprintf("%d reader uses, each under its own format", uses))
		}
	}
}
