package rules

import (
	"fmt"
	"go/token"
	"strings"

	"golang.org/x/tools/go/ssa"

	"verif/checker/eng"
)

func init() {
	register(&Property{
		ID:    "C04",
		Level: "other",
		Explanation: "Decided (structural necessary conditions of newest-revision lookup): (R4.1) xref discovery takes the last startxref, builds the revision list oldest-first and merges it with an unconditional last-writer-wins update (or the mirrored pair), and the reader merges exactly that list; (R4.2) every object load in GetObject is dominated by the entry's in-use test and an unknown number is an error; (R4.3) the object cache is written only by GetObject under the requested object number after a successful load, the object-stream cache only by getObjectStream under its stream number, and both are looked up with the same key; (R4.4) an object taken from an object stream is cross-checked against the requested number before a successful return, with index and stream number taken from the entry; (R4.5) re-entrant resolution cannot disturb a suspended parse (shared with C01). " +
			"Not decided: correctness of the parsed xref entries themselves, hybrid /XRefStm files, generation numbers.",
		Rules: []func(*eng.Ctx){rulePhysicalLayoutsEvaluated, ruleRevisionHistoriesEvaluated, ruleClassicXRefSpellingsEvaluated, ruleLookupErrorsPropagate, ruleObjectParsersHaveResolver, ruleNoLockAcrossReentry, memoInvalidationRule("R4.MI", "reader", "core", "pages", "resolver"), ruleMemoKeyCoversInputs, ruleEntryOffsetByType, ruleMergeOrder, ruleFreeIsError, ruleCacheDiscipline, ruleObjStmCrosscheck, ruleSharedHandle, ruleXRefStreamCursor, roleRule("R4.R", "core", "reader"), ruleResolveDeepCopies, ruleXRefEntriesTotal, ruleObjStmHeaderOrder, ruleMarkUnmarkBalance, ruleSectionKindPerSection},
	})
}

func ruleMergeOrder(c *eng.Ctx) {
	const R = "R4.1-MERGE-ORDER"
	c.Rule(R, "FindXRef searches the LAST startxref; ParseAllXRefs yields oldest-first (each /Prev table is put in front) and MergeXRefTables overwrites unconditionally in forward order (last wins); loadXRef merges exactly the list ParseAllXRefs returned", 4, 0)
	p := c.P
	// FindXRef
	if fn := p.Func("core.(*XRefParser).FindXRef"); fn == nil {
		c.Undec(R, "core.(*XRefParser).FindXRef", token.NoPos, "anchor not found")
	} else {
		last, first := false, false
		var searchCalls []ssa.CallInstruction
		for _, h := range eng.Cluster(fn, 2) { // the search may sit in a stage function of FindXRef
			if h.Pkg != fn.Pkg {
				continue
			}
			searchCalls = append(searchCalls, eng.Calls(h, false, func(n string, _ ssa.CallInstruction) bool {
				return strings.HasPrefix(n, "strings.") || strings.HasPrefix(n, "bytes.")
			})...)
		}
		for _, ci := range searchCalls {
			n := eng.CalleeName(ci)
			args := ci.Common().Args
			if len(args) < 2 {
				continue
			}
			s, isS := eng.ConstString(args[1])
			if !isS {
				// bytes.LastIndex(buf, []byte("startxref")) – look through the conversion
				if cv, ok := args[1].(*ssa.Convert); ok {
					s, isS = eng.ConstString(cv.X)
				}
			}
			if !isS || s != "startxref" {
				continue
			}
			if strings.HasSuffix(n, ".LastIndex") {
				last = true
			}
			if strings.HasSuffix(n, ".Index") {
				first = true
			}
		}
		c.Check(last && !first, R, "core.(*XRefParser).FindXRef#last-startxref", fn.Pos(), "the last startxref in the tail is used", "the tail of the file is not searched for the LAST startxref: after a small incremental update the previous revision's startxref wins and stale objects are served")
	}
	// ParseAllXRefs: classify prepend / append
	order := ""
	if fn := p.Func("core.(*XRefParser).ParseAllXRefs"); fn == nil {
		c.Undec(R, "core.(*XRefParser).ParseAllXRefs", token.NoPos, "anchor not found")
	} else {
		prevCalls := eng.CallsNamed(fn, false, "core.(*XRefParser).ParsePrevXRef")
		var prevVal ssa.Value
		for _, pc := range prevCalls {
			for _, r := range *pc.Value().Referrers() {
				if ex, ok := r.(*ssa.Extract); ok && ex.Index == 0 {
					prevVal = ex
				}
			}
		}
		for _, ci := range eng.Calls(fn, false, func(n string, _ ssa.CallInstruction) bool { return n == "builtin:append" }) {
			if !eng.InLoop(ci.Block()) {
				continue
			}
			args := ci.Common().Args
			if len(args) != 2 {
				continue
			}
			has := func(v ssa.Value, want ssa.Value) bool {
				for w := range eng.Slice(v, nil) {
					if w == want {
						return true
					}
				}
				return false
			}
			_, firstIsCarried := args[0].(*ssa.Phi)
			_, secondIsCarried := args[1].(*ssa.Phi)
			switch {
			case prevVal != nil && has(args[0], prevVal) && secondIsCarried && !firstIsCarried:
				order = "oldest-first"
			case prevVal != nil && firstIsCarried && has(args[1], prevVal):
				order = "newest-first"
			}
		}
		if order == "" {
			// the walk along /Prev as a tail recursion: a helper that parses the previous table, puts it before or
			// after the list it was handed and calls itself with the new list in the same parameter
			for _, h := range eng.Cluster(fn, 2) {
				if h == fn || h.Pkg != fn.Pkg {
					continue
				}
				var pv ssa.Value
				for _, pc := range eng.CallsNamed(h, false, "core.(*XRefParser).ParsePrevXRef") {
					for _, r := range *pc.Value().Referrers() {
						if ex, ok := r.(*ssa.Extract); ok && ex.Index == 0 {
							pv = ex
						}
					}
				}
				if pv == nil {
					continue
				}
				for _, self := range eng.Calls(h, false, func(_ string, ci ssa.CallInstruction) bool { return eng.StaticCallee(ci) == h }) {
					sargs := eng.ArgsWithRecv(self)
					for pi, a := range sargs {
						app, ok := a.(*ssa.Call)
						if !ok {
							continue
						}
						if bi, ok := app.Call.Value.(*ssa.Builtin); !ok || bi.Name() != "append" || len(app.Call.Args) != 2 {
							continue
						}
						if pi >= len(h.Params) {
							continue
						}
						carried := ssa.Value(h.Params[pi])
						has := func(v ssa.Value, want ssa.Value) bool {
							for w := range eng.Slice(v, nil) {
								if w == want {
									return true
								}
							}
							return false
						}
						a0, a1 := app.Call.Args[0], app.Call.Args[1]
						switch {
						case has(a0, pv) && a1 == carried:
							order = "oldest-first"
						case a0 == carried && has(a1, pv):
							order = "newest-first"
						}
					}
				}
			}
		}
		// a reversing copy after the loop (dst[n-1-i] = acc[i]) or slices.Reverse flips the order
		reversed := false
		eng.Instrs(fn, false, func(in ssa.Instruction) {
			if call, ok := in.(ssa.CallInstruction); ok && strings.HasSuffix(eng.CalleeName(call), "slices.Reverse") {
				reversed = true
			}
			st, ok := in.(*ssa.Store)
			if !ok {
				return
			}
			dst, ok := st.Addr.(*ssa.IndexAddr)
			if !ok {
				return
			}
			ld, ok := st.Val.(*ssa.UnOp)
			if !ok || ld.Op != token.MUL {
				return
			}
			src, ok := ld.X.(*ssa.IndexAddr)
			if !ok {
				return
			}
			leaf := func(v ssa.Value) (*eng.Poly, bool) {
				if ph, ok := eng.Induction(v); ok && ph != nil {
					if v == ssa.Value(ph) {
						return eng.PSym("i"), true
					}
					return eng.PSym("i").Add(eng.PConst(1)), true
				}
				if call, ok := v.(*ssa.Call); ok {
					if bi, ok := call.Call.Value.(*ssa.Builtin); ok && bi.Name() == "len" {
						return eng.PSym("n"), true
					}
				}
				return nil, false
			}
			pd, ok1 := eng.IntPoly(dst.Index, leaf)
			ps, ok2 := eng.IntPoly(src.Index, leaf)
			if ok1 && ok2 {
				// dst index + src index == <length> - 1
				sum := pd.Add(ps).Add(eng.PConst(1))
				if syms := sum.Symbols(); len(syms) == 1 && (syms[0] == "n" || strings.HasPrefix(syms[0], "len(")) && sum.Equal(eng.PSym(syms[0])) {
					reversed = true
				}
			}
		})
		if reversed {
			switch order {
			case "oldest-first":
				order = "newest-first"
			case "newest-first":
				order = "oldest-first"
			}
		}
		if order == "" {
			c.Undec(R, "core.(*XRefParser).ParseAllXRefs#order", fn.Pos(), "cannot classify how /Prev tables are accumulated (neither prepend nor append of the previous table onto the running list)")
		} else {
			c.Ok(R, "core.(*XRefParser).ParseAllXRefs#order", fn.Pos(), "revision list is built "+order)
		}
	}
	// MergeXRefTables
	if fn := p.Func("core.MergeXRefTables"); fn == nil {
		c.Undec(R, "core.MergeXRefTables", token.NoPos, "anchor not found")
	} else {
		var sets []ssa.Instruction
		// the per-table overlay may have been extracted into a helper of the package
		cluster := eng.Cluster(fn, 2)
		for _, h := range cluster {
			if eng.FuncName(h) == "core.(*XRefTable).Set" {
				continue // the setter itself: its call sites are what is counted
			}
			eng.Instrs(h, false, func(in ssa.Instruction) {
				switch x := in.(type) {
				case ssa.CallInstruction:
					if eng.CalleeName(x) == "core.(*XRefTable).Set" {
						sets = append(sets, x)
					}
				case *ssa.MapUpdate:
					if fr, ok := eng.LoadOfField(x.Map); ok && fr.Field == "Entries" {
						sets = append(sets, x)
					}
				}
			})
		}
		if len(sets) != 1 {
			c.Viol(R, "core.MergeXRefTables#update", fn.Pos(), fmt.Sprintf("expected exactly one entry update in the merge loop, found %d", len(sets)))
		} else {
			set := sets[0]
			// forward iteration over the tables parameter
			forward := false
			eng.Instrs(fn, false, func(in ssa.Instruction) {
				if ia, ok := in.(*ssa.IndexAddr); ok && ia.X == ssa.Value(fn.Params[0]) {
					if _, ok := eng.Induction(ia.Index); ok {
						forward = true
					}
				}
				// `for rest := tables; len(rest) > 0; rest = rest[1:]` visits the tables front to back as well
				if ia, ok := in.(*ssa.IndexAddr); ok {
					if base, isCur := eng.ShrinkingCursor(ia); isCur && base == ssa.Value(fn.Params[0]) {
						forward = true
					}
				}
			})
			// no data-dependent guard: no dominating If whose condition reads an entry field or looks up the merged map
			guarded := ""
			doms, okDom := eng.DominatingIfs(cluster, set)
			if !okDom {
				guarded = "the helper that performs the update is called from several places"
			}
			for _, ifi := range doms {
				for v := range eng.Slice(ifi.Cond, func(*ssa.Call) bool { return true }) {
					if fr, ok := eng.AsField(v); ok && strings.HasSuffix(fr.Struct, "core.XRefEntry") {
						guarded = "condition at " + c.P.Pos(ifi.Pos()) + " reads XRefEntry." + fr.Field
					}
					if lk, ok := v.(*ssa.Lookup); ok {
						if fr, ok := eng.LoadOfField(lk.X); ok && fr.Field == "Entries" {
							// the range itself iterates table.Entries via Next, not Lookup
							guarded = "condition at " + c.P.Pos(ifi.Pos()) + " looks up the merged table"
						}
					}
					if call, ok := v.(*ssa.Call); ok && eng.CalleeName(call) == "core.(*XRefTable).Get" {
						guarded = "condition at " + c.P.Pos(ifi.Pos()) + " looks up the merged table"
					}
				}
			}
			mergeKind := ""
			switch {
			case forward && guarded == "":
				mergeKind = "last-wins"
			case !forward && guarded == "":
				mergeKind = "unknown-direction"
			default:
				mergeKind = "conditional"
			}
			okPair := (order == "oldest-first" && mergeKind == "last-wins")
			if order == "" {
				okPair = mergeKind == "last-wins"
			}
			c.Check(okPair, R, "core.MergeXRefTables#last-wins", set.Pos(), "forward range, unconditional overwrite: the newest revision's entry wins (including free entries and object-stream entries)",
				fmt.Sprintf("merge is %s (%s) while revisions are listed %s: an older revision's entry can survive a newer one (generation/index fields are not an age)", mergeKind, guarded, order))
		}
	}
	// loadXRef: MergeXRefTables(ParseAllXRefs()...)
	if fn := p.Func("reader.(*Reader).loadXRef"); fn == nil {
		c.Undec(R, "reader.(*Reader).loadXRef", token.NoPos, "anchor not found")
	} else {
		okPipe := false
		for _, ci := range eng.CallsNamed(fn, false, "core.MergeXRefTables") {
			if ex, ok := ci.Common().Args[0].(*ssa.Extract); ok && ex.Index == 0 {
				if call, ok := ex.Tuple.(*ssa.Call); ok && eng.CalleeName(call) == "core.(*XRefParser).ParseAllXRefs" {
					okPipe = true
				}
			}
		}
		c.Check(okPipe, R, "reader.(*Reader).loadXRef#pipeline", fn.Pos(), "MergeXRefTables receives the list of ParseAllXRefs unchanged", "the list returned by ParseAllXRefs is not passed unchanged to MergeXRefTables")
	}
}

func ruleFreeIsError(c *eng.Ctx) {
	const R = "R4.2-FREE-IS-ERROR"
	c.Rule(R, "in Reader.GetObject every load of an object is dominated by the true edge of entry.InUse (or Type != free) and by the found-edge of the xref lookup", 2, 0)
	fn := c.P.Func("reader.(*Reader).GetObject")
	if fn == nil {
		c.Undec(R, "reader.(*Reader).GetObject", token.NoPos, "anchor not found")
		return
	}
	type loadSite struct {
		ssa.CallInstruction
		target string
	}
	var loads []loadSite
	for _, ci := range eng.CallsNamed(fn, false, "reader.(*Reader).getCompressedObject", "reader.(*Reader).getUncompressedObject") {
		loads = append(loads, loadSite{ci, eng.CalleeName(ci)})
	}
	if len(loads) == 0 {
		// the loads may sit in a stage function of GetObject (lookup stage, load stage)
		for _, h := range eng.Cluster(fn, 1) {
			if h == fn || h.Pkg != fn.Pkg {
				continue
			}
			if n := eng.FuncName(h); n == "reader.(*Reader).getCompressedObject" || n == "reader.(*Reader).getUncompressedObject" || n == "reader.(*Reader).getObjectStream" {
				continue
			}
			for _, ci := range eng.CallsNamed(h, false, "reader.(*Reader).getCompressedObject", "reader.(*Reader).getUncompressedObject") {
				loads = append(loads, loadSite{ci, eng.CalleeName(ci)})
			}
		}
	}
	if len(loads) == 0 {
		// the loader picked from a table of method values keyed by the entry type
		for _, ci := range eng.Calls(fn, false, func(string, ssa.CallInstruction) bool { return true }) {
			if eng.StaticCallee(ci) != nil {
				continue
			}
			if cands, ok := eng.DynCallees(ci); ok {
				for _, g := range cands {
					if n := eng.FuncName(g); n == "reader.(*Reader).getCompressedObject" || n == "reader.(*Reader).getUncompressedObject" {
						loads = append(loads, loadSite{ci, n})
					}
				}
			}
		}
	}
	if len(loads) == 0 {
		// the loader as an implementation of a small interface, picked by a selector function
		for _, ci := range eng.Calls(fn, false, func(string, ssa.CallInstruction) bool { return true }) {
			if !ci.Common().IsInvoke() {
				continue
			}
			for _, g := range c.P.Callees(ci) {
				if g.Blocks == nil || !eng.InModule(g) {
					continue
				}
				for _, c2 := range eng.CallsNamed(g, false, "reader.(*Reader).getCompressedObject", "reader.(*Reader).getUncompressedObject") {
					loads = append(loads, loadSite{ci, eng.CalleeName(c2)})
				}
			}
		}
	}
	if len(loads) == 0 {
		c.Viol(R, "reader.(*Reader).GetObject#loads", fn.Pos(), "GetObject no longer loads objects through getCompressedObject/getUncompressedObject")
		return
	}
	for _, ld := range loads {
		inUse := stageGuarded(fn, ld.Parent(), ld.Block(), func(f eng.Fact) bool {
			if fr, ok := eng.LoadOfField(f.Cond); ok && fr.Field == "InUse" && f.Pos {
				return true
			}
			if op, x, y, ok := f.Cmp(); ok && op == token.NEQ {
				for _, s := range [][2]ssa.Value{{x, y}, {y, x}} {
					if fr, ok := eng.LoadOfField(s[0]); ok && fr.Field == "Type" {
						if k, isC := eng.ConstInt(s[1]); isC && k == 0 {
							return true
						}
					}
				}
			}
			return false
		})
		found := stageGuarded(fn, ld.Parent(), ld.Block(), func(f eng.Fact) bool {
			// ok result (Extract #1) of XRefTable.Get or a map lookup, positive
			ex, isEx := f.Cond.(*ssa.Extract)
			if !isEx || !f.Pos || ex.Index != 1 {
				return false
			}
			switch t := ex.Tuple.(type) {
			case *ssa.Call:
				return eng.CalleeName(t) == "core.(*XRefTable).Get"
			case *ssa.Lookup:
				return true
			}
			return false
		})
		key := "reader.(*Reader).GetObject#" + strings.TrimPrefix(ld.target, "reader.(*Reader).")
		c.Check(inUse, R, key+"/in-use", ld.Pos(), "dominated by entry.InUse", "an object whose newest xref entry is free can be loaded (no in-use test dominates the load): deleted objects come back")
		c.Check(found, R, key+"/found", ld.Pos(), "dominated by the xref lookup's ok", "the load is not dominated by a successful xref lookup")
	}
}

func ruleCacheDiscipline(c *eng.Ctx) {
	const R = "R4.3-CACHE-DISCIPLINE"
	c.Rule(R, "Reader.objCache is written only in GetObject, keyed by its object-number parameter, after the load's err == nil; objStmCache only in getObjectStream keyed by its parameter; lookups use the same key; nothing else fills the caches", 4, 0)
	type spec struct{ field, owner string }
	for _, sp := range []spec{{"objCache", "reader.(*Reader).GetObject"}, {"objStmCache", "reader.(*Reader).getObjectStream"}} {
		owner := c.P.Func(sp.owner)
		if c.P.FuncExact(sp.owner) == nil {
			// the loader was renamed or moved: the owner is the one function that both looks the cache up and
			// fills it (the role), if there is exactly one
			var cands []*ssa.Function
			for _, fn := range c.P.ModuleFuncs() {
				wr, rd := false, false
				eng.Instrs(fn, false, func(in ssa.Instruction) {
					switch x := in.(type) {
					case *ssa.MapUpdate:
						if fr, ok := eng.LoadOfField(x.Map); ok && fr.Field == sp.field && strings.HasSuffix(fr.Struct, "reader.Reader") {
							wr = true
						}
					case *ssa.Lookup:
						if fr, ok := eng.LoadOfField(x.X); ok && fr.Field == sp.field && strings.HasSuffix(fr.Struct, "reader.Reader") {
							rd = true
						}
					}
				})
				if wr && rd && len(fn.Params) > 1 {
					cands = append(cands, fn)
				}
			}
			if len(cands) == 1 {
				owner = cands[0]
			}
		}
		if owner == nil {
			c.Undec(R, sp.owner, token.NoPos, "anchor not found")
			continue
		}
		nWrites := 0
		for _, fn := range c.P.ModuleFuncs() {
			eng.Instrs(fn, false, func(in ssa.Instruction) {
				mu, ok := in.(*ssa.MapUpdate)
				if !ok {
					return
				}
				fr, ok := eng.LoadOfField(mu.Map)
				if !ok || fr.Field != sp.field || !strings.HasSuffix(fr.Struct, "reader.Reader") {
					return
				}
				nWrites++
				key := fmt.Sprintf("%s#%s-write", eng.FuncName(fn), sp.field)
				if fn != owner {
					c.Viol(R, key, mu.Pos(), fmt.Sprintf("%s is filled outside %s: entries that bypass the xref lookup (e.g. every member of an object stream, whatever the newest revision says) make answers depend on what was looked up before", sp.field, sp.owner))
					return
				}
				if mu.Key != ssa.Value(fn.Params[1]) {
					c.Viol(R, key, mu.Pos(), sp.field+" is written under a key other than the requested number")
					return
				}
				// dominated by err == nil of a load call
				okErr := eng.GuardedBy(fn, mu.Block(), func(f eng.Fact) bool {
					op, x, y, ok := f.Cmp()
					if !ok || op != token.EQL {
						return false
					}
					for _, s := range [][2]ssa.Value{{x, y}, {y, x}} {
						if eng.IsNilConst(s[1]) && eng.IsErrorType(s[0].Type()) {
							return true
						}
					}
					return false
				})
				c.Check(okErr, R, key, mu.Pos(), "keyed by the parameter, after err == nil", sp.field+" is filled before the load is known to have succeeded")
			})
		}
		if nWrites == 0 {
			c.Ok(R, sp.owner+"#"+sp.field+"-unused", owner.Pos(), "cache is never written (no caching)")
		}
		// lookups keyed by the parameter
		okLook := true
		eng.Instrs(owner, false, func(in ssa.Instruction) {
			if lk, ok := in.(*ssa.Lookup); ok {
				if fr, ok := eng.LoadOfField(lk.X); ok && fr.Field == sp.field {
					if lk.Index != ssa.Value(owner.Params[1]) {
						okLook = false
					}
				}
			}
		})
		c.Check(okLook, R, sp.owner+"#"+sp.field+"-lookup", owner.Pos(), "looked up with the requested number", sp.field+" is looked up with a key other than the requested number")
	}
}

func ruleObjStmCrosscheck(c *eng.Ctx) {
	const R = "R4.4-OBJSTM-CROSSCHECK"
	c.Rule(R, "getCompressedObject takes the stream number from entry.Offset and the index from entry.Generation, and returns successfully only if the number stored in the stream header equals the requested number", 3, 0)
	fn := c.P.Func("reader.(*Reader).getCompressedObject")
	if fn == nil {
		c.Undec(R, "reader.(*Reader).getCompressedObject", token.NoPos, "anchor not found")
		return
	}
	name := "reader.(*Reader).getCompressedObject"
	byIdx := eng.CallsNamed(fn, false, "core.(*ObjectStream).GetObjectByIndex")
	if len(byIdx) != 1 {
		c.Viol(R, name+"#by-index", fn.Pos(), "the object is not fetched with exactly one GetObjectByIndex call")
		return
	}
	call := byIdx[0]
	// the entry's fields may be read by the caller and passed down as scalars
	cl := []*ssa.Function{fn}
	if g := c.P.Func("reader.(*Reader).GetObject"); g != nil {
		cl = append(cl, g)
	}
	fromField := func(v ssa.Value, field string) bool {
		for w := range eng.SliceInter(v, nil, cl) {
			if fr, ok := eng.AsField(w); ok && fr.Field == field && strings.HasSuffix(fr.Struct, "core.XRefEntry") {
				return true
			}
		}
		return false
	}
	c.Check(fromField(eng.ArgsWithRecv(call)[1], "Generation") && !fromField(eng.ArgsWithRecv(call)[1], "Offset"), R, name+"#index", call.Pos(), "index within the stream comes from entry.Generation", "the index passed to GetObjectByIndex is not the entry's second field (Generation)")
	okStm := false
	// the loader of the object stream, whatever it is called: the call whose result GetObjectByIndex is applied to
	for w := range eng.Slice(eng.ArgsWithRecv(call)[0], func(*ssa.Call) bool { return false }) {
		ex, ok := w.(*ssa.Extract)
		if !ok {
			continue
		}
		gs, ok := ex.Tuple.(*ssa.Call)
		if !ok || eng.StaticCallee(gs) == nil || !eng.InModule(eng.StaticCallee(gs)) {
			continue
		}
		args := eng.ArgsWithRecv(gs)
		if len(args) > 1 && fromField(args[1], "Offset") && !fromField(args[1], "Generation") {
			okStm = true
		}
	}
	c.Check(okStm, R, name+"#stream-number", call.Pos(), "stream number comes from entry.Offset", "the object stream number is not taken from the entry's first field (Offset)")
	var got ssa.Value
	for _, r := range *call.Value().Referrers() {
		if ex, ok := r.(*ssa.Extract); ok && ex.Index == 1 {
			got = ex
		}
	}
	okCheck := got != nil
	for _, r := range eng.Returns(fn) {
		if nn, known := eng.ErrValueNonNil(r.Results[len(r.Results)-1]); known && !nn {
			g := eng.GuardedBy(fn, r.Block(), func(f eng.Fact) bool {
				op, x, y, ok := f.Cmp()
				return ok && op == token.EQL && ((x == got && y == ssa.Value(fn.Params[1])) || (y == got && x == ssa.Value(fn.Params[1])))
			})
			if !g {
				okCheck = false
			}
		}
	}
	c.Check(okCheck, R, name+"#number-check", call.Pos(), "successful return requires header number == requested number", "an object from an object stream is returned without checking that the stream header names the requested object number")
}
