package rules

import (
	"fmt"
	"go/ast"
	"go/token"
	"go/types"
	"os"
	"path/filepath"
	"regexp"
	"strconv"
	"strings"

	"golang.org/x/tools/go/ssa"

	"verif/checker/eng"
)

// Round 9 rules.

// ---------------------------------------------------------------------------------------------------------------
// Loop variable addresses (language versions before go1.22: one variable per loop, not per iteration).

// perLoopVariables reports whether the file is compiled with the pre-1.22 loop variable semantics.
func perLoopVariables(p *eng.Prog, info *types.Info, f *ast.File) bool {
	v := ""
	if info != nil && info.FileVersions != nil {
		v = info.FileVersions[f]
	}
	if v == "" {
		if b, err := os.ReadFile(filepath.Join(p.Dir, "go.mod")); err == nil {
			if m := regexp.MustCompile(`(?m)^go\s+(\d+\.\d+)`).FindSubmatch(b); m != nil {
				v = "go" + string(m[1])
			}
		}
	}
	m := regexp.MustCompile(`^go(\d+)\.(\d+)`).FindStringSubmatch(v)
	if m == nil {
		return false
	}
	maj, _ := strconv.Atoi(m[1])
	min, _ := strconv.Atoi(m[2])
	return maj == 1 && min < 22
}

type loopVarEscape struct {
	v     *types.Var
	at    token.Pos
	how   string
	fn    string
	loopP token.Pos
}

// paramRetained: does the function keep its idx-th parameter (a pointer) beyond the call: stored into memory other than
// a local cell, put into a map, a slice literal (append), a channel, an interface that is then stored, or
// handed to a module function that retains it (depth bounded).
func paramRetained(p *eng.Prog, fn *ssa.Function, idx int, depth int) bool {
	if fn == nil || len(fn.Blocks) == 0 || idx >= len(fn.Params) || depth > 3 {
		return false
	}
	seen := map[ssa.Value]bool{}
	var keeps func(v ssa.Value) bool
	keeps = func(v ssa.Value) bool {
		if seen[v] {
			return false
		}
		seen[v] = true
		refs := v.Referrers()
		if refs == nil {
			return false
		}
		for _, r := range *refs {
			switch x := r.(type) {
			case *ssa.Store:
				if x.Val == v {
					if a, ok := x.Addr.(*ssa.Alloc); ok && !a.Heap {
						// a local cell: follow its loads
						for _, rr := range *a.Referrers() {
							if u, ok := rr.(*ssa.UnOp); ok && u.Op == token.MUL && keeps(u) {
								return true
							}
						}
						continue
					}
					return true
				}
			case *ssa.MapUpdate:
				if x.Value == v || x.Key == v {
					return true
				}
			case *ssa.Send:
				if x.X == v {
					return true
				}
			case *ssa.Phi, *ssa.ChangeType, *ssa.MakeInterface, *ssa.ChangeInterface:
				if keeps(r.(ssa.Value)) {
					return true
				}
			case *ssa.MakeClosure:
				return true
			case ssa.CallInstruction:
				cal := eng.StaticCallee(x)
				if cal == nil || cal.Pkg == nil || !strings.HasPrefix(cal.Pkg.Pkg.Path(), eng.ModPath) {
					continue
				}
				args := eng.ArgsWithRecv(x)
				for i, a := range args {
					if a == v && paramRetained(p, cal, i, depth+1) {
						return true
					}
				}
			}
		}
		return false
	}
	return keeps(fn.Params[idx])
}

// loopVarEscapes lists the places where the address of a per-loop variable (or a closure that captures it) outlives
// the iteration that produced it.
func loopVarEscapes(c *eng.Ctx, pkgs map[string]bool) (loops int, out []loopVarEscape) {
	for _, pk := range c.P.Pkgs {
		sp := eng.ShortPath(pk.PkgPath)
		if !pkgs[sp] && !strings.Contains(sp, eng.PositivePkg) {
			continue
		}
		info := pk.TypesInfo
		for _, f := range pk.Syntax {
			if strings.HasSuffix(c.P.Fset.Position(f.Pos()).Filename, "_test.go") || !perLoopVariables(c.P, info, f) {
				continue
			}
			for _, d := range f.Decls {
				fd, ok := d.(*ast.FuncDecl)
				if !ok || fd.Body == nil {
					continue
				}
				fname := sp + "." + fd.Name.Name
				if fd.Recv != nil && len(fd.Recv.List) == 1 {
					fname = sp + "." + types.ExprString(fd.Recv.List[0].Type) + "." + fd.Name.Name
				}
				var stack []ast.Node
				ast.Inspect(fd.Body, func(n ast.Node) bool {
					if n == nil {
						stack = stack[:len(stack)-1]
						return true
					}
					stack = append(stack, n)
					var vars []*types.Var
					var body *ast.BlockStmt
					switch l := n.(type) {
					case *ast.RangeStmt:
						if l.Tok == token.DEFINE {
							for _, e := range []ast.Expr{l.Key, l.Value} {
								if id, ok := e.(*ast.Ident); ok && id.Name != "_" {
									if v, ok := info.Defs[id].(*types.Var); ok {
										vars = append(vars, v)
									}
								}
							}
						}
						body = l.Body
					case *ast.ForStmt:
						if as, ok := l.Init.(*ast.AssignStmt); ok && as.Tok == token.DEFINE {
							for _, e := range as.Lhs {
								if id, ok := e.(*ast.Ident); ok && id.Name != "_" {
									if v, ok := info.Defs[id].(*types.Var); ok {
										vars = append(vars, v)
									}
								}
							}
						}
						body = l.Body
					}
					if body == nil || len(vars) == 0 {
						return true
					}
					loops++
					for _, v := range vars {
						out = append(out, escapesOf(c, info, fname, n, body, v)...)
					}
					return true
				})
			}
		}
	}
	return
}

// rootedAtValue: the expression x, x.f, x.f.g, x[i] (array) … that denotes storage inside the variable v itself.
func rootedAtValue(info *types.Info, e ast.Expr, v *types.Var) bool {
	for {
		switch x := e.(type) {
		case *ast.ParenExpr:
			e = x.X
		case *ast.Ident:
			return info.Uses[x] == v
		case *ast.SelectorExpr:
			if sel := info.Selections[x]; sel == nil || sel.Indirect() {
				return false
			}
			e = x.X
		case *ast.IndexExpr:
			if _, ok := info.TypeOf(x.X).Underlying().(*types.Array); !ok {
				return false
			}
			e = x.X
		default:
			return false
		}
	}
}

func escapesOf(c *eng.Ctx, info *types.Info, fname string, loop ast.Node, body *ast.BlockStmt, v *types.Var) []loopVarEscape {
	var out []loopVarEscape
	aliases := map[types.Object]bool{}
	var stack []ast.Node
	// leavesLoop: the statement that contains position pos is followed, in its own block, by a break out of this loop
	// or a return with nothing that can run another iteration in between.
	leavesLoop := func(st []ast.Node) bool {
		for i := len(st) - 1; i >= 0; i-- {
			blk, ok := st[i].(*ast.BlockStmt)
			var list []ast.Stmt
			if ok {
				list = blk.List
			} else if cc, ok := st[i].(*ast.CaseClause); ok {
				list = cc.Body
			} else {
				continue
			}
			if i+1 >= len(st) {
				return false
			}
			idx := -1
			for k, s := range list {
				if s == st[i+1] {
					idx = k
				}
			}
			if idx < 0 {
				return false
			}
			for _, s := range list[idx+1:] {
				switch b := s.(type) {
				case *ast.ReturnStmt:
					return true
				case *ast.BranchStmt:
					if b.Tok == token.BREAK && b.Label == nil {
						// the innermost breakable statement must be this loop
						for j := i; j >= 0; j-- {
							switch st[j].(type) {
							case *ast.ForStmt, *ast.RangeStmt, *ast.SwitchStmt, *ast.TypeSwitchStmt, *ast.SelectStmt:
								return st[j] == loop
							}
						}
						return true
					}
					return false
				case *ast.ExprStmt, *ast.AssignStmt, *ast.IncDecStmt, *ast.DeclStmt:
					continue
				default:
					return false
				}
			}
			return false
		}
		return false
	}
	classify := func(st []ast.Node, what string) {
		// st[len-1] is the address expression / closure / alias use; walk up through parens
		i := len(st) - 2
		child := st[len(st)-1]
		for i >= 0 {
			if _, ok := st[i].(*ast.ParenExpr); ok {
				child = st[i]
				i--
				continue
			}
			break
		}
		if i < 0 {
			return
		}
		esc := ""
		switch p := st[i].(type) {
		case *ast.KeyValueExpr:
			if p.Value == child {
				esc = "stored in a composite literal"
			}
		case *ast.CompositeLit:
			esc = "stored in a composite literal"
		case *ast.AssignStmt:
			for k, r := range p.Rhs {
				if r != child || k >= len(p.Lhs) {
					continue
				}
				if id, ok := p.Lhs[k].(*ast.Ident); ok {
					obj := info.Defs[id]
					if obj == nil {
						obj = info.Uses[id]
					}
					if obj != nil && obj.Pos() >= body.Pos() && obj.Pos() < body.End() {
						aliases[obj] = true // a name that lives inside one iteration: follow it
						continue
					}
					if id.Name == "_" {
						continue
					}
				}
				esc = "assigned to " + types.ExprString(p.Lhs[k])
			}
		case *ast.ValueSpec:
			for k, r := range p.Values {
				if r == child && k < len(p.Names) {
					if obj := info.Defs[p.Names[k]]; obj != nil {
						aliases[obj] = true
					}
				}
			}
		case *ast.SendStmt:
			if p.Value == child {
				esc = "sent on a channel"
			}
		case *ast.GoStmt:
			esc = "run as a goroutine"
		case *ast.DeferStmt:
			esc = "deferred to the end of the function"
		case *ast.CallExpr:
			if p.Fun == child {
				if i > 0 {
					switch st[i-1].(type) {
					case *ast.GoStmt:
						esc = "run as a goroutine"
					case *ast.DeferStmt:
						esc = "deferred to the end of the function"
					}
				}
				break
			}
			if id, ok := p.Fun.(*ast.Ident); ok {
				if _, ok := info.Uses[id].(*types.Builtin); ok && id.Name == "append" {
					esc = "appended to a slice"
					break
				}
			}
			// a module function that keeps the pointer
			var callee *types.Func
			switch f := p.Fun.(type) {
			case *ast.Ident:
				callee, _ = info.Uses[f].(*types.Func)
			case *ast.SelectorExpr:
				callee, _ = info.Uses[f.Sel].(*types.Func)
			}
			if callee != nil && callee.Pkg() != nil && strings.HasPrefix(callee.Pkg().Path(), eng.ModPath) {
				if sf := c.P.SSA.FuncValue(callee); sf != nil {
					k := -1
					for a, arg := range p.Args {
						if arg == child {
							k = a
						}
					}
					if k >= 0 {
						if sf.Signature.Recv() != nil {
							k++
						}
						if sf.Signature.Variadic() && k >= len(sf.Params)-1 {
							k = len(sf.Params) - 1
						}
						if paramRetained(c.P, sf, k, 0) {
							esc = "kept by " + callee.Name()
						}
					}
				}
			}
		}
		if esc == "" || leavesLoop(st[:i+1]) {
			return
		}
		out = append(out, loopVarEscape{v: v, at: child.Pos(), how: what + " is " + esc, fn: fname, loopP: loop.Pos()})
	}
	ast.Inspect(body, func(n ast.Node) bool {
		if n == nil {
			stack = stack[:len(stack)-1]
			return true
		}
		stack = append(stack, n)
		switch x := n.(type) {
		case *ast.UnaryExpr:
			if x.Op == token.AND && rootedAtValue(info, x.X, v) {
				classify(stack, "&"+types.ExprString(x.X))
			}
		case *ast.FuncLit:
			uses := false
			ast.Inspect(x.Body, func(m ast.Node) bool {
				if id, ok := m.(*ast.Ident); ok && info.Uses[id] == v {
					uses = true
				}
				return !uses
			})
			if uses {
				classify(stack, "a closure over "+v.Name())
			}
		case *ast.Ident:
			if obj := info.Uses[x]; obj != nil && aliases[obj] {
				classify(stack, "the pointer "+x.Name+" to "+v.Name())
			}
		}
		return true
	})
	return out
}

// RX.LV: under the module's language version a `for … :=` variable is one variable for the whole loop. Its address
// (or the address of a part of it, or a closure over it) that is stored, appended, sent or kept by a callee aliases
// every later iteration: all the stored pointers end up at the LAST element.
func loopVarRule(id string, pkgs ...string) func(*eng.Ctx) {
	return func(c *eng.Ctx) {
		R := id + "-LOOP-VARIABLE-ADDRESS"
		c.Rule(R, "in files compiled with a language version before go1.22 (go.mod) the address of a loop variable, of a part of it, or a closure capturing it, is not stored in a literal, assigned outside the iteration, appended, sent, run as a goroutine/deferred or kept by a module callee unless the loop is left right after: every such pointer refers to the one shared variable, so all elements built in the loop end up describing the last item", 0, 1)
		set := map[string]bool{}
		for _, k := range pkgs {
			set[k] = true
		}
		loops, esc := loopVarEscapes(c, set)
		for _, e := range esc {
			c.Viol(R, fmt.Sprintf("%s#&%s", e.fn, e.v.Name()), e.at, e.how+" inside the loop at "+c.P.Pos(e.loopP)+": the loop variable "+e.v.Name()+" is shared by all iterations (language version before go1.22), so every pointer stored this way refers to the last item of the loop")
		}
		c.Ok(R, "scope#scanned", token.NoPos, fmt.Sprintf("%d loops with := variables scanned in %s", loops, strings.Join(pkgs, ", ")))
	}
}
