package rules

import (
	"fmt"
	"go/ast"
	"go/token"
	"go/types"
	"os"
	"path/filepath"
	"regexp"
	"sort"
	"strconv"
	"strings"

	"golang.org/x/tools/go/ssa"

	"verif/checker/eng"
)

// Round 9 rules.

// ---------------------------------------------------------------------------------------------------------------
// Loop variable addresses (language versions before go1.22: one variable per loop, not per iteration).

// perLoopVariables reports whether the file is compiled with the pre-1.22 loop variable semantics.
func perLoopVariables(p *eng.Prog, info *types.Info, f *ast.File) bool {
	v := ""
	if info != nil && info.FileVersions != nil {
		v = info.FileVersions[f]
	}
	if v == "" {
		if b, err := os.ReadFile(filepath.Join(p.Dir, "go.mod")); err == nil {
			if m := regexp.MustCompile(`(?m)^go\s+(\d+\.\d+)`).FindSubmatch(b); m != nil {
				v = "go" + string(m[1])
			}
		}
	}
	m := regexp.MustCompile(`^go(\d+)\.(\d+)`).FindStringSubmatch(v)
	if m == nil {
		return false
	}
	maj, _ := strconv.Atoi(m[1])
	min, _ := strconv.Atoi(m[2])
	return maj == 1 && min < 22
}

type loopVarEscape struct {
	v     *types.Var
	at    token.Pos
	how   string
	fn    string
	loopP token.Pos
}

// paramRetained: does the function keep its idx-th parameter (a pointer) beyond the call: stored into memory other than
// a local cell, put into a map, a slice literal (append), a channel, an interface that is then stored, or
// handed to a module function that retains it (depth bounded).
func paramRetained(p *eng.Prog, fn *ssa.Function, idx int, depth int) bool {
	if fn == nil || len(fn.Blocks) == 0 || idx >= len(fn.Params) || depth > 3 {
		return false
	}
	seen := map[ssa.Value]bool{}
	var keeps func(v ssa.Value) bool
	keeps = func(v ssa.Value) bool {
		if seen[v] {
			return false
		}
		seen[v] = true
		refs := v.Referrers()
		if refs == nil {
			return false
		}
		for _, r := range *refs {
			switch x := r.(type) {
			case *ssa.Store:
				if x.Val == v {
					if a, ok := x.Addr.(*ssa.Alloc); ok && !a.Heap {
						// a local cell: follow its loads
						for _, rr := range *a.Referrers() {
							if u, ok := rr.(*ssa.UnOp); ok && u.Op == token.MUL && keeps(u) {
								return true
							}
						}
						continue
					}
					return true
				}
			case *ssa.MapUpdate:
				if x.Value == v || x.Key == v {
					return true
				}
			case *ssa.Send:
				if x.X == v {
					return true
				}
			case *ssa.Phi, *ssa.ChangeType, *ssa.MakeInterface, *ssa.ChangeInterface:
				if keeps(r.(ssa.Value)) {
					return true
				}
			case *ssa.MakeClosure:
				return true
			case ssa.CallInstruction:
				cal := eng.StaticCallee(x)
				if cal == nil || cal.Pkg == nil || !strings.HasPrefix(cal.Pkg.Pkg.Path(), eng.ModPath) {
					continue
				}
				args := eng.ArgsWithRecv(x)
				for i, a := range args {
					if a == v && paramRetained(p, cal, i, depth+1) {
						return true
					}
				}
			}
		}
		return false
	}
	return keeps(fn.Params[idx])
}

// loopVarEscapes lists the places where the address of a per-loop variable (or a closure that captures it) outlives
// the iteration that produced it.
func loopVarEscapes(c *eng.Ctx, pkgs map[string]bool) (loops int, out []loopVarEscape) {
	for _, pk := range c.P.Pkgs {
		sp := eng.ShortPath(pk.PkgPath)
		if !pkgs[sp] && !strings.Contains(sp, eng.PositivePkg) {
			continue
		}
		info := pk.TypesInfo
		for _, f := range pk.Syntax {
			if strings.HasSuffix(c.P.Fset.Position(f.Pos()).Filename, "_test.go") || !perLoopVariables(c.P, info, f) {
				continue
			}
			for _, d := range f.Decls {
				fd, ok := d.(*ast.FuncDecl)
				if !ok || fd.Body == nil {
					continue
				}
				fname := sp + "." + fd.Name.Name
				if fd.Recv != nil && len(fd.Recv.List) == 1 {
					fname = sp + "." + types.ExprString(fd.Recv.List[0].Type) + "." + fd.Name.Name
				}
				var stack []ast.Node
				ast.Inspect(fd.Body, func(n ast.Node) bool {
					if n == nil {
						stack = stack[:len(stack)-1]
						return true
					}
					stack = append(stack, n)
					var vars []*types.Var
					var body *ast.BlockStmt
					switch l := n.(type) {
					case *ast.RangeStmt:
						if l.Tok == token.DEFINE {
							for _, e := range []ast.Expr{l.Key, l.Value} {
								if id, ok := e.(*ast.Ident); ok && id.Name != "_" {
									if v, ok := info.Defs[id].(*types.Var); ok {
										vars = append(vars, v)
									}
								}
							}
						}
						body = l.Body
					case *ast.ForStmt:
						if as, ok := l.Init.(*ast.AssignStmt); ok && as.Tok == token.DEFINE {
							for _, e := range as.Lhs {
								if id, ok := e.(*ast.Ident); ok && id.Name != "_" {
									if v, ok := info.Defs[id].(*types.Var); ok {
										vars = append(vars, v)
									}
								}
							}
						}
						body = l.Body
					}
					if body == nil || len(vars) == 0 {
						return true
					}
					loops++
					for _, v := range vars {
						out = append(out, escapesOf(c, info, fname, n, body, v)...)
					}
					return true
				})
			}
		}
	}
	return
}

// rootedAtValue: the expression x, x.f, x.f.g, x[i] (array) … that denotes storage inside the variable v itself.
func rootedAtValue(info *types.Info, e ast.Expr, v *types.Var) bool {
	for {
		switch x := e.(type) {
		case *ast.ParenExpr:
			e = x.X
		case *ast.Ident:
			return info.Uses[x] == v
		case *ast.SelectorExpr:
			if sel := info.Selections[x]; sel == nil || sel.Indirect() {
				return false
			}
			e = x.X
		case *ast.IndexExpr:
			if _, ok := info.TypeOf(x.X).Underlying().(*types.Array); !ok {
				return false
			}
			e = x.X
		default:
			return false
		}
	}
}

func escapesOf(c *eng.Ctx, info *types.Info, fname string, loop ast.Node, body *ast.BlockStmt, v *types.Var) []loopVarEscape {
	var out []loopVarEscape
	aliases := map[types.Object]bool{}
	var stack []ast.Node
	// leavesLoop: the statement that contains position pos is followed, in its own block, by a break out of this loop
	// or a return with nothing that can run another iteration in between.
	leavesLoop := func(st []ast.Node) bool {
		for i := len(st) - 1; i >= 0; i-- {
			blk, ok := st[i].(*ast.BlockStmt)
			var list []ast.Stmt
			if ok {
				list = blk.List
			} else if cc, ok := st[i].(*ast.CaseClause); ok {
				list = cc.Body
			} else {
				continue
			}
			if i+1 >= len(st) {
				return false
			}
			idx := -1
			for k, s := range list {
				if s == st[i+1] {
					idx = k
				}
			}
			if idx < 0 {
				return false
			}
			for _, s := range list[idx+1:] {
				switch b := s.(type) {
				case *ast.ReturnStmt:
					return true
				case *ast.BranchStmt:
					if b.Tok == token.BREAK && b.Label == nil {
						// the innermost breakable statement must be this loop
						for j := i; j >= 0; j-- {
							switch st[j].(type) {
							case *ast.ForStmt, *ast.RangeStmt, *ast.SwitchStmt, *ast.TypeSwitchStmt, *ast.SelectStmt:
								return st[j] == loop
							}
						}
						return true
					}
					return false
				case *ast.ExprStmt, *ast.AssignStmt, *ast.IncDecStmt, *ast.DeclStmt:
					continue
				default:
					return false
				}
			}
			return false
		}
		return false
	}
	classify := func(st []ast.Node, what string) {
		// st[len-1] is the address expression / closure / alias use; walk up through parens
		i := len(st) - 2
		child := st[len(st)-1]
		for i >= 0 {
			if _, ok := st[i].(*ast.ParenExpr); ok {
				child = st[i]
				i--
				continue
			}
			break
		}
		if i < 0 {
			return
		}
		esc := ""
		switch p := st[i].(type) {
		case *ast.KeyValueExpr:
			if p.Value == child {
				esc = "stored in a composite literal"
			}
		case *ast.CompositeLit:
			esc = "stored in a composite literal"
		case *ast.AssignStmt:
			for k, r := range p.Rhs {
				if r != child || k >= len(p.Lhs) {
					continue
				}
				if id, ok := p.Lhs[k].(*ast.Ident); ok {
					obj := info.Defs[id]
					if obj == nil {
						obj = info.Uses[id]
					}
					if obj != nil && obj.Pos() >= body.Pos() && obj.Pos() < body.End() {
						aliases[obj] = true // a name that lives inside one iteration: follow it
						continue
					}
					if id.Name == "_" {
						continue
					}
				}
				esc = "assigned to " + types.ExprString(p.Lhs[k])
			}
		case *ast.ValueSpec:
			for k, r := range p.Values {
				if r == child && k < len(p.Names) {
					if obj := info.Defs[p.Names[k]]; obj != nil {
						aliases[obj] = true
					}
				}
			}
		case *ast.SendStmt:
			if p.Value == child {
				esc = "sent on a channel"
			}
		case *ast.GoStmt:
			esc = "run as a goroutine"
		case *ast.DeferStmt:
			esc = "deferred to the end of the function"
		case *ast.CallExpr:
			if p.Fun == child {
				if i > 0 {
					switch st[i-1].(type) {
					case *ast.GoStmt:
						esc = "run as a goroutine"
					case *ast.DeferStmt:
						esc = "deferred to the end of the function"
					}
				}
				break
			}
			if id, ok := p.Fun.(*ast.Ident); ok {
				if _, ok := info.Uses[id].(*types.Builtin); ok && id.Name == "append" {
					esc = "appended to a slice"
					break
				}
			}
			// a module function that keeps the pointer
			var callee *types.Func
			switch f := p.Fun.(type) {
			case *ast.Ident:
				callee, _ = info.Uses[f].(*types.Func)
			case *ast.SelectorExpr:
				callee, _ = info.Uses[f.Sel].(*types.Func)
			}
			if callee != nil && callee.Pkg() != nil && strings.HasPrefix(callee.Pkg().Path(), eng.ModPath) {
				if sf := c.P.SSA.FuncValue(callee); sf != nil {
					k := -1
					for a, arg := range p.Args {
						if arg == child {
							k = a
						}
					}
					if k >= 0 {
						if sf.Signature.Recv() != nil {
							k++
						}
						if sf.Signature.Variadic() && k >= len(sf.Params)-1 {
							k = len(sf.Params) - 1
						}
						if paramRetained(c.P, sf, k, 0) {
							esc = "kept by " + callee.Name()
						}
					}
				}
			}
		}
		if esc == "" || leavesLoop(st[:i+1]) {
			return
		}
		out = append(out, loopVarEscape{v: v, at: child.Pos(), how: what + " is " + esc, fn: fname, loopP: loop.Pos()})
	}
	ast.Inspect(body, func(n ast.Node) bool {
		if n == nil {
			stack = stack[:len(stack)-1]
			return true
		}
		stack = append(stack, n)
		switch x := n.(type) {
		case *ast.UnaryExpr:
			if x.Op == token.AND && rootedAtValue(info, x.X, v) {
				classify(stack, "&"+types.ExprString(x.X))
			}
		case *ast.FuncLit:
			uses := false
			ast.Inspect(x.Body, func(m ast.Node) bool {
				if id, ok := m.(*ast.Ident); ok && info.Uses[id] == v {
					uses = true
				}
				return !uses
			})
			if uses {
				classify(stack, "a closure over "+v.Name())
			}
		case *ast.Ident:
			if obj := info.Uses[x]; obj != nil && aliases[obj] {
				classify(stack, "the pointer "+x.Name+" to "+v.Name())
			}
		}
		return true
	})
	return out
}

// RX.LV: under the module's language version a `for … :=` variable is one variable for the whole loop. Its address
// (or the address of a part of it, or a closure over it) that is stored, appended, sent or kept by a callee aliases
// every later iteration: all the stored pointers end up at the LAST element.
func loopVarRule(id string, pkgs ...string) func(*eng.Ctx) {
	return func(c *eng.Ctx) {
		R := id + "-LOOP-VARIABLE-ADDRESS"
		c.Rule(R, "in files compiled with a language version before go1.22 (go.mod) the address of a loop variable, of a part of it, or a closure capturing it, is not stored in a literal, assigned outside the iteration, appended, sent, run as a goroutine/deferred or kept by a module callee unless the loop is left right after: every such pointer refers to the one shared variable, so all elements built in the loop end up describing the last item", 0, 1)
		set := map[string]bool{}
		for _, k := range pkgs {
			set[k] = true
		}
		loops, esc := loopVarEscapes(c, set)
		for _, e := range esc {
			c.Viol(R, fmt.Sprintf("%s#&%s", e.fn, e.v.Name()), e.at, e.how+" inside the loop at "+c.P.Pos(e.loopP)+": the loop variable "+e.v.Name()+" is shared by all iterations (language version before go1.22), so every pointer stored this way refers to the last item of the loop")
		}
		c.Ok(R, "scope#scanned", token.NoPos, fmt.Sprintf("%d loops with := variables scanned in %s", loops, strings.Join(pkgs, ", ")))
	}
}

// ---------------------------------------------------------------------------------------------------------------
// R2.23 fixed tables are indexed inside their literal length.

// globalLiteralLen: the number of elements of the composite literal a package-level slice or array is initialised with
// (path selects nested rows by constant index; -1 = the shortest row), when nothing else in the module assigns to the
// variable or appends to it.
func globalLiteralLen(c *eng.Ctx, g *ssa.Global, path []int) (int, bool) {
	obj, ok := g.Object().(*types.Var)
	if !ok || g.Pkg == nil {
		return 0, false
	}
	// never written outside the package initialiser
	init := g.Pkg.Func("init")
	for _, fn := range c.P.ModuleFuncs() {
		if fn == init || fn.Pkg != g.Pkg && !obj.Exported() {
			continue
		}
		written := false
		eng.Instrs(fn, true, func(in ssa.Instruction) {
			if st, ok := in.(*ssa.Store); ok && st.Addr == ssa.Value(g) {
				written = true
			}
		})
		if written {
			return 0, false
		}
	}
	var lit *ast.CompositeLit
	for _, pk := range c.P.Pkgs {
		if pk.Types != obj.Pkg() {
			continue
		}
		for _, f := range pk.Syntax {
			for _, d := range f.Decls {
				gd, ok := d.(*ast.GenDecl)
				if !ok {
					continue
				}
				for _, sp := range gd.Specs {
					vs, ok := sp.(*ast.ValueSpec)
					if !ok {
						continue
					}
					for i, nm := range vs.Names {
						if pk.TypesInfo.Defs[nm] == types.Object(obj) && i < len(vs.Values) {
							lit, _ = vs.Values[i].(*ast.CompositeLit)
						}
					}
				}
			}
		}
		if lit == nil {
			return 0, false
		}
		info := pk.TypesInfo
		var lenOf func(l *ast.CompositeLit, path []int) (int, bool)
		elems := func(l *ast.CompositeLit) (map[int]ast.Expr, int, bool) {
			out := map[int]ast.Expr{}
			next, max := 0, 0
			for _, e := range l.Elts {
				val := e
				if kv, ok := e.(*ast.KeyValueExpr); ok {
					tv, ok := info.Types[kv.Key]
					if !ok || tv.Value == nil {
						return nil, 0, false
					}
					k, exact := constantInt(tv)
					if !exact {
						return nil, 0, false
					}
					next = k
					val = kv.Value
				}
				out[next] = val
				next++
				if next > max {
					max = next
				}
			}
			return out, max, true
		}
		lenOf = func(l *ast.CompositeLit, path []int) (int, bool) {
			switch info.TypeOf(l).Underlying().(type) {
			case *types.Slice, *types.Array:
			default:
				return 0, false
			}
			el, n, ok := elems(l)
			if !ok {
				return 0, false
			}
			if at, isArr := info.TypeOf(l).Underlying().(*types.Array); isArr {
				n = int(at.Len())
			}
			if len(path) == 0 {
				return n, true
			}
			best := -1
			for i := 0; i < n; i++ {
				if path[0] >= 0 && path[0] != i {
					continue
				}
				e, has := el[i]
				if !has {
					// a missing row of an array of slices is nil (length 0); of arrays, full length
					if _, isArr := info.TypeOf(l).Underlying().(*types.Array); isArr {
						return 0, false
					}
					continue
				}
				sub, ok := e.(*ast.CompositeLit)
				if !ok {
					return 0, false
				}
				m, ok := lenOf(sub, path[1:])
				if !ok {
					return 0, false
				}
				if best < 0 || m < best {
					best = m
				}
			}
			if best < 0 {
				return 0, false
			}
			return best, true
		}
		return lenOf(lit, path)
	}
	return 0, false
}

func constantInt(tv types.TypeAndValue) (int, bool) {
	if tv.Value == nil {
		return 0, false
	}
	s := tv.Value.ExactString()
	n, err := strconv.Atoi(s)
	return n, err == nil
}

// tableBase: base of an index operation -> (global, row path) when it is a package-level table or a row of one.
func tableBase(v ssa.Value) (*ssa.Global, []int, bool) {
	switch x := v.(type) {
	case *ssa.Global:
		return x, nil, true
	case *ssa.UnOp:
		if x.Op != token.MUL {
			return nil, nil, false
		}
		switch a := x.X.(type) {
		case *ssa.Global:
			return a, nil, true
		case *ssa.IndexAddr:
			g, path, ok := tableBase(a.X)
			if !ok {
				return nil, nil, false
			}
			row := -1
			if k, isC := eng.ConstInt(a.Index); isC {
				row = int(k)
			}
			return g, append(append([]int{}, path...), row), true
		}
	case *ssa.IndexAddr:
		// &table[i] used as the base of a further index (array of arrays)
		g, path, ok := tableBase(x.X)
		if !ok {
			return nil, nil, false
		}
		row := -1
		if k, isC := eng.ConstInt(x.Index); isC {
			row = int(k)
		}
		return g, append(append([]int{}, path...), row), true
	}
	return nil, nil, false
}

// R2.23 [C02]
func ruleFixedTableIndex(c *eng.Ctx) {
	const R = "R2.23-FIXED-TABLE-INDEX"
	c.Rule(R, "an element of a package-level table (array or slice literal that nothing reassigns) is selected only with an index proven inside the literal's length: a constant, the index of a range over the table, a value compared with the length or with constants, a remainder, quotient, mask or shift whose range fits, or a byte for a 256-entry table. A number from the document that is larger than the table panics otherwise", 1, 1)
	boundedProg = c.P
	n := 0
	for _, fn := range c.P.ModuleFuncs() {
		if fn.Pkg == nil || fn.Blocks == nil {
			continue
		}
		if (fn.Name() == "init" || strings.HasPrefix(fn.Name(), "init#")) && fn.Parent() == nil {
			// package initialisers take no input: an index outside a table there fails every run, which the suite
			// settles; this rule is about numbers that come from a document
			continue
		}
		eng.Instrs(fn, true, func(in ssa.Instruction) {
			var idx, base ssa.Value
			switch x := in.(type) {
			case *ssa.IndexAddr:
				idx, base = x.Index, x.X
			case *ssa.Index:
				idx, base = x.Index, x.X
			default:
				return
			}
			if _, isMap := base.Type().Underlying().(*types.Map); isMap {
				return
			}
			if bt, ok := base.Type().Underlying().(*types.Basic); ok && bt.Info()&types.IsString != 0 {
				return
			}
			L, gname := 0, ""
			bt := base.Type().Underlying()
			if pt, ok := bt.(*types.Pointer); ok {
				bt = pt.Elem().Underlying()
			}
			if at, isArr := bt.(*types.Array); isArr {
				// an array that is a package-level table or a table held in a field: the length is in the type (a local
				// buffer that the function fills itself is not a table of the program)
				L = int(at.Len())
				if g, _, ok := tableBase(base); ok {
					gname = g.Name()
				} else if fr, ok := eng.AsField(base); ok {
					gname = "the array ." + fr.Field
				} else {
					return
				}
			} else {
				g, path, ok := tableBase(base)
				if !ok || g.Pkg == nil || !strings.HasPrefix(g.Pkg.Pkg.Path(), eng.ModPath) {
					return
				}
				l, ok := globalLiteralLen(c, g, path)
				if !ok {
					return
				}
				L, gname = l, g.Name()
			}
			if k, isC := eng.ConstInt(idx); isC {
				if k < 0 || int(k) >= L {
					c.Viol(R, fmt.Sprintf("%s#%s[%d]", eng.FuncName(in.Parent()), gname, k), in.Pos(), fmt.Sprintf("constant index %d is outside the %d entries of %s", k, L, gname))
				}
				return
			}
			n++
			host := in.Parent()
			key := fmt.Sprintf("%s#%s[%s]", eng.FuncName(host), gname, idx.Name())
			// the index of a range over the same table (or over one of equal or smaller constant length)
			if rangeIndexOf(idx, base, L) {
				c.Ok(R, key, in.Pos(), "range index of the table")
				return
			}
			lo := bounded(host, idx, 0, false, in.Block(), 0)
			hi := bounded(host, idx, int64(L-1), true, in.Block(), 0) || lessThanLenOf(host, idx, base, in.Block())
			if os.Getenv("VDEBUG") == "tab" {
				fmt.Fprintf(os.Stderr, "TAB %s %s len=%d lo=%v hi=%v idx=%s\n", c.P.Pos(in.Pos()), key, L, lo, hi, idx)
			}
			var miss []string
			if !lo {
				miss = append(miss, "index >= 0")
			}
			if !hi {
				miss = append(miss, fmt.Sprintf("index <= %d", L-1))
			}
			c.Check(len(miss) == 0, R, key, in.Pos(), fmt.Sprintf("index proven inside the %d entries", L), fmt.Sprintf("%s has %d entries and the index is not proven inside them (%s): a larger or negative number panics with index out of range", gname, L, strings.Join(miss, ", ")))
		})
	}
	if n == 0 {
		c.Ok(R, "module#tables", token.NoPos, "no package-level table is indexed by a computed value")
	}
}

// rangeIndexOf: idx is the induction variable of a loop that runs from 0 while idx < len(base') with base' the same
// table, or while idx < K with K <= L.
func rangeIndexOf(idx, base ssa.Value, L int) bool {
	ph, ok := idx.(*ssa.Phi)
	if !ok || len(ph.Edges) != 2 {
		return false
	}
	start, isC := eng.ConstInt(ph.Edges[0])
	if !isC {
		if k2, ok2 := eng.ConstInt(ph.Edges[1]); ok2 {
			start, isC = k2, true
			_ = start
		}
	}
	if !isC || start < 0 {
		// rotated range loops start at -1 and increment before use
		if !(isC && start == -1) {
			return false
		}
	}
	// the loop condition compares the phi (or phi+1) with a length
	for _, r := range *ph.Referrers() {
		check := func(b *ssa.BinOp, inc int64) bool {
			if b.Op != token.LSS {
				return false
			}
			if k, isK := eng.ConstInt(b.Y); isK {
				return int(k) <= L
			}
			if call, ok := b.Y.(*ssa.Call); ok {
				if bi, ok := call.Call.Value.(*ssa.Builtin); ok && bi.Name() == "len" {
					g1, p1, ok1 := tableBase(call.Call.Args[0])
					g2, p2, ok2 := tableBase(base)
					return ok1 && ok2 && g1 == g2 && fmt.Sprint(p1) == fmt.Sprint(p2)
				}
			}
			return false
		}
		if b, ok := r.(*ssa.BinOp); ok {
			if b.X == ssa.Value(ph) && check(b, 0) {
				if _, isIf := condIf(b); isIf {
					return start >= 0
				}
			}
			if b.Op == token.ADD && b.X == ssa.Value(ph) {
				if one, ok := eng.ConstInt(b.Y); ok && one == 1 && b == idx {
					return false
				}
			}
		}
	}
	return false
}

func condIf(cond ssa.Value) (*ssa.If, bool) {
	for _, r := range *cond.Referrers() {
		if i, ok := r.(*ssa.If); ok {
			return i, true
		}
	}
	return nil, false
}

// lessThanLenOf: idx < len(T) with T the same table is established on the way to at.
func lessThanLenOf(fn *ssa.Function, idx, base ssa.Value, at *ssa.BasicBlock) bool {
	g2, p2, ok2 := tableBase(base)
	if !ok2 {
		return false
	}
	return eng.GuardedBy(fn, at, func(ft eng.Fact) bool {
		op, x, y, ok := ft.Cmp()
		if !ok {
			return false
		}
		if eng.SameValue(y, idx) && !eng.SameValue(x, idx) {
			x, y = y, x
			op = eng.Swap(op)
		}
		if !eng.SameValue(x, idx) || op != token.LSS {
			return false
		}
		call, isCall := y.(*ssa.Call)
		if !isCall {
			return false
		}
		bi, isB := call.Call.Value.(*ssa.Builtin)
		if !isB || bi.Name() != "len" {
			return false
		}
		g1, p1, ok1 := tableBase(call.Call.Args[0])
		return ok1 && g1 == g2 && fmt.Sprint(p1) == fmt.Sprint(p2)
	})
}

// ---------------------------------------------------------------------------------------------------------------
// R3.12 rendering methods leave the reader as they found it.

var documentReaderPkgs = map[string]bool{"docx": true, "odt": true, "pptx": true, "xlsx": true, "epubdoc": true, "htmldoc": true}

// R3.12 [C03, C16, C19]
func ruleRenderLeavesReader(c *eng.Ctx) {
	const R = "R3.12-RENDER-LEAVES-READER"
	c.Rule(R, "the exported rendering methods of the document readers (every exported method of docx/odt/pptx/xlsx/epubdoc/htmldoc Reader other than Close) write nothing through the receiver, neither themselves nor through a callee: a counter, memo or compacted slice kept on the reader makes the second call (or the call in another mode) differ from the first. Writes listed as lazily filled caches are accepted by name", 20, 1)
	eff := eng.EffectsOf(c.P)
	n := 0
	for _, fn := range c.P.ModuleFuncs() {
		if fn.Pkg == nil || fn.Parent() != nil || fn.Signature.Recv() == nil {
			continue
		}
		sp := eng.ShortPath(fn.Pkg.Pkg.Path())
		if !documentReaderPkgs[sp] && !strings.Contains(sp, eng.PositivePkg) {
			continue
		}
		obj, ok := fn.Object().(*types.Func)
		if !ok || !obj.Exported() || obj.Name() == "Close" {
			continue
		}
		rt := fn.Signature.Recv().Type()
		if pt, ok := rt.(*types.Pointer); ok {
			rt = pt.Elem()
		}
		nt, ok := rt.(*types.Named)
		if !ok || nt.Obj().Name() != "Reader" {
			continue
		}
		n++
		var bad []string
		// the items of the method: its own writes and its calls that write through the receiver; calls of another
		// exported method of the reader are judged there
		type item struct {
			in     ssa.Instruction
			writes []paramWrite
		}
		var items []item
		for _, b := range fn.Blocks {
			for _, in := range b.Instrs {
				if ci, ok := in.(ssa.CallInstruction); ok {
					if cal := eng.StaticCallee(ci); cal != nil {
						if o, ok := cal.Object().(*types.Func); ok && o.Exported() && cal.Signature.Recv() != nil && types.Identical(cal.Signature.Recv().Type(), fn.Signature.Recv().Type()) {
							continue
						}
					}
				}
				one := &ssa.Function{}
				_ = one
				ws := instrWrites(c.P, eff, fn, in, 0)
				if len(ws) > 0 {
					items = append(items, item{in, ws})
				}
			}
		}
		fresh := func(w paramWrite) bool {
			st, ok := w.in.(*ssa.Store)
			if !ok {
				return false
			}
			switch v := st.Val.(type) {
			case *ssa.Const, *ssa.MakeMap:
				return true
			case *ssa.MakeSlice:
				_ = v
				return true
			}
			return false
		}
		before := func(a, b ssa.Instruction) bool {
			if a.Block() == b.Block() {
				for _, in := range a.Block().Instrs {
					if in == a {
						return true
					}
					if in == b {
						return false
					}
				}
			}
			return a.Block().Dominates(b.Block())
		}
		root := func(w paramWrite) string {
			if len(w.path) == 0 {
				return "*"
			}
			return w.path[0]
		}
		for _, it := range items {
			for _, w := range it.writes {
				if memoWrite(w) || fresh(w) {
					continue
				}
				// a field that this method sets to a fresh value before the item runs is scratch state of the call
				reset := false
				for _, jt := range items {
					if jt.in == it.in || !before(jt.in, it.in) {
						continue
					}
					all, touches := true, false
					for _, x := range jt.writes {
						if root(x) == root(w) {
							touches = true
							if !fresh(x) {
								all = false
							}
						}
					}
					if all && touches {
						reset = true
					}
				}
				if reset {
					continue
				}
				bad = append(bad, c.P.Pos(w.in.Pos())+" "+w.how+" in "+eng.FuncName(w.fn)+" (field "+strings.Join(w.path, ".")+")")
			}
		}
		sort.Strings(bad)
		if os.Getenv("VDEBUG") == "rlr" && len(bad) > 0 {
			fmt.Fprintf(os.Stderr, "RLR %s: %s\n", eng.FuncName(fn), strings.Join(bad, " ; "))
		}
		c.Check(len(bad) == 0, R, eng.FuncName(fn)+"#receiver-writes", fn.Pos(), "no write through the reader", "the method writes through the reader ("+strings.Join(bad, "; ")+"): what it leaves behind changes the next call on the same reader")
	}
}

type paramWrite struct {
	in   ssa.Instruction
	fn   *ssa.Function
	how  string
	path []string // field names from the parameter to the written memory (outermost first)
}

// pathFromParam lists the fields selected on the way from a parameter to the address or reference v.
func pathFromParam(v ssa.Value) []string {
	var rev []string
	for i := 0; i < 40 && v != nil; i++ {
		switch x := v.(type) {
		case *ssa.FieldAddr:
			if pt, ok := x.X.Type().Underlying().(*types.Pointer); ok {
				if st, ok := pt.Elem().Underlying().(*types.Struct); ok {
					rev = append(rev, st.Field(x.Field).Name())
				}
			}
			v = x.X
		case *ssa.Field:
			if st, ok := x.X.Type().Underlying().(*types.Struct); ok {
				rev = append(rev, st.Field(x.Field).Name())
			}
			v = x.X
		case *ssa.IndexAddr:
			v = x.X
		case *ssa.Slice:
			v = x.X
		case *ssa.UnOp:
			v = x.X
		case *ssa.Lookup:
			v = x.X
		case *ssa.ChangeType:
			v = x.X
		case *ssa.Convert:
			v = x.X
		case *ssa.MakeInterface:
			v = x.X
		case *ssa.TypeAssert:
			v = x.X
		case *ssa.Extract:
			v = x.Tuple
		case *ssa.Phi:
			if len(x.Edges) == 0 {
				v = nil
			} else {
				v = x.Edges[0]
			}
		case *ssa.Call:
			if b, ok := x.Call.Value.(*ssa.Builtin); ok && b.Name() == "append" && len(x.Call.Args) > 0 {
				v = x.Call.Args[0]
			} else {
				v = nil
			}
		default:
			v = nil
		}
	}
	out := make([]string, 0, len(rev))
	for i := len(rev) - 1; i >= 0; i-- {
		out = append(out, rev[i])
	}
	return out
}

// paramWrites lists the instructions (in fn or, through calls that pass memory rooted at the parameter on, in callees)
// that write through memory rooted at parameter idx of fn.
func paramWrites(p *eng.Prog, eff *eng.Effects, fn *ssa.Function, idx int, depth int, seen map[*ssa.Function]bool) []paramWrite {
	var out []paramWrite
	if fn == nil || fn.Blocks == nil || depth > 6 {
		return nil
	}
	key := fn
	if seen[key] {
		return nil
	}
	seen[key] = true
	for _, b := range fn.Blocks {
		for _, in := range b.Instrs {
			switch x := in.(type) {
			case *ssa.Store:
				if r := eff.RootOf(x.Addr); r.Param == idx {
					out = append(out, paramWrite{in, fn, "store", pathFromParam(x.Addr)})
				}
			case *ssa.MapUpdate:
				if r := eff.RootOf(x.Map); r.Param == idx {
					out = append(out, paramWrite{in, fn, "map update", pathFromParam(x.Map)})
				}
			case ssa.CallInstruction:
				cc := x.Common()
				if bi, ok := cc.Value.(*ssa.Builtin); ok {
					switch bi.Name() {
					case "copy", "delete", "clear", "append":
						if len(cc.Args) > 0 && eff.RootOf(cc.Args[0]).Param == idx {
							how := bi.Name()
							if how == "append" {
								if eng.ShortenedSlice(cc.Args[0]) == nil {
									continue
								}
								how = "append onto a shortened re-slice of a slice owned by the receiver (overwrites its backing array)"
							}
							out = append(out, paramWrite{in, fn, how, pathFromParam(cc.Args[0])})
						}
					}
					continue
				}
				for _, cal := range p.Callees(x) {
					wp := eff.WritesParam[cal]
					args := cc.Args
					if cc.IsInvoke() {
						args = append([]ssa.Value{cc.Value}, cc.Args...)
					}
					for i, a := range args {
						if wp[i] && eff.RootOf(a).Param == idx {
							if cal.Blocks == nil || !eng.InModule(cal) {
								out = append(out, paramWrite{in, fn, "call " + eng.FuncName(cal) + " writes through it", pathFromParam(a)})
								continue
							}
							pre := pathFromParam(a)
							for _, w := range paramWrites(p, eff, cal, i, depth+1, seen) {
								w.path = append(append([]string{}, pre...), w.path...)
								out = append(out, w)
							}
						}
					}
				}
			}
		}
	}
	return out
}

// instrWrites: what one instruction of fn writes through memory rooted at fn's parameter idx (directly or in callees).
func instrWrites(p *eng.Prog, eff *eng.Effects, fn *ssa.Function, in ssa.Instruction, idx int) []paramWrite {
	var out []paramWrite
	switch x := in.(type) {
	case *ssa.Store:
		if r := eff.RootOf(x.Addr); r.Param == idx {
			out = append(out, paramWrite{in, fn, "store", pathFromParam(x.Addr)})
		}
	case *ssa.MapUpdate:
		if r := eff.RootOf(x.Map); r.Param == idx {
			out = append(out, paramWrite{in, fn, "map update", pathFromParam(x.Map)})
		}
	case ssa.CallInstruction:
		cc := x.Common()
		if bi, ok := cc.Value.(*ssa.Builtin); ok {
			switch bi.Name() {
			case "copy", "delete", "clear", "append":
				if len(cc.Args) > 0 && eff.RootOf(cc.Args[0]).Param == idx {
					how := bi.Name()
					if how == "append" {
						if eng.ShortenedSlice(cc.Args[0]) == nil {
							return out
						}
						how = "append onto a shortened re-slice of a slice owned by the receiver (overwrites its backing array)"
					}
					out = append(out, paramWrite{in, fn, how, pathFromParam(cc.Args[0])})
				}
			}
			return out
		}
		for _, cal := range p.Callees(x) {
			wp := eff.WritesParam[cal]
			args := cc.Args
			if cc.IsInvoke() {
				args = append([]ssa.Value{cc.Value}, cc.Args...)
			}
			for i, a := range args {
				if wp[i] && eff.RootOf(a).Param == idx {
					pre := pathFromParam(a)
					if cal.Blocks == nil || !eng.InModule(cal) {
						out = append(out, paramWrite{in, fn, "call " + eng.FuncName(cal) + " writes through it", pre})
						continue
					}
					for _, w := range paramWrites(p, eff, cal, i, 1, map[*ssa.Function]bool{}) {
						w.path = append(append([]string{}, pre...), w.path...)
						out = append(out, w)
					}
				}
			}
		}
	}
	return out
}

// memoWrite: the write fills a lazily computed value exactly once: a store to a field (or an entry of a map held in a
// field) that happens only after the same function found the field nil (or the key absent), and the function hands
// the stored value back. Calls after the first one find the value and return it without writing.
func memoWrite(w paramWrite) bool {
	fn := w.fn
	var field eng.FieldRef
	var mapKey ssa.Value
	var stored ssa.Value
	switch x := w.in.(type) {
	case *ssa.Store:
		fr, ok := eng.AsField(x.Addr)
		if !ok {
			return false
		}
		field, stored = fr, x.Val
	case *ssa.MapUpdate:
		fr, ok := eng.LoadOfField(x.Map)
		if !ok {
			return false
		}
		field, mapKey, stored = fr, x.Key, x.Value
	default:
		return false
	}
	absent := eng.GuardedBy(fn, w.in.Block(), func(f eng.Fact) bool {
		if mapKey == nil {
			op, x, y, ok := f.Cmp()
			if !ok || !eng.IsNilConst(y) || op != token.EQL {
				return false
			}
			fr, ok := eng.LoadOfField(x)
			return ok && fr.Field == field.Field && fr.Struct == field.Struct
		}
		ex, ok := f.Cond.(*ssa.Extract)
		if !ok || f.Pos || ex.Index != 1 {
			return false
		}
		lk, ok := ex.Tuple.(*ssa.Lookup)
		if !ok || !lk.CommaOk {
			return false
		}
		fr, ok := eng.LoadOfField(lk.X)
		return ok && fr.Field == field.Field && fr.Struct == field.Struct && eng.SameValue(lk.Index, mapKey)
	})
	if !absent {
		return false
	}
	// the function returns what it stored (or reads it back from the field)
	for _, r := range eng.Returns(fn) {
		for _, res := range r.Results {
			if res == stored {
				return true
			}
			if fr, ok := eng.LoadOfField(res); ok && mapKey == nil && fr.Field == field.Field && fr.Struct == field.Struct {
				return true
			}
			if ph, ok := res.(*ssa.Phi); ok {
				for _, e := range ph.Edges {
					if e == stored {
						return true
					}
				}
			}
		}
	}
	return false
}

// ---------------------------------------------------------------------------------------------------------------
// R4.12 a memo kept on the reader is keyed by everything its value depends on.

// backwardParams: the parameters of fn that the value v is computed from (through operands, phis, call arguments and
// the elements stored into containers that v denotes).
func backwardParams(fn *ssa.Function, v ssa.Value) map[*ssa.Parameter]bool {
	out := map[*ssa.Parameter]bool{}
	seen := map[ssa.Value]bool{}
	var walk func(v ssa.Value, depth int)
	walk = func(v ssa.Value, depth int) {
		if v == nil || seen[v] || depth > 60 {
			return
		}
		seen[v] = true
		switch x := v.(type) {
		case *ssa.Parameter:
			out[x] = true
			return
		case *ssa.Const, *ssa.Global, *ssa.Function, *ssa.Builtin, *ssa.FreeVar:
			return
		}
		if in, ok := v.(ssa.Instruction); ok {
			for _, op := range in.Operands(nil) {
				if op != nil && *op != nil {
					walk(*op, depth+1)
				}
			}
		}
		// what is put into a container or cell made here
		switch v.(type) {
		case *ssa.MakeMap, *ssa.MakeSlice, *ssa.Alloc, *ssa.Slice, *ssa.IndexAddr, *ssa.FieldAddr:
			if refs := v.Referrers(); refs != nil {
				for _, r := range *refs {
					switch y := r.(type) {
					case *ssa.MapUpdate:
						if y.Map == v {
							walk(y.Key, depth+1)
							walk(y.Value, depth+1)
						}
					case *ssa.Store:
						if y.Addr == v {
							walk(y.Val, depth+1)
						}
					case *ssa.IndexAddr:
						if y.X == v {
							walk(y, depth+1)
						}
					case *ssa.FieldAddr:
						if y.X == v {
							walk(y, depth+1)
						}
					case *ssa.Slice:
						if y.X == v {
							walk(y, depth+1)
						}
					}
				}
			}
		}
	}
	walk(v, 0)
	return out
}

// R4.12 [C04]
func ruleMemoKeyCoversInputs(c *eng.Ctx) {
	const R = "R4.12-MEMO-KEY-COVERS-INPUTS"
	c.Rule(R, "a value that a lookup function of reader.Reader stores in a map kept on the reader is computed only from the receiver and from the parameters its key is computed from: a result that also depends on another reference parameter (the set of objects on the current resolution path, an options struct) is not a function of the key, and the memo returns the answer of one context in another", 1, 1)
	eff := eng.EffectsOf(c.P)
	n := 0
	for _, fn := range c.P.ModuleFuncs() {
		if fn.Pkg == nil || fn.Blocks == nil || fn.Signature.Recv() == nil {
			continue
		}
		sp := eng.ShortPath(fn.Pkg.Pkg.Path())
		if sp != "reader" && !strings.Contains(sp, eng.PositivePkg) {
			continue
		}
		eng.Instrs(fn, false, func(in ssa.Instruction) {
			mu, ok := in.(*ssa.MapUpdate)
			if !ok || eff.RootOf(mu.Map).Param != 0 {
				return
			}
			n++
			key := backwardParams(fn, mu.Key)
			val := backwardParams(fn, mu.Value)
			var extra []string
			for p := range val {
				if p == fn.Params[0] || key[p] {
					continue
				}
				switch p.Type().Underlying().(type) {
				case *types.Map, *types.Pointer, *types.Slice:
					extra = append(extra, p.Name())
				}
			}
			sort.Strings(extra)
			fld := "a map of the receiver"
			if fr, ok := eng.LoadOfField(mu.Map); ok {
				fld = fr.Field
			}
			c.Check(len(extra) == 0, R, fmt.Sprintf("%s#%s", eng.FuncName(fn), fld), mu.Pos(), "the stored value depends on the receiver and the key's inputs only", "the value stored in "+fld+" also depends on the parameter(s) "+strings.Join(extra, ", ")+", which the key does not cover: a later lookup with the same key in another context gets the answer computed for this one")
		})
	}
	if n == 0 {
		c.Undec(R, "reader#memo-stores", token.NoPos, "no store into a map of the reader found")
	}
}

// ---------------------------------------------------------------------------------------------------------------
// R4.13 the second field of a cross-reference entry is read only where the entry's type is known.

// entryTypeKnown: at block blk of fn a comparison of base.Type with a constant (==, or a switch arm) is established, or
// base is a parameter of an unexported function whose every call site is reached under such a comparison.
func entryTypeKnown(p *eng.Prog, fn *ssa.Function, blk *ssa.BasicBlock, base ssa.Value, depth int) bool {
	isTypeOf := func(v ssa.Value) bool {
		if ct, ok := v.(*ssa.ChangeType); ok {
			v = ct.X
		}
		if cv, ok := v.(*ssa.Convert); ok {
			v = cv.X
		}
		fr, ok := eng.LoadOfField(v)
		return ok && fr.Field == "Type" && fr.Struct == "core.XRefEntry" && eng.SameValue(fr.Base, base)
	}
	if eng.GuardedBy(fn, blk, func(f eng.Fact) bool {
		op, x, y, ok := f.Cmp()
		if !ok || (op != token.EQL && op != token.NEQ) {
			return false
		}
		if _, isC := eng.ConstInt(y); isC && isTypeOf(x) {
			return true
		}
		if _, isC := eng.ConstInt(x); isC && isTypeOf(y) {
			return true
		}
		return false
	}) {
		return true
	}
	par, isPar := base.(*ssa.Parameter)
	if !isPar || depth > 2 {
		return false
	}
	if obj, ok := fn.Object().(*types.Func); !ok || obj.Exported() {
		return false
	}
	pi := -1
	for i, q := range fn.Params {
		if q == par {
			pi = i
		}
	}
	sites, all := 0, true
	for _, g := range p.ModuleFuncs() {
		if g.Pkg != fn.Pkg {
			continue
		}
		for _, ci := range eng.Calls(g, true, func(_ string, ci ssa.CallInstruction) bool { return eng.StaticCallee(ci) == fn }) {
			sites++
			args := eng.ArgsWithRecv(ci)
			if pi < 0 || pi >= len(args) || !entryTypeKnown(p, ci.Parent(), ci.Block(), args[pi], depth+1) {
				all = false
			}
		}
	}
	if sites == 0 {
		// no direct call: the function may be an entry of a table keyed by the entry type (loaders[entry.Type])
		if dispatchedByEntryType(p, fn) {
			return true
		}
		// or a method of one of several implementations of a small interface, where the implementation is picked by
		// a function of the entry's type (loaderFor(entry.Type).load(entry))
		return invokedThroughTypeSelector(p, fn, pi)
	}
	return sites > 0 && all
}

// invokedThroughTypeSelector: every interface call that can reach the method fn passes, as the argument for fn's
// parameter pi, an entry whose Type field was the argument of the selector function that produced the interface value,
// and that selector returns each concrete implementation only under a comparison of its parameter with a constant.
func invokedThroughTypeSelector(p *eng.Prog, fn *ssa.Function, pi int) bool {
	sites, all := 0, true
	for _, g := range p.ModuleFuncs() {
		if g.Pkg != fn.Pkg || g.Blocks == nil {
			continue
		}
		eng.Instrs(g, true, func(in ssa.Instruction) {
			ci, ok := in.(ssa.CallInstruction)
			if !ok || !ci.Common().IsInvoke() {
				return
			}
			reaches := false
			for _, cal := range p.Callees(ci) {
				if cal == fn {
					reaches = true
				}
			}
			if !reaches {
				return
			}
			sites++
			args := eng.ArgsWithRecv(ci)
			if pi < 0 || pi >= len(args) {
				all = false
				return
			}
			entry := args[pi]
			sel, ok := args[0].(*ssa.Call)
			if !ok {
				all = false
				return
			}
			sf := eng.StaticCallee(sel)
			if sf == nil || !eng.InModule(sf) || sf.Blocks == nil || len(sel.Call.Args) != 1 || len(sf.Params) != 1 {
				all = false
				return
			}
			key := sel.Call.Args[0]
			if ct, isCT := key.(*ssa.ChangeType); isCT {
				key = ct.X
			}
			fr, okF := eng.LoadOfField(key)
			if !okF || fr.Field != "Type" || !eng.SameValue(fr.Base, entry) {
				all = false
				return
			}
			// the selector hands out an implementation only under a test of its parameter
			for _, r := range eng.Returns(sf) {
				if len(r.Results) != 1 {
					all = false
					continue
				}
				if eng.IsNilConst(r.Results[0]) {
					continue
				}
				tested := eng.GuardedBy(sf, r.Block(), func(f eng.Fact) bool {
					op, x, y, ok := f.Cmp()
					if !ok || op != token.EQL {
						return false
					}
					_, isC := eng.ConstInt(y)
					return isC && (x == ssa.Value(sf.Params[0]) || eng.SameValue(x, sf.Params[0]))
				})
				if !tested {
					all = false
				}
			}
		})
	}
	return sites > 0 && all
}

// dispatchedByEntryType: fn is used only as a value stored under a constant key in a map that is looked up with the
// Type field of a cross-reference entry.
func dispatchedByEntryType(p *eng.Prog, fn *ssa.Function) bool {
	found, ok := false, true
	for _, g := range p.ModuleFuncs() {
		if g.Pkg != fn.Pkg || g.Blocks == nil {
			continue
		}
		eng.Instrs(g, true, func(in ssa.Instruction) {
			var v ssa.Value
			switch x := in.(type) {
			case *ssa.MakeClosure:
				if w, isF := x.Fn.(*ssa.Function); isF && w.Synthetic != "" && strings.HasPrefix(w.Name(), fn.Name()+"$") {
					v = x
				}
			}
			if v == nil {
				return
			}
			// through a conversion to a named function type, into a map under a constant key
			vals := []ssa.Value{v}
			for i := 0; i < len(vals); i++ {
				for _, r := range *vals[i].Referrers() {
					switch y := r.(type) {
					case *ssa.ChangeType:
						vals = append(vals, y)
					case *ssa.MapUpdate:
						if y.Value != vals[i] {
							continue
						}
						if _, isC := eng.ConstInt(y.Key); !isC {
							ok = false
							continue
						}
						// the map is looked up with entry.Type
						typed := false
						for _, mr := range *y.Map.Referrers() {
							if lk, isL := mr.(*ssa.Lookup); isL {
								key := lk.Index
								if ct, isCT := key.(*ssa.ChangeType); isCT {
									key = ct.X
								}
								if fr, okF := eng.LoadOfField(key); okF && fr.Field == "Type" && fr.Struct == "core.XRefEntry" {
									typed = true
								}
							}
						}
						if typed {
							found = true
						} else {
							ok = false
						}
					case ssa.CallInstruction:
						ok = false // called some other way
					}
				}
			}
		})
	}
	return found && ok
}

// R4.13 [C04]
func ruleEntryOffsetByType(c *eng.Ctx) {
	const R = "R4.13-ENTRY-OFFSET-BY-TYPE"
	c.Rule(R, "outside the cross-reference parser, XRefEntry.Offset is read only where the entry's Type has been compared with a constant (a switch arm, an == test, or every call site of the unexported function that reads it): the field is a file position for an uncompressed entry and the number of the containing object stream for a compressed one, so a test or use that does not know the type misreads one of them", 3, 1)
	n := 0
	for _, fn := range c.P.ModuleFuncs() {
		if fn.Pkg == nil || fn.Blocks == nil {
			continue
		}
		sp := eng.ShortPath(fn.Pkg.Pkg.Path())
		if sp == "core" && !strings.Contains(eng.FuncName(fn), "ObjectStream") {
			// the parser and the table itself write and copy entries
			continue
		}
		eng.Instrs(fn, true, func(in ssa.Instruction) {
			u, ok := in.(*ssa.UnOp)
			if !ok || u.Op != token.MUL {
				return
			}
			fr, ok := eng.AsField(u.X)
			if !ok || fr.Field != "Offset" || (fr.Struct != "core.XRefEntry" && !strings.HasSuffix(fr.Struct, eng.PositivePkg+".XRefEntry")) {
				return
			}
			if strings.Contains(sp, eng.PositivePkg) {
				// positive example: a local twin of the entry type
				known := eng.GuardedBy(in.Parent(), in.Block(), func(f eng.Fact) bool {
					op, x, _, ok := f.Cmp()
					if !ok || op != token.EQL {
						return false
					}
					fr2, ok := eng.LoadOfField(x)
					return ok && fr2.Field == "Type"
				})
				if !known {
					c.Viol(R, eng.FuncName(in.Parent())+"#Offset", in.Pos(), "Offset read without knowing the entry type")
				}
				return
			}
			n++
			known := entryTypeKnown(c.P, in.Parent(), in.Block(), fr.Base, 0)
			c.Check(known, R, fmt.Sprintf("%s#Offset@%s", eng.FuncName(in.Parent()), c.P.Pos(in.Pos())), in.Pos(), "read where the entry type is known", "XRefEntry.Offset is read where the entry's type has not been tested: for a compressed entry the field holds the number of the object stream, not a file position, so a range test or seek written for one kind is applied to the other")
		})
	}
	if n == 0 {
		c.Undec(R, "module#offset-reads", token.NoPos, "no read of XRefEntry.Offset found outside the parser")
	}
}

// ---------------------------------------------------------------------------------------------------------------
// R3.13 nothing taken from a sync.Pool outlives its return to the pool.

// R3.13 [C03, C05]
func rulePooledObjectsStayInside(c *eng.Ctx) {
	const R = "R3.13-POOLED-OBJECT-ESCAPES"
	c.Rule(R, "an object taken from a sync.Pool and put back by the same function is not handed out: no result, stored value or map entry is the object, a re-slice of it, or the reference returned by one of its methods (buf.Bytes()); a bytes.Buffer or strings.Builder taken from a pool is Reset in the function. Memory that went back to the pool is overwritten by the next user, which is a later call or a later stage of the same filter chain", 0, 1)
	n := 0
	for _, fn := range c.P.ModuleFuncs() {
		if fn.Pkg == nil || fn.Blocks == nil {
			continue
		}
		var gets []*ssa.Call
		eng.Instrs(fn, false, func(in ssa.Instruction) {
			if call, ok := in.(*ssa.Call); ok && eng.CalleeName(call) == "sync.(*Pool).Get" {
				gets = append(gets, call)
			}
		})
		for _, get := range gets {
			n++
			// the object and its typed views
			objs := map[ssa.Value]bool{get: true}
			for changed := true; changed; {
				changed = false
				for o := range objs {
					if refs := o.Referrers(); refs != nil {
						for _, r := range *refs {
							switch x := r.(type) {
							case *ssa.TypeAssert:
								if !objs[x] {
									objs[x], changed = true, true
								}
							case *ssa.Extract:
								if x.Index == 0 && !objs[x] {
									objs[x], changed = true, true
								}
							case *ssa.Phi, *ssa.ChangeType, *ssa.MakeInterface:
								if v := r.(ssa.Value); !objs[v] {
									objs[v], changed = true, true
								}
							}
						}
					}
				}
			}
			put, reset := false, false
			needsReset := false
			for o := range objs {
				if pt, ok := o.Type().(*types.Pointer); ok {
					if nt, ok := pt.Elem().(*types.Named); ok && nt.Obj().Pkg() != nil {
						q := nt.Obj().Pkg().Path() + "." + nt.Obj().Name()
						if q == "bytes.Buffer" || q == "strings.Builder" {
							needsReset = true
						}
					}
				}
			}
			eng.Instrs(fn, false, func(in ssa.Instruction) {
				ci, ok := in.(ssa.CallInstruction)
				if !ok {
					return
				}
				name := eng.CalleeName(ci)
				args := eng.ArgsWithRecv(ci)
				if name == "sync.(*Pool).Put" && len(args) > 1 && objs[args[1]] {
					put = true
				}
				if (strings.HasSuffix(name, ").Reset") || strings.HasSuffix(name, ").Truncate")) && len(args) > 0 && objs[args[0]] {
					reset = true
				}
			})
			key := fmt.Sprintf("%s#pool.Get@%s", eng.FuncName(fn), c.P.Pos(get.Pos()))
			if !put {
				c.Ok(R, key, get.Pos(), "the object is not put back by this function")
				continue
			}
			// references derived from the object
			derived := map[ssa.Value]bool{}
			for o := range objs {
				derived[o] = true
			}
			for changed := true; changed; {
				changed = false
				for d := range derived {
					refs := d.Referrers()
					if refs == nil {
						continue
					}
					for _, r := range *refs {
						var nv ssa.Value
						switch x := r.(type) {
						case *ssa.Slice, *ssa.Phi, *ssa.ChangeType, *ssa.MakeInterface, *ssa.FieldAddr, *ssa.IndexAddr:
							nv = r.(ssa.Value)
						case *ssa.UnOp:
							if x.Op == token.MUL {
								switch x.Type().Underlying().(type) {
								case *types.Slice, *types.Pointer, *types.Map:
									nv = x
								}
							}
						case *ssa.Store:
							// a local cell (results are spilled into cells when the function defers): its loads
							if a, ok := x.Addr.(*ssa.Alloc); ok && x.Val == d {
								for _, rr := range *a.Referrers() {
									if u, ok := rr.(*ssa.UnOp); ok && u.Op == token.MUL && !derived[u] {
										derived[u], changed = true, true
									}
								}
							}
						case *ssa.Call:
							// a method of the object that returns a reference (Bytes, Next, …)
							args := eng.ArgsWithRecv(x)
							if len(args) > 0 && derived[args[0]] && x.Call.Signature().Recv() != nil {
								switch x.Type().Underlying().(type) {
								case *types.Slice, *types.Pointer, *types.Map:
									nv = x
								}
							}
							if bi, ok := x.Call.Value.(*ssa.Builtin); ok && bi.Name() == "append" && len(x.Call.Args) > 0 && derived[x.Call.Args[0]] {
								nv = x
							}
						}
						if nv != nil && !derived[nv] {
							derived[nv], changed = true, true
						}
					}
				}
			}
			var bad []string
			eng.Instrs(fn, false, func(in ssa.Instruction) {
				switch x := in.(type) {
				case *ssa.Return:
					for _, res := range x.Results {
						if derived[res] {
							bad = append(bad, "returned at "+c.P.Pos(x.Pos()))
						}
					}
				case *ssa.Store:
					if derived[x.Val] {
						if _, ok := x.Addr.(*ssa.Alloc); ok {
							return
						}
						bad = append(bad, "stored at "+c.P.Pos(x.Pos()))
					}
				case *ssa.MapUpdate:
					if derived[x.Value] {
						bad = append(bad, "put into a map at "+c.P.Pos(x.Pos()))
					}
				}
			})
			if needsReset && !reset {
				bad = append(bad, "the buffer is used without Reset: it still holds what the previous user wrote")
			}
			sort.Strings(bad)
			c.Check(len(bad) == 0, R, key, get.Pos(), "nothing of the pooled object escapes, and it is reset", "memory of an object that this function puts back into the pool is handed out ("+strings.Join(bad, "; ")+"): the next Get reuses it and overwrites what the caller still holds")
		}
	}
	if n == 0 {
		c.Ok(R, "module#pools", token.NoPos, "no sync.Pool is used in the module")
	}
}

// ---------------------------------------------------------------------------------------------------------------
// R5.15 the bytes handed to a decompressor are the filter's input, whole.

// R5.15 [C05]
func ruleDecompressorGetsWholeInput(c *eng.Ctx) {
	const R = "R5.15-DECOMPRESSOR-INPUT-WHOLE"
	c.Rule(R, "the byte slice wrapped for zlib/flate/lzw decompression in internal/filters is the data parameter of the decoder itself (possibly handed through unexported helpers), not the result of a trim, a truncating re-slice or any other call: the compressed stream is binary, its last bytes are a checksum, and 0x0A/0x0D are as likely there as anywhere", 1, 1)
	n := 0
	for _, fn := range c.P.ModuleFuncs() {
		if fn.Pkg == nil || fn.Blocks == nil {
			continue
		}
		sp := eng.ShortPath(fn.Pkg.Pkg.Path())
		if sp != "internal/filters" && !strings.Contains(sp, eng.PositivePkg) {
			continue
		}
		eng.Instrs(fn, true, func(in ssa.Instruction) {
			call, ok := in.(*ssa.Call)
			if !ok {
				return
			}
			switch eng.CalleeName(call) {
			case "compress/zlib.NewReader", "compress/flate.NewReader", "compress/lzw.NewReader", "compress/zlib.NewReaderDict", "compress/flate.NewReaderDict":
			default:
				return
			}
			// the reader argument: bytes.NewReader(X) / bytes.NewBuffer(X)
			var src ssa.Value
			for w := range eng.Slice(call.Call.Args[0], nil) {
				if wc, ok := w.(*ssa.Call); ok {
					switch eng.CalleeName(wc) {
					case "bytes.NewReader", "bytes.NewBuffer":
						src = wc.Call.Args[0]
					}
				}
			}
			if src == nil {
				return
			}
			n++
			var why string
			seen := map[ssa.Value]bool{}
			var whole func(v ssa.Value, depth int) bool
			whole = func(v ssa.Value, depth int) bool {
				if seen[v] {
					return true
				}
				seen[v] = true
				if depth > 6 {
					why = "the origin of the bytes could not be followed"
					return false
				}
				switch x := v.(type) {
				case *ssa.Parameter:
					g := x.Parent()
					if obj, ok := g.Object().(*types.Func); ok && obj.Exported() || g.Parent() != nil {
						return true
					}
					pi := -1
					for i, q := range g.Params {
						if q == x {
							pi = i
						}
					}
					sites := 0
					for _, h := range c.P.ModuleFuncs() {
						if h.Pkg != g.Pkg {
							continue
						}
						for _, ci := range eng.Calls(h, true, func(_ string, ci ssa.CallInstruction) bool { return eng.StaticCallee(ci) == g }) {
							sites++
							args := eng.ArgsWithRecv(ci)
							if pi < 0 || pi >= len(args) || !whole(args[pi], depth+1) {
								return false
							}
						}
					}
					return true
				case *ssa.Phi:
					for _, e := range x.Edges {
						if !whole(e, depth+1) {
							return false
						}
					}
					return true
				case *ssa.ChangeType:
					return whole(x.X, depth+1)
				case *ssa.Slice:
					if x.High != nil {
						why = "a truncating re-slice at " + c.P.Pos(x.Pos())
						return false
					}
					if x.Low != nil {
						if k, isC := eng.ConstInt(x.Low); !isC || k != 0 {
							why = "a re-slice that drops leading bytes at " + c.P.Pos(x.Pos())
							return false
						}
					}
					return whole(x.X, depth+1)
				case *ssa.Call:
					why = "the result of " + eng.CalleeName(x) + " at " + c.P.Pos(x.Pos())
					return false
				case *ssa.UnOp:
					if x.Op == token.MUL {
						if a, ok := x.X.(*ssa.Alloc); ok {
							// a local cell: every value stored into it
							for _, r := range *a.Referrers() {
								if st, ok := r.(*ssa.Store); ok && st.Addr == ssa.Value(a) && !whole(st.Val, depth+1) {
									return false
								}
							}
							return true
						}
					}
				}
				why = "a value that is not the decoder's input (" + v.String() + ")"
				return false
			}
			okW := whole(src, 0)
			c.Check(okW, R, fmt.Sprintf("%s#%s", eng.FuncName(in.Parent()), eng.CalleeName(call)), call.Pos(), "the decompressor reads the decoder's input as it is", "the bytes given to the decompressor are not the filter's input as it is but "+why+": a compressed stream whose last bytes happen to be the trimmed ones no longer inflates")
		})
	}
	if n == 0 {
		c.Undec(R, "internal/filters#decompressors", token.NoPos, "no zlib/flate/lzw reader construction found")
	}
}

// ---------------------------------------------------------------------------------------------------------------
// R6.13 the text of a token decides nothing until its type is known.

// tokenTypeKnown: a comparison of base.Type with a constant holds (==) at blk, in fn or at every call site of the
// unexported fn that was handed the token.
func tokenTypeKnown(p *eng.Prog, fn *ssa.Function, blk *ssa.BasicBlock, base ssa.Value, structName string, depth int) bool {
	if eng.GuardedBy(fn, blk, func(f eng.Fact) bool {
		op, x, y, ok := f.Cmp()
		if !ok || op != token.EQL {
			return false
		}
		if _, isC := eng.ConstInt(y); !isC {
			x, y = y, x
			if _, isC := eng.ConstInt(y); !isC {
				return false
			}
		}
		fr, ok := eng.LoadOfField(x)
		return ok && fr.Field == "Type" && fr.Struct == structName && eng.SameValue(fr.Base, base)
	}) {
		return true
	}
	// the token is held in a field (p.currentToken): the same field of the same holder
	par, isPar := base.(*ssa.Parameter)
	if !isPar || depth > 2 {
		return false
	}
	if obj, ok := fn.Object().(*types.Func); !ok || obj.Exported() {
		return false
	}
	pi := -1
	for i, q := range fn.Params {
		if q == par {
			pi = i
		}
	}
	sites, all := 0, true
	for _, g := range p.ModuleFuncs() {
		if g.Pkg != fn.Pkg {
			continue
		}
		for _, ci := range eng.Calls(g, true, func(_ string, ci ssa.CallInstruction) bool { return eng.StaticCallee(ci) == fn }) {
			sites++
			args := eng.ArgsWithRecv(ci)
			if pi < 0 || pi >= len(args) || !tokenTypeKnown(p, ci.Parent(), ci.Block(), args[pi], structName, depth+1) {
				all = false
			}
		}
	}
	return sites > 0 && all
}

// R6.13 [C06]
func ruleTokenTextNeedsType(c *eng.Ctx) {
	const R = "R6.13-TOKEN-TEXT-NEEDS-TYPE"
	c.Rule(R, "in package core the bytes of a token (Token.Value) are compared with a word only where the token's Type has been found equal to a constant (in the same condition, before it, or at every call site of the unexported helper that compares): Value holds the text of strings and names without their delimiters, so (stream) and /stream have the same Value as the keyword stream", 4, 1)
	n := 0
	for _, fn := range c.P.ModuleFuncs() {
		if fn.Pkg == nil || fn.Blocks == nil {
			continue
		}
		sp := eng.ShortPath(fn.Pkg.Pkg.Path())
		if sp != "core" && !strings.Contains(sp, eng.PositivePkg) {
			continue
		}
		eng.Instrs(fn, true, func(in ssa.Instruction) {
			b, ok := in.(*ssa.BinOp)
			if !ok || (b.Op != token.EQL && b.Op != token.NEQ) {
				return
			}
			var fr eng.FieldRef
			found := false
			for _, side := range []ssa.Value{b.X, b.Y} {
				cv, ok := side.(*ssa.Convert)
				if !ok {
					continue
				}
				if bt, ok := cv.Type().Underlying().(*types.Basic); !ok || bt.Info()&types.IsString == 0 {
					continue
				}
				if f, ok := eng.LoadOfField(cv.X); ok && f.Field == "Value" && (f.Struct == "core.Token" || strings.HasSuffix(f.Struct, eng.PositivePkg+".Token")) {
					fr, found = f, true
				}
			}
			if !found {
				return
			}
			n++
			known := tokenTypeKnown(c.P, in.Parent(), in.Block(), fr.Base, fr.Struct, 0)
			c.Check(known, R, fmt.Sprintf("%s#Value@%s", eng.FuncName(in.Parent()), c.P.Pos(b.Pos())), b.Pos(), "compared where the token type is known", "the bytes of a token are compared with a word without knowing the token's type: a literal string or a name with the same text (\"(stream)\", \"/endobj\") is taken for the keyword")
		})
	}
	if n == 0 {
		c.Undec(R, "core#value-comparisons", token.NoPos, "no comparison of Token.Value with a word found")
	}
}

// ---------------------------------------------------------------------------------------------------------------
// R6.14 the keys of an inline dictionary are names read by the name reader.

// decodesNameEscapes: the function (or a callee in its package, depth 2) compares a byte with '#'.
func decodesNameEscapes(fn *ssa.Function) bool {
	found := false
	for _, h := range eng.Cluster(fn, 2) {
		if h.Pkg != fn.Pkg {
			continue
		}
		eng.Instrs(h, true, func(in ssa.Instruction) {
			if b, ok := in.(*ssa.BinOp); ok && (b.Op == token.EQL || b.Op == token.NEQ) {
				for _, v := range []ssa.Value{b.X, b.Y} {
					if k, isC := eng.ConstInt(v); isC && k == '#' {
						found = true
					}
				}
			}
		})
	}
	return found
}

// sliceThroughFields is SliceInter made field-based for values parked in local records: when the slice reaches a load
// of field F of struct type T, it continues at every value stored into a T.F anywhere in the cluster (entries collected
// in a slice of small structs and read back in a second loop).
func sliceThroughFields(v ssa.Value, cluster []*ssa.Function) map[ssa.Value]bool {
	out := map[ssa.Value]bool{}
	work := []ssa.Value{v}
	doneField := map[string]bool{}
	for len(work) > 0 {
		cur := work[len(work)-1]
		work = work[:len(work)-1]
		for w := range eng.SliceInter(cur, nil, cluster) {
			if out[w] {
				continue
			}
			out[w] = true
			var st *types.Struct
			fi := -1
			switch x := w.(type) {
			case *ssa.FieldAddr:
				if pt, ok := x.X.Type().Underlying().(*types.Pointer); ok {
					st, _ = pt.Elem().Underlying().(*types.Struct)
					fi = x.Field
				}
			case *ssa.Field:
				st, _ = x.X.Type().Underlying().(*types.Struct)
				fi = x.Field
			}
			if st == nil || fi < 0 {
				continue
			}
			key := fmt.Sprintf("%p/%d", st, fi)
			if doneField[key] {
				continue
			}
			doneField[key] = true
			for _, h := range cluster {
				eng.Instrs(h, true, func(in ssa.Instruction) {
					sto, ok := in.(*ssa.Store)
					if !ok {
						return
					}
					fa, ok := sto.Addr.(*ssa.FieldAddr)
					if !ok || fa.Field != fi {
						return
					}
					if pt, ok := fa.X.Type().Underlying().(*types.Pointer); ok {
						if st2, ok := pt.Elem().Underlying().(*types.Struct); ok && st2 == st {
							work = append(work, sto.Val)
						}
					}
				})
			}
		}
	}
	return out
}

// R6.14 [C06]
func ruleDictKeysAreReadNames(c *eng.Ctx) {
	const R = "R6.14-DICT-KEYS-ARE-READ-NAMES"
	c.Rule(R, "every key that contentstream.(*Parser).parseDict puts into the dictionary it builds comes out of the parser's name reader (the function that decodes #xx escapes), as operands, values and array elements do: a key cut straight out of the data keeps its raw spelling, so /A#20B and /A B, which are the same name, become different keys", 1, 0)
	fn := c.P.Func("contentstream.(*Parser).parseDict")
	if fn == nil {
		c.Undec(R, "contentstream.(*Parser).parseDict", token.NoPos, "anchor not found")
		return
	}
	n := 0
	cluster := eng.Cluster(fn, 1)
	for _, h := range cluster {
		if h.Pkg != fn.Pkg {
			continue
		}
		eng.Instrs(h, true, func(in ssa.Instruction) {
			mu, ok := in.(*ssa.MapUpdate)
			if !ok || eng.TypeName(mu.Map.Type()) != "core.Dict" {
				return
			}
			n++
			okKey := false
			for w := range sliceThroughFields(mu.Key, cluster) {
				if call, ok := w.(*ssa.Call); ok {
					if cal := eng.StaticCallee(call); cal != nil && eng.InModule(cal) && decodesNameEscapes(cal) {
						okKey = true
					}
				}
				if ex, ok := w.(*ssa.Extract); ok {
					if call, ok := ex.Tuple.(*ssa.Call); ok {
						if cal := eng.StaticCallee(call); cal != nil && eng.InModule(cal) && decodesNameEscapes(cal) {
							okKey = true
						}
					}
				}
			}
			c.Check(okKey, R, fmt.Sprintf("%s#key@%s", eng.FuncName(in.Parent()), c.P.Pos(mu.Pos())), mu.Pos(), "the key is a name read by the name reader", "the dictionary key does not come from the name reader: #xx escapes in it stay undecoded, so the same name gives different keys depending on how it is spelled")
		})
	}
	if n == 0 {
		c.Undec(R, "contentstream.(*Parser).parseDict#keys", fn.Pos(), "no store into a core.Dict found")
	}
}

// ---------------------------------------------------------------------------------------------------------------
// R7.10 each simple font type falls back to its own default encoding.

// R7.10 [C07]
func ruleDefaultEncodingPerFontType(c *eng.Ctx) {
	const R = "R7.10-DEFAULT-ENCODING-PER-FONT-TYPE"
	c.Rule(R, "the constant encoding names that can become the Encoding of a Type1 font (no /Encoding, or an /Encoding dictionary without /BaseEncoding) include StandardEncoding and not WinAnsiEncoding, and for a TrueType font WinAnsiEncoding and not StandardEncoding: the two tables differ at 0x27, 0x60 and from 0x80 up, so a Type1 font with only /Differences decoded against the TrueType default shows wrong quotes and accents", 2, 0)
	for _, spec := range []struct{ fn, want, not string }{
		{"font.(*Type1Font).parseEncoding", "StandardEncoding", "WinAnsiEncoding"},
		{"font.(*TrueTypeFont).parseEncoding", "WinAnsiEncoding", "StandardEncoding"},
	} {
		fn := c.P.Func(spec.fn)
		if fn == nil {
			c.Undec(R, spec.fn, token.NoPos, "anchor not found")
			continue
		}
		cluster := eng.Cluster(fn, 2)
		consts := map[string]bool{}
		stores := 0
		for _, h := range cluster {
			if h.Pkg != fn.Pkg {
				continue
			}
			eng.Instrs(h, true, func(in ssa.Instruction) {
				sto, ok := in.(*ssa.Store)
				if !ok {
					return
				}
				fr, ok := eng.AsField(sto.Addr)
				if !ok || fr.Field != "Encoding" {
					return
				}
				// only stores that can belong to this font type: the receiver of fn or a struct of its type
				if !strings.Contains(spec.fn, strings.TrimPrefix(fr.Struct, "font.")) {
					return
				}
				stores++
				for w := range eng.SliceInter(sto.Val, nil, cluster) {
					if cs, ok := eng.ConstString(w); ok {
						consts[cs] = true
					}
				}
			})
		}
		if stores == 0 {
			c.Undec(R, spec.fn+"#Encoding", fn.Pos(), "no store to the Encoding field found in the function or its helpers")
			continue
		}
		var bad []string
		if !consts[spec.want] {
			bad = append(bad, "the default "+spec.want+" is never assigned")
		}
		if consts[spec.not] {
			bad = append(bad, "the other font type's default "+spec.not+" can be assigned")
		}
		c.Check(len(bad) == 0, R, spec.fn+"#defaults", fn.Pos(), "falls back to "+spec.want+" only", strings.Join(bad, "; ")+": a font of this type without an explicit base encoding is decoded with the wrong table")
	}
}

// ---------------------------------------------------------------------------------------------------------------
// RX.MI a memo kept on a receiver is dropped whenever a field it was computed from is reassigned.

// receiverFieldsRead: the fields of fn's receiver (parameter 0) that fn or the receiver methods it calls (depth 3) load.
func receiverFieldsRead(fn *ssa.Function, depth int, seen map[*ssa.Function]bool, out map[string]bool) {
	if fn == nil || fn.Blocks == nil || seen[fn] || depth > 3 || len(fn.Params) == 0 {
		return
	}
	seen[fn] = true
	recv := fn.Params[0]
	eng.Instrs(fn, true, func(in ssa.Instruction) {
		switch x := in.(type) {
		case *ssa.UnOp:
			if fa, ok := x.X.(*ssa.FieldAddr); ok && x.Op == token.MUL && fa.X == ssa.Value(recv) {
				if pt, ok := fa.X.Type().Underlying().(*types.Pointer); ok {
					if st, ok := pt.Elem().Underlying().(*types.Struct); ok {
						out[st.Field(fa.Field).Name()] = true
					}
				}
			}
		case ssa.CallInstruction:
			cal := eng.StaticCallee(x)
			args := eng.ArgsWithRecv(x)
			if cal != nil && eng.InModule(cal) && cal.Signature.Recv() != nil && len(args) > 0 && args[0] == ssa.Value(recv) {
				receiverFieldsRead(cal, depth+1, seen, out)
			}
		}
	})
}

// lazyInitOf: the block runs only while some field of the struct is still nil (the first, filling pass of a lazily
// initialised object), in fn itself or at every call site of the unexported fn.
func lazyInitOf(p *eng.Prog, fn *ssa.Function, blk *ssa.BasicBlock, structName string, depth int) bool {
	if eng.GuardedBy(fn, blk, func(f eng.Fact) bool {
		op, x, y, ok := f.Cmp()
		if !ok || op != token.EQL || !eng.IsNilConst(y) {
			return false
		}
		fr, ok := eng.LoadOfField(x)
		return ok && fr.Struct == structName
	}) {
		return true
	}
	if depth > 2 {
		return false
	}
	if par := fn.Parent(); par != nil {
		// a closure runs no earlier than the place that makes it
		sites, all := 0, true
		eng.Instrs(par, false, func(in ssa.Instruction) {
			if mc, ok := in.(*ssa.MakeClosure); ok && mc.Fn == ssa.Value(fn) {
				sites++
				if !lazyInitOf(p, par, mc.Block(), structName, depth+1) {
					all = false
				}
			}
		})
		return sites > 0 && all
	}
	if obj, ok := fn.Object().(*types.Func); !ok || obj.Exported() {
		return false
	}
	sites, all := 0, true
	for _, g := range p.ModuleFuncs() {
		if g.Pkg != fn.Pkg {
			continue
		}
		for _, ci := range eng.Calls(g, true, func(_ string, ci ssa.CallInstruction) bool { return eng.StaticCallee(ci) == fn }) {
			sites++
			if !lazyInitOf(p, ci.Parent(), ci.Block(), structName, depth+1) {
				all = false
			}
		}
	}
	return sites > 0 && all
}

func memoInvalidationRule(id string, pkgs ...string) func(*eng.Ctx) {
	return func(c *eng.Ctx) {
		R := id + "-MEMO-DROPPED-WITH-ITS-INPUTS"
		c.Rule(R, "a map kept on a receiver that a method fills with values computed through the receiver (a memo: filled only after a lookup of the same key missed) is set to nil or a fresh map by every function, other than constructors, that assigns one of the receiver fields those values were computed from: otherwise an entry computed under the old field value answers a lookup made under the new one (a form cached by name under one resource dictionary and found again under another)", 0, 1)
		set := map[string]bool{}
		for _, k := range pkgs {
			set[k] = true
		}
		n := 0
		for _, fn := range c.P.ModuleFuncs() {
			if fn.Pkg == nil || fn.Blocks == nil || fn.Signature.Recv() == nil || fn.Parent() != nil {
				continue
			}
			sp := eng.ShortPath(fn.Pkg.Pkg.Path())
			if !set[sp] && !strings.Contains(sp, eng.PositivePkg) {
				continue
			}
			recv := fn.Params[0]
			eng.Instrs(fn, false, func(in ssa.Instruction) {
				mu, ok := in.(*ssa.MapUpdate)
				if !ok {
					return
				}
				mfr, ok := eng.LoadOfField(mu.Map)
				if !ok || mfr.Base != ssa.Value(recv) {
					return
				}
				// a memo: the update happens after a lookup of the same map missed
				isMemo := eng.GuardedBy(fn, in.Block(), func(f eng.Fact) bool {
					ex, ok := f.Cond.(*ssa.Extract)
					if !ok || f.Pos || ex.Index != 1 {
						return false
					}
					lk, ok := ex.Tuple.(*ssa.Lookup)
					if !ok {
						return false
					}
					fr, ok := eng.LoadOfField(lk.X)
					return ok && fr.Field == mfr.Field && fr.Base == ssa.Value(recv)
				})
				if !isMemo {
					return
				}
				n++
				// receiver fields the value was computed from
				inputs := map[string]bool{}
				seenV := map[ssa.Value]bool{}
				var walk func(v ssa.Value, depth int)
				walk = func(v ssa.Value, depth int) {
					if v == nil || seenV[v] || depth > 40 {
						return
					}
					seenV[v] = true
					if call, ok := v.(*ssa.Call); ok {
						cal := eng.StaticCallee(call)
						args := eng.ArgsWithRecv(call)
						if cal != nil && eng.InModule(cal) && cal.Signature.Recv() != nil && len(args) > 0 && args[0] == ssa.Value(recv) {
							receiverFieldsRead(cal, 0, map[*ssa.Function]bool{}, inputs)
						}
					}
					if u, ok := v.(*ssa.UnOp); ok && u.Op == token.MUL {
						if fa, ok := u.X.(*ssa.FieldAddr); ok && fa.X == ssa.Value(recv) {
							if fr, ok := eng.AsField(fa); ok {
								inputs[fr.Field] = true
							}
						}
					}
					if ins, ok := v.(ssa.Instruction); ok {
						for _, op := range ins.Operands(nil) {
							if op != nil && *op != nil {
								walk(*op, depth+1)
							}
						}
					}
				}
				walk(mu.Value, 0)
				delete(inputs, mfr.Field)
				// every non-constructor function that assigns an input field also resets the memo
				var bad []string
				for _, g := range c.P.ModuleFuncs() {
					if g.Pkg != fn.Pkg || g.Blocks == nil {
						continue
					}
					if strings.HasPrefix(g.Name(), "New") || strings.HasPrefix(g.Name(), "new") || g.Name() == "init" {
						continue
					}
					var assigns, resets []*ssa.Store
					eng.Instrs(g, true, func(in2 ssa.Instruction) {
						sto, ok := in2.(*ssa.Store)
						if !ok {
							return
						}
						fr, ok := eng.AsField(sto.Addr)
						if !ok || fr.Struct != mfr.Struct {
							return
						}
						if inputs[fr.Field] && !lazyInitOf(c.P, sto.Parent(), sto.Block(), mfr.Struct, 0) {
							assigns = append(assigns, sto)
						}
						if fr.Field == mfr.Field {
							switch v := sto.Val.(type) {
							case *ssa.MakeMap:
								resets = append(resets, sto)
							case *ssa.Const:
								if v.IsNil() {
									resets = append(resets, sto)
								}
							}
						}
					})
					var assigned []string
					for _, a := range assigns {
						okA := false
						for _, r := range resets {
							if r.Parent() == a.Parent() && (r.Block() == a.Block() || r.Block().Dominates(a.Block())) {
								okA = true
							}
						}
						if !okA {
							fr, _ := eng.AsField(a.Addr)
							assigned = append(assigned, fr.Field+" at "+c.P.Pos(a.Pos()))
						}
					}
					if len(assigned) > 0 {
						sort.Strings(assigned)
						bad = append(bad, eng.FuncName(g)+" assigns "+strings.Join(assigned, ", "))
					}
				}
				sort.Strings(bad)
				var ins []string
				for k := range inputs {
					ins = append(ins, k)
				}
				sort.Strings(ins)
				c.Check(len(bad) == 0, R, fmt.Sprintf("%s#%s", eng.FuncName(fn), mfr.Field), mu.Pos(), "every assignment of the memo's inputs ("+strings.Join(ins, ", ")+") drops the memo", "the memo "+mfr.Field+" is computed from receiver fields that are reassigned without dropping it ("+strings.Join(bad, "; ")+"): an entry made under the old value is returned under the new one")
			})
		}
		if n == 0 {
			c.Ok(R, "scope#memos", token.NoPos, "no lookup-then-fill memo on a receiver in "+strings.Join(pkgs, ", "))
		}
	}
}

// ---------------------------------------------------------------------------------------------------------------
// R8.10 the operator dispatch of the extractors is not gated by extractor state.

// R8.10 [C08]
func ruleDispatchNotGatedByState(c *eng.Ctx) {
	const R = "R8.10-DISPATCH-NOT-GATED-BY-STATE"
	c.Rule(R, "in processOperation of the text extractor and of the graphics extractor nothing that depends on the extractor's own fields returns (or skips) before the operator is dispatched: cm, q, Q and the other state operators take effect wherever they occur, also between BT and ET, so a mode flag that filters operators before the switch drops transformations that the imaging model applies", 2, 1)
	for _, name := range []string{"text.(*Extractor).processOperation", "graphicsstate.(*GraphicsExtractor).processOperation", eng.PositivePkg + ".(*OpRunner).processOperation"} {
		fn := c.P.Func(name)
		if fn == nil {
			if !strings.Contains(name, eng.PositivePkg) {
				c.Undec(R, name, token.NoPos, "anchor not found")
			}
			continue
		}
		recv := fn.Params[0]
		// the first operator comparison
		var first *ssa.BasicBlock
		eng.Instrs(fn, false, func(in ssa.Instruction) {
			b, ok := in.(*ssa.BinOp)
			if !ok || b.Op != token.EQL {
				return
			}
			isOp := false
			for _, v := range []ssa.Value{b.X, b.Y} {
				if fr, ok := eng.LoadOfField(v); ok && fr.Field == "Operator" {
					isOp = true
				}
				if f, ok := v.(*ssa.Field); ok {
					if st, ok := f.X.Type().Underlying().(*types.Struct); ok && st.Field(f.Field).Name() == "Operator" {
						isOp = true
					}
				}
			}
			if !isOp {
				return
			}
			if _, ok := eng.ConstString(b.Y); !ok {
				if _, ok := eng.ConstString(b.X); !ok {
					return
				}
			}
			if first == nil || in.Block().Dominates(first) {
				first = in.Block()
			}
		})
		if first == nil {
			c.Undec(R, name+"#dispatch", fn.Pos(), "no comparison of the operator with a constant found")
			continue
		}
		touchesState := func(v ssa.Value) bool {
			for w := range eng.Slice(v, func(*ssa.Call) bool { return true }) {
				if fa, ok := w.(*ssa.FieldAddr); ok && fa.X == ssa.Value(recv) {
					return true
				}
			}
			return false
		}
		var bad []string
		for _, b := range fn.Blocks {
			if b == first || first.Dominates(b) || len(b.Instrs) == 0 {
				continue
			}
			// a block outside the dispatch: does it leave the function (or jump past the dispatch) under extractor state?
			if _, isRet := b.Instrs[len(b.Instrs)-1].(*ssa.Return); !isRet {
				continue
			}
			for d := b.Idom(); d != nil; d = d.Idom() {
				if iff, ok := d.Instrs[len(d.Instrs)-1].(*ssa.If); ok && touchesState(iff.Cond) {
					bad = append(bad, "return at "+c.P.Pos(b.Instrs[len(b.Instrs)-1].Pos())+" under a test of the extractor's state at "+c.P.Pos(iff.Cond.Pos()))
					break
				}
			}
		}
		sort.Strings(bad)
		c.Check(len(bad) == 0, R, name+"#dispatch", fn.Pos(), "every operator reaches the dispatch", "operators are filtered before the dispatch depending on the extractor's state ("+strings.Join(bad, "; ")+"): an operator that changes the graphics state is dropped in that state")
	}
}

// ---------------------------------------------------------------------------------------------------------------
// R10.16 every requested page number is validated: the validating loop is left only at its end or with an error.

// loopBody: the blocks of the natural loop with header h.
func loopBody(h *ssa.BasicBlock) map[*ssa.BasicBlock]bool {
	body := map[*ssa.BasicBlock]bool{h: true}
	var work []*ssa.BasicBlock
	for _, p := range h.Preds {
		if h.Dominates(p) && !body[p] {
			body[p] = true
			work = append(work, p)
		}
	}
	for len(work) > 0 {
		b := work[len(work)-1]
		work = work[:len(work)-1]
		for _, p := range b.Preds {
			if !body[p] && h.Dominates(p) {
				body[p] = true
				work = append(work, p)
			}
		}
	}
	return body
}

// R10.16 [C10]
func ruleAllRequestedPagesValidated(c *eng.Ctx) {
	const R = "R10.16-ALL-REQUESTED-PAGES-VALIDATED"
	c.Rule(R, "the loop of resolvePages that compares each requested page number with 1 and the page count is left only when the requested numbers are exhausted or with an error: a break or early return once 'enough' pages were collected leaves the numbers after that point unvalidated, so Pages(1..n, n+1) is accepted while Pages(n+1, 1..n) is refused", 1, 1)
	for _, name := range []string{"tabula.(*Extractor).resolvePages", eng.PositivePkg + ".ResolveRequested"} {
		fn := c.P.Func(name)
		if fn == nil {
			if !strings.Contains(name, eng.PositivePkg) {
				c.Undec(R, name, token.NoPos, "anchor not found")
			}
			continue
		}
		fromRequested := func(v ssa.Value) bool {
			u, ok := v.(*ssa.UnOp)
			if !ok || u.Op != token.MUL {
				return false
			}
			ia, ok := u.X.(*ssa.IndexAddr)
			if !ok {
				return false
			}
			if fr, ok := eng.LoadOfField(ia.X); ok && (fr.Field == "pages") {
				return true
			}
			_, isPar := ia.X.(*ssa.Parameter)
			return isPar && strings.Contains(name, eng.PositivePkg)
		}
		// the validating comparison: requested < 1 (or <= 0, > count …) that leads to an error return
		var vblocks []*ssa.BasicBlock
		eng.Instrs(fn, false, func(in ssa.Instruction) {
			b, ok := in.(*ssa.BinOp)
			if !ok {
				return
			}
			switch b.Op {
			case token.LSS, token.LEQ, token.GTR, token.GEQ:
			default:
				return
			}
			if !(fromRequested(b.X) || fromRequested(b.Y)) {
				return
			}
			if _, isIf := condIf(b); isIf {
				vblocks = append(vblocks, b.Block())
			}
		})
		if len(vblocks) == 0 {
			c.Ok(R, name+"#validation-loop", fn.Pos(), "not evaluated: the requested numbers are not compared inside this function's own loop")
			continue
		}
		hs := enclosingLoopHeaders(vblocks[0])
		if len(hs) == 0 {
			c.Ok(R, name+"#validation-loop", fn.Pos(), "not evaluated: the validation is not inside a loop of this function")
			continue
		}
		h := hs[len(hs)-1]
		body := loopBody(h)
		errorExit := func(y *ssa.BasicBlock) bool {
			// follow straight-line blocks to a return with a non-nil last result
			for i := 0; i < 6 && y != nil; i++ {
				if len(y.Instrs) == 0 {
					return false
				}
				switch t := y.Instrs[len(y.Instrs)-1].(type) {
				case *ssa.Return:
					n := len(t.Results)
					return n > 0 && !eng.IsNilConst(t.Results[n-1])
				case *ssa.Jump:
					y = y.Succs[0]
				default:
					return false
				}
			}
			return false
		}
		var bad []string
		for x := range body {
			for _, y := range x.Succs {
				if body[y] || x == h {
					continue
				}
				if errorExit(y) {
					continue
				}
				pos := token.NoPos
				if len(x.Instrs) > 0 {
					pos = x.Instrs[len(x.Instrs)-1].Pos()
					if !pos.IsValid() && len(x.Instrs) > 1 {
						pos = x.Instrs[len(x.Instrs)-2].Pos()
					}
				}
				bad = append(bad, "the loop is left at "+c.P.Pos(pos))
			}
		}
		sort.Strings(bad)
		c.Check(len(bad) == 0, R, name+"#validation-loop", h.Instrs[0].Pos(), "the validating loop runs over every requested number", "the loop that validates the requested page numbers can be left before all of them were looked at ("+strings.Join(bad, "; ")+"): numbers after that point are never checked against the page count")
	}
}

// ---------------------------------------------------------------------------------------------------------------
// R11.11 a marginal candidate remembers the distance that admitted it.

// R11.11 [C11]
func ruleCandidateKeepsEdgeDistance(c *eng.Ctx) {
	const R = "R11.11-CANDIDATE-KEEPS-EDGE-DISTANCE"
	c.Rule(R, "the vertical position stored in a header/footer candidate is the distance from the page edge that was compared with the marginal band height to admit it (on every branch of the coordinate-system and header/footer cases), not the fragment's own Y: positions of the same running header are compared across pages, and absolute coordinates differ between pages of different height", 1, 0)
	fn := c.P.Func("layout.(*HeaderFooterDetector).extractCandidates")
	if fn == nil {
		c.Undec(R, "layout.(*HeaderFooterDetector).extractCandidates", token.NoPos, "anchor not found")
		return
	}
	cluster := eng.Cluster(fn, 1)
	// band heights: values derived from the configured region heights
	isBand := func(v ssa.Value) bool {
		for w := range eng.Slice(v, nil) {
			if fr, ok := eng.LoadOfField(w); ok && (fr.Field == "HeaderRegionHeight" || fr.Field == "FooterRegionHeight") {
				return true
			}
		}
		return false
	}
	admitted := map[ssa.Value]bool{}
	for _, h := range cluster {
		if h.Pkg != fn.Pkg {
			continue
		}
		eng.Instrs(h, true, func(in ssa.Instruction) {
			b, ok := in.(*ssa.BinOp)
			if !ok {
				return
			}
			switch b.Op {
			case token.LSS, token.LEQ:
				if isBand(b.Y) {
					admitted[b.X] = true
				}
			case token.GTR, token.GEQ:
				if isBand(b.X) {
					admitted[b.Y] = true
				}
			}
		})
	}
	if len(admitted) == 0 {
		c.Ok(R, eng.FuncName(fn)+"#Y", fn.Pos(), "not evaluated: no comparison of a distance with the configured band height in this function")
		return
	}
	n := 0
	for _, h := range cluster {
		if h.Pkg != fn.Pkg {
			continue
		}
		eng.Instrs(h, true, func(in ssa.Instruction) {
			sto, ok := in.(*ssa.Store)
			if !ok {
				return
			}
			fr, ok := eng.AsField(sto.Addr)
			if !ok || fr.Field != "Y" || !strings.HasSuffix(fr.Struct, ".candidate") {
				return
			}
			n++
			// every value the stored one can be is an admitted distance
			var bad []string
			seen := map[ssa.Value]bool{}
			var walk func(v ssa.Value)
			walk = func(v ssa.Value) {
				if seen[v] {
					return
				}
				seen[v] = true
				if admitted[v] {
					return
				}
				if ph, ok := v.(*ssa.Phi); ok {
					for _, e := range ph.Edges {
						walk(e)
					}
					return
				}
				if k, ok := v.(*ssa.Const); ok && k.Value != nil {
					return // the zero a declaration starts with, overwritten on every branch that admits
				}
				bad = append(bad, v.String()+" at "+c.P.Pos(v.Pos()))
			}
			walk(sto.Val)
			sort.Strings(bad)
			c.Check(len(bad) == 0, R, fmt.Sprintf("%s#Y@%s", eng.FuncName(in.Parent()), c.P.Pos(sto.Pos())), sto.Pos(), "the stored position is the admitted distance", "the position stored in the candidate is not the distance that was compared with the band height ("+strings.Join(bad, "; ")+"): the consistency test across pages then compares coordinates that depend on the page height")
		})
	}
	if n == 0 {
		c.Ok(R, eng.FuncName(fn)+"#Y", fn.Pos(), "not evaluated: no store to candidate.Y in this function")
	}
}

// ---------------------------------------------------------------------------------------------------------------
// R14.15 only a nil include list means "all metadata".

// R14.15 [C14]
func ruleNilListMeansAll(c *eng.Ctx) {
	const R = "R14.15-NIL-LIST-MEANS-ALL"
	c.Rule(R, "Exporter.filterMetadata hands back its whole input (as it is or flattened) only where ExportConfig.MetadataFields was found equal to nil: the documented contract is 'nil = all fields', so a present but empty list selects nothing, and a length test treats it like nil and exports every field", 1, 0)
	fn := c.P.Func("rag.(*Exporter).filterMetadata")
	if fn == nil {
		c.Undec(R, "rag.(*Exporter).filterMetadata", token.NoPos, "anchor not found")
		return
	}
	if len(fn.Params) < 2 {
		c.Ok(R, eng.FuncName(fn)+"#whole-input", fn.Pos(), "not evaluated: the function has no metadata parameter")
		return
	}
	in := ssa.Value(fn.Params[1])
	nilFact := func(f eng.Fact) bool {
		op, x, y, ok := f.Cmp()
		if !ok || op != token.EQL || !eng.IsNilConst(y) {
			return false
		}
		fr, ok := eng.LoadOfField(x)
		return ok && fr.Field == "MetadataFields"
	}
	n := 0
	var bad []string
	// origins(v, blk): the places where v is the whole input; each must lie under the nil fact
	seen := map[ssa.Value]bool{}
	var visit func(v ssa.Value, blk *ssa.BasicBlock, at token.Pos)
	visit = func(v ssa.Value, blk *ssa.BasicBlock, at token.Pos) {
		switch x := v.(type) {
		case *ssa.Phi:
			if seen[x] {
				return
			}
			seen[x] = true
			for i, e := range x.Edges {
				pred := x.Block().Preds[i]
				if e == in {
					n++
					okNil := eng.GuardedBy(fn, pred, nilFact)
					for si, sc := range pred.Succs {
						if sc == x.Block() && eng.AnyEdgeFact(eng.Edge{From: pred, Succ: si}, nilFact) {
							okNil = true
						}
					}
					if !okNil {
						bad = append(bad, "the whole input reaches the result at "+c.P.Pos(at))
					}
					continue
				}
				visit(e, pred, at)
			}
		case *ssa.Call:
			if cal := eng.StaticCallee(x); cal != nil && eng.InModule(cal) && len(x.Call.Args) > 0 {
				visit(x.Call.Args[0], x.Block(), at)
			}
		default:
			if v == in {
				n++
				if !eng.GuardedBy(fn, blk, nilFact) {
					bad = append(bad, "the whole input is returned at "+c.P.Pos(at))
				}
			}
		}
	}
	for _, r := range eng.Returns(fn) {
		if len(r.Results) > 0 {
			visit(r.Results[0], r.Block(), r.Pos())
		}
	}
	if n == 0 {
		c.Ok(R, eng.FuncName(fn)+"#whole-input", fn.Pos(), "not evaluated: no return hands back the whole input")
		return
	}
	sort.Strings(bad)
	c.Check(len(bad) == 0, R, eng.FuncName(fn)+"#whole-input", fn.Pos(), "all fields only for a nil list", "the whole metadata is handed back without MetadataFields having been found nil ("+strings.Join(bad, "; ")+"): an empty include list exports every field instead of none")
}

// ---------------------------------------------------------------------------------------------------------------
// R20.9 an error handed up by a reader stays in the error chain.

// R20.9 [C20]
func ruleErrorChainKept(c *eng.Ctx) {
	const R = "R20.9-ERROR-CHAIN-KEPT"
	c.Rule(R, "in the top-level package and in epubdoc every fmt.Errorf that is given an error value formats it with %w (directly or in a helper that receives the cause as a parameter): the readers refuse DRM-protected and malformed files with sentinel errors (epubdoc.ErrDRMProtected, …) and callers of tabula.Open(...).Text() recognise the refusal with errors.Is, which %v and %s cut off", 20, 1)
	n := 0
	errT := types.Universe.Lookup("error").Type()
	for _, fn := range c.P.ModuleFuncs() {
		if fn.Pkg == nil || fn.Blocks == nil {
			continue
		}
		sp := eng.ShortPath(fn.Pkg.Pkg.Path())
		if sp != "" && sp != "tabula" && sp != "epubdoc" && !strings.Contains(sp, eng.PositivePkg) {
			continue
		}
		for _, ci := range eng.CallsNamed(fn, true, "fmt.Errorf") {
			args := ci.Common().Args
			if len(args) < 2 {
				continue
			}
			// variadic arguments: the elements stored into the []interface{} literal
			nErr := 0
			if sl, ok := args[1].(*ssa.Slice); ok {
				if al, ok := sl.X.(*ssa.Alloc); ok {
					for _, r := range *al.Referrers() {
						ia, ok := r.(*ssa.IndexAddr)
						if !ok {
							continue
						}
						for _, rr := range *ia.Referrers() {
							if st, ok := rr.(*ssa.Store); ok {
								v := st.Val
								if mi, ok := v.(*ssa.MakeInterface); ok {
									v = mi.X
								}
								if ci, ok := v.(*ssa.ChangeInterface); ok {
									v = ci.X
								}
								if types.Identical(v.Type(), errT) || types.Implements(v.Type(), errT.Underlying().(*types.Interface)) {
									if !eng.IsNilConst(v) {
										nErr++
									}
								}
							}
						}
					}
				}
			}
			if nErr == 0 {
				continue
			}
			n++
			format, isC := eng.ConstString(args[0])
			key := fmt.Sprintf("%s#Errorf@%s", eng.FuncName(ci.Parent()), c.P.Pos(ci.Pos()))
			if !isC {
				c.Ok(R, key, ci.Pos(), "not evaluated: the format is not a constant")
				continue
			}
			c.Check(strings.Count(format, "%w") >= 1, R, key, ci.Pos(), "the cause is wrapped with %w", "an error value is formatted into the message without %w (format "+strconv.Quote(format)+"): errors.Is and errors.As no longer find the reader's sentinel error behind it")
		}
	}
	if n == 0 {
		c.Undec(R, "tabula#errorf", token.NoPos, "no fmt.Errorf with an error argument found")
	}
}

// ---------------------------------------------------------------------------------------------------------------
// R15.12 "after the first row" means the first row of the loop.

// R15.12 [C15]
func ruleFirstRowIsLoopStart(c *eng.Ctx) {
	const R = "R15.12-FIRST-ROW-IS-LOOP-START"
	c.Rule(R, "where a Markdown writer emits the header delimiter row (\"---\") inside a row loop under a test 'row == k', the loop starts at that same k: a table whose content bounds begin further down (a blank first row, a table placed at B3) otherwise never reaches the test, gets no delimiter row and is not a table for a Markdown reader", 0, 1)
	n := 0
	for _, fn := range c.P.ModuleFuncs() {
		if fn.Pkg == nil || fn.Blocks == nil {
			continue
		}
		sp := eng.ShortPath(fn.Pkg.Pkg.Path())
		switch sp {
		case "xlsx", "docx", "odt", "pptx", "htmldoc", "model", "epubdoc", "rag", "tables":
		default:
			if !strings.Contains(sp, eng.PositivePkg) {
				continue
			}
		}
		eng.Instrs(fn, true, func(in ssa.Instruction) {
			iff, ok := in.(*ssa.If)
			if !ok {
				return
			}
			b, ok := iff.Cond.(*ssa.BinOp)
			if !ok || b.Op != token.EQL {
				return
			}
			k, isC := eng.ConstInt(b.Y)
			v := b.X
			if !isC {
				k, isC = eng.ConstInt(b.X)
				v = b.Y
			}
			if !isC {
				return
			}
			ph, isInd := eng.Induction(v)
			if !isInd || v != ssa.Value(ph) {
				return
			}
			// the region under the true edge writes a delimiter
			tb := iff.Block().Succs[0]
			writes := false
			for _, blk := range in.Parent().Blocks {
				if blk != tb && !tb.Dominates(blk) {
					continue
				}
				for _, i2 := range blk.Instrs {
					ci, ok := i2.(ssa.CallInstruction)
					if !ok {
						continue
					}
					for _, a := range ci.Common().Args {
						if s, ok := eng.ConstString(a); ok && strings.Contains(s, "---") {
							writes = true
						}
					}
				}
			}
			if !writes {
				return
			}
			n++
			// where the loop starts
			var starts []ssa.Value
			for _, e := range ph.Edges {
				if bb, ok := e.(*ssa.BinOp); ok && bb.X == ssa.Value(ph) {
					continue
				}
				starts = append(starts, e)
			}
			okStart := len(starts) > 0
			for _, s := range starts {
				if sk, isK := eng.ConstInt(s); !isK || sk != k {
					okStart = false
				}
			}
			c.Check(okStart, R, fmt.Sprintf("%s#delimiter@%s", eng.FuncName(in.Parent()), c.P.Pos(b.Pos())), b.Pos(), "the tested row number is where the loop starts", fmt.Sprintf("the delimiter row is written when the row counter equals %d, but the loop does not start there (it starts at the first row of the content): a table that begins on a later row gets no delimiter row", k))
		})
	}
	if n == 0 {
		c.Ok(R, "module#delimiters", token.NoPos, "no delimiter row is written under a 'row == constant' test inside a loop")
	}
}

// ---------------------------------------------------------------------------------------------------------------
// R15.13 the body's automatic styles are registered last.

// R15.13 [C15, C16]
func ruleContentStylesWin(c *eng.Ctx) {
	const R = "R15.13-CONTENT-STYLES-REGISTERED-LAST"
	c.Rule(R, "odt.NewStyleResolver registers the automatic styles of content.xml after everything it takes from styles.xml: the maps are last-wins, automatic style names (L1, P1, T1 …) are generated independently in the two files, and the body is resolved against this table, so a styles.xml definition registered later replaces the body's own list and paragraph styles (a numbered list turns into bullets, a heading paragraph into body text)", 1, 0)
	fn := c.P.Func("odt.NewStyleResolver")
	if fn == nil {
		c.Undec(R, "odt.NewStyleResolver", token.NoPos, "anchor not found")
		return
	}
	var content, doc *ssa.Parameter
	for _, p := range fn.Params {
		tn := strings.ToLower(eng.TypeName(p.Type()))
		if strings.Contains(tn, "content") {
			content = p
		} else if strings.Contains(tn, "styles") {
			doc = p
		}
	}
	if content == nil || doc == nil {
		c.Ok(R, "odt.NewStyleResolver#order", fn.Pos(), "not evaluated: the two style sources are not two parameters of the constructor")
		return
	}
	type event struct {
		in  ssa.Instruction
		src *ssa.Parameter
	}
	var evs []event
	source := func(vals ...ssa.Value) *ssa.Parameter {
		var got *ssa.Parameter
		for _, v := range vals {
			for w := range eng.Slice(v, func(*ssa.Call) bool { return true }) {
				if w == ssa.Value(content) {
					return content
				}
				if w == ssa.Value(doc) {
					got = doc
				}
			}
		}
		return got
	}
	eff := eng.EffectsOf(c.P)
	eng.Instrs(fn, false, func(in ssa.Instruction) {
		switch x := in.(type) {
		case *ssa.MapUpdate:
			if s := source(x.Value, x.Key); s != nil {
				evs = append(evs, event{in, s})
			}
		case *ssa.Call:
			cal := eng.StaticCallee(x)
			if cal == nil || !eng.InModule(cal) || len(eff.WritesParam[cal]) == 0 {
				return
			}
			if s := source(eng.ArgsWithRecv(x)...); s != nil {
				evs = append(evs, event{in, s})
			}
		}
	})
	nc, nd := 0, 0
	for _, e := range evs {
		if e.src == content {
			nc++
		} else {
			nd++
		}
	}
	if nc == 0 || nd == 0 {
		c.Ok(R, "odt.NewStyleResolver#order", fn.Pos(), "not evaluated: registrations from both sources are not visible in the constructor")
		return
	}
	after := func(a, b ssa.Instruction) bool { // can b run after a
		if a.Block() == b.Block() {
			for _, in := range a.Block().Instrs {
				if in == a {
					return true
				}
				if in == b {
					break
				}
			}
		}
		r := eng.ReachableBlocks(a.Block().Succs, nil)
		return r[b.Block()]
	}
	var bad []string
	for _, ec := range evs {
		if ec.src != content {
			continue
		}
		for _, ed := range evs {
			if ed.src == doc && after(ec.in, ed.in) {
				bad = append(bad, "styles.xml definitions registered at "+c.P.Pos(ed.in.Pos())+" after content.xml's at "+c.P.Pos(ec.in.Pos()))
			}
		}
	}
	sort.Strings(bad)
	if len(bad) > 3 {
		bad = bad[:3]
	}
	c.Check(len(bad) == 0, R, "odt.NewStyleResolver#order", fn.Pos(), fmt.Sprintf("%d registrations from styles.xml all precede the %d from content.xml", nd, nc), "definitions from styles.xml can overwrite the body's automatic styles ("+strings.Join(bad, "; ")+")")
}

// ---------------------------------------------------------------------------------------------------------------
// R17.13 the grid is sized from every addressed cell.

// R17.13 [C17]
func ruleGridSizedFromEveryCell(c *eng.Ctx) {
	const R = "R17.13-GRID-SIZED-FROM-EVERY-CELL"
	c.Rule(R, "where parseWorksheet (or a helper) raises the sheet's width or height from a parsed cell reference, nothing about the cell's content (value, formula, type, style, inline string) decides whether the cell is counted, only whether the reference parses: the second pass places every addressed cell, and one that was not counted lies outside the allocated grid and is dropped (an inline string has no <v>)", 1, 0)
	fn := c.P.Func("xlsx.(*Reader).parseWorksheet")
	if fn == nil {
		c.Undec(R, "xlsx.(*Reader).parseWorksheet", token.NoPos, "anchor not found")
		return
	}
	n := 0
	for _, h := range eng.Cluster(fn, 2) {
		if h.Pkg != fn.Pkg {
			continue
		}
		eng.Instrs(h, false, func(in ssa.Instruction) {
			b, ok := in.(*ssa.BinOp)
			if !ok || (b.Op != token.GTR && b.Op != token.LSS && b.Op != token.GEQ && b.Op != token.LEQ) {
				return
			}
			// one side is a column/row from ParseCellRef, the other a running maximum (phi)
			fromRef := func(v ssa.Value) bool {
				for w := range eng.Slice(v, nil) {
					if ex, ok := w.(*ssa.Extract); ok {
						if call, ok := ex.Tuple.(*ssa.Call); ok && strings.HasSuffix(eng.CalleeName(call), "ParseCellRef") {
							return true
						}
					}
				}
				return false
			}
			var other ssa.Value
			if fromRef(b.X) {
				other = b.Y
			} else if fromRef(b.Y) {
				other = b.X
			} else {
				return
			}
			if _, isPhi := other.(*ssa.Phi); !isPhi {
				return
			}
			n++
			var bad []string
			for d := b.Block().Idom(); d != nil; d = d.Idom() {
				iff, ok := d.Instrs[len(d.Instrs)-1].(*ssa.If)
				if !ok {
					continue
				}
				for w := range eng.Slice(iff.Cond, func(*ssa.Call) bool { return true }) {
					var st *types.Struct
					fi := -1
					var nm string
					switch x := w.(type) {
					case *ssa.FieldAddr:
						if pt, ok := x.X.Type().Underlying().(*types.Pointer); ok {
							st, _ = pt.Elem().Underlying().(*types.Struct)
							nm = eng.TypeName(pt.Elem())
							fi = x.Field
						}
					case *ssa.Field:
						st, _ = x.X.Type().Underlying().(*types.Struct)
						nm = eng.TypeName(x.X.Type())
						fi = x.Field
					}
					if st == nil || !strings.HasSuffix(nm, "cellXML") {
						continue
					}
					if f := st.Field(fi).Name(); f != "R" {
						bad = append(bad, "cell."+f+" tested at "+c.P.Pos(iff.Cond.Pos()))
					}
				}
			}
			sort.Strings(bad)
			c.Check(len(bad) == 0, R, fmt.Sprintf("%s#dimension@%s", eng.FuncName(in.Parent()), c.P.Pos(b.Pos())), b.Pos(), "every cell with a valid reference is counted", "whether a cell counts for the grid size depends on its content ("+strings.Join(bad, "; ")+"): a cell that is not counted but has text (an inline string, a cached error) falls outside the grid and is dropped")
		})
	}
	if n == 0 {
		c.Ok(R, "xlsx.(*Reader).parseWorksheet#dimension", fn.Pos(), "not evaluated: no running maximum of parsed cell references found")
	}
}

// R18.16 [C18]: the clause of R17.4 for the multi-part readers (sheets, slides and chapters are decoded one after another)
func ruleFreshDecodeTargetParts(c *eng.Ctx) {
	freshDecodeTarget(c, "R18.16-FRESH-DECODE-TARGET", map[string]bool{"xlsx": true, "pptx": true, "epubdoc": true}, 10)
}

// ---------------------------------------------------------------------------------------------------------------
// R19.12 a child node set aside during a walk over siblings is not overwritten by the next one.

// R19.12 [C19]
func ruleSetAsideChildrenAllKept(c *eng.Ctx) {
	const R = "R19.12-SET-ASIDE-CHILDREN-ALL-KEPT"
	c.Rule(R, "in the HTML readers a walk over sibling nodes (c = c.NextSibling) that sets the current node aside in a variable for use after the walk leaves the walk at once (break/return) or collects into a slice: a plain variable keeps only the last node with that tag, and HTML allows any number of them (a table may have several tbody elements, and the parser adds an implied one), so the earlier ones and their text are dropped", 0, 1)
	n := 0
	for _, fn := range c.P.ModuleFuncs() {
		if fn.Pkg == nil || fn.Blocks == nil {
			continue
		}
		sp := eng.ShortPath(fn.Pkg.Pkg.Path())
		if sp != "htmldoc" && sp != "epubdoc" && !strings.Contains(sp, eng.PositivePkg) {
			continue
		}
		for _, b := range fn.Blocks {
			// sibling cursors: phi(x.FirstChild, cur.NextSibling)
			var cursors []*ssa.Phi
			for _, in := range b.Instrs {
				ph, ok := in.(*ssa.Phi)
				if !ok {
					break
				}
				for _, e := range ph.Edges {
					if fr, ok := eng.LoadOfField(e); ok && fr.Field == "NextSibling" && fr.Base == ssa.Value(ph) {
						cursors = append(cursors, ph)
					}
				}
			}
			for _, cur := range cursors {
				n++
				body := loopBody(b)
				for _, in := range b.Instrs {
					ph, ok := in.(*ssa.Phi)
					if !ok {
						break
					}
					if ph == cur || !types.Identical(ph.Type(), cur.Type()) {
						continue
					}
					// a loop-carried variable that takes the cursor's value somewhere in the body
					takes := false
					seen := map[ssa.Value]bool{}
					var walk func(v ssa.Value)
					walk = func(v ssa.Value) {
						if seen[v] {
							return
						}
						seen[v] = true
						if v == ssa.Value(cur) {
							takes = true
							return
						}
						if p2, ok := v.(*ssa.Phi); ok && body[p2.Block()] && p2 != ph {
							for _, e := range p2.Edges {
								walk(e)
							}
						}
					}
					for i, e := range ph.Edges {
						if body[b.Preds[i]] {
							walk(e)
						}
					}
					if !takes {
						continue
					}
					// used after the walk
					usedAfter := false
					for _, r := range *ph.Referrers() {
						if !body[r.Block()] {
							usedAfter = true
						}
						if p3, ok := r.(*ssa.Phi); ok && !body[p3.Block()] {
							usedAfter = true
						}
					}
					if !usedAfter {
						continue
					}
					c.Viol(R, fmt.Sprintf("%s#%s", eng.FuncName(fn), ph.Comment), ph.Pos(), "the variable "+ph.Comment+" is set to the current sibling inside the walk at "+c.P.Pos(cur.Pos())+" without leaving it and is used afterwards: of several siblings that qualify only the last one is processed, the text of the others is dropped")
				}
			}
		}
	}
	c.Ok(R, "scope#walks", token.NoPos, fmt.Sprintf("%d sibling walks scanned in htmldoc and epubdoc", n))
}

// ---------------------------------------------------------------------------------------------------------------
// R2.24 a nesting counter that a recursive function raises comes back down on every way out.

// R2.24 [C02, C19]
func ruleDepthCountersBalanced(c *eng.Ctx) {
	const R = "R2.24-DEPTH-COUNTERS-BALANCED"
	c.Rule(R, "every function that belongs to a recursive cycle and adds 1 to a field whose name says depth or level takes the 1 off again on every path from the increment to a return (directly, in a deferred closure or in a small helper): a counter that only some exits restore counts visited nodes instead of nesting, reaches the limit on long flat input and the walk silently stops there", 3, 1)
	n := 0
	for _, scc := range eng.RecursiveSCCs(c.P) {
		for _, fn := range scc {
			if fn.Blocks == nil {
				continue
			}
			fields := map[string]bool{}
			eng.Instrs(fn, false, func(in ssa.Instruction) {
				st, ok := in.(*ssa.Store)
				if !ok {
					return
				}
				fr, ok := eng.AsField(st.Addr)
				if !ok {
					return
				}
				low := strings.ToLower(fr.Field)
				if !strings.Contains(low, "depth") && !strings.Contains(low, "level") && !strings.Contains(low, "nesting") {
					return
				}
				b, ok := st.Val.(*ssa.BinOp)
				if !ok || b.Op != token.ADD {
					return
				}
				if k, isC := eng.ConstInt(b.Y); !isC || k != 1 {
					return
				}
				// the same counter is read and written (x.depth++), not a new record made one level deeper
				if f2, ok := eng.LoadOfField(b.X); !ok || f2.Field != fr.Field || !eng.SameValue(f2.Base, fr.Base) {
					return
				}
				fields[fr.Field] = true
			})
			for f := range fields {
				n++
				depthBalanceIn(c, R, eng.FuncName(fn)+"."+f, fn, f, false)
			}
		}
	}
	if n == 0 {
		c.Undec(R, "module#counters", token.NoPos, "no recursive function with a depth counter found")
	}
}

// ---------------------------------------------------------------------------------------------------------------
// R5.16 a base-85 group that does not fit four bytes is an error.

// R5.16 [C05]
func ruleBase85GroupRangeChecked(c *eng.Ctx) {
	const R = "R5.16-BASE85-GROUP-RANGE"
	c.Rule(R, "ASCII85Decode multiplies its group accumulator by 85 in a 64-bit type and compares the accumulated group with 2^32-1 (an error above it) before the bytes are taken out: five digits reach 85^5-1 > 2^32-1, a 32-bit accumulator wraps, and a group that encodes no four bytes then decodes to four wrong ones instead of an error", 1, 1)
	for _, name := range []string{"internal/filters.ASCII85Decode", eng.PositivePkg + ".Base85Group"} {
		fn := c.P.Func(name)
		if fn == nil {
			if !strings.Contains(name, eng.PositivePkg) {
				c.Undec(R, name, token.NoPos, "anchor not found")
			}
			continue
		}
		n := 0
		for _, h := range eng.Cluster(fn, 2) {
			if h.Pkg != fn.Pkg {
				continue
			}
			eng.Instrs(h, true, func(in ssa.Instruction) {
				b, ok := in.(*ssa.BinOp)
				if !ok || b.Op != token.MUL {
					return
				}
				k, isC := eng.ConstInt(b.Y)
				if !isC || k != 85 {
					if k2, ok2 := eng.ConstInt(b.X); !ok2 || k2 != 85 {
						return
					}
				}
				n++
				bt, _ := b.Type().Underlying().(*types.Basic)
				wide := bt != nil && (bt.Kind() == types.Uint64 || bt.Kind() == types.Int64)
				// the range test: a comparison of the accumulator (a phi fed by this product) with 4294967295
				tested := false
				eng.Instrs(in.Parent(), true, func(in2 ssa.Instruction) {
					cmp, ok := in2.(*ssa.BinOp)
					if !ok {
						return
					}
					switch cmp.Op {
					case token.GTR, token.GEQ, token.LSS, token.LEQ:
					default:
						return
					}
					for _, side := range []ssa.Value{cmp.X, cmp.Y} {
						if kk, isK := eng.ConstInt(side); isK && (kk == 0xFFFFFFFF || kk == 0x100000000) {
							tested = true
						}
					}
				})
				var bad []string
				if !wide {
					bad = append(bad, "the accumulator is "+b.Type().String()+", which wraps above 2^32-1")
				}
				if !tested {
					bad = append(bad, "the accumulated group is never compared with 2^32-1")
				}
				c.Check(len(bad) == 0, R, fmt.Sprintf("%s#group@%s", eng.FuncName(in.Parent()), c.P.Pos(b.Pos())), b.Pos(), "64-bit accumulator with a range test", strings.Join(bad, "; ")+": a group above s8W-! decodes to wrong bytes instead of an error")
			})
		}
		if n == 0 && !strings.Contains(name, eng.PositivePkg) {
			c.Ok(R, name+"#group", fn.Pos(), "not evaluated: no multiplication by 85 found (the decoder is written another way)")
		}
	}
}

// ---------------------------------------------------------------------------------------------------------------
// R6.15 the '>' that ends a hex string is consumed on every way out.

// R6.15 [C06]
func ruleHexStringCloserConsumed(c *eng.Ctx) {
	const R = "R6.15-HEX-STRING-CLOSER-CONSUMED"
	c.Rule(R, "in contentstream.(*Parser).parseHexString every path that has seen '>' under the cursor moves the cursor past it before the function returns (paths are followed with the knowledge that the byte under an unmoved cursor is still '>' and inside the data): the object parser pads an odd final digit with 0 and ends the string there, so a content stream parser that leaves the '>' behind meets it again as a stray delimiter and refuses <414> Tj", 1, 0)
	fn := c.P.Func("contentstream.(*Parser).parseHexString")
	if fn == nil {
		c.Undec(R, "contentstream.(*Parser).parseHexString", token.NoPos, "anchor not found")
		return
	}
	isPosLoad := func(v ssa.Value) bool {
		fr, ok := eng.LoadOfField(v)
		return ok && fr.Field == "pos"
	}
	isCur := func(v ssa.Value) bool { // data[pos]
		u, ok := v.(*ssa.UnOp)
		if !ok || u.Op != token.MUL {
			return false
		}
		ia, ok := u.X.(*ssa.IndexAddr)
		if !ok {
			return false
		}
		fr, ok := eng.LoadOfField(ia.X)
		return ok && fr.Field == "data" && isPosLoad(ia.Index)
	}
	movesCursor := func(b *ssa.BasicBlock) bool {
		for _, in := range b.Instrs {
			if st, ok := in.(*ssa.Store); ok {
				if fr, ok := eng.AsField(st.Addr); ok && fr.Field == "pos" {
					return true
				}
			}
			if call, ok := in.(*ssa.Call); ok {
				// a local closure whose whole job is to step the cursor (advance := func() { p.pos++ })
				if cal := eng.StaticCallee(call); cal != nil && cal.Parent() == fn && len(cal.Blocks) == 1 {
					steps := false
					eng.Instrs(cal, false, func(i2 ssa.Instruction) {
						if st, ok := i2.(*ssa.Store); ok {
							if fr, ok := eng.AsField(st.Addr); ok && fr.Field == "pos" {
								steps = true
							}
						}
					})
					if steps {
						return true
					}
				}
				if cal := eng.StaticCallee(call); cal != nil && eng.InModule(cal) && cal.Signature.Recv() != nil && cal != fn {
					// a helper that may move the cursor (skipWhitespace): counts as a move only if it stores to pos
					moved := false
					eng.Instrs(cal, false, func(i2 ssa.Instruction) {
						if st, ok := i2.(*ssa.Store); ok {
							if fr, ok := eng.AsField(st.Addr); ok && fr.Field == "pos" {
								moved = true
							}
						}
					})
					if moved {
						// skipping white space does not pass a '>' : the cursor stays on it
						continue
					}
				}
			}
		}
		return false
	}
	n := 0
	for _, b := range fn.Blocks {
		if len(b.Instrs) == 0 {
			continue
		}
		iff, ok := b.Instrs[len(b.Instrs)-1].(*ssa.If)
		if !ok {
			continue
		}
		cmp, ok := iff.Cond.(*ssa.BinOp)
		if !ok || cmp.Op != token.EQL || !isCur(cmp.X) {
			continue
		}
		if k, isC := eng.ConstInt(cmp.Y); !isC || k != '>' {
			continue
		}
		n++
		// follow the true edge
		bad := token.NoPos
		seen := map[*ssa.BasicBlock]bool{}
		var dfs func(x *ssa.BasicBlock)
		dfs = func(x *ssa.BasicBlock) {
			if seen[x] || bad.IsValid() {
				return
			}
			seen[x] = true
			if movesCursor(x) {
				return
			}
			if len(x.Instrs) == 0 {
				return
			}
			switch t := x.Instrs[len(x.Instrs)-1].(type) {
			case *ssa.Return:
				bad = t.Pos()
				if !bad.IsValid() {
					bad = fn.Pos()
				}
				return
			case *ssa.If:
				if cb, ok := t.Cond.(*ssa.BinOp); ok {
					// the byte under the unmoved cursor is still '>'
					if isCur(cb.X) {
						if k, isC := eng.ConstInt(cb.Y); isC {
							switch cb.Op {
							case token.EQL:
								if k == '>' {
									dfs(x.Succs[0])
								} else {
									dfs(x.Succs[1])
								}
								return
							case token.NEQ:
								if k == '>' {
									dfs(x.Succs[1])
								} else {
									dfs(x.Succs[0])
								}
								return
							}
						}
					}
					// the cursor is inside the data
					if isPosLoad(cb.X) {
						if call, ok := cb.Y.(*ssa.Call); ok {
							if bi, ok := call.Call.Value.(*ssa.Builtin); ok && bi.Name() == "len" {
								switch cb.Op {
								case token.LSS:
									dfs(x.Succs[0])
									return
								case token.GEQ:
									dfs(x.Succs[1])
									return
								}
							}
						}
					}
				}
				if call, ok := t.Cond.(*ssa.Call); ok {
					// isWhitespace(cur), isHexDigit(cur): '>' is neither
					if len(call.Call.Args) == 1 && isCur(call.Call.Args[0]) {
						dfs(x.Succs[1])
						return
					}
				}
			}
			for _, s := range x.Succs {
				dfs(s)
			}
		}
		dfs(b.Succs[0])
		c.Check(!bad.IsValid(), R, fmt.Sprintf("%s#closer@%s", eng.FuncName(fn), c.P.Pos(cmp.Pos())), cmp.Pos(), "the '>' seen here is consumed before the function returns", "after '>' was seen under the cursor here the function can return (at "+c.P.Pos(bad)+") without moving the cursor past it: the next token starts at the stray '>' and the content stream is refused")
	}
	if n == 0 {
		c.Ok(R, eng.FuncName(fn)+"#closer", fn.Pos(), "not evaluated: the function does not compare the byte under its cursor with '>'")
	}
}

// ---------------------------------------------------------------------------------------------------------------
// R19.13 flushing a pending list inside a list does not end the list.

// R19.13 [C19]
func ruleListStateEndsWithList(c *eng.Ctx) {
	const R = "R19.13-LIST-STATE-ENDS-WITH-LIST"
	c.Rule(R, "the DOM walks of the HTML reader set parseContext.inList to false only where the list element that set it is left (under the test that the walk was not in a list when that element was entered): a block met inside a list (a p, heading or table between two li) may flush the items collected so far, but clearing the flag there makes the li case ignore every later item of the same list", 2, 0)
	n := 0
	for _, name := range []string{"htmldoc.(*Reader).traverseNode", "htmldoc.(*Reader).traverseNodeFiltered"} {
		fn := c.P.Func(name)
		if fn == nil {
			c.Undec(R, name, token.NoPos, "anchor not found")
			continue
		}
		for _, h := range eng.Cluster(fn, 1) {
			if h.Pkg != fn.Pkg {
				continue
			}
			eng.Instrs(h, true, func(in ssa.Instruction) {
				st, ok := in.(*ssa.Store)
				if !ok {
					return
				}
				fr, ok := eng.AsField(st.Addr)
				if !ok || fr.Field != "inList" {
					return
				}
				k, isC := st.Val.(*ssa.Const)
				if !isC || k.Value == nil || k.Value.ExactString() != "false" {
					return
				}
				n++
				restored := eng.GuardedBy(in.Parent(), in.Block(), func(f eng.Fact) bool {
					if f.Pos {
						return false
					}
					fr2, ok := eng.LoadOfField(f.Cond)
					if !ok {
						return false
					}
					if fr2.Field == "inList" {
						return true
					}
					// the state saved when the list was entered, kept in a record: a field every store to which is a
					// load of inList
					n, all := 0, true
					for _, g := range c.P.ModuleFuncs() {
						if g.Pkg != in.Parent().Pkg {
							continue
						}
						eng.Instrs(g, true, func(i2 ssa.Instruction) {
							st2, ok := i2.(*ssa.Store)
							if !ok {
								return
							}
							f3, ok := eng.AsField(st2.Addr)
							if !ok || f3.Field != fr2.Field || f3.Struct != fr2.Struct {
								return
							}
							n++
							if f4, ok := eng.LoadOfField(st2.Val); !ok || f4.Field != "inList" {
								all = false
							}
						})
					}
					return n > 0 && all
				})
				c.Check(restored, R, fmt.Sprintf("%s#inList=false@%s", eng.FuncName(in.Parent()), c.P.Pos(st.Pos())), st.Pos(), "cleared where the list element that set it is left", "inList is cleared in the middle of a list (not under the test of the state at the list's entry): the items that follow in the same list are ignored by the li case and their text is lost")
			})
		}
	}
	if n == 0 {
		c.Ok(R, "htmldoc#inList", token.NoPos, "not evaluated: the walks do not clear an inList flag")
	}
}

// ---------------------------------------------------------------------------------------------------------------
// R16.16 the row recorded as the start of a vertical merge survives until a continuation cell asks for it.

// condKey gives a branch condition that is (the negation of) a load of a struct field a name and a polarity.
func condKey(v ssa.Value) (string, bool, bool) {
	pol := true
	for i := 0; i < 4; i++ {
		if u, ok := v.(*ssa.UnOp); ok && u.Op == token.NOT {
			pol = !pol
			v = u.X
			continue
		}
		break
	}
	fr, ok := eng.LoadOfField(v)
	if !ok {
		return "", false, false
	}
	return fr.Struct + "." + fr.Field + "@" + fr.Base.Name(), pol, true
}

// storeReachesRead: some feasible path from the store to a read of the same local table does not pass another store
// to the same element (same index value) first. Branches on a field that guarded the store are followed consistently.
func storeReachesRead(st *ssa.Store) bool {
	ia, ok := st.Addr.(*ssa.IndexAddr)
	if !ok {
		return true
	}
	table, idx := ia.X, ia.Index
	fn := st.Parent()
	// what is known where the store stands
	known := map[string]bool{}
	blk := st.Block()
	for d := blk.Idom(); d != nil; d = d.Idom() {
		iff, ok := d.Instrs[len(d.Instrs)-1].(*ssa.If)
		if !ok {
			continue
		}
		key, pol, ok := condKey(iff.Cond)
		if !ok {
			continue
		}
		r0 := eng.ReachableBlocks([]*ssa.BasicBlock{d.Succs[0]}, func(b *ssa.BasicBlock) bool { return b == d })
		r1 := eng.ReachableBlocks([]*ssa.BasicBlock{d.Succs[1]}, func(b *ssa.BasicBlock) bool { return b == d })
		if r0[blk] && !r1[blk] {
			known[key] = pol
		} else if r1[blk] && !r0[blk] {
			known[key] = !pol
		}
	}
	_ = fn
	sameTable := func(v ssa.Value) bool { return v == table }
	type state struct {
		b     *ssa.BasicBlock
		start int
		fresh bool // still in the iteration of the store
	}
	seen := map[*ssa.BasicBlock]bool{}
	found := false
	var dfs func(s state)
	dfs = func(s state) {
		if found {
			return
		}
		for i := s.start; i < len(s.b.Instrs); i++ {
			switch x := s.b.Instrs[i].(type) {
			case *ssa.UnOp:
				if a, ok := x.X.(*ssa.IndexAddr); ok && x.Op == token.MUL && sameTable(a.X) {
					found = true
					return
				}
			case *ssa.Store:
				if a, ok := x.Addr.(*ssa.IndexAddr); ok && sameTable(a.X) && s.fresh && a.Index == idx && x != st {
					return // overwritten before anyone looked
				}
			case *ssa.If:
				if s.fresh {
					if key, pol, ok := condKey(x.Cond); ok {
						if v, has := known[key]; has {
							t := s.b.Succs[1]
							if v == pol {
								t = s.b.Succs[0]
							}
							if !seen[t] {
								seen[t] = true
								dfs(state{t, 0, s.fresh && !t.Dominates(blk)})
							}
							return
						}
					}
				}
			}
		}
		for _, t := range s.b.Succs {
			if seen[t] {
				continue
			}
			seen[t] = true
			dfs(state{t, 0, s.fresh && !t.Dominates(blk)})
		}
	}
	start := 0
	for i, in := range blk.Instrs {
		if in == ssa.Instruction(st) {
			start = i + 1
		}
	}
	dfs(state{blk, start, true})
	return found
}

// R16.16 [C16]
func ruleMergeStartSurvives(c *eng.Ctx) {
	const R = "R16.16-MERGE-START-SURVIVES"
	c.Rule(R, "in docx.(*TableParser).processVerticalMerges every row number written into the per-column table of merge starts can reach a read of that table (the continuation cell of a later row) without being overwritten first in the same iteration; branches on the cell's continuation flag are followed the way the flag was found where the number was written. A start that is recorded and reset in one breath is never found, and RowSpan stays 1 for every vertically merged cell", 1, 0)
	fn := c.P.Func("docx.(*TableParser).processVerticalMerges")
	if fn == nil {
		c.Undec(R, "docx.(*TableParser).processVerticalMerges", token.NoPos, "anchor not found")
		return
	}
	n := 0
	eng.Instrs(fn, false, func(in ssa.Instruction) {
		st, ok := in.(*ssa.Store)
		if !ok {
			return
		}
		ia, ok := st.Addr.(*ssa.IndexAddr)
		if !ok {
			return
		}
		if _, isMk := ia.X.(*ssa.MakeSlice); !isMk {
			return
		}
		if _, isC := eng.ConstInt(st.Val); isC {
			return // the "no merge open" marker
		}
		n++
		c.Check(storeReachesRead(st), R, fmt.Sprintf("%s#start@%s", eng.FuncName(fn), c.P.Pos(st.Pos())), st.Pos(), "the recorded start can reach a later read", "the row recorded here as the start of a vertical merge is overwritten in the same iteration on every feasible path before anything reads it: no continuation cell finds its start and the merged cell keeps RowSpan 1")
	})
	if n == 0 {
		c.Ok(R, eng.FuncName(fn)+"#start", fn.Pos(), "not evaluated: no row number is recorded in a local per-column table")
	}
}

// ---------------------------------------------------------------------------------------------------------------
// R16.17 both spellings of a vertical-merge continuation are recognised.

// R16.17 [C16]
func ruleVMergeSpellings(c *eng.Ctx) {
	const R = "R16.17-VMERGE-SPELLINGS"
	c.Rule(R, "where docx.(*TableParser).parseCell decides that a cell continues a vertical merge by comparing w:vMerge's val with the empty string it also compares it with \"continue\": the attribute has two values, restart and continue, and continue is what an absent attribute means, so both spellings name the same cell kind (ISO/IEC 29500-1 17.4.85)", 1, 0)
	fn := c.P.Func("docx.(*TableParser).parseCell")
	if fn == nil {
		c.Undec(R, "docx.(*TableParser).parseCell", token.NoPos, "anchor not found")
		return
	}
	consts := map[string]bool{}
	n := 0
	for _, h := range eng.Cluster(fn, 1) {
		if h.Pkg != fn.Pkg {
			continue
		}
		eng.Instrs(h, true, func(in ssa.Instruction) {
			b, ok := in.(*ssa.BinOp)
			if !ok || (b.Op != token.EQL && b.Op != token.NEQ) {
				return
			}
			for _, pair := range [][2]ssa.Value{{b.X, b.Y}, {b.Y, b.X}} {
				s, isC := eng.ConstString(pair[1])
				if !isC {
					continue
				}
				for w := range eng.Slice(pair[0], nil) {
					var st *types.Struct
					var nm string
					fi := -1
					switch x := w.(type) {
					case *ssa.FieldAddr:
						if pt, ok := x.X.Type().Underlying().(*types.Pointer); ok {
							st, _ = pt.Elem().Underlying().(*types.Struct)
							nm = eng.TypeName(pt.Elem())
							fi = x.Field
						}
					case *ssa.Field:
						st, _ = x.X.Type().Underlying().(*types.Struct)
						nm = eng.TypeName(x.X.Type())
						fi = x.Field
					}
					if st != nil && strings.HasSuffix(nm, "vMergeXML") && st.Field(fi).Name() == "Val" {
						consts[s] = true
						n++
					}
				}
			}
		})
	}
	if n == 0 {
		c.Ok(R, eng.FuncName(fn)+"#vMerge", fn.Pos(), "not evaluated: w:vMerge's val is not compared with constants here")
		return
	}
	okS := !consts[""] || consts["continue"]
	c.Check(okS, R, eng.FuncName(fn)+"#vMerge", fn.Pos(), "both spellings of continue are recognised", "w:vMerge's val is compared with \"\" but not with \"continue\": a continuation cell written with the explicit value is taken for a cell of its own and ends the merge above it")
}

// ---------------------------------------------------------------------------------------------------------------
// R17.14 a cell value written into a delimited line cannot break the line or add a field.

// mentionsLineBreak: the function (with its same-package helpers, depth 1) handles the constant "\n" (or '\n').
func mentionsLineBreak(fn *ssa.Function) bool {
	found := false
	for _, h := range eng.Cluster(fn, 1) {
		if h.Pkg != fn.Pkg {
			continue
		}
		eng.Instrs(h, true, func(in ssa.Instruction) {
			for _, op := range in.Operands(nil) {
				if op == nil || *op == nil {
					continue
				}
				if s, ok := eng.ConstString(*op); ok && strings.Contains(s, "\n") {
					found = true
				}
				if k, ok := eng.ConstInt(*op); ok && k == '\n' {
					found = true
				}
			}
		})
	}
	return found
}

// R17.14 [C17]
func ruleDelimitedFieldSanitised(c *eng.Ctx) {
	const R = "R17.14-DELIMITED-FIELD-SANITISED"
	c.Rule(R, "in xlsx.(*Reader).TextWithOptions a cell's Value reaches the delimited output only through a function that deals with line breaks (a replacer, strings.Map, or a helper of the package that handles \"\\n\"): the output is one line per row and one field per column, a cell edited with Alt+Enter contains a line feed, and written as it is that value starts a new line and moves every later row down by one", 1, 0)
	fn := c.P.Func("xlsx.(*Reader).TextWithOptions")
	if fn == nil {
		c.Undec(R, "xlsx.(*Reader).TextWithOptions", token.NoPos, "anchor not found")
		return
	}
	n := 0
	for _, h := range eng.Cluster(fn, 1) {
		if h.Pkg != fn.Pkg {
			continue
		}
		eng.Instrs(h, true, func(in ssa.Instruction) {
			ci, ok := in.(ssa.CallInstruction)
			if !ok {
				return
			}
			name := eng.CalleeName(ci)
			if !strings.HasSuffix(name, ").WriteString") && !strings.HasSuffix(name, ").Write") && name != "fmt.Fprintf" && name != "fmt.Fprint" {
				return
			}
			args := eng.ArgsWithRecv(ci)
			for _, a := range args[1:] {
				fromValue, sanitised := false, false
				for w := range eng.Slice(a, func(*ssa.Call) bool { return true }) {
					var st *types.Struct
					fi := -1
					var nm string
					switch x := w.(type) {
					case *ssa.FieldAddr:
						if pt, ok := x.X.Type().Underlying().(*types.Pointer); ok {
							st, _ = pt.Elem().Underlying().(*types.Struct)
							nm = eng.TypeName(pt.Elem())
							fi = x.Field
						}
					case *ssa.Field:
						st, _ = x.X.Type().Underlying().(*types.Struct)
						nm = eng.TypeName(x.X.Type())
						fi = x.Field
					case *ssa.Call:
						switch cn := eng.CalleeName(x); cn {
						case "strings.ReplaceAll", "strings.Replace", "strings.Map", "(*strings.Replacer).Replace", "strings.(*Replacer).Replace", "strings.Fields", "strings.Join":
							sanitised = true
						default:
							if cal := eng.StaticCallee(x); cal != nil && eng.InModule(cal) && mentionsLineBreak(cal) {
								sanitised = true
							}
						}
					}
					if st != nil && strings.HasSuffix(nm, "xlsx.Cell") && st.Field(fi).Name() == "Value" {
						fromValue = true
					}
				}
				if !fromValue {
					continue
				}
				n++
				c.Check(sanitised, R, fmt.Sprintf("%s#value@%s", eng.FuncName(in.Parent()), c.P.Pos(ci.Pos())), ci.Pos(), "the value passes a function that handles line breaks", "the cell value is written into the delimited output as it is: a line feed inside a cell starts a new output line, a delimiter inside it adds a field, and every later cell is no longer at line r, field c")
			}
		})
	}
	if n == 0 {
		c.Ok(R, eng.FuncName(fn)+"#value", fn.Pos(), "not evaluated: no write of Cell.Value found in the function or its helpers")
	}
}

// ---------------------------------------------------------------------------------------------------------------
// R17.15 every cell value that goes out is written under the merge test.

// R17.15 [C17]
func ruleEveryValueUnderMergeTest(c *eng.Ctx) {
	const R = "R17.15-EVERY-VALUE-UNDER-MERGE-TEST"
	c.Rule(R, "in the Markdown, text and document-model writers of the xlsx reader every read of Cell.Value that is handed on (to a writer, an escaper or a model cell) stands under a test that lets only unmerged cells and merge roots through, the header row included: a covered cell of a merged region can hold a stale value in the file, and the value of a region belongs at its top-left cell only", 3, 0)
	n := 0
	for _, name := range []string{"xlsx.(*Reader).MarkdownWithOptions", "xlsx.(*Reader).TextWithOptions", "xlsx.(*Reader).Document"} {
		root := c.P.Func(name)
		if root == nil {
			c.Undec(R, name, token.NoPos, "anchor not found")
			continue
		}
		for _, fn := range eng.Cluster(root, 2) {
			if fn.Pkg != root.Pkg {
				continue
			}
			facts := eng.MustCross(fn, func(e eng.Edge) bool {
				return eng.AnyEdgeFact(e, func(f eng.Fact) bool {
					fr, ok := eng.LoadOfField(f.Cond)
					if !ok {
						if fl, isF := f.Cond.(*ssa.Field); isF {
							fr, ok = eng.AsField(fl)
						}
					}
					if !ok {
						return false
					}
					return (fr.Field == "IsMerged" && !f.Pos) || (fr.Field == "IsMergeRoot" && f.Pos)
				})
			}, nil)
			eng.Instrs(fn, false, func(in ssa.Instruction) {
				var fr eng.FieldRef
				ok := false
				var val ssa.Value
				switch x := in.(type) {
				case *ssa.UnOp:
					if x.Op == token.MUL {
						fr, ok = eng.AsField(x.X)
						val = x
					}
				case *ssa.Field:
					fr, ok = eng.AsField(x)
					val = x
				}
				if !ok || fr.Field != "Value" || !strings.HasSuffix(fr.Struct, "xlsx.Cell") {
					return
				}
				// handed on: an argument of a call, or stored into a Text field
				handed := false
				if refs := val.Referrers(); refs != nil {
					for _, r := range *refs {
						switch y := r.(type) {
						case ssa.CallInstruction:
							handed = true
						case *ssa.Store:
							if y.Val == val {
								if f2, ok := eng.AsField(y.Addr); ok && (f2.Field == "Text" || f2.Field == "Value") {
									handed = true
								}
							}
						case *ssa.Phi:
							handed = true
						}
					}
				}
				if !handed {
					return
				}
				n++
				c.Check(facts[in.Block()], R, fmt.Sprintf("%s#Value@%s", eng.FuncName(fn), c.P.Pos(in.Pos())), in.Pos(), "read under the merge test", "a cell value is passed on without a test of IsMerged/IsMergeRoot: the covered cells of a merged region show whatever the file stores for them instead of being blank")
			})
		}
	}
	if n == 0 {
		c.Undec(R, "xlsx#values", token.NoPos, "no read of Cell.Value that is handed on was found in the writers")
	}
}

// ---------------------------------------------------------------------------------------------------------------
// R18.17 the PPTX reader does not require slide parts to have the conventional file name.

// R18.17 [C18]
func ruleSlidePartsByDeclaration(c *eng.Ctx) {
	const R = "R18.17-SLIDE-PARTS-BY-DECLARATION"
	c.Rule(R, "pptx.(*Reader).validate refuses a package for having no member named like ppt/slides/slide*.xml only when the package also lacks the presentation's relationships part (ppt/_rels/presentation.xml.rels), through which parseSlides resolves the declared slide list to parts of any name: which parts are slides is declared, not spelled in their file names", 1, 0)
	fn := c.P.Func("pptx.(*Reader).validate")
	if fn == nil {
		c.Undec(R, "pptx.(*Reader).validate", token.NoPos, "anchor not found")
		return
	}
	byName, relsSeen := false, false
	for _, h := range eng.Cluster(fn, 1) {
		if h.Pkg != fn.Pkg {
			continue
		}
		eng.Instrs(h, true, func(in ssa.Instruction) {
			if ci, ok := in.(ssa.CallInstruction); ok {
				n := eng.CalleeName(ci)
				if n == "strings.HasPrefix" || n == "strings.Contains" || n == "path.Match" || n == "path/filepath.Match" {
					for _, a := range ci.Common().Args {
						if s, ok := eng.ConstString(a); ok && strings.Contains(s, "slides/slide") {
							byName = true
						}
					}
				}
			}
			for _, op := range in.Operands(nil) {
				if op == nil || *op == nil {
					continue
				}
				if s, ok := eng.ConstString(*op); ok && strings.HasSuffix(s, "presentation.xml.rels") {
					relsSeen = true
				}
			}
		})
	}
	if !byName {
		c.Ok(R, eng.FuncName(fn)+"#slides", fn.Pos(), "validate does not look for slide parts by file name")
		return
	}
	c.Check(relsSeen, R, eng.FuncName(fn)+"#slides", fn.Pos(), "the file-name test is only a fallback next to the relationships part", "validate looks for members named ppt/slides/slide* and never for the presentation's relationships part: a presentation whose declared slide parts have other names is refused although parseSlides could read it")
}

// ---------------------------------------------------------------------------------------------------------------
// R18.18 every resolved EPUB href is a cleaned archive path.

// R18.18 [C18]
func ruleResolvedHrefCleaned(c *eng.Ctx) {
	const R = "R18.18-RESOLVED-HREF-CLEANED"
	c.Rule(R, "the archive member name with which epubdoc.(*Reader).loadChapters reads a spine item has been through path.Join or path.Clean on every way it can be computed (in the function, its helpers, or a closure it calls), also when the package file lies at the root of the archive: ZIP member names have no ./ or x/../ segments, so an href such as ./chapter1.xhtml used as it is matches no member and the chapter is silently left out of the spine", 1, 0)
	fn := c.P.Func("epubdoc.(*Reader).loadChapters")
	if fn == nil {
		c.Undec(R, "epubdoc.(*Reader).loadChapters", token.NoPos, "anchor not found")
		return
	}
	isClean := func(call *ssa.Call) bool {
		switch eng.CalleeName(call) {
		case "path.Join", "path.Clean", "path/filepath.Clean", "path/filepath.Join":
			return true
		}
		return false
	}
	// cleaned(v): every value v can be comes out of a cleaning call
	var cleaned func(v ssa.Value, depth int, seen map[ssa.Value]bool) bool
	cleaned = func(v ssa.Value, depth int, seen map[ssa.Value]bool) bool {
		if seen[v] {
			return true
		}
		seen[v] = true
		if depth > 8 {
			return false
		}
		switch x := v.(type) {
		case *ssa.Phi:
			for _, e := range x.Edges {
				if !cleaned(e, depth+1, seen) {
					return false
				}
			}
			return true
		case *ssa.Extract:
			return cleaned(x.Tuple, depth+1, seen)
		case *ssa.ChangeType:
			return cleaned(x.X, depth+1, seen)
		case *ssa.UnOp:
			if a, ok := x.X.(*ssa.Alloc); ok && x.Op == token.MUL {
				n := 0
				for _, r := range *a.Referrers() {
					if st, ok := r.(*ssa.Store); ok && st.Addr == ssa.Value(a) {
						n++
						if !cleaned(st.Val, depth+1, seen) {
							return false
						}
					}
				}
				return n > 0
			}
			// a field of a record filled earlier (chapter.Href): every store to that field in the package
			if fr, ok := eng.LoadOfField(x); ok {
				n := 0
				all := true
				for _, g := range c.P.ModuleFuncs() {
					if g.Pkg != fn.Pkg {
						continue
					}
					eng.Instrs(g, true, func(in ssa.Instruction) {
						st, ok := in.(*ssa.Store)
						if !ok {
							return
						}
						if f2, ok := eng.AsField(st.Addr); ok && f2.Field == fr.Field && f2.Struct == fr.Struct {
							n++
							if !cleaned(st.Val, depth+1, seen) {
								all = false
							}
						}
					})
				}
				return n > 0 && all
			}
			return false
		case *ssa.Call:
			if isClean(x) {
				return true
			}
			cals := c.P.Callees(x)
			if len(cals) == 0 {
				return false
			}
			for _, cal := range cals {
				if cal.Blocks == nil || !eng.InModule(cal) {
					return false
				}
				rets := eng.Returns(cal)
				if len(rets) == 0 {
					return false
				}
				for _, r := range rets {
					if len(r.Results) == 0 || !cleaned(r.Results[0], depth+1, seen) {
						return false
					}
				}
			}
			return true
		}
		return false
	}
	n := 0
	for _, h := range eng.Cluster(fn, 1) {
		if h.Pkg != fn.Pkg {
			continue
		}
		for _, ci := range eng.Calls(h, true, func(name string, _ ssa.CallInstruction) bool { return strings.HasSuffix(name, ").readFile") }) {
			if ci.Parent() != fn && ci.Parent().Parent() != fn {
				continue
			}
			args := eng.ArgsWithRecv(ci)
			if len(args) < 3 {
				continue
			}
			n++
			c.Check(cleaned(args[2], 0, map[ssa.Value]bool{}), R, fmt.Sprintf("%s#member@%s", eng.FuncName(ci.Parent()), c.P.Pos(ci.Pos())), ci.Pos(), "the member name is a cleaned path", "the member name of a spine item can reach the archive lookup without path.Join/path.Clean: ./ and ../ segments stay in the name, the member is not found and the chapter is dropped")
		}
	}
	if n == 0 {
		c.Ok(R, eng.FuncName(fn)+"#member", fn.Pos(), "not evaluated: loadChapters does not read members through readFile")
	}
}

// ---------------------------------------------------------------------------------------------------------------
// R15.14 the row written as the header line is not written again as a data row.

// R15.14 [C15, C19]
func ruleHeaderRowNotRepeated(c *eng.Ctx) {
	const R = "R15.14-HEADER-ROW-NOT-REPEATED"
	c.Rule(R, "in the ToMarkdown renderers that write Rows[0] as the header line in front of the delimiter row, every loop over Rows after the delimiter starts at an index proven >= 1: a table without header cells is still written with its first row as the header line (a pipe table needs one), and a data loop that then starts at 0 prints that row twice", 2, 0)
	boundedProg = c.P
	n := 0
	for _, root := range c.P.ModuleFuncs() {
		if root.Name() != "ToMarkdown" || root.Signature.Recv() == nil || root.Pkg == nil || root.Blocks == nil {
			continue
		}
		isRows := func(v ssa.Value) bool {
			fr, ok := eng.LoadOfField(v)
			return ok && fr.Field == "Rows"
		}
		// Rows[0] read (for the header line)
		var first ssa.Instruction
		eng.Instrs(root, false, func(in ssa.Instruction) {
			if ia, ok := in.(*ssa.IndexAddr); ok && isRows(ia.X) {
				if k, isC := eng.ConstInt(ia.Index); isC && k == 0 && first == nil {
					first = in
				}
			}
		})
		if first == nil {
			continue
		}
		// the delimiter
		var sep ssa.Instruction
		eng.Instrs(root, false, func(in ssa.Instruction) {
			if sep != nil {
				return
			}
			for _, op := range in.Operands(nil) {
				if op == nil || *op == nil {
					continue
				}
				if s, ok := eng.ConstString(*op); ok && strings.Contains(s, "---") {
					sep = in
				}
			}
		})
		if sep == nil {
			continue
		}
		// loops over Rows after the delimiter
		eng.Instrs(root, false, func(in ssa.Instruction) {
			ia, ok := in.(*ssa.IndexAddr)
			if !ok || !isRows(ia.X) {
				return
			}
			ph, isInd := eng.Induction(ia.Index)
			if !isInd {
				return
			}
			// after the delimiter: reachable from it, and the delimiter is not reachable from the loop
			if fw := eng.ReachableBlocks(sep.Block().Succs, nil); !fw[ph.Block()] {
				return
			}
			if bw := eng.ReachableBlocks(ph.Block().Succs, nil); bw[sep.Block()] {
				return
			}
			n++
			okStart := true
			for i, e := range ph.Edges {
				if b, ok := e.(*ssa.BinOp); ok && b.X == ssa.Value(ph) {
					continue
				}
				start := e
				if ia.Index != ssa.Value(ph) {
					// rotated range form: the index used is phi+1
					if k, isC := eng.ConstInt(e); isC {
						if k+1 < 1 {
							okStart = false
						}
						continue
					}
				}
				if !bounded(root, start, 1, false, ph.Block().Preds[i], 0) {
					okStart = false
				}
			}
			c.Check(okStart, R, fmt.Sprintf("%s#data-loop@%s", eng.FuncName(root), c.P.Pos(ph.Pos())), ia.Pos(), "the data rows start after the header row", "Rows[0] is written as the header line and the loop over the data rows can start at 0: the first row of a table without header cells is printed twice")
		})
	}
	if n == 0 {
		c.Undec(R, "module#ToMarkdown", token.NoPos, "no table renderer with a header line and a data loop found")
	}
}

// ---------------------------------------------------------------------------------------------------------------
// R7.11 the line structure of a CMap program carries no meaning.

// R7.11 [C07]
func ruleCMapNotLineBased(c *eng.Ctx) {
	const R = "R7.11-CMAP-NOT-LINE-BASED"
	c.Rule(R, "the ToUnicode CMap parser never cuts a part of the CMap program into lines to read the lines one by one (strings.Split with \"\\n\", strings.Lines, bufio.Scanner on text that comes from the stream); what it may split is the output of a function of the package that has laid the entries out itself. A CMap is a PostScript token stream: CR or no line breaks at all, an array that starts on the line after its codes, or two entries on one line are the same program", 1, 1)
	n := 0
	laidOut := map[*ssa.Function]bool{}
	for _, fn := range c.P.ModuleFuncs() {
		if fn.Pkg == nil || fn.Blocks == nil {
			continue
		}
		sp := eng.ShortPath(fn.Pkg.Pkg.Path())
		inCMap := sp == "font" && strings.Contains(strings.ToLower(c.P.Pos(fn.Pos())), "cmap")
		if !inCMap && !strings.Contains(sp, eng.PositivePkg) {
			continue
		}
		if strings.Contains(sp, eng.PositivePkg) && !strings.Contains(fn.Name(), "CMap") {
			continue
		}
		for _, ci := range eng.Calls(fn, true, func(name string, _ ssa.CallInstruction) bool {
			return name == "strings.Split" || name == "strings.SplitN" || name == "strings.Lines" || name == "bufio.NewScanner" || name == "strings.SplitAfter"
		}) {
			args := ci.Common().Args
			if len(args) >= 2 {
				if sep, ok := eng.ConstString(args[1]); ok && !strings.ContainsAny(sep, "\r\n") {
					continue // not a split into lines
				}
			}
			n++
			// laid out by the package itself: the split text is the result of a module function
			own := false
			if call, ok := args[0].(*ssa.Call); ok {
				if cal := eng.StaticCallee(call); cal != nil && eng.InModule(cal) {
					own = true
				}
			}
			c.Check(own, R, fmt.Sprintf("%s#lines@%s", eng.FuncName(ci.Parent()), c.P.Pos(ci.Pos())), ci.Pos(), "the text that is split was laid out by the package", "a part of the CMap program is cut into lines and read line by line: the same mappings written without line breaks, with CR, or wrapped differently are read differently or not at all")
			if own {
				// the layouter decides where lines end: a piece of the program it copies as it is (a hex string may be
				// wrapped over lines, white space inside <...> is not significant) would end the line in the middle of an entry
				lay := eng.StaticCallee(args[0].(*ssa.Call))
				if lay.Blocks != nil && !laidOut[lay] {
					laidOut[lay] = true
					for _, w := range eng.Calls(lay, true, func(name string, _ ssa.CallInstruction) bool {
						return name == "strings.(*Builder).WriteString" || name == "bytes.(*Buffer).WriteString" || name == "bytes.(*Buffer).Write" || name == "builtin:append"
					}) {
						wargs := w.Common().Args
						arg := wargs[len(wargs)-1]
						raw, cleaned := false, false
						for v := range eng.Slice(arg, func(*ssa.Call) bool { return true }) {
							switch x := v.(type) {
							case *ssa.Slice:
								if _, isParam := x.X.(*ssa.Parameter); isParam {
									raw = true
								}
							case *ssa.Call:
								if cal := eng.StaticCallee(x); cal != nil {
									switch eng.FuncName(cal) {
									case "strings.Fields", "strings.ReplaceAll", "strings.Map", "strings.Replace", "strings.(*Replacer).Replace", "strings.FieldsFunc", "bytes.Fields":
										cleaned = true
									}
									if eng.InModule(cal) && mentionsLineBreak(cal) {
										cleaned = true
									}
								}
							}
						}
						if !raw {
							continue
						}
						c.Check(cleaned, R, fmt.Sprintf("%s#verbatim@%s", eng.FuncName(lay), c.P.Pos(w.Pos())), w.Pos(), "the piece of the program copied into the laid-out text has its white space removed first", "a piece of the CMap program is copied into the laid-out text as it is: a hex string wrapped over two lines (white space inside <...> is not significant) ends the line in the middle of an entry, and the entry is read wrongly or dropped")
					}
				}
			}
		}
	}
	if n == 0 {
		c.Ok(R, "font#cmap-lines", token.NoPos, "the CMap parser does not split its input into lines")
	}
}

// ---------------------------------------------------------------------------------------------------------------
// R7.12 every font subtype that can carry a ToUnicode CMap is registered.

// R7.12 [C07]
func ruleEveryFontSubtypeRegistered(c *eng.Ctx) {
	const R = "R7.12-EVERY-FONT-SUBTYPE-REGISTERED"
	c.Rule(R, "the subtype dispatch of text.(*Extractor).RegisterFontsFromResources (and its helpers) names all five font subtypes of ISO 32000-1 table 110 that show text: Type1, MMType1, Type3, TrueType and Type0. A font whose subtype has no branch is never registered, and its strings are decoded by the fallback font as raw bytes although its ToUnicode CMap and /Encoding say what they mean", 1, 0)
	fnR := c.P.Func("text.(*Extractor).RegisterFontsFromResources")
	if fnR == nil {
		c.Undec(R, "text.(*Extractor).RegisterFontsFromResources", token.NoPos, "anchor not found")
		return
	}
	labels := map[string]bool{}
	for _, h := range eng.Cluster(fnR, 2) {
		eng.Instrs(h, true, func(in ssa.Instruction) {
			if b, ok := in.(*ssa.BinOp); ok && b.Op == token.EQL {
				for _, v := range []ssa.Value{b.X, b.Y} {
					if cs, ok := eng.ConstString(v); ok {
						labels[cs] = true
					}
				}
			}
			// a table of constructors keyed by subtype
			if mu, ok := in.(*ssa.MapUpdate); ok {
				if cs, ok := eng.ConstString(mu.Key); ok {
					labels[cs] = true
				}
			}
		})
	}
	// package-level tables keyed by subtype that the cluster looks up
	for _, h := range eng.Cluster(fnR, 2) {
		eng.Instrs(h, true, func(in ssa.Instruction) {
			if lk, ok := in.(*ssa.Lookup); ok {
				if u, ok := lk.X.(*ssa.UnOp); ok {
					if g, ok := u.X.(*ssa.Global); ok {
						if strs, _, ok := eng.GlobalMapEntries(g); ok {
							for k := range strs {
								labels[k] = true
							}
						}
					}
				}
			}
		})
	}
	var missing []string
	for _, w := range []string{"Type1", "MMType1", "Type3", "TrueType", "Type0"} {
		if !labels[w] {
			missing = append(missing, w)
		}
	}
	c.Check(len(missing) == 0, R, "text.(*Extractor).RegisterFontsFromResources#subtypes", fnR.Pos(), "all five text-showing font subtypes have a branch", "font subtype(s) "+strings.Join(missing, ", ")+" have no branch: such fonts are never registered and their text comes out as raw character codes, ToUnicode or not")
}

// ---------------------------------------------------------------------------------------------------------------
// R13.10 the token ratio is never used raw.

// R13.10 [C13, C02]
func ruleTokenRatioDefaulted(c *eng.Ctx) {
	const R = "R13.10-TOKEN-RATIO-DEFAULTED"
	_ = R
	c.Rule(R, "wherever package rag divides or multiplies by SizeConfig.TokensPerChar the operand is the defaulted ratio (the field's value only where it was found greater than zero, the documented 0.25 otherwise), as EstimateTokens does: the field is zero in every configuration written as a struct literal without it, a division by zero gives +Inf, its conversion to int the most negative integer, and the split position computed from it indexes the text at -2^63", 1, 1)
	n := 0
	for _, fn := range c.P.ModuleFuncs() {
		if fn.Pkg == nil || fn.Blocks == nil {
			continue
		}
		sp := eng.ShortPath(fn.Pkg.Pkg.Path())
		if sp != "rag" && !strings.Contains(sp, eng.PositivePkg) {
			continue
		}
		eng.Instrs(fn, true, func(in ssa.Instruction) {
			b, ok := in.(*ssa.BinOp)
			if !ok || (b.Op != token.QUO && b.Op != token.MUL) {
				return
			}
			posFact := func(f eng.Fact) bool {
				op, x, y, ok := f.Cmp()
				if !ok {
					return false
				}
				if fx, okx := eng.LoadOfField(x); okx && fx.Field == "TokensPerChar" {
					if k, isC := y.(*ssa.Const); isC && k.Value != nil && op == token.GTR {
						return true
					}
				}
				if fy, oky := eng.LoadOfField(y); oky && fy.Field == "TokensPerChar" {
					if k, isC := x.(*ssa.Const); isC && k.Value != nil && op == token.LSS {
						return true
					}
				}
				return false
			}
			isRatio := func(v ssa.Value) bool {
				fr, ok := eng.LoadOfField(v)
				return ok && fr.Field == "TokensPerChar"
			}
			for _, side := range []ssa.Value{b.X, b.Y} {
				if b.Op == token.QUO && side != b.Y {
					continue
				}
				okUse, isUse := true, false
				if isRatio(side) {
					isUse = true
					okUse = eng.GuardedBy(in.Parent(), in.Block(), posFact)
				} else if ph, isPhi := side.(*ssa.Phi); isPhi {
					for i, e := range ph.Edges {
						if !isRatio(e) {
							continue
						}
						isUse = true
						pred := ph.Block().Preds[i]
						g := eng.GuardedBy(in.Parent(), pred, posFact)
						for si, sc := range pred.Succs {
							if sc == ph.Block() && eng.AnyEdgeFact(eng.Edge{From: pred, Succ: si}, posFact) {
								g = true
							}
						}
						if !g {
							okUse = false
						}
					}
				}
				if !isUse {
					continue
				}
				n++
				c.Check(okUse, R, fmt.Sprintf("%s#ratio@%s", eng.FuncName(in.Parent()), c.P.Pos(b.Pos())), b.Pos(), "the ratio is known to be positive here", "TokensPerChar is used as it stands in the configuration: for a configuration that leaves it zero the result is +Inf or 0, and a split position of -2^63 panics when the text is indexed")
			}
		})
	}
	if n == 0 {
		c.Ok(R, "rag#ratio", token.NoPos, "the field is never an operand of a division or multiplication as it stands")
	}
}

// ---------------------------------------------------------------------------------------------------------------
// R13.11 an overlap that has to be cut down keeps its end.

// R13.11 [C13]
func ruleTruncatedOverlapKeepsEnd(c *eng.Ctx) {
	const R = "R13.11-TRUNCATED-OVERLAP-KEEPS-END"
	c.Rule(R, "rag.(*OverlapGenerator).truncateOverlap never hands on a prefix of the overlap it was given: no value derived from its parameter by a slice expression with an upper bound (s[:k], directly or in a helper that returns one) reaches its result, and a loop over the overlap's sentences that can stop early counts down from the last sentence. The overlap is the end of the previous chunk; cut at the front it is still a suffix of that chunk, cut at the back it is a piece from the middle", 2, 0)
	fn := c.P.Func("rag.(*OverlapGenerator).truncateOverlap")
	if fn == nil {
		c.Undec(R, "rag.(*OverlapGenerator).truncateOverlap", token.NoPos, "anchor not found")
		return
	}
	if len(fn.Params) < 2 {
		c.Ok(R, eng.FuncName(fn)+"#prefix", fn.Pos(), "not evaluated: the function has no overlap parameter")
		return
	}
	par := ssa.Value(fn.Params[1])
	// (1) prefix slices of the parameter, in the function or in a helper that is handed the parameter
	var bad []string
	prefixOf := func(h *ssa.Function, v ssa.Value) (token.Pos, bool) {
		pos, found := token.NoPos, false
		eng.Instrs(h, false, func(in ssa.Instruction) {
			sl, ok := in.(*ssa.Slice)
			if !ok || sl.High == nil || sl.X != v {
				return
			}
			if _, isStr := sl.X.Type().Underlying().(*types.Basic); !isStr {
				return
			}
			// s[a:len(s)] is a suffix
			if call, ok := sl.High.(*ssa.Call); ok {
				if bi, ok := call.Call.Value.(*ssa.Builtin); ok && bi.Name() == "len" {
					return
				}
			}
			pos, found = sl.Pos(), true
		})
		return pos, found
	}
	if pos, ok := prefixOf(fn, par); ok {
		bad = append(bad, "the overlap is cut with an upper bound at "+c.P.Pos(pos))
	}
	eng.Instrs(fn, false, func(in ssa.Instruction) {
		call, ok := in.(*ssa.Call)
		if !ok {
			return
		}
		cal := eng.StaticCallee(call)
		if cal == nil || !eng.InModule(cal) || cal.Blocks == nil {
			return
		}
		for i, a := range eng.ArgsWithRecv(call) {
			if a != par || i >= len(cal.Params) {
				continue
			}
			if pos, ok := prefixOf(cal, cal.Params[i]); ok {
				// the helper's prefix must reach its result to matter
				for _, r := range eng.Returns(cal) {
					for _, res := range r.Results {
						for w := range eng.Slice(res, nil) {
							if sl, ok := w.(*ssa.Slice); ok && sl.Pos() == pos {
								bad = append(bad, eng.FuncName(cal)+" returns a prefix of the overlap (cut at "+c.P.Pos(pos)+")")
							}
						}
					}
				}
			}
		}
	})
	c.Check(len(bad) == 0, R, eng.FuncName(fn)+"#prefix", fn.Pos(), "no prefix of the overlap is handed on", strings.Join(dedupStr(bad), "; ")+": what is prepended to the next chunk is then text from the middle of the previous chunk")
	// (2) loops over the sentences that can stop early count down
	n := 0
	for _, b := range fn.Blocks {
		for _, in := range b.Instrs {
			ph, ok := in.(*ssa.Phi)
			if !ok {
				break
			}
			// an index of the sentence list
			indexes := false
			for _, r := range *ph.Referrers() {
				if ia, ok := r.(*ssa.IndexAddr); ok && ia.Index == ssa.Value(ph) {
					indexes = true
				}
				if bo, ok := r.(*ssa.BinOp); ok && bo.Op == token.ADD && bo.X == ssa.Value(ph) {
					for _, rr := range *bo.Referrers() {
						if ia, ok := rr.(*ssa.IndexAddr); ok && ia.Index == ssa.Value(bo) {
							indexes = true
						}
					}
				}
			}
			if !indexes {
				continue
			}
			step := int64(0)
			for _, e := range ph.Edges {
				if bo, ok := e.(*ssa.BinOp); ok && bo.X == ssa.Value(ph) {
					if k, isC := eng.ConstInt(bo.Y); isC {
						if bo.Op == token.ADD {
							step = k
						} else if bo.Op == token.SUB {
							step = -k
						}
					}
				}
			}
			if step == 0 {
				continue
			}
			body := loopBody(b)
			early := false
			for x := range body {
				if x == b {
					continue
				}
				for _, y := range x.Succs {
					if !body[y] {
						early = true
					}
				}
			}
			if !early {
				continue
			}
			n++
			c.Check(step < 0, R, fmt.Sprintf("%s#loop@%s", eng.FuncName(fn), c.P.Pos(ph.Pos())), ph.Pos(), "the loop that stops when the limit is reached starts at the last sentence", "the sentences are taken from the first one on until the limit is reached: the ones next to the chunk boundary are dropped and the kept text is not the end of the previous chunk")
		}
	}
	if n == 0 {
		c.Ok(R, eng.FuncName(fn)+"#loop", fn.Pos(), "not evaluated: no early-exit loop over an indexed list in the function")
	}
}
